----------------------------- MODULE Adjacency -----------------------------
(* Permutations, colourings and Cuthill-McKee orderings                     *)
(* (kernel/adjacency/permutation.hpp, coloring.hpp, cuthill_mckee.hpp).     *)
(* All arrays hold 0-based values as the classes store them.                *)
(*                                                                          *)
(* Permutation object  P = [perm, swap]:                                    *)
(*    perm  permute-position array: applying P to x gives y[i] = x[perm[i]] *)
(*    swap  swap-position array: the same bijection as a sequence of        *)
(*          in-situ transpositions  x[i] <-> x[swap[i]], i = 0..n-2,        *)
(*          swap[i] in i..n-1 (and swap[n-1] = n-1)                         *)
(* The two arrays must describe the same bijection (PermObjValid).          *)
EXTENDS Rel

\* ---- permutation algebra on 0-based arrays -----------------------------------------------------
IsPerm0(p) == LET n == Len(p) IN /\ \A i \in 1..n : p[i] \in 0..(n - 1)
                                 /\ \A i, j \in 1..n : i # j => p[i] # p[j]
Perms0(n) == {p \in [1..n -> 0..(n - 1)] : \A i, j \in 1..n : i # j => p[i] # p[j]}
Id0(n) == [i \in 1..n |-> i - 1]
\* y[i] = x[p[i]]   /  inverse: y[p[i]] = x[i]
ApplyP(p, x) == [i \in 1..Len(p) |-> x[p[i] + 1]]
Inv0(p) == [i \in 1..Len(p) |-> (CHOOSE j \in 1..Len(p) : p[j] = i - 1) - 1]
ApplyPInv(p, x) == ApplyP(Inv0(p), x)
\* concatenation as documented for Permutation::concat:  P3 x = P1 (P2 x)
Concat0(p1, p2) == [i \in 1..Len(p1) |-> p2[p1[i] + 1]]

\* swap arrays
SwapArrays(n) == {s \in [1..n -> 0..(n - 1)] : \A i \in 1..n : s[i] >= i - 1 /\ (i = n => s[i] = n - 1)}
SwapStep(x, a, b) == [k \in 1..Len(x) |-> IF k = a THEN x[b] ELSE IF k = b THEN x[a] ELSE x[k]]
\* apply the transpositions i <-> s[i] for i = 0..n-2 in this order (in-situ forward application)
ApplySwaps(s, x) ==
  LET st[i \in 0..Len(s)] == IF i = 0 THEN x ELSE IF i = Len(s) THEN st[i-1] ELSE SwapStep(st[i-1], i, s[i] + 1)
  IN  st[Len(s)]
\* ... and in the reverse order (in-situ inverse application)
ApplySwapsRev(s, x) ==
  LET n == Len(s)
      st[i \in 0..n] == IF i = 0 THEN x ELSE IF i = 1 THEN st[0] ELSE SwapStep(st[i-1], n - i + 1, s[n - i + 1] + 1)
  IN  st[n]
PermOfSwap(s) == ApplySwaps(s, Id0(Len(s)))
\* the swap array of a permutation p: step i must bring the entry p[i] to position i, later steps only touch
\* positions behind i.  (Constructive; that the result is THE valid swap array of p - it is unique - is the
\* declarative condition PermObjValid below, which TLC checks for every object the specification builds.)
RECURSIVE SwapAcc(_, _, _, _)
SwapAcc(p, i, a, s) ==
  IF i > Len(p) THEN s
  ELSE LET pos == CHOOSE k \in 1..Len(p) : a[k] = p[i]
       IN  SwapAcc(p, i + 1, SwapStep(a, i, pos), Append(s, pos - 1))
SwapOfPerm(p) == SwapAcc(p, 1, Id0(Len(p)), <<>>)

PermObj(p) == [perm |-> p, swap |-> SwapOfPerm(p)]
EmptyPermObj == [perm |-> <<>>, swap |-> <<>>]
PermObjValid(P) ==
  /\ Len(P.perm) = Len(P.swap) /\ IsPerm0(P.perm)
  /\ (Len(P.perm) > 0 => P.swap \in SwapArrays(Len(P.swap)) /\ PermOfSwap(P.swap) = P.perm)

\* constructors (ConstrType) -----------------------------------------------------------------------
CtorKinds == {"perm", "inv_perm", "swap", "inv_swap", "identity"}
\* the argument array v that makes constructor `kind` build the permutation p
CtorArg(kind, p) ==
  CASE kind = "perm"     -> p
    [] kind = "inv_perm" -> Inv0(p)
    [] kind = "swap"     -> SwapOfPerm(p)
    [] kind = "inv_swap" -> SwapOfPerm(Inv0(p))
    [] kind = "identity" -> <<>>
\* the permutation a constructor call builds from its argument array
CtorResult(kind, n, v) ==
  CASE kind = "perm"     -> v
    [] kind = "inv_perm" -> Inv0(v)
    [] kind = "swap"     -> PermOfSwap(v)
    [] kind = "inv_swap" -> Inv0(PermOfSwap(v))
    [] kind = "identity" -> Id0(n)

\* ---- permuting graphs, vectors, matrices -------------------------------------------------------
\* Graph(other, domain_perm, image_perm): new domain node i carries the adjacencies of old node dp[i];
\* every image node k is renamed ip[k]
PermuteGraph(g, dp, ip) ==
  GraphOf(g.nd, g.ni, [i \in 1..g.nd |-> LET row == AdjOf(g)[dp[i] + 1] IN [k \in 1..Len(row) |-> ip[row[k] + 1]]])
\* Graph::permute_indices(inv_perm): rename every image node k to q[k]
RenameImages(g, q) == [g EXCEPT !.idx = [k \in 1..Len(g.idx) |-> q[g.idx[k] + 1]]]
\* vector / matrix:  v'[i] = v[p[i]],  A'[i][j] = A[pr[i]][pc[j]]
PermuteVec(v, p) == ApplyP(p, v)
PermuteMat(m, n, A, pr, pc) == [i \in 1..m |-> [j \in 1..n |-> A[pr[i] + 1][pc[j] + 1]]]
\* consistency of the three: the layout graph of the permuted matrix is the permuted layout graph with the
\* INVERSE column permutation as image renaming (old column k moves to the position j with pc[j] = k)
LayoutOf(m, n, A) == GraphOf(m, n, [i \in 1..m |-> Flatten([j \in 1..n |-> IF A[i][j] # 0 THEN <<j - 1>> ELSE <<>>])])

\* ---- undirected graphs (symmetric square adjacency) ------------------------------------------------
IsSymmetric(g) == g.nd = g.ni /\ \A i, j \in 0..(g.nd - 1) : (Mult(g, i, j) > 0) = (Mult(g, j, i) > 0)
Nbrs(g, i) == SeqRange(Row(g, i))
\* breadth-first distance sets from a root inside the node set W (frontier expansion)
RECURSIVE BfsLevels(_, _, _, _)
BfsLevels(g, seen, frontier, acc) ==
  IF frontier = {} THEN acc
  ELSE LET nxt == (UNION {Nbrs(g, i) : i \in frontier}) \ seen
       IN  BfsLevels(g, seen \cup nxt, nxt, Append(acc, frontier))
\* sequence of levels (sets) of the component of root
LevelsFrom(g, root) == BfsLevels(g, {root}, {root}, <<>>)
ComponentOf(g, root) == UNION SeqRange(LevelsFrom(g, root))

\* ---- colouring contract (Coloring(graph) / Coloring(graph, order) + create_partition_graph) -----
\*  col      colour array (colour of node i at col[i+1])
\*  ncol     get_num_colors()
\*  order    processing order (identity for the order-free constructor)
ProperColoring(g, col) == \A i \in 0..(g.nd - 1) : \A j \in Nbrs(g, i) : i # j => col[i + 1] # col[j + 1]
ColorRangeOk(g, col, ncol) ==
  /\ Len(col) = g.nd
  /\ \A i \in 1..g.nd : col[i] \in 0..(ncol - 1)
  /\ \A c \in 0..(ncol - 1) : \E i \in 1..g.nd : col[i] = c          \* num_colors counts colours in use: 0..max
\* the algorithm is documented to proceed through the nodes in the given order: colours are opened in
\* that order (the colours of every prefix are an initial segment 0..m) and a new colour is opened only
\* when every colour opened so far is taken by an already coloured neighbour
GreedyAlong(g, col, order) ==
  \A k \in 1..g.nd :
    LET v == order[k]
        before == {order[l] : l \in 1..(k - 1)}
        opened == {col[u + 1] : u \in before}
        blocked == {col[u + 1] : u \in (Nbrs(g, v) \ {v}) \cap before}
    IN  /\ opened = 0..(Cardinality(opened) - 1)
        /\ col[v + 1] \in opened \/ (col[v + 1] = Cardinality(opened) /\ opened \subseteq blocked)
\* partition graph: domain = colours, image = nodes; colour c lists exactly its nodes, each once
PartitionOk(g, col, ncol, pg) ==
  /\ GraphValid(pg) /\ pg.nd = ncol /\ pg.ni = g.nd
  /\ \A c \in 0..(ncol - 1), i \in 0..(g.nd - 1) : Mult(pg, c, i) = (IF col[i + 1] = c THEN 1 ELSE 0)
\* ordered = the constructor taking a processing order was used (only that one documents the order clause)
ColoringContract(g, ordered, order, col, ncol, pg) ==
  /\ ColorRangeOk(g, col, ncol) /\ ProperColoring(g, col) /\ (ordered => GreedyAlong(g, col, order)) /\ PartitionOk(g, col, ncol, pg)

\* ---- Cuthill-McKee contract ---------------------------------------------------------------------------
\* P = [perm, swap] returned for (graph, reverse, root type, sort type); perm[k] = node at position k-1.
\* The ordering consists of consecutive blocks, one per connected component, in processing order.  Read
\* forwards (or backwards when `reverse`), every block starts with its root and lists the component by
\* non-decreasing distance from that root (BFS-level monotonicity - independent of any tie-breaking);
\* within a level, degrees are non-decreasing (asc) / non-increasing (desc) when a sort is requested;
\* the root of a block is, among all nodes not placed in earlier blocks, the lowest-numbered one
\* (standard) / one of minimum degree / one of maximum degree.
RootTypes == {"standard", "minimum_degree", "maximum_degree"}
SortTypes == {"standard", "asc", "desc"}
RECURSIVE CmkBlocksOk(_, _, _, _, _, _)
CmkBlocksOk(g, perm, start, reverse, rt, stp) ==
  \* blocks from position `start` (1-based) on
  IF start > g.nd THEN TRUE
  ELSE
    LET placed == {perm[k] : k \in 1..(start - 1)}
        rest == (0..(g.nd - 1)) \ placed
        comp == ComponentOf(g, perm[start])
        size == Cardinality(comp)
        stop == start + size - 1
        blk == [k \in 1..size |-> IF reverse THEN perm[stop - k + 1] ELSE perm[start + k - 1]]  \* in BFS reading order
        root == IF stop <= g.nd THEN blk[1] ELSE perm[start]
        lev == LevelsFrom(g, root)
        dist(v) == CHOOSE d \in 1..Len(lev) : v \in lev[d]
    IN  /\ stop <= g.nd
        /\ SeqRange(blk) = comp                                     \* the block is exactly one component
        /\ ComponentOf(g, root) = comp
        /\ \A k \in 1..(size - 1) : dist(blk[k]) <= dist(blk[k + 1])  \* BFS-level monotonicity
        /\ CASE rt = "standard"       -> \A v \in rest : root <= v
             [] rt = "minimum_degree" -> \A v \in rest : Degree(g, root) <= Degree(g, v)
             [] rt = "maximum_degree" -> \A v \in rest : Degree(g, root) >= Degree(g, v)
        /\ \A k \in 1..(size - 1) : dist(blk[k]) = dist(blk[k + 1]) =>
             CASE stp = "asc"  -> Degree(g, blk[k]) <= Degree(g, blk[k + 1])
               [] stp = "desc" -> Degree(g, blk[k]) >= Degree(g, blk[k + 1])
               [] OTHER        -> TRUE
        /\ CmkBlocksOk(g, perm, stop + 1, reverse, rt, stp)
CmkContract(g, P, reverse, rt, stp) ==
  /\ Len(P.perm) = g.nd /\ PermObjValid(P)                          \* a bijection, perm_pos <-> swap_pos consistent
  /\ CmkBlocksOk(g, P.perm, 1, reverse, rt, stp)
=============================================================================
