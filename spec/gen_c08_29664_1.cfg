SPECIFICATION Spec
CONSTANTS NS = {2, 3} Kinds = {"sor"} Pals = {1, 2, 3} MinOff = 0 MaxOff = 99 Filters = 1 Mode = "canon" MaxHist = 0
INVARIANTS SorRelation SsorRelation JacobiRelation IluLaws Linearity LifeOK Emit
CHECK_DEADLOCK FALSE
