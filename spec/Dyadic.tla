------------------------------- MODULE Dyadic -------------------------------
(* Exact arithmetic on dyadic rationals for the numerical specifications.     *)
(* A value is <<m, e>> = m / 2^e with e >= 0, normalised (e = 0 or m odd).     *)
(* Every double operation of the code under test on such values is exact as   *)
(* long as the result is dyadic with a small numerator, so C++ results are    *)
(* compared with == against these values.  A division whose result is not     *)
(* dyadic yields the sentinel Inexact, which propagates through every         *)
(* operation: the case is then outside the exact domain and is not generated. *)
EXTENDS Integers, Sequences, FiniteSets

Inexact == <<0, -1>>
IsExact(a) == a[2] >= 0

RECURSIVE Pow2(_)
Pow2(k) == IF k <= 0 THEN 1 ELSE 2 * Pow2(k - 1)

RECURSIVE Norm(_, _)
Norm(m, e) == IF e > 0 /\ m % 2 = 0 THEN Norm(m \div 2, e - 1) ELSE <<m, e>>

D(m) == <<m, 0>>                  \* integer
H(m, e) == Norm(m, e)             \* m / 2^e
Zero == <<0, 0>>
One == <<1, 0>>

Max2(a, b) == IF a >= b THEN a ELSE b
AbsI(m) == IF m < 0 THEN -m ELSE m

\* (integers - exponent 0 - take a short cut: most values of the specifications are small integers)
Add(a, b) == IF a[2] = 0 /\ b[2] = 0 THEN <<a[1] + b[1], 0>>
             ELSE IF ~IsExact(a) \/ ~IsExact(b) THEN Inexact
             ELSE LET e == Max2(a[2], b[2]) IN Norm(a[1] * Pow2(e - a[2]) + b[1] * Pow2(e - b[2]), e)
Neg(a) == IF ~IsExact(a) THEN Inexact ELSE <<-a[1], a[2]>>
Sub(a, b) == Add(a, Neg(b))
Mul(a, b) == IF a[2] = 0 /\ b[2] = 0 THEN <<a[1] * b[1], 0>>
             ELSE IF ~IsExact(a) \/ ~IsExact(b) THEN Inexact ELSE Norm(a[1] * b[1], a[2] + b[2])

\* odd part and exponent of two of a non-zero integer
RECURSIVE OddPart(_)
OddPart(m) == IF m % 2 = 0 THEN OddPart(m \div 2) ELSE m
RECURSIVE TwoExp(_)
TwoExp(m) == IF m % 2 = 0 THEN 1 + TwoExp(m \div 2) ELSE 0

\* a / b: dyadic iff the odd part of b's numerator divides a's numerator
Div(a, b) ==
  IF ~IsExact(a) \/ ~IsExact(b) \/ b[1] = 0 THEN Inexact
  ELSE LET ob == OddPart(b[1])  tb == TwoExp(b[1])
           sg == IF ob < 0 THEN -1 ELSE 1
           oa == AbsI(ob)
       IN IF (a[1] * sg) % oa # 0 THEN Inexact
          ELSE LET q == (a[1] * sg) \div oa
                   s == b[2] - a[2] - tb      \* result = q * 2^s
               IN IF s >= 0 THEN <<q * Pow2(s), 0>> ELSE Norm(q, -s)

\* b is +-2^k: then 1/b is exact in binary floating point (the code multiplies by stored reciprocals)
IsPow2(b) == IsExact(b) /\ b[1] # 0 /\ AbsI(OddPart(b[1])) = 1

\* ---- vectors (tuples) and matrices (tuples of rows) ---------------------------------------------------
\* Results are built as explicit tuples: a function expression [i \in S |-> e] is evaluated lazily by TLC (the
\* body is re-evaluated at every application), which makes nested substitutions exponential.
Tup(len, F(_)) ==
  CASE len = 0 -> <<>>
    [] len = 1 -> <<F(1)>>
    [] len = 2 -> <<F(1), F(2)>>
    [] len = 3 -> <<F(1), F(2), F(3)>>
    [] len = 4 -> <<F(1), F(2), F(3), F(4)>>
    [] len = 5 -> <<F(1), F(2), F(3), F(4), F(5)>>
    [] len = 6 -> <<F(1), F(2), F(3), F(4), F(5), F(6)>>

RECURSIVE DSumTo(_, _)
DSumTo(F(_), k) == IF k = 0 THEN Zero ELSE Add(DSumTo(F, k - 1), F(k))     \* F(1) + ... + F(k)

VecExact(v) == \A i \in 1..Len(v) : IsExact(v[i])
VAdd(u, v) == Tup(Len(u), LAMBDA i : Add(u[i], v[i]))
VSub(u, v) == Tup(Len(u), LAMBDA i : Sub(u[i], v[i]))
VScale(a, v) == Tup(Len(v), LAMBDA i : Mul(a, v[i]))
VMul(u, v) == Tup(Len(u), LAMBDA i : Mul(u[i], v[i]))
MatVec(n, A, x) == Tup(n, LAMBDA i : DSumTo(LAMBDA j : Mul(A[i][j], x[j]), n))
MatMul(n, A, B) == Tup(n, LAMBDA i : Tup(n, LAMBDA k : DSumTo(LAMBDA j : Mul(A[i][j], B[j][k]), n)))
=============================================================================
