SPECIFICATION Spec
CONSTANTS MFmt = "csr" MaxM = 2 MaxN = 2 SquareOnly = FALSE BH = 1 BW = 1 Comp = "chain" Pal = 1
INVARIANTS RepValid MatConstraint MatComplement MatIdempotent FilteredSolve Emit
CHECK_DEADLOCK FALSE
