------------------------------- MODULE LineElement -------------------------------
(* C15 in ONE dimension (direction G + model checking): finite-element spaces on meshes of intervals.                    *)
(*                                                                                                                      *)
(* TLC enumerates 1-D conforming meshes - a chain of 1..4 intervals of NON-UNIFORM lengths (1, 2, 4 quarter units),      *)
(* every numbering of the vertices and cells that the configuration offers, and every ORIENTATION of every cell (the      *)
(* vertex pair of a cell stored in ascending or in DESCENDING coordinate order: negative Jacobian) - and, for every        *)
(* element family that has an evaluator for the shape (RefElement!Supported1D), it                                        *)
(*   (M) checks on the specification itself, in exact integer arithmetic:                                                 *)
(*         MeshOK, ExactDomain      the enumerated mesh is a valid conforming 1-D mesh inside the exact domain             *)
(*         DualPhys                 N_i(phi_j) = delta_ij on every cell, with the PHYSICAL basis functions / functionals   *)
(*         FunctionalWellDefined    the functional behind a global index is the same seen from every cell containing it    *)
(*         OneIndex                 same global index <=> same functional (entity, position)                               *)
(*         Continuous               every global basis function is continuous in every interior vertex; for the C1         *)
(*                                  families (Hermite-3, Bogner-Fox-Schmit) its first derivative as well                   *)
(*         VolumeSum, UnmapRoundTrip  sum |J| * |ref cell| = length of the chain;  map(unmap(x)) = x                       *)
(*       (DerivConsistent holds by construction: gradients / Hessians are formal derivatives PDiff, chain rule 1/J, 1/J^2)  *)
(*   (G) emits the PREDICTED observations of the real code, all as integers over stated denominators:                       *)
(*         dof count, cell-wise dof mapping G, entity-wise dof assignment A,                                               *)
(*         per cell: signed Jacobian, |J|, 1/J, length; per lattice point: image point, value / gradient / Hessian of     *)
(*         every local basis function, and of the FE function with the coefficient vector coef,                            *)
(*         per monomial x^k of the local space: the value of every node functional (= the interpolation's dof vector)      *)
(*         and x^k, k x^(k-1), k(k-1) x^(k-2) at the lattice points (Reproduce, DerivConsistent on the interpolant),         *)
(*         inverse-mapping probes: image point -> the set of (cell, reference coordinate) that map to it.                   *)
(* harness/c15_line.cpp replays every case into Trafo::Standard, the space's Evaluator / DofMapping / DofAssignment /       *)
(* NodeFunctional (through Assembly::Interpolator) and Trafo::InverseMapping and compares (== wherever the numbers are      *)
(* dyadic, which is everything except the thirds of Lagrange-3's node points and the cubature of Bernstein-2's functional).  *)
EXTENDS DofMap, Json

CONSTANTS Fam, Els, Mode

CS == 2                                   \* coordinates are integers over 2^CS
Origin == -3                              \* left end of the chain (the chain straddles 0: monomials change sign)
Cube == Fam = "hypercube"
RJ == IF Cube THEN 2 ELSE 1               \* J = d / (RJ * 2^CS),  d = X1 - X0 (signed difference of the LOCAL vertices 0, 1)
U == RJ * Pow2(CS)
LS == PointScale(Fam)                     \* lattice: xi = n / LS
Lat == IF Cube THEN << -4, -3, 0, 2, 4 >> ELSE << 0, 1, 4, 6, 8 >>
NS == NodeScale1D
XD == RJ * LS * Pow2(CS)                  \* denominator of the image of a lattice point
PD == RJ * NS * Pow2(CS)                  \* denominator of the image of a node point

AbsI1(x) == IF x < 0 THEN -x ELSE x
Sgn(x) == IF x < 0 THEN -1 ELSE 1

\* ---- the enumerated configurations ------------------------------------------------------------------------------------------
Thorough == Mode = "thorough"
MaxCells == IF Thorough THEN 4 ELSE 3
LenTuples(nc) ==
  IF nc = 1 THEN [1..1 -> {1, 2, 4}]
  ELSE IF Thorough THEN (IF nc <= 3 THEN [1..nc -> {1, 2, 4}] ELSE { << 1, 4, 2, 1 >>, << 2, 1, 1, 4 >> })
  ELSE IF nc = 2 THEN { << 1, 1 >>, << 1, 2 >>, << 4, 1 >>, << 2, 4 >> } ELSE { << 1, 2, 4 >>, << 4, 1, 1 >> }
\* vertex numbering: the vertex at position q of the chain (q = 0..nc, left to right) has the index vp[q+1]
VPerms(nc) ==
  IF nc <= 2 THEN Perms(nc + 1)
  ELSE IF nc = 3 THEN (IF Thorough THEN { << 0, 1, 2, 3 >>, << 3, 2, 1, 0 >>, << 2, 0, 3, 1 >>, << 1, 3, 0, 2 >> }
                       ELSE { << 0, 1, 2, 3 >>, << 3, 2, 1, 0 >>, << 2, 0, 3, 1 >> })
  ELSE { << 0, 1, 2, 3, 4 >>, << 4, 3, 2, 1, 0 >>, << 2, 4, 0, 3, 1 >> }
\* cell numbering: the cell at position p (p = 1..nc) has the index cp[p]
CPerms(nc) == IF nc <= 2 THEN Perms(nc) ELSE IF nc = 3 THEN { << 0, 1, 2 >>, << 2, 0, 1 >> } ELSE { << 1, 3, 0, 2 >> }
\* orientation: o[p] = 0 ascending (local vertex 0 = left end), 1 descending
Orients(nc) == [1..nc -> {0, 1}]
Configs == UNION {{[el |-> e, nc |-> n, len |-> l, vp |-> v, cp |-> c, o |-> oo] :
                     e \in Els, l \in LenTuples(n), v \in VPerms(n), c \in CPerms(n), oo \in Orients(n)} : n \in 1..MaxCells}

VARIABLES cur, tb
vars == << cur, tb >>

\* ---- the mesh ---------------------------------------------------------------------------------------------------------------------
El == cur.el
NC == cur.nc
RECURSIVE PosX(_)
PosX(q) == IF q = 0 THEN Origin ELSE cur.len[q] + PosX(q - 1)
MkXV == [v \in 1..(NC + 1) |-> LET q == CHOOSE q \in 0..NC : cur.vp[q + 1] = v - 1 IN << PosX(q) >>]
MkCells == [c \in 1..NC |-> LET p == CHOOSE p \in 1..NC : cur.cp[p] = c - 1 IN
                             IF cur.o[p] = 0 THEN << cur.vp[p], cur.vp[p + 1] >> ELSE << cur.vp[p + 1], cur.vp[p] >>]
\* everything that is a function of the configuration alone is tabulated once per state (tb): the mesh as a MeshTopo record, the
\* layout and the dof table of the DofMap contract, the basis polynomials and their first and second formal derivatives
MkTables ==
  LET tm == [n |-> << NC + 1, NC >>, idx |-> [i10 |-> MkCells], X |-> MkXV]
      sg == Sig(El, Fam, 1)
      ly == Layout(sg, Fam, 1)
      d0 == [j \in 1..Len(ly) |-> Basis1D(El, Fam, ly[j])]
      d1 == [j \in 1..Len(ly) |-> PDiff(d0[j], 1, Q1D)]
      d2 == [j \in 1..Len(ly) |-> PDiff(d1[j], 1, Q1D)]
  IN [tm |-> tm, sig |-> sg, lay |-> ly, gs |-> DofTable(tm, sg, Fam, 1), ng |-> NumGlobalDofs(tm, sg, 1),
      pol |-> [j \in 1..Len(ly) |-> << d0[j], d1[j], d2[j] >>]]
Init == \E cfg \in Configs : cur = cfg /\ tb = MkTables
Next == UNCHANGED vars
Spec == Init /\ [][Next]_vars

TM == tb.tm
XV == TM.X
Cells == TM.idx.i10
CX(c, k) == XV[Cells[c][k + 1] + 1][1]                 \* coordinate of the local vertex k of cell c
Dd(c) == CX(c, 1) - CX(c, 0)                           \* signed
InvJ(c) == Sgn(Dd(c)) * (U \div AbsI1(Dd(c)))          \* 1 / J  (an integer inside the exact domain)

\* every vertex lies in one or two cells, the chain is connected, no cell is degenerate
MeshOK ==
  /\ WellFormed(TM, Fam, 1) /\ Unique(TM, 1) /\ CoordsOK(TM, 1) /\ DistinctVertices(TM)
  /\ \A v \in 0..NC : Cardinality({c \in 1..NC : v \in TRange(Cells[c])}) \in {1, 2}
  /\ Cardinality({v \in 0..NC : Cardinality({c \in 1..NC : v \in TRange(Cells[c])}) = 1}) = 2
ExactDomain == \A c \in 1..NC : Dd(c) # 0 /\ U % AbsI1(Dd(c)) = 0
HasDescending == \E c \in 1..NC : Dd(c) < 0

\* ---- the element on the mesh -----------------------------------------------------------------------------------------------------------
SigE == tb.sig
Lay == tb.lay
NL == Len(Lay)
Gs == tb.gs
NG == tb.ng
Der(j, ord) == tb.pol[j][ord + 1]
Conf == Conformity1D(El)
KMax == PolyDegree(El)

\* ---- Dual, on every cell, physical -----------------------------------------------------------------------------------------------------
\* phi_j = J^ej p_j(xi), N_i = sum w (d/dx)^ord at x(n/12):  N_i(phi_j) = (1/wden) sum w p_j^(ord)(n/12) J^(ej - ord) / (den 12^3)
JPow(c, ex) == IF ex = 0 THEN << 1, 1 >> ELSE IF ex = -1 THEN << InvJ(c), 1 >> ELSE << Dd(c), U >>
DualPhys ==
  \A c \in 1..NC : \A i, j \in 1..NL :
    LET terms == NodeTerms1D(El, Fam, Lay[i])
        ej == IF DerivDof1D(El, Lay[j]) THEN 1 ELSE 0
        f == JPow(c, ej - terms[1].ord)
        s == FoldSeq(LAMBDA t, acc : acc + t.w * PEval(Der(j, t.ord), << t.n >>, NS, Q1D), 0, terms)
    IN /\ \A t \in 1..Len(terms) : terms[t].ord = terms[1].ord
       /\ s * f[1] = (IF i = j THEN WDen1D(El) * Den1D(El) * IPow(NS, Q1D) ELSE 0) * f[2]
\* the local space is P_k with k + 1 = number of local dofs (so Dual <=> Reproduce on the monomials 1 .. x^k of any cell)
SpaceIsPk == NL = KMax + 1

\* ---- node functionals on monomials ----------------------------------------------------------------------------------------------------
XNode(c, n) == (IF Cube THEN CX(c, 0) + CX(c, 1) ELSE CX(c, 0)) * NS + Dd(c) * n      \* over PD
FallFac(k, ord) == IF ord = 0 THEN 1 ELSE IF ord = 1 THEN k ELSE k * (k - 1)
\* N(x^k) as << numerator, denominator >> for the functional of local dof dkm of cell c
NodeOnMono(c, dkm, k) ==
  LET terms == NodeTerms1D(El, Fam, dkm)  ord == terms[1].ord IN
  IF k < ord THEN << 0, 1 >>
  ELSE << FoldSeq(LAMBDA t, acc : acc + t.w * FallFac(k, ord) * IPow(XNode(c, t.n), k - ord), 0, terms), WDen1D(El) * IPow(PD, k - ord) >>
\* a functional is determined on P3 by its values on 1, x, x^2, x^3: both cells of a shared vertex must describe the same one
FunctionalWellDefined ==
  \A c1, c2 \in 1..NC : \A j1, j2 \in 1..NL :
    Gs[c1][j1] = Gs[c2][j2] => \A k \in 0..3 : NodeOnMono(c1, Lay[j1], k) = NodeOnMono(c2, Lay[j2], k)
OneIndex == MapSurjective(Gs, NG) /\ OneIndexPerEntityDof(Gs, TM, SigE, Fam, 1)
           /\ OneIndexPerFunctional(Gs, AssignSpec(TM, SigE, 1), TM, SigE, Fam, 1)
HomeOf(g) == CHOOSE cj \in {<< c, j >> : c \in 1..NC, j \in 1..NL} :
               Gs[cj[1]][cj[2]] = g /\ \A c \in 1..NC, j \in 1..NL : Gs[c][j] = g => cj[1] <= c
DofOnMono(g, k) == LET h == HomeOf(g) IN NodeOnMono(h[1], Lay[h[2]], k)

\* ---- physical basis tables at the lattice points (integers over DEN) --------------------------------------------------------------------------
DEN == Den1D(El) * IPow(LS, Q1D) * U
\* (d/dx)^ord phi_j at xi = n / LS on cell c
BasisAt(c, j, n, ord) ==
  PEval(Der(j, ord), << n >>, LS, Q1D) * (IF DerivDof1D(El, Lay[j]) THEN Dd(c) ELSE U) * IPow(InvJ(c), ord)
XLat(c, n) == (IF Cube THEN CX(c, 0) + CX(c, 1) ELSE CX(c, 0)) * LS + Dd(c) * n       \* over XD
\* the global basis function of index g restricted to cell c
GlobalAt(c, g, n, ord) == MapThenSumSet(LAMBDA j : BasisAt(c, j, n, ord), {j \in 1..NL : Gs[c][j] = g})
EndLat(k) == IF k = 0 THEN Lat[1] ELSE Lat[Len(Lat)]
Continuous ==
  Conf \in {"H1", "C1"} =>
    \A c1, c2 \in 1..NC : \A k1, k2 \in 0..1 :
      (c1 # c2 /\ Cells[c1][k1 + 1] = Cells[c2][k2 + 1]) =>
        \A g \in 0..(NG - 1) : \A ord \in 0..(IF Conf = "C1" THEN 1 ELSE 0) :
          GlobalAt(c1, g, EndLat(k1), ord) = GlobalAt(c2, g, EndLat(k2), ord)
\* the lattice ends are the vertices
LatticeEnds == \A c \in 1..NC : \A k \in 0..1 : XLat(c, EndLat(k)) = CX(c, k) * RJ * LS
\* the FE function with the coefficient vector coef
Coef == [g \in 1..NG |-> ((g * 7 + 3) % 9) - 4]
FeAt(c, n, ord) == FoldSeq(LAMBDA j, acc : acc + Coef[Gs[c][j] + 1] * BasisAt(c, j, n, ord), 0, [j \in 1..NL |-> j])

\* ---- transformation ------------------------------------------------------------------------------------------------------------------------------
\* cell length (over 2^CS) = |ref cell| * |J|; the lengths add up to the length of the chain
VolumeSum == FoldSeq(LAMBDA c, acc : acc + AbsI1(Dd(c)), 0, [c \in 1..NC |-> c]) = PosX(NC) - Origin
\* inverse mapping: the image point xn / XD lies in cell c2 at the reference coordinate num / den (den > 0)
UnmapIn(c2, xn) ==
  LET a == (IF Cube THEN CX(c2, 0) + CX(c2, 1) ELSE CX(c2, 0)) * LS
      num == (xn - a) * Sgn(Dd(c2))  den == LS * AbsI1(Dd(c2))
  IN << num, den >>
OnRef(nd) == IF Cube THEN AbsI1(nd[1]) <= nd[2] ELSE nd[1] >= 0 /\ nd[1] <= nd[2]
Hits(xn) == {<< c2 - 1, UnmapIn(c2, xn)[1], UnmapIn(c2, xn)[2] >> : c2 \in {c \in 1..NC : OnRef(UnmapIn(c, xn))}}
Probes == {XLat(c, Lat[i]) : c \in 1..NC, i \in 1..Len(Lat)} \cup {(Origin - 1) * RJ * LS, (PosX(NC) + 1) * RJ * LS}
\* map(unmap(x)) = x, every lattice point is found in its own cell, points outside the chain are found nowhere
UnmapRoundTrip ==
  /\ \A xn \in Probes : \A h \in Hits(xn) :
       LET c == h[1] + 1 IN ((IF Cube THEN CX(c, 0) + CX(c, 1) ELSE CX(c, 0)) * LS) * h[3] + Dd(c) * h[2] * LS = xn * h[3]
  /\ \A c \in 1..NC : \A i \in 1..Len(Lat) : \E h \in Hits(XLat(c, Lat[i])) : h[1] = c - 1 /\ h[2] * LS = Lat[i] * h[3]
  /\ Hits((Origin - 1) * RJ * LS) = {} /\ Hits((PosX(NC) + 1) * RJ * LS) = {}

\* ---- emission ---------------------------------------------------------------------------------------------------------------------------------------
MonoAt1(c, n, k, ord) ==      \* (d/dx)^ord x^k at the lattice point, << numerator, denominator >>
  IF k < ord THEN << 0, 1 >> ELSE << FallFac(k, ord) * IPow(XLat(c, n), k - ord), IPow(XD, k - ord) >>
Emit ==
  PrintT(ToJson([
    kind |-> "line", fam |-> Fam, dim |-> 1, el |-> El, nc |-> NC, desc |-> HasDescending, cs |-> CS, X |-> XV, cells |-> Cells,
    sig |-> SigE, nloc |-> NL, ng |-> NG, G |-> Gs, A |-> AssignSpec(TM, SigE, 1), conf |-> Conf, nodefunc |-> HasNodeFunc1D(El),
    exactdofs |-> (El # "lagrange3" /\ El # "bernstein2"), S |-> LS, DEN |-> DEN, XD |-> XD, U |-> U, coef |-> Coef,
    cell |-> [c \in 1..NC |-> [jn |-> Dd(c), ji |-> InvJ(c), len |-> AbsI1(Dd(c)),
                pts |-> [i \in 1..Len(Lat) |-> LET n == Lat[i] IN
                          [n |-> n, x |-> XLat(c, n),
                           v |-> [j \in 1..NL |-> BasisAt(c, j, n, 0)], g |-> [j \in 1..NL |-> BasisAt(c, j, n, 1)],
                           h |-> [j \in 1..NL |-> BasisAt(c, j, n, 2)],
                           fe |-> << FeAt(c, n, 0), FeAt(c, n, 1), FeAt(c, n, 2) >>]]]],
    monos |-> [kk \in 1..(KMax + 1) |-> LET k == kk - 1 IN
                [k |-> k, dofs |-> [g \in 1..NG |-> DofOnMono(g - 1, k)],
                 pts |-> [c \in 1..NC |-> [i \in 1..Len(Lat) |-> [ord \in 1..3 |-> MonoAt1(c, Lat[i], k, ord - 1)]]]]],
    inv |-> SetToSeq({[x |-> xn, hits |-> SetToSeq(Hits(xn))] : xn \in Probes})]))
=============================================================================
