----------------------------- MODULE DistSolve -----------------------------
(* C13, discretise-and-solve clause: the same problem solved on 1..n         *)
(* processes (any partitioning the control layer produces, incl. multi-       *)
(* layered hierarchies) by an algorithm whose iterates do not depend on the   *)
(* decomposition (PCG preconditioned by a multigrid V-cycle with damped       *)
(* Jacobi smoothing) must produce the same iteration count, the same defect   *)
(* norm in every iteration and the same error norms as the one-process run,   *)
(* up to rounding.  The harness projects every printed real number r of a     *)
(* run against the one-process value r1 to the boolean                        *)
(*     |r - r1| <= tolrel * |r1| + tolabs * (initial defect),                  *)
(* (print precision 7 digits; tolrel = 2e-6, tolabs = 1e-9); this module      *)
(* holds the contract on the projected records and is checked by TLC on the   *)
(* recorded runs (IOEnv.RUNS, one JSON record per run).                       *)
EXTENDS Integers, Sequences, FiniteSets, Json, IOUtils, TLC

Runs == ndJsonDeserialize(IOEnv.RUNS)
VARIABLE k
Init == k = 1
Next == k <= Len(Runs) /\ k' = k + 1
Spec == Init /\ [][Next]_k

Ref(r) == CHOOSE q \in {Runs[i] : i \in 1..Len(Runs)} : q.group = r.group /\ q.np = 1
RunOK(r) ==
  /\ r.status = "ok"                                   \* the run completed and the solver reported success
  /\ r.iters = Ref(r).iters                            \* same number of iterations as the one-process run
  /\ Len(r.agree_def) = r.iters + 1 /\ \A i \in 1..Len(r.agree_def) : r.agree_def[i]    \* every defect norm agrees
  /\ \A i \in 1..Len(r.agree_err) : r.agree_err[i]     \* H0/H1/L1/Lmax error norms agree
  /\ Len(r.agree_err) = 4
AllRunsAgree == k <= Len(Runs) => RunOK(Runs[k])
HasReference == \A i \in 1..Len(Runs) : \E j \in 1..Len(Runs) : Runs[j].group = Runs[i].group /\ Runs[j].np = 1
=============================================================================
