---------------------------- MODULE Partition2LCheck ----------------------------
(* Trace validation for the two-layer route of C12: every line of the ndjson file named by C12_BATCH2 is one case     *)
(* dumped by harness/c12_twolayer.cpp.  One TLC state per case; Emit evaluates the invariants of Partition.tla on the *)
(* child layer (maps composed by Partition2L!ChildLevel) and on the parent layer of every level of the joint           *)
(* refinement, and prints the verdict.                                                                                *)
EXTENDS Partition2L, Json, IOUtils

Cases == ndJsonDeserialize(IOEnv.C12_BATCH2)
VARIABLE ci
Init == ci \in 1..Len(Cases)
Next == UNCHANGED ci
Spec == Init /\ [][Next]_ci

Fail(cond, pred, lev, layer) == IF cond THEN {} ELSE {[p |-> pred, l |-> lev, part |-> layer]}

LayerFails(CC, Lv, l, layer) ==
  IF ~ShapeOK(CC, Lv) THEN Fail(FALSE, "ShapeOK", l - 1, layer)
  ELSE UNION {
    Fail(Cover(CC, Lv), "Cover", l - 1, layer),
    Fail(Injective(CC, Lv), "Injective", l - 1, layer),
    Fail(PatchIsSubmesh(CC, Lv), "PatchIsSubmesh", l - 1, layer),
    Fail(NeighbourSymmetricComplete(CC, Lv), "NeighbourSymmetricComplete", l - 1, layer),
    Fail(HaloAgree(CC, Lv), "HaloAgree", l - 1, layer),
    Fail(SplitPartsOK(CC, Lv), "SplitPartsOK", l - 1, layer) }

LevelFails(C, l) ==
  LET Lv2 == C.levels[l] IN
  IF ~(WellFormed(Lv2.base, C.fam, C.dim) /\ Shape2LOK(C, Lv2)) THEN Fail(FALSE, "Shape2LOK", l - 1, "")
  ELSE LayerFails(ParentCase(C), ParentLevel(C, Lv2), l, "parent")
       \cup LayerFails(C, ChildLevel(C, Lv2), l, "child")

\* the requested two-layer assignment is the one realised on level 0 (cells of every child in the order given)
AssignRealised(C) ==
  LET Lv2 == C.levels[1] IN
  /\ \A p \in 0..(C.np - 1) : Lv2.base.parts[p + 1].t[C.dim + 1] = C.passign[p + 1]
  /\ \A c \in 0..(C.nranks - 1) : ComposedPart(C, Lv2, c).t[C.dim + 1] = C.assign[c + 1]

Verdict(C) ==
  UNION {LevelFails(C, l) : l \in 1..Len(C.levels)}
  \cup Fail(Len(C.levels) = C.wantlevels, "AllLevelsProduced", -1, "")
  \cup (IF Len(C.levels) >= 1 /\ WellFormed(C.levels[1].base, C.fam, C.dim) /\ Shape2LOK(C, C.levels[1])
        THEN Fail(AssignRealised(C), "AssignRealised", 0, "") ELSE {})

\* coverage information: pairs of children of different parents that touch, and those that touch in one vertex only
Info(C) ==
  IF Len(C.levels) = 0 \/ ~Shape2LOK(C, C.levels[1]) THEN [cross |-> 0, single |-> 0]
  ELSE LET Lv == ChildLevel(C, C.levels[1])
           X == {rs \in Ranks(C) \X Ranks(C) : rs[1] < rs[2] /\ ParentOfChild(C.levels[1], rs[1]) # ParentOfChild(C.levels[1], rs[2])
                                              /\ Ent(Lv, rs[1], C.dim, 0) \cap Ent(Lv, rs[2], C.dim, 0) # {}}
       IN [cross |-> Cardinality(X),
           single |-> Cardinality({rs \in X : Cardinality(Ent(Lv, rs[1], C.dim, 0) \cap Ent(Lv, rs[2], C.dim, 0)) = 1})]

Emit == LET C == Cases[ci] IN PrintT(ToJson([id |-> C.id, fails |-> SetToSeq(Verdict(C)), info |-> Info(C)]))
=============================================================================
