SPECIFICATION GenSpec
CONSTANTS NR = 2 ND = 3
INVARIANT Emit
