SPECIFICATION GenSpec
CONSTANTS NR = 2 ND = 3 RENK = 2
INVARIANTS Emit LawRenum
