SPECIFICATION FairSpec
CONSTANTS NR = 2 ND = 2 NC = 2 SQUARE = FALSE PVS = {0, 1} BS = 2
INVARIANTS ConvCorrect RoundsAndLengthsMatch NoLostMessage RecvOnce
PROPERTY Terminates
