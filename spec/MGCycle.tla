------------------------------- MODULE MGCycle -------------------------------
(* C09: the geometric multigrid cycles of Solver::MultiGrid (kernel/solver/multigrid.hpp) as documented *)
(* in doxy_in/multigrid.dox.                                                                            *)
(*                                                                                                      *)
(* Levels are numbered as in the code: 0 = finest, larger = coarser; one application works on the       *)
(* sub-range top..crs (top <= crs) of a hierarchy, L = crs - top levels above the coarse level.         *)
(*                                                                                                      *)
(* Part 1  EVENTS and the DECLARATIVE definition of the documented V-, F- and W-cycle as event          *)
(*         sequences (W: peak levels in ruler order), plus the textbook RECURSIVE definition of F and W *)
(*         (the "reference recursion"); DeclLaws states that they agree.                                *)
(* Part 2  CALLS: which user supplied objects (smoothers, coarse solver, transfer) an event invokes for *)
(*         given presence flags (peak smoother falls back to pre + post, absent smoothers call nothing).*)
(* Part 3  DENOTATION: every event is a map on the level vectors (rhs, sol) over the finite field Z_p,  *)
(*         p = 32003, defined from the mathematics only (true defects rhs - A sol are recomputed, no    *)
(*         cached vectors); a cycle therefore denotes a map  defect |-> correction, and with adaptive   *)
(*         coarse grid correction the step length is the stated energy / defect minimiser.              *)
(* Part 4  level data: a deterministic hash generates the level matrices / smoother matrices / transfer *)
(*         matrices / defects from Seed (reimplemented by the replayer, which must reproduce the data   *)
(*         record printed by TLC bit by bit).                                                           *)
(*                                                                                                      *)
(* The operational transcription of the code's loops lives in MGCycleOp.tla (checked against Part 1 by  *)
(* TLC), the case generator in MGCycleGen.tla, the validation of the floating-point runs in MGCycleRate.*)
EXTENDS Integers, Sequences, FiniteSets, TLC

CONSTANT Seed       \* seed of the level data

P == 32003          \* the field Z_p; products of two residues stay below 2^31

\* ======================================================================================================
\* Part 1: events and cycles
\* ======================================================================================================
\* an event / call is encoded as kind * 16 + level
KPre == 1  KPost == 2  KPeak == 3  KCoarse == 4  KRest == 5  KProl == 6
Ev(k, l) == k * 16 + l
EvKind(e) == e \div 16
EvLevel(e) == e % 16
Pre(l) == Ev(KPre, l)         \* pre-smoothing on level l:    sol := S_pre rhs   (0 without pre-smoother)
Post(l) == Ev(KPost, l)       \* post-smoothing on level l:   sol += S_post (rhs - A sol)
Peak(l) == Ev(KPeak, l)       \* peak-smoothing on level l
Rest(l) == Ev(KRest, l)       \* defect of level l restricted to the right-hand side of level l+1
Prol(l) == Ev(KProl, l)       \* solution of level l+1 prolongated and added (coarse grid correction) on level l
Coarse(c) == Ev(KCoarse, c)   \* coarse level system solved on level c

\* descent from level l0 to crs; the pre-smoother of l0 itself is applied only if sm (a descent that
\* starts in an inner peak must keep the iterate of the peak level)
RECURSIVE DownR(_, _, _, _)
DownR(l, l0, crs, sm) ==
  IF l >= crs THEN <<>>
  ELSE (IF sm \/ l > l0 THEN <<Pre(l)>> ELSE <<>>) \o <<Rest(l)>> \o DownR(l + 1, l0, crs, sm)
Down(l0, crs, sm) == DownR(l0, l0, crs, sm)

\* ascent from crs to level l0; the post-smoother of l0 itself is applied only if sm
RECURSIVE UpR(_, _, _)
UpR(l, l0, sm) ==
  IF l < l0 THEN <<>>
  ELSE <<Prol(l)>> \o (IF sm \/ l > l0 THEN <<Post(l)>> ELSE <<>>) \o UpR(l - 1, l0, sm)
Up(l0, crs, sm) == UpR(crs - 1, l0, sm)

Pow2(n) == 2 ^ n
\* ruler sequence 1 2 1 3 1 2 1 4 ...: 1 + number of trailing zero bits
RECURSIVE Ruler(_)
Ruler(k) == IF k % 2 = 1 THEN 1 ELSE 1 + Ruler(k \div 2)

\* "V: one descent and one ascent with one coarse solve"
DeclV(top, crs) == Down(top, crs, TRUE) \o <<Coarse(crs)>> \o Up(top, crs, TRUE)

\* "F: L coarse solves with one intermediate peak on each inner level in ascending order"
\* (ascending towards the top level: peaks crs-1, crs-2, ..., top+1)
RECURSIVE FInner(_, _, _)
FInner(p, top, crs) ==
  IF p <= top THEN <<>>
  ELSE <<Coarse(crs)>> \o Up(p, crs, FALSE) \o <<Peak(p)>> \o Down(p, crs, FALSE) \o FInner(p - 1, top, crs)
DeclF(top, crs) == Down(top, crs, TRUE) \o FInner(crs - 1, top, crs) \o <<Coarse(crs)>> \o Up(top, crs, TRUE)

\* "W: 2^L coarse solves with peak levels visited in binary-counter (ruler) order"
RECURSIVE WInner(_, _, _, _)
WInner(k, n, top, crs) ==
  IF k > n THEN <<>>
  ELSE LET p == crs - Ruler(k) IN
       Up(p, crs, FALSE) \o <<Peak(p)>> \o Down(p, crs, FALSE) \o <<Coarse(crs)>> \o WInner(k + 1, n, top, crs)
DeclW(top, crs) == Down(top, crs, TRUE) \o <<Coarse(crs)>> \o WInner(1, Pow2(crs - top) - 1, top, crs) \o Up(top, crs, TRUE)

\* cycles are numbered 0 = V, 1 = F, 2 = W
Decl(cyc, top, crs) == CASE cyc = 0 -> DeclV(top, crs) [] cyc = 1 -> DeclF(top, crs) [] cyc = 2 -> DeclW(top, crs)

\* ---- the reference recursion ---------------------------------------------------------------------------
\* V(m): pre-smooth, restrict, V(m+1), prolongate, post-smooth.
RECURSIVE RecVisitV(_, _)
RecVisitV(m, crs) == IF m = crs THEN <<Coarse(crs)>>
                     ELSE <<Pre(m), Rest(m)>> \o RecVisitV(m + 1, crs) \o <<Prol(m), Post(m)>>
\* F(m): pre-smooth, restrict, F(m+1), prolongate, PEAK-smooth, restrict, V(m+1), prolongate, post-smooth
\* -- except on the top level, which is visited once.
RECURSIVE RecVisitF(_, _)
RecVisitF(m, crs) == IF m = crs THEN <<Coarse(crs)>>
                     ELSE <<Pre(m), Rest(m)>> \o RecVisitF(m + 1, crs) \o <<Prol(m), Peak(m), Rest(m)>>
                          \o RecVisitV(m + 1, crs) \o <<Prol(m), Post(m)>>
RecF(top, crs) == IF top = crs THEN <<Coarse(crs)>>
                  ELSE <<Pre(top), Rest(top)>> \o RecVisitF(top + 1, crs) \o <<Prol(top), Post(top)>>
\* W(m): pre-smooth, restrict, W(m+1), prolongate, PEAK-smooth, restrict, W(m+1), prolongate, post-smooth
\* on every level including the top level (2^L coarse solves).
RECURSIVE RecVisitW(_, _)
RecVisitW(m, crs) == IF m = crs THEN <<Coarse(crs)>>
                     ELSE <<Pre(m), Rest(m)>> \o RecVisitW(m + 1, crs) \o <<Prol(m), Peak(m), Rest(m)>>
                          \o RecVisitW(m + 1, crs) \o <<Prol(m), Post(m)>>
Rec(cyc, top, crs) == CASE cyc = 0 -> RecVisitV(top, crs) [] cyc = 1 -> RecF(top, crs) [] cyc = 2 -> RecVisitW(top, crs)

CountKind(s, k) == Cardinality({i \in 1..Len(s) : EvKind(s[i]) = k})
PeakLevels(s) == LET idx == {i \in 1..Len(s) : EvKind(s[i]) = KPeak}
                     RECURSIVE Collect(_)
                     Collect(i) == IF i > Len(s) THEN <<>> ELSE (IF i \in idx THEN <<EvLevel(s[i])>> ELSE <<>>) \o Collect(i + 1)
                 IN Collect(1)
\* the statement's numbers: coarse solves 1 / max(L,1) / 2^L; peaks: none / L-1 ascending / ruler order
NumCoarse(cyc, top, crs) == CASE cyc = 0 -> 1 [] cyc = 1 -> (IF crs = top THEN 1 ELSE crs - top) [] cyc = 2 -> Pow2(crs - top)
ExpPeaks(cyc, top, crs) ==
  CASE cyc = 0 -> <<>>
    [] cyc = 1 -> [i \in 1..(IF crs - top >= 1 THEN crs - top - 1 ELSE 0) |-> crs - i]
    [] cyc = 2 -> [k \in 1..(Pow2(crs - top) - 1) |-> crs - Ruler(k)]

\* sanity laws of the declarative definition, for all sub-ranges of MaxLev+1 levels
DeclLaws(maxlev) ==
  \A cyc \in 0..2, crs \in 0..maxlev : \A top \in 0..crs :
     LET d == Decl(cyc, top, crs) IN
       /\ d = Rec(cyc, top, crs)
       /\ CountKind(d, KCoarse) = NumCoarse(cyc, top, crs)
       /\ PeakLevels(d) = ExpPeaks(cyc, top, crs)
       \* every level above the coarse one: as many restrictions as prolongations
       /\ \A l \in top..(crs - 1) : Cardinality({i \in 1..Len(d) : d[i] = Rest(l)}) = Cardinality({i \in 1..Len(d) : d[i] = Prol(l)})
       \* begins on the top level, ends on the top level, never leaves the range
       /\ \A i \in 1..Len(d) : EvLevel(d[i]) \in top..crs

\* ======================================================================================================
\* Part 2: calls of user supplied objects
\* ======================================================================================================
\* fl[l] = [pre, post, peak, cs]: which smoothers / coarse solver level l has
CallsOfEvent(e, fl) ==
  LET k == EvKind(e)  l == EvLevel(e) IN
  CASE k = KPre    -> IF fl[l].pre THEN <<Ev(KPre, l)>> ELSE <<>>
    [] k = KPost   -> IF fl[l].post THEN <<Ev(KPost, l)>> ELSE <<>>
    [] k = KPeak   -> IF fl[l].peak THEN <<Ev(KPeak, l)>>
                      ELSE (IF fl[l].pre THEN <<Ev(KPre, l)>> ELSE <<>>) \o (IF fl[l].post THEN <<Ev(KPost, l)>> ELSE <<>>)
    [] k = KCoarse -> IF fl[l].cs THEN <<Ev(KCoarse, l)>> ELSE <<>>
    [] k = KRest   -> <<Ev(KRest, l)>>
    [] k = KProl   -> <<Ev(KProl, l)>>
SeqX == INSTANCE SequencesExt   \* FoldLeft is evaluated iteratively by TLC (Java override); a RECURSIVE operator over a
                                \* cycle of several hundred events costs time quadratic in its length
Calls(s, fl) == SeqX!FoldLeft(LAMBDA a, e : a \o CallsOfEvent(e, fl), <<>>, s)

\* ======================================================================================================
\* arithmetic in Z_p
\* ======================================================================================================
\* (TLCEval forces TLC to evaluate a function constructor once instead of re-evaluating its body on every application)
RECURSIVE DotN(_, _, _)
DotN(a, b, k) == IF k = 0 THEN 0 ELSE (DotN(a, b, k - 1) + ((a[k] * b[k]) % P)) % P
Dot(a, b) == DotN(a, b, Len(a))
MatVec(M, x) == TLCEval([i \in 1..Len(M) |-> Dot(M[i], x)])
VAdd(a, b) == TLCEval([i \in 1..Len(a) |-> (a[i] + b[i]) % P])
VSub(a, b) == TLCEval([i \in 1..Len(a) |-> (a[i] - b[i]) % P])
VScale(w, a) == TLCEval([i \in 1..Len(a) |-> (w * a[i]) % P])
VZero(n) == TLCEval([i \in 1..n |-> 0])
RECURSIVE PowP(_, _)
PowP(a, e) == IF e = 0 THEN 1 ELSE LET h == PowP(a, e \div 2) IN IF e % 2 = 0 THEN (h * h) % P ELSE (((h * h) % P) * a) % P
Inv(a) == PowP(a, P - 2)

\* ======================================================================================================
\* Part 4 (before 3): level data
\* ======================================================================================================
MaxLevAll == 6                         \* levels 0..6 carry data
Dim(l) == IF l % 2 = 0 THEN 3 ELSE 2   \* number of unknowns of level l

Mix(h, k) == (((h * h) % P) * 31 + h * 17 + k * 7919 + 12345) % P
Val(tag, l, i, j) == Mix(Mix(Mix(Mix(Mix(Seed % P, tag), l), i), j), 77)

\* ---- system filters ------------------------------------------------------------------------------------
\* A filter is a pair of projections given by a primal vector p and a dual vector d with <p, d> = 1:
\*     filter_def(v) = v - <v, p> d        (defects / right-hand sides, dual vectors)
\*     filter_cor(v) = v - <v, d> p        (corrections / solutions, primal vectors)
\* as LAFEM::MeanFilter has them; the two are DIFFERENT projections unless p = d.  Three kinds are used:
\*   "mean"  generic p and d (levels 0, 4): filter_def # filter_cor
\*   "unit"  p = d = a unit vector (levels 2, 6): both force one entry to 0, as LAFEM::UnitFilter does
\*   "none"  no constraint (odd levels, which have only 2 unknowns)
\* Every level keeps >= 2 free unknowns: with a single free unknown an adaptive step length solves the level
\* exactly and the next one is 0/0.
FPraw(l) == TLCEval([i \in 1..Dim(l) |-> Val(9, l, i, 1)])
FDraw(l) == TLCEval([i \in 1..Dim(l) |-> Val(9, l, i, 2)])
FKind(l) == IF l % 2 = 1 THEN "none"
            ELSE IF l % 4 = 0 /\ Dot(FPraw(l), FDraw(l)) # 0 THEN "mean" ELSE "unit"
UnitVec(l) == TLCEval([i \in 1..Dim(l) |-> IF i = (l % 3) + 1 THEN 1 ELSE 0])
FP == [l \in 0..MaxLevAll |-> CASE FKind(l) = "none" -> VZero(Dim(l)) [] FKind(l) = "unit" -> UnitVec(l) [] FKind(l) = "mean" -> FPraw(l)]
FD == [l \in 0..MaxLevAll |-> CASE FKind(l) = "none" -> VZero(Dim(l)) [] FKind(l) = "unit" -> UnitVec(l)
                                 [] FKind(l) = "mean" -> VScale(Inv(Dot(FPraw(l), FDraw(l))), FDraw(l))]
FKinds == [l \in 0..MaxLevAll |-> FKind(l)]
FiltDef(l, v) == IF FKinds[l] = "none" THEN v ELSE VSub(v, VScale(Dot(v, FP[l]), FD[l]))
FiltCor(l, v) == IF FKinds[l] = "none" THEN v ELSE VSub(v, VScale(Dot(v, FD[l]), FP[l]))
\* both maps are projections
ASSUME \A l \in 0..MaxLevAll : Dot(FP[l], FD[l]) = (IF FKinds[l] = "none" THEN 0 ELSE 1)

GenMat(tag, l, m, n) == TLCEval([i \in 1..m |-> TLCEval([j \in 1..n |-> Val(tag, l, i, j)])])
\* smoothers / solvers return filtered corrections:  S = filter_cor o S'
GenSol(tag, l) ==
  LET n == Dim(l)
      raw == GenMat(tag, l, n, n)
      cols == [j \in 1..n |-> FiltCor(l, [i \in 1..n |-> raw[i][j]])]
  IN TLCEval([i \in 1..n |-> TLCEval([j \in 1..n |-> cols[j][i]])])
\* constant-level definitions: TLC evaluates them once
Amat  == [l \in 0..MaxLevAll |-> GenMat(1, l, Dim(l), Dim(l))]     \* system matrices
Spre  == [l \in 0..MaxLevAll |-> GenSol(2, l)]
Spost == [l \in 0..MaxLevAll |-> GenSol(3, l)]
Speak == [l \in 0..MaxLevAll |-> GenSol(4, l)]
Csol  == [l \in 0..MaxLevAll |-> GenSol(5, l)]
Pmat  == [l \in 0..(MaxLevAll - 1) |-> GenMat(6, l, Dim(l), Dim(l + 1))]   \* prolongation l+1 -> l
Rmat  == [l \in 0..(MaxLevAll - 1) |-> GenMat(7, l, Dim(l + 1), Dim(l))]   \* restriction  l -> l+1
\* defects: odd dk = a filtered defect (what an outer solver passes), even dk = an arbitrary vector
DefectRaw(dk, top) == TLCEval([i \in 1..Dim(top) |-> Val(8, dk, i, top)])
Defect(dk, top) == IF dk % 2 = 1 THEN FiltDef(top, DefectRaw(dk, top)) ELSE DefectRaw(dk, top)

\* ======================================================================================================
\* Part 3: denotation over Z_p
\* ======================================================================================================
\* filter_def is applied to every defect / restricted right-hand side / A c, filter_cor to every correction
\* (prolongated coarse solution, smoother output, the identity "solver" of a coarse level without solver)
\* the (filtered) defect of level l
TrueDef(st, l) == FiltDef(l, VSub(st.rhs[l], MatVec(Amat[l], st.sol[l])))

\* c: configuration [top, crs, adapt (0 fixed, 1 min-energy, 2 min-defect), fl (presence flags), share (post == pre object)]
PostMat(c, l) == IF c.share /\ c.fl[l].pre THEN Spre[l] ELSE Spost[l]

\* one defect-correction step with smoother matrix S
SmoothStep(st, l, S) ==
  [st EXCEPT !.sol[l] = VAdd(st.sol[l], FiltCor(l, MatVec(S, TrueDef(st, l))))]

\* step length of the coarse grid correction cc on level l (cc filtered): [w, ok]
\*   fixed:       1
\*   min-energy:  <d, c> / <A c, c>            minimiser of the energy  1/2 x^T A x - b^T x  along c
\*                (filter_def is the transpose of filter_cor, so <filter_def(A c), c> = <A c, c> for a filtered c)
\*   min-defect:  <d, A c> / <A c, A c>        minimiser of |d - w A c|  (A c filtered like every defect)
Omega(st, l, cc, adapt) ==
  IF adapt = 0 THEN [w |-> 1, ok |-> TRUE, num |-> 0, den |-> 1]
  ELSE LET d  == TrueDef(st, l)
           ac == FiltDef(l, MatVec(Amat[l], cc))
           num == IF adapt = 1 THEN Dot(d, cc) ELSE Dot(d, ac)
           den == IF adapt = 1 THEN Dot(ac, cc) ELSE Dot(ac, ac)
       IN [w |-> IF den = 0 THEN 0 ELSE (num * Inv(den)) % P, ok |-> den # 0, num |-> num, den |-> den]
\* characterisation of the minimisers (holds over any field): the new defect is orthogonal to c (energy)
\* resp. to A c (defect)
OmegaStationary(st, l, cc, adapt, w) ==
  LET d  == TrueDef(st, l)
      ac == FiltDef(l, MatVec(Amat[l], cc))
      nd == VSub(d, VScale(w, ac))
  IN CASE adapt = 0 -> w = 1
       [] adapt = 1 -> Dot(nd, cc) = 0
       [] adapt = 2 -> Dot(nd, ac) = 0

Step(st, e, c) ==
  LET k == EvKind(e)  l == EvLevel(e) IN
  CASE k = KPre  -> [st EXCEPT !.sol[l] = IF c.fl[l].pre THEN MatVec(Spre[l], st.rhs[l]) ELSE VZero(Dim(l))]
    [] k = KPost -> IF c.fl[l].post THEN SmoothStep(st, l, PostMat(c, l)) ELSE st
    [] k = KPeak -> IF c.fl[l].peak THEN SmoothStep(st, l, Speak[l])
                    ELSE LET s1 == IF c.fl[l].pre THEN SmoothStep(st, l, Spre[l]) ELSE st
                         IN IF c.fl[l].post THEN SmoothStep(s1, l, PostMat(c, l)) ELSE s1
    [] k = KCoarse -> [st EXCEPT !.sol[l] = IF c.fl[l].cs THEN MatVec(Csol[l], st.rhs[l]) ELSE FiltCor(l, st.rhs[l])]
    [] k = KRest -> [st EXCEPT !.rhs[l + 1] = FiltDef(l + 1, MatVec(Rmat[l], TrueDef(st, l)))]
    [] k = KProl -> LET cc == FiltCor(l, MatVec(Pmat[l], st.sol[l + 1]))
                        om == Omega(st, l, cc, c.adapt)
                    IN [st EXCEPT !.sol[l] = VAdd(st.sol[l], VScale(om.w, cc)),
                                  !.ok = st.ok /\ om.ok,
                                  !.stat = st.stat /\ (om.ok => OmegaStationary(st, l, cc, c.adapt, om.w))]

\* left fold of Step over the event sequence
RunR(st, s, c) == SeqX!FoldLeft(LAMBDA a, e : TLCEval(Step(a, e, c)), st, s)

\* the application  defect |-> correction  of cycle cyc on levels top..crs; .ok = FALSE if an adaptive
\* step length is undefined (zero denominator): such configurations are outside the domain;
\* .stat = every adaptive step length satisfied the stationarity condition of its minimisation problem
Apply(c, cyc, d) ==
  LET st0 == [rhs |-> [l \in 0..MaxLevAll |-> IF l = c.top THEN d ELSE VZero(Dim(l))],
              sol |-> [l \in 0..MaxLevAll |-> VZero(Dim(l))], ok |-> TRUE, stat |-> TRUE]
      fin == RunR(st0, Decl(cyc, c.top, c.crs), c)
  IN [cor |-> fin.sol[c.top], ok |-> fin.ok, stat |-> fin.stat]
=============================================================================
