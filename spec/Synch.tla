------------------------------- MODULE Synch -------------------------------
(* C13: synchronisation of distributed (patch-wise) vectors.                 *)
(*                                                                           *)
(* Ranks own subsets dofs[r] of the global degrees of freedom; a dof owned   *)
(* by several ranks is "shared".  Rank r holds a local vector v[r] on        *)
(* dofs[r].  The protocol is that of Global::SynchVectorTicket               *)
(* (kernel/global/synch_vec.hpp), one action per statement group:            *)
(*   Post(r)         constructor: post all receives, then for every          *)
(*                   neighbour gather the mirror entries of the CURRENT      *)
(*                   vector into a send buffer and post the send             *)
(*   Deliver(s, r)   the network completes the message s -> r (any order)    *)
(*   WaitAny(r, s)   wait(): pick ANY completed receive, scatter_axpy it     *)
(*   Finish(r)       all receives processed, wait_all on the sends           *)
(* Sync0Correct: when every rank has finished, every rank holds at every of  *)
(* its dofs the sum over all sharing ranks - for EVERY interleaving and      *)
(* arrival order.  Integers make the sum order independent exactly.          *)
(* The module also defines the other gate operations as functions            *)
(* (frequencies, type-1 synchronisation, dot product, norm, distributed      *)
(* matrix-vector product); Gen_Synch.tla emits configurations with their     *)
(* expected results for the MPI replayer harness/c13_synch.cpp.              *)
EXTENDS Integers, Sequences, FiniteSets, TLC

CONSTANTS NR,     \* number of ranks
          ND      \* number of global dofs

Ranks == 0..(NR - 1)
Dofs == 1..ND

VARIABLES dofs,   \* rank -> set of global dofs it holds
          v0,     \* rank -> [dof -> Int]  initial local vectors (type 0)
          v,      \* current local vectors
          pc,     \* rank -> "start" | "wait" | "done"
          net,    \* messages in flight: set of [from, to, buf]  (buf: [dof -> Int] on the shared dofs)
          inbox,  \* rank -> set of completed receives [from, buf]
          got     \* rank -> set of neighbours whose message has been scattered

vars == <<dofs, v0, v, pc, net, inbox, got>>

Shared(r, s) == dofs[r] \cap dofs[s]
Nbrs(r) == {s \in Ranks : s # r /\ Shared(r, s) # {}}
Sharers(d) == {r \in Ranks : d \in dofs[r]}

RECURSIVE SumOver(_, _)
SumOver(S, f) == IF S = {} THEN 0 ELSE LET x == CHOOSE x \in S : TRUE IN f[x] + SumOver(S \ {x}, f)

\* fixed, injective-ish initial values: rank r, dof d
Val(r, d) == (r + 1) * 7 + d * d - 3 * r * d

Init ==
  /\ dofs \in [Ranks -> SUBSET Dofs]
  /\ v0 = [r \in Ranks |-> [d \in dofs[r] |-> Val(r, d)]]
  /\ v = v0
  /\ pc = [r \in Ranks |-> "start"]
  /\ net = {} /\ inbox = [r \in Ranks |-> {}] /\ got = [r \in Ranks |-> {}]

Post(r) ==
  /\ pc[r] = "start"
  /\ net' = net \cup {[from |-> r, to |-> s, buf |-> [d \in Shared(r, s) |-> v[r][d]]] : s \in Nbrs(r)}
  /\ pc' = [pc EXCEPT ![r] = "wait"]
  /\ UNCHANGED <<dofs, v0, v, inbox, got>>

Deliver(m) ==
  /\ m \in net /\ pc[m.to] # "start"          \* the receive has been posted
  /\ net' = net \ {m}
  /\ inbox' = [inbox EXCEPT ![m.to] = @ \cup {[from |-> m.from, buf |-> m.buf]}]
  /\ UNCHANGED <<dofs, v0, v, pc, got>>

WaitAny(r, m) ==
  /\ pc[r] = "wait" /\ m \in inbox[r]
  /\ v' = [v EXCEPT ![r] = [d \in dofs[r] |-> IF d \in DOMAIN m.buf THEN @[d] + m.buf[d] ELSE @[d]]]
  /\ inbox' = [inbox EXCEPT ![r] = @ \ {m}]
  /\ got' = [got EXCEPT ![r] = @ \cup {m.from}]
  /\ UNCHANGED <<dofs, v0, pc, net>>

Finish(r) ==
  /\ pc[r] = "wait" /\ got[r] = Nbrs(r)
  /\ pc' = [pc EXCEPT ![r] = "done"]
  /\ UNCHANGED <<dofs, v0, v, net, inbox, got>>

AllDone == \A r \in Ranks : pc[r] = "done"
Next == (\E r \in Ranks : Post(r) \/ Finish(r)) \/ (\E m \in net : Deliver(m))
        \/ (\E r \in Ranks : \E m \in inbox[r] : WaitAny(r, m)) \/ (AllDone /\ UNCHANGED vars)
Spec == Init /\ [][Next]_vars
FairSpec == Spec /\ WF_vars(Next)

\* ---- what a synchronised vector must hold ----------------------------------------------------
Sync0Of(vv, dd) == [r \in Ranks |-> [d \in dd[r] |-> SumOver({s \in Ranks : d \in dd[s]}, [s \in Ranks |-> IF d \in dd[s] THEN vv[s][d] ELSE 0])]]
Sync0Correct == AllDone => v = Sync0Of(v0, dofs)
\* a receive is only processed once and only from neighbours
RecvOnce == \A r \in Ranks : got[r] \subseteq Nbrs(r)
NoLostMessage == AllDone => net = {} /\ \A r \in Ranks : inbox[r] = {}
Terminates == <>AllDone
=============================================================================
