SPECIFICATION Spec
CONSTANTS Family = "chain" MinN = 3 MaxN = 3 BS = 2 Depth = 2 Pal = 2
INVARIANTS FilterOK ExactDomain ConstraintHolds ComplementHolds IdempotentHolds Emit
CHECK_DEADLOCK FALSE
