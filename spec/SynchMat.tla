------------------------------ MODULE SynchMat ------------------------------
(* C13: type-0 -> type-1 conversion of distributed matrices                  *)
(* (Global::Matrix::convert_to_1 = Global::SynchMatrix over                  *)
(* LAFEM::MatrixMirror, kernel/global/synch_mat.hpp).                        *)
(*                                                                           *)
(* Rank r owns the row dofs rd[r] and the column dofs cd[r] (row gate and    *)
(* column gate may be different decompositions; SQUARE: the same one) and a  *)
(* local matrix on the sparsity pattern Pat(r) \subseteq rd[r] \X cd[r].     *)
(* A neighbour of r is a rank sharing a row dof; the code takes the ranks    *)
(* from the row gate and the i-th mirror of BOTH gates, so the neighbour     *)
(* lists of the two gates must coincide (enabling condition SameNbrs).       *)
(*                                                                           *)
(* Protocol, one action per statement group of SynchMatrix::init()/exec():   *)
(* four rounds over the same request slots,                                  *)
(*   round 1  dimensions of the send buffer   (irecv all, isend all, wait)   *)
(*   round 2  buffer row pointers                                            *)
(*   round 3  buffer column indices                                          *)
(*   round 4  buffer VALUES: gather (MatrixMirror) + isend, then wait_any    *)
(*            and scatter_axpy in ANY arrival order                          *)
(* Channels are FIFO per (sender, receiver) pair (MPI non-overtaking rule    *)
(* for equal tags); every receive of round k must be matched by the round-k  *)
(* message of that neighbour (RoundsMatch), the layout of the buffer is the  *)
(* SENDER's (its pattern restricted to the shared rows x shared columns),    *)
(* the receiver adds what it finds in its own pattern.  ConvCorrect: when    *)
(* all ranks are done, every rank holds at every entry of its pattern the    *)
(* sum over all ranks having that entry in their pattern.                    *)
(* The receiver sizes its receive buffers from the dimensions announced in   *)
(* round 1 (rows, non-zeros, entries per non-zero): the row pointer message  *)
(* has rows+1 entries, the column index message nnz entries and the VALUE    *)
(* message nnz * (entries per non-zero) entries - a block of BS values per   *)
(* buffer entry is exchanged completely (LengthsMatch).                      *)
EXTENDS Integers, Sequences, FiniteSets, TLC

CONSTANTS NR,      \* number of ranks
          ND,      \* number of global row dofs
          NC,      \* number of global column dofs
          SQUARE,  \* TRUE: column decomposition = row decomposition
          PVS,     \* set of sparsity pattern variants (0: full, 1: rank dependent, 2: rank dependent, diagonal always)
          BS       \* entries per non-zero in the protocol model (1: scalar, 2: a block of two values)

Ranks == 0..(NR - 1)
RDofs == 1..ND
CDofs == 1..NC

VARIABLES rd, cd,  \* rank -> set of row / column dofs
          pv,      \* pattern variant
          m,       \* rank -> [Pat(rank) -> [1..BS -> Int]]  current local matrix
          round,   \* rank -> 1..5 (5: done)
          posted,  \* rank -> has the rank posted the receives and the sends of its current round
          chan,    \* <<from, to>> -> sequence of messages in flight (FIFO)
          inbox,   \* rank -> set of completed receives of the current round [from, msg]
          got,     \* rank -> set of neighbours whose message of the current round has been processed
          dims,    \* <<receiver, sender>> -> the buffer dimensions announced by the sender in round 1
          mism     \* a receive was matched by a message of another round / of the wrong length

vars == <<rd, cd, pv, m, round, posted, chan, inbox, got, dims, mism>>

NbrsR(r) == {s \in Ranks : s # r /\ rd[r] \cap rd[s] # {}}
NbrsC(r) == {s \in Ranks : s # r /\ cd[r] \cap cd[s] # {}}
SameNbrs == \A r \in Ranks : NbrsR(r) = NbrsC(r)
Nbrs(r) == NbrsR(r)

InPat(v, r, d, e) == v = 0 \/ (v = 1 /\ (d + e + r) % 2 = 0) \/ (v = 2 /\ (d = e \/ (d + e + r) % 2 = 0))
Pat(r) == {p \in rd[r] \X cd[r] : InPat(pv, r, p[1], p[2])}
\* the buffer matrix r sends to s: r's pattern restricted to the shared rows x shared columns
BufPat(r, s) == {p \in Pat(r) : p[1] \in rd[s] /\ p[2] \in cd[s]}

RECURSIVE SumOver(_, _)
SumOver(S, f) == IF S = {} THEN 0 ELSE LET x == CHOOSE x \in S : TRUE IN f[x] + SumOver(S \ {x}, f)

\* local (type-0) matrix entry of rank r, component c of the block
AVal(r, d, e, c) == (r + 2) * d - e + (IF d = e THEN 4 ELSE 0) + 5 * c * (r + 1)
M0 == [r \in Ranks |-> [p \in Pat(r) |-> [c \in 1..BS |-> AVal(r, p[1], p[2], c)]]]

DecompOK ==
  /\ \A r \in Ranks : rd[r] # {} /\ cd[r] # {} /\ Pat(r) # {}
  /\ SameNbrs

Init ==
  /\ rd \in [Ranks -> SUBSET RDofs]
  /\ IF SQUARE THEN cd = rd ELSE cd \in [Ranks -> SUBSET CDofs]
  /\ pv \in PVS
  /\ DecompOK
  /\ m = M0
  /\ round = [r \in Ranks |-> 1] /\ posted = [r \in Ranks |-> FALSE]
  /\ chan = [q \in Ranks \X Ranks |-> <<>>]
  /\ inbox = [r \in Ranks |-> {}] /\ got = [r \in Ranks |-> {}]
  /\ dims = [q \in Ranks \X Ranks |-> [rows |-> 0, nnz |-> 0, epnz |-> 0]]
  /\ mism = FALSE

\* what rank r sends to s in round k
Msg(r, s, k) ==
  LET d == [rows |-> Cardinality(rd[r] \cap rd[s]), nnz |-> Cardinality(BufPat(r, s)), epnz |-> BS] IN
  CASE k = 1 -> [round |-> 1, len |-> 4, dims |-> d, pat |-> {}, val |-> <<>>]
    [] k = 2 -> [round |-> 2, len |-> Cardinality(rd[r] \cap rd[s]) + 1, dims |-> d, pat |-> {}, val |-> <<>>]
    [] k = 3 -> [round |-> 3, len |-> Cardinality(BufPat(r, s)), dims |-> d, pat |-> BufPat(r, s), val |-> <<>>]
    [] OTHER -> [round |-> 4, len |-> Cardinality(BufPat(r, s)) * BS, dims |-> d, pat |-> BufPat(r, s),
                 val |-> [p \in BufPat(r, s) |-> m[r][p]]]
\* the length of the receive rank r has posted for neighbour s in round k (from the announced dimensions)
RecvLen(r, s, k) == LET d == dims[<<r, s>>] IN
  CASE k = 1 -> 4 [] k = 2 -> d.rows + 1 [] k = 3 -> d.nnz [] OTHER -> d.nnz * d.epnz

\* post all receives of the round, (gather and) post all sends
Post(r) ==
  /\ round[r] \in 1..4 /\ ~posted[r]
  /\ posted' = [posted EXCEPT ![r] = TRUE]
  /\ chan' = [q \in Ranks \X Ranks |-> IF q[1] = r /\ q[2] \in Nbrs(r) THEN Append(chan[q], Msg(r, q[2], round[r])) ELSE chan[q]]
  /\ UNCHANGED <<rd, cd, pv, m, round, inbox, got, dims, mism>>

\* the network completes the oldest message s -> r into the posted receive of r for s
Deliver(s, r) ==
  /\ chan[<<s, r>>] # <<>> /\ posted[r] /\ round[r] \in 1..4
  /\ s \notin got[r] /\ ~(\E x \in inbox[r] : x.from = s)      \* one receive per neighbour and round
  /\ LET msg == Head(chan[<<s, r>>]) IN
       /\ inbox' = [inbox EXCEPT ![r] = @ \cup {[from |-> s, msg |-> msg]}]
       /\ mism' = (mism \/ msg.round # round[r] \/ msg.len # RecvLen(r, s, round[r]))
       /\ dims' = IF round[r] = 1 THEN [dims EXCEPT ![<<r, s>>] = msg.dims] ELSE dims
  /\ chan' = [chan EXCEPT ![<<s, r>>] = Tail(@)]
  /\ UNCHANGED <<rd, cd, pv, m, round, posted, got>>

\* rounds 1-3: wait_all; round 4: wait_any + scatter_axpy of ONE completed receive
Process(r, x) ==
  /\ posted[r] /\ x \in inbox[r]
  /\ inbox' = [inbox EXCEPT ![r] = @ \ {x}]
  /\ got' = [got EXCEPT ![r] = @ \cup {x.from}]
  /\ m' = IF round[r] = 4
          THEN [m EXCEPT ![r] = [p \in Pat(r) |-> IF p \in x.msg.pat THEN [c \in 1..BS |-> @[p][c] + x.msg.val[p][c]] ELSE @[p]]]
          ELSE m
  /\ UNCHANGED <<rd, cd, pv, round, posted, chan, dims, mism>>

NextRound(r) ==
  /\ round[r] \in 1..4 /\ posted[r] /\ got[r] = Nbrs(r)
  /\ round' = [round EXCEPT ![r] = @ + 1]
  /\ posted' = [posted EXCEPT ![r] = FALSE]
  /\ got' = [got EXCEPT ![r] = {}]
  /\ UNCHANGED <<rd, cd, pv, m, chan, inbox, dims, mism>>

AllDone == \A r \in Ranks : round[r] = 5
Next == (\E r \in Ranks : Post(r) \/ NextRound(r)) \/ (\E s, r \in Ranks : Deliver(s, r))
        \/ (\E r \in Ranks : \E x \in inbox[r] : Process(r, x)) \/ (AllDone /\ UNCHANGED vars)
Spec == Init /\ [][Next]_vars
FairSpec == Spec /\ WF_vars(Next)

\* ---- the type-1 matrix ------------------------------------------------------------------------
Conv1Of(mm) == [r \in Ranks |-> [p \in Pat(r) |-> [c \in 1..BS |->
                  SumOver({s \in Ranks : p \in Pat(s)}, [s \in Ranks |-> IF p \in Pat(s) THEN mm[s][p][c] ELSE 0])]]]
ConvCorrect == AllDone => m = Conv1Of(M0)
RoundsAndLengthsMatch == ~mism
NoLostMessage == AllDone => (\A q \in Ranks \X Ranks : chan[q] = <<>>) /\ (\A r \in Ranks : inbox[r] = {})
RecvOnce == \A r \in Ranks : got[r] \subseteq Nbrs(r)
Terminates == <>AllDone
=============================================================================
