-------------------------- MODULE TransferHistCheck --------------------------
(* C18, direction V for the histories of spec/TransferHist.tla.  Every line of the ndjson file named by the environment     *)
(* variable C18_HBATCH is one record:                                                                                      *)
(*   kind "hist": one history executed in ONE process: for every step the digest of what the step produced there (obs) and *)
(*                the digest of the same step executed alone in a fresh process (fresh)   -> Transfer!OrderIndependent     *)
(*   kind "rule": a refined cubature rule "refine:<base>" next to its base rule (integers: points at scale sp, weights at  *)
(*                scale sw), the one-cell mesh and its refinement by the real code with the origin certificate              *)
(*                                                                                         -> Transfer!RefinedRule...       *)
(* (the "xfer" steps themselves are judged by TransferCheck!Verdict: one record per distinct observation of a step).        *)
EXTENDS Transfer, Json, IOUtils

Cases == ndJsonDeserialize(IOEnv.C18_HBATCH)

VARIABLE ci
Init == ci \in 1..Len(Cases)
Next == UNCHANGED ci
Spec == Init /\ [][Next]_ci

Fail(cond, pred) == IF cond THEN {} ELSE {pred}

HistVerdict(C) ==
  LET obs == [k \in 1..Len(C.steps) |-> C.steps[k].obs]
      fresh == [k \in 1..Len(C.steps) |-> C.steps[k].fresh]
  IN Fail(Len(C.steps) >= 1 /\ OrderIndependent(obs, fresh), "OrderIndependent")
HistInfo(C) ==
  [dependent |-> SetToSeq(HistoryDependent([k \in 1..Len(C.steps) |-> C.steps[k].obs], [k \in 1..Len(C.steps) |-> C.steps[k].fresh])), steps |-> Len(C.steps)]

RuleVerdict(C) ==
  LET fam == C.fam  dim == C.dim
      Mc == C.levels[1]  Mf == C.levels[2]  par == C.par
      wf == WellFormed(Mc, fam, dim) /\ WellFormed(Mf, fam, dim) /\ ParShapeOK(Mc, Mf, par, dim)
  IN
  IF ~wf THEN {"Precond:WellFormed"}
  ELSE IF ~(VertexOrigin(Mc, Mf, par, fam) /\ CellsHaveParents(Mc, Mf, par, dim) /\ ParentsValid(Mc, Mf, par, fam, dim) /\ Counts(Mc, Mf, fam, dim))
    THEN {"Precond:RefinementOrigin"}
  ELSE IF ~C.range_ok \/ C.sp # 1048576 \/ C.sw # 65536 THEN {"MACHINERY:Scale"}
  ELSE IF ~ChildrenTile(Mc, Mf, par, fam, dim) THEN {"MACHINERY:ChildrenTile"}
  ELSE IF ~RefinedRuleSizes(Mc, Mf, dim, C.n, C.bp, C.bw, C.rp, C.rw) THEN {"RefinedRuleSizes"}
  ELSE Fail(RefinedRulePoints(Mc, Mf, par, fam, dim, C.n, C.bp, C.rp, C.sp), "RefinedRulePoints")
       \cup Fail(RefinedRuleWeights(Mc, Mf, par, fam, dim, C.n, C.bw, C.rw), "RefinedRuleWeights")
RuleInfo(C) == [n |-> C.n, nr |-> Len(C.rp), children |-> C.levels[2].n[C.dim + 1]]

Emit == LET C == Cases[ci] IN
  IF C.kind = "hist" THEN PrintT(ToJson([id |-> C.id, fails |-> SetToSeq(HistVerdict(C)), info |-> HistInfo(C)]))
  ELSE PrintT(ToJson([id |-> C.id, fails |-> SetToSeq(RuleVerdict(C)), info |-> RuleInfo(C)]))
=============================================================================
