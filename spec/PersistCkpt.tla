---------------------------- MODULE PersistCkpt ----------------------------
(* C05, checkpoints: Control::CheckpointControl with several LAFEM          *)
(* containers.  Actions (the public calls):                                  *)
(*    Register(o)    add_object(id(o), object o)                             *)
(*    Save           save(stream): the stream is  u64 total, then for every  *)
(*                   registered identifier IN std::map (lexicographic) ORDER *)
(*                   u64 |id|, id, u64 |data|, data                          *)
(*                   where data = the container's binary serialisation       *)
(*                   (PersistFmt!BinFile with mode fm_binary and DT2 = DT,   *)
(*                   IT2 = IT)                                               *)
(*    Load           load(stream) into a fresh CheckpointControl             *)
(*    Restore(o)     restore_object(id(o), fresh object)                     *)
(* TLC explores every subset of the object palette (sizes MinObj..MaxObj),   *)
(* every registration order, the identifier assignments of IdMaps and every  *)
(* restore order.  Invariants: RestoredRight (every restored object equals   *)
(* the object that was registered under that identifier), FileOrdered,       *)
(* FileLength.  Emit prints each complete behaviour for the replayer.        *)
EXTENDS PersistFmt, Json, TLC

CONSTANTS MinObj, MaxObj,   \* number of objects in one checkpoint
          CDT, CIT          \* data / index type width of the containers (bytes)

VARIABLES ph,     \* "reg" | "saved" | "loaded"
          objs,   \* the chosen objects: set of palette indices
          idmap,  \* palette index -> identifier
          regs,   \* registration order so far (sequence of palette indices)
          file,   \* the stream: [total, entries: sequence of [id, idlen, len, bin]]
          rest,   \* restore order so far
          got     \* palette index -> arrays restored
vars == <<ph, objs, idmap, regs, file, rest, got>>

Den == 4
Mk(kind, mm, nn, bh, bw, rep) == [kind |-> kind, m |-> mm, n |-> nn, bh |-> bh, bw |-> bw, rep |-> rep, alloc |-> FALSE]
MkAlloc(kind, mm, nn, bh, bw, rep) == [kind |-> kind, m |-> mm, n |-> nn, bh |-> bh, bw |-> bw, rep |-> rep, alloc |-> TRUE]
D23 == << <<3, -6, 7>>, <<-8, 11, -10>> >>
\* the palette: different kinds; an empty vector, a matrix with an empty row, a matrix without entries
Palette == <<
  Mk("dv", 3, 1, 1, 1, [va |-> <<3, -6, 7>>]),
  Mk("csr", 2, 3, 1, 1, CSROf(2, 3, D23, {<<2, 1>>, <<2, 3>>})),               \* first row empty
  Mk("dv", 0, 1, 1, 1, [va |-> <<>>]),                                          \* length 0
  Mk("sv", 4, 1, 1, 1, [idx |-> <<1, 3>>, va |-> <<5, -2>>]),
  Mk("dvb", 2, 1, 2, 1, [va |-> <<1, 2, 3, 4>>]),
  Mk("csr", 2, 2, 1, 1, CSROf(2, 2, D23, {})),                                  \* no entries, no arrays
  MkAlloc("csr", 2, 3, 1, 1, CSROf(2, 3, D23, {})) >>                           \* no entries, allocated arrays of length 0
\* identifiers that are prefixes of each other, in lexicographic order
IdOrder == <<"a", "ab", "abc", "b", "ba", "c", "ca">>
IdMaps == {[o \in 1..7 |-> IdOrder[o]], [o \in 1..7 |-> IdOrder[8 - o]], [o \in 1..7 |-> IdOrder[((o + 1) % 7) + 1]]}
Rank(id) == CHOOSE r \in 1..Len(IdOrder) : IdOrder[r] = id
IdLen(id) == CASE id \in {"a", "b", "c"} -> 1 [] id \in {"ab", "ba", "ca"} -> 2 [] id = "abc" -> 3

BinOf(o) == BinFile(Arrays(Palette[o]), 13, CDT, CIT, CDT, CIT)          \* FileMode::fm_binary = 13
SeqToSet(s) == {s[i] : i \in 1..Len(s)}

Init ==
  /\ ph = "reg"
  /\ objs \in {S \in SUBSET (1..Len(Palette)) : Cardinality(S) \in MinObj..MaxObj}
  /\ idmap \in IdMaps
  /\ regs = <<>> /\ rest = <<>> /\ got = <<>> /\ file = [total |-> 0, entries |-> <<>>]

Register(o) ==
  /\ ph = "reg" /\ o \in objs /\ o \notin SeqToSet(regs)
  /\ regs' = Append(regs, o)
  /\ UNCHANGED <<ph, objs, idmap, file, rest, got>>

Save ==
  /\ ph = "reg" /\ SeqToSet(regs) = objs
  /\ LET ord == SetToSortSeq(objs, LAMBDA x, y : Rank(idmap[x]) < Rank(idmap[y]))       \* std::map order
         ents == [k \in 1..Len(ord) |-> [id |-> idmap[ord[k]], idlen |-> IdLen(idmap[ord[k]]), len |-> BinOf(ord[k]).len, bin |-> BinOf(ord[k])]]
     IN  file' = [total |-> SumSeq([k \in 1..Len(ents) |-> 8 + ents[k].idlen + 8 + ents[k].len]), entries |-> ents]
  /\ ph' = "saved"
  /\ UNCHANGED <<objs, idmap, regs, rest, got>>

Load == ph = "saved" /\ ph' = "loaded" /\ UNCHANGED <<objs, idmap, regs, file, rest, got>>

Lookup(id) == file.entries[CHOOSE k \in 1..Len(file.entries) : file.entries[k].id = id]
Restore(o) ==
  /\ ph = "loaded" /\ o \in objs /\ o \notin SeqToSet(rest)
  /\ rest' = Append(rest, o)
  /\ got' = Append(got, ReadBin(Lookup(idmap[o]).bin))
  /\ UNCHANGED <<ph, objs, idmap, regs, file>>

Next == (\E o \in 1..Len(Palette) : Register(o) \/ Restore(o)) \/ Save \/ Load
Spec == Init /\ [][Next]_vars

\* ---- properties ----------------------------------------------------------------------------------------
RestoredRight == \A k \in 1..Len(rest) : got[k] = Arrays(Palette[rest[k]])
FileOrdered == \A k \in 1..(Len(file.entries) - 1) : Rank(file.entries[k].id) < Rank(file.entries[k+1].id)
FileComplete == ph # "reg" => {file.entries[k].id : k \in 1..Len(file.entries)} = {idmap[o] : o \in objs}
FileLayout == \A k \in 1..Len(file.entries) : BinLayoutOK(file.entries[k].bin)

Done == ph = "loaded" /\ SeqToSet(rest) = objs
Emit == Done =>
  PrintT(ToJson([part |-> "ckpt", cdt |-> CDT, cit |-> CIT, den |-> Den,
                 objs |-> [k \in 1..Len(regs) |-> [id |-> idmap[regs[k]], c |-> Palette[regs[k]], arrays |-> Arrays(Palette[regs[k]])]],
                 restore |-> [k \in 1..Len(rest) |-> [id |-> idmap[rest[k]], arrays |-> got[k]]],
                 total |-> file.total,
                 entries |-> [k \in 1..Len(file.entries) |-> [id |-> file.entries[k].id, len |-> file.entries[k].len, bin |-> file.entries[k].bin]]]))
=============================================================================
