------------------------------ MODULE SolverCtl ------------------------------
(* C07: the stopping-criterion machine of Solver::IterativeSolver            *)
(* (kernel/solver/iterative.hpp).                                            *)
(*                                                                           *)
(* Part 1 (operators InitAnalyseB / AnalyseB, module SolverCtlCore) is the decision procedure      *)
(* transcribed branch by branch from _set_initial_defect / _analyse_defect,  *)
(* parameterised by the OUTCOMES of the floating point comparisons, so that  *)
(* the same transcription serves                                             *)
(*   M/G: comparisons computed here from integer defects and rational        *)
(*        tolerances (cross-multiplied),                                     *)
(*   V  : comparisons recomputed by the harness from the doubles a real      *)
(*        solver produced (Trace_SolverCtl.tla).                             *)
(* Part 2 is the state machine: one action per protected call                *)
(*   InitialDefect(d) = _set_initial_defect,                                 *)
(*   NewDefect(d)     = _set_new_defect (cfg.upd = FALSE, with the           *)
(*                      skip-defect-calculation short cut) or                *)
(*                      _update_defect (cfg.upd = TRUE).                     *)
(* Part 3 are the DECLARATIVE properties of C07 (what a status value means), *)
(* checked by TLC against the transcription over all configurations x defect *)
(* sequences; they do not mention the order of the tests in the code.        *)
(* Part 4 is the generator: with Record = TRUE every maximal behaviour is    *)
(* printed with the predicted state after every step.                        *)
EXTENDS SolverCtlCore, Integers, Sequences, FiniteSets, Json, TLC

CONSTANTS MinIters, MaxIters,     \* sets of naturals
          TolRels, TolAbss, TolAbsLows, DivRels, DivAbss, StagRates,  \* sets of dyadic rationals, given as numerators over Q = 64
          MinStags,               \* set of naturals (0 = stagnation check off)
          Skips, Upds,            \* subsets of BOOLEAN: skip_defect_calc flag; use _update_defect
          Values,                 \* defect norms: naturals, INF, NAN
          MaxSolves,              \* number of solves on the same object (history quantifier)
          MaxLen,                 \* bound on the number of recorded calls (Record = TRUE only)
          Record,                 \* TRUE: carry the history and print behaviours (G); FALSE: model checking (M)
          Sane                    \* TRUE: only configurations with 1 <= max_iter and min_iter <= max_iter

INF == 999
NAN == 998
Fin(d) == d < NAN

VARIABLES cfg, status, defInit, defCur, defPrev, numIter, numStag,
          nSolves,  \* number of InitialDefect calls so far
          runLen,   \* ghost: number of most recent consecutive steps with  d >= rate * dPrev
          prevCur,  \* ghost: defCur before the last step
          hist      \* recorded calls with predicted post-states (Record = TRUE)
vars == <<cfg, status, defInit, defCur, defPrev, numIter, numStag, nSolves, runLen, prevCur, hist>>

\* ---- rational comparisons (d, e naturals; r = numerator of r/Q) ----------------------------------
\* (tuples are not allowed in TLC configuration files, hence the fixed denominator; all products < 2^31)
Q == 64
LeqR(d, r) == d * Q <= r            \* d <= r/Q
LtR(d, r)  == d * Q <  r            \* d <  r/Q
GtR(d, r)  == d * Q >  r            \* d >  r/Q
LeqRM(d, r, e) == d * Q <= r * e    \* d <= (r/Q) * e
GtRM(d, r, e)  == d * Q >  r * e    \* d >  (r/Q) * e
GeqRM(d, r, e) == d * Q >= r * e    \* d >= (r/Q) * e

\* the documented meaning of the criteria (is_converged / is_diverged)
Converged(c, d, di) == LeqR(d, c.tolAbs) /\ (LeqRM(d, c.tolRel, di) \/ LeqR(d, c.tolAbsLow))
Diverged(c, d, di)  == GtR(d, c.divAbs) \/ GtRM(d, c.divRel, di)
StagStep(c, d, dp)  == GeqRM(d, c.stagRate, dp)
\* "initially tiny": below the lower absolute tolerance or (numerically) zero.  eps^2 ~ 4.9e-32: for the
\* integer defects of this model  d <= eps^2  <=>  d = 0
InitiallyTiny(c, d) == LtR(d, c.tolAbsLow) \/ d = 0

\* ---- Part 1: transcription: operators InitAnalyseB / AnalyseB of module SolverCtlCore ----------------------

\* _set_new_defect computes the norm only if it can influence anything (plot mode is none here)
CalcDef(c) == CalcDefB(c.skip, c.minIter, c.maxIter, c.minStag)

\* ---- Part 2: state machine -----------------------------------------------------------------------
Cfgs ==
  {c \in [minIter : MinIters, maxIter : MaxIters, tolRel : TolRels, tolAbs : TolAbss, tolAbsLow : TolAbsLows,
          divRel : DivRels, divAbs : DivAbss, stagRate : StagRates, minStag : MinStags, skip : Skips, upd : Upds] :
     /\ (Sane => c.maxIter >= 1 /\ c.minIter <= c.maxIter)
     /\ (c.minStag = 0 => c.stagRate = CHOOSE r \in StagRates : TRUE)   \* the rate is irrelevant when the check is off
     /\ (c.upd => c.skip = CHOOSE s \in Skips : TRUE)}                  \* _update_defect never skips

\* one recorded call: <<op, scripted d, returned status, num_iter, def_init, def_cur, def_prev, num_stag_iter,
\*                      is_converged(), is_diverged()>>  (the last two only meaningful for finite defects)
Rec(op, d, st, ni, di, dc, dp, ns) ==
  IF Record THEN Append(hist, <<op, d, st, ni, di, dc, dp, ns,
                                Fin(dc) /\ Fin(di) /\ Converged(cfg, dc, di),
                                Fin(dc) /\ Fin(di) /\ Diverged(cfg, dc, di)>>)
  ELSE hist

Init ==
  /\ cfg \in Cfgs
  /\ status = "undefined" /\ defInit = 0 /\ defCur = 0 /\ defPrev = 0 /\ numIter = 0 /\ numStag = 0
  /\ nSolves = 0 /\ runLen = 0 /\ prevCur = 0 /\ hist = <<>>

Room == ~Record \/ Len(hist) < MaxLen

InitialDefect(d) ==
  /\ status # "progress" /\ nSolves < MaxSolves /\ Room
  /\ LET st == InitAnalyseB(Fin(d), Fin(d) /\ LtR(d, cfg.tolAbsLow), Fin(d) /\ d = 0) IN
       /\ status' = st
       /\ defInit' = d /\ defCur' = d /\ defPrev' = d /\ numIter' = 0 /\ numStag' = 0
       /\ nSolves' = nSolves + 1 /\ runLen' = 0 /\ prevCur' = d
       /\ hist' = Rec("init", d, st, 0, d, d, d, 0)
  /\ UNCHANGED cfg

NewDefect(d) ==
  /\ status = "progress" /\ Room
  /\ LET calc == cfg.upd \/ CalcDef(cfg)
         dc   == IF calc THEN d ELSE defCur
         dp   == defCur
         ni   == numIter + 1
         fin  == Fin(dc)
         a    == AnalyseB(cfg.minIter, cfg.maxIter, cfg.minStag, ni, numStag, fin,
                          fin /\ Diverged(cfg, dc, defInit), fin /\ Converged(cfg, dc, defInit), fin /\ StagStep(cfg, dc, dp))
     IN
       /\ (~calc => d = 1)            \* the scripted value is not read: one representative
       /\ numIter' = ni /\ defPrev' = dp /\ defCur' = dc /\ status' = a.st /\ numStag' = a.ns
       /\ prevCur' = defCur
       /\ runLen' = IF fin /\ StagStep(cfg, dc, dp) THEN runLen + 1 ELSE 0
       /\ hist' = Rec(IF cfg.upd THEN "upd" ELSE "new", d, a.st, ni, defInit, dc, dp, a.ns)
  /\ UNCHANGED <<cfg, defInit, nSolves>>

Next == \E d \in Values : InitialDefect(d) \/ NewDefect(d)
Step == \E d \in Values : NewDefect(d)
Spec == Init /\ [][Next]_vars
FairSpec == Spec /\ WF_vars(Step)

\* ---- Part 3: declarative properties ----------------------------------------------------------------
Max2(a, b) == IF a >= b THEN a ELSE b
IterLimit == Max2(Max2(cfg.maxIter, cfg.minIter), 1)   \* = max_iter for sane configurations
Statuses == {"undefined", "progress", "success", "aborted", "diverged", "max_iter", "stagnated"}

TypeOK == status \in Statuses /\ numIter \in Nat /\ numStag \in Nat /\ (status = "undefined" <=> nSolves = 0)

\* success: converged after at least min_iter iterations, or the initial defect was tiny
SuccessMeans == status = "success" =>
   \/ numIter = 0 /\ InitiallyTiny(cfg, defInit)
   \/ numIter >= 1 /\ numIter >= cfg.minIter /\ Fin(defCur) /\ Converged(cfg, defCur, defInit) /\ ~Diverged(cfg, defCur, defInit)
\* max_iter: the limit was reached exactly and the defect is neither converged nor diverged
MaxIterMeans == status = "max_iter" =>
   numIter = IterLimit /\ Fin(defCur) /\ ~Converged(cfg, defCur, defInit) /\ ~Diverged(cfg, defCur, defInit)
\* the strict reading of the limit (fails for max_iter = 0, where one iteration is performed: see MaxIterStrict cfg)
MaxIterStrict == status = "max_iter" => numIter = cfg.maxIter
DivergedMeans == status = "diverged" => numIter >= 1 /\ Fin(defCur) /\ Diverged(cfg, defCur, defInit)
AbortedMeans == status = "aborted" => ~Fin(defCur)
\* stagnated: the check is on and each of the last min_stag_iter steps failed to reduce the defect by the rate
StagnatedMeans == status = "stagnated" =>
   /\ cfg.minStag > 0 /\ runLen >= cfg.minStag /\ numStag >= cfg.minStag
   /\ numIter >= cfg.minIter /\ numIter < cfg.maxIter
   /\ ~Converged(cfg, defCur, defInit) /\ ~Diverged(cfg, defCur, defInit)
\* an iteration continues only while no criterion is met (truthfulness in the other direction)
ProgressMeans == status = "progress" =>
   /\ Fin(defCur) /\ numIter < IterLimit
   /\ (numIter >= 1 => ~Diverged(cfg, defCur, defInit))
   /\ (numIter >= 1 /\ numIter >= cfg.minIter => ~Converged(cfg, defCur, defInit))
   /\ (cfg.minStag > 0 /\ numIter >= 1 /\ numIter >= cfg.minIter => numStag < cfg.minStag /\ numStag <= runLen)
   /\ (numIter = 0 => ~InitiallyTiny(cfg, defInit))
IterBound == numIter <= IterLimit
\* bookkeeping: def_prev is the defect of the previous step; a fresh solve starts with clean counters
Bookkeeping == (nSolves > 0 => defPrev = prevCur) /\ (numIter = 0 => numStag = 0 /\ defCur = defInit)
\* termination: every solve ends (weak fairness of the iteration step; limits are finite)
Terminates == (status = "progress") ~> (status # "progress")

\* ---- Part 4: generator ---------------------------------------------------------------------------------
Final == \/ Len(hist) = MaxLen
         \/ status # "progress" /\ nSolves = MaxSolves
Emit == Record /\ Final /\ Len(hist) > 0 => PrintT(ToJson([cfg |-> cfg, steps |-> hist]))
=============================================================================
