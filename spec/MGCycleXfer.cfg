SPECIFICATION Spec
CONSTANTS Seed = 1 FloatBound = 1024
INVARIANTS WellFormed SameMap CallsAccepted TransferOpsAgree AllVariantsRecorded
CHECK_DEADLOCK FALSE
