SPECIFICATION Spec
CONSTANTS Family = "power" MinN = 0 MaxN = 3 BS = 1 Depth = 1 Pal = 1
INVARIANTS FilterOK ExactDomain ConstraintHolds ComplementHolds IdempotentHolds Emit
CHECK_DEADLOCK FALSE
