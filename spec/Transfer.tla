------------------------------- MODULE Transfer -------------------------------
(* C18: grid transfer between a conforming mesh Mc and its regular refinement Mf (MeshTopo!Refine), for the         *)
(* element families with exact reference bases (RefElement).                                                      *)
(*                                                                                                                *)
(* DEFINITION.  For a fine dof i' let Occ(i') be the set of its occurrences <<f, li>> (fine cell f, local dof li    *)
(* with Global(f, li) = i').  The prolongation is                                                                 *)
(*       P[i', j] = 1/|Occ(i')| * sum_{<<f,li>> in Occ(i')}  sum_{lj : Global(parent f, lj) = j}  N'_{f,li}( phi_{parent f, lj} )   *)
(* i.e. the fine node functional applied to the coarse basis function, averaged over the fine cells sharing the     *)
(* functional.  For H1-conforming nested families all occurrences contribute the same value (ProlWellDefined), so   *)
(* P[i',j] = N'_{i'}(phi_j) and P c(u) = c'(u) for every coarse function u: the prolongation is the identity on    *)
(* the coarse space.  For the non-conforming Crouzeix-Raviart family the average is the documented behaviour of     *)
(* Assembly::GridTransfer (weight vector = multiplicity).                                                          *)
(* N'(phi) is evaluated EXACTLY: the fine node functional is a mean over barycentres of fine-cell vertex sets       *)
(* (RefElement!NodeSets); a fine vertex is the barycentre of the coarse entity it originates from (certificate par, *)
(* checked by MeshTopo!VertexOrigin / IsParent), whose position in the reference coordinates of the coarse cell is   *)
(* the barycentre of the corresponding local face.  Nothing depends on the numbering of either mesh, so transfer     *)
(* between permuted meshes must equal the transfer defined here on the permuted index sets (PermutationInvariant).   *)
(*                                                                                                                *)
(* Restriction R = P^T entry-wise, truncation T with T P = I (nested families), Transfer::prol(x) = P x,            *)
(* Transfer::rest(y) = P^T y, prolongate_vector(x) = P x.                                                          *)
(*                                                                                                                *)
(* HISTORIES (end of the module; enumerated by TransferHist.tla, judged by TransferHistCheck.tla): all of the above   *)
(* are functions of (mesh pair, family, cubature rule) - OrderIndependent: whatever a process assembled before, with   *)
(* whichever other rules, every assembly equals its fresh-process value; and the refined cubature rule the 2-level     *)
(* assembly pairs with the child cells is the child image of its base rule (RefinedRulePoints / RefinedRuleWeights).   *)
EXTENDS DofMap

\* local index (0-based) of the coarse entity <<d, i>> in the closure of the coarse cell c (1-based); -1 if absent
LocalOf(Mc, dim, c, d, i) ==
  IF d = dim THEN (IF i = c - 1 THEN 0 ELSE -1)
  ELSE LET row == Idx(Mc, dim, d)[c]
           K == {k \in 1..Len(row) : row[k] = i}
       IN IF K = {} THEN -1 ELSE (CHOOSE k \in K : TRUE) - 1

ParentCell(par, dim, f) == par[dim + 1][f][2] + 1
\* every fine cell has a coarse cell as parent and all its vertices originate from the closure of that cell
CellsHaveParents(Mc, Mf, par, dim) ==
  \A f \in 1..N(Mf, dim) :
    /\ par[dim + 1][f][1] = dim
    /\ \A lv \in 1..Len(Idx(Mf, dim, 0)[f]) :
         LET o == par[1][Idx(Mf, dim, 0)[f][lv] + 1] IN LocalOf(Mc, dim, ParentCell(par, dim, f), o[1], o[2]) >= 0

\* integer coordinates (scale PointScale) of the vertices of the fine cell f in the reference coordinates of its parent
FineInCoarse(Mc, Mf, par, fam, dim, RV, f) ==
  LET c == ParentCell(par, dim, f)
      fv == Idx(Mf, dim, 0)[f]
  IN TLCEval([lv \in 1..Len(fv) |-> LET o == par[1][fv[lv] + 1]
                                        k == LocalOf(Mc, dim, c, o[1], o[2])
                                    IN BaryOf(RV, LFaceSet(fam, dim, o[1], k))])

\* NUM[f][li][lj] = numerator of N'_{f,li}(phi_{parent f, lj}) over  T.den * S^D * Len(nodes)
LocalNum(Mc, Mf, par, T) ==
  LET RV == RefVerts(T.fam, T.dim)
      nl == Len(T.layout)
  IN TLCEval([f \in 1..N(Mf, T.dim) |->
       LET Y == FineInCoarse(Mc, Mf, par, T.fam, T.dim, RV, f) IN
         TLCEval([li \in 1..nl |-> TLCEval([lj \in 1..nl |-> ApplyNode(T.nodes[li], T.basis[lj], Y, T.S, T.D)])])])
LocalScale(T) == T.den * IPow(T.S, T.D) * Len(T.nodes[1])
NodesIntegral(Mc, Mf, par, T) ==
  LET RV == RefVerts(T.fam, T.dim) IN
  \A f \in 1..N(Mf, T.dim) : \A li \in 1..Len(T.layout) : NodeDivisible(T.nodes[li], FineInCoarse(Mc, Mf, par, T.fam, T.dim, RV, f))

\* occurrences of every fine dof:  OCC[i + 1] = {<<f, li>>}
Occurrences(Gf, ng) ==
  LET pairs == {<<f, li>> : f \in 1..Len(Gf), li \in 1..Len(Gf[1])} IN TLCEval([i \in 1..ng |-> {p \in pairs : Gf[p[1]][p[2]] = i - 1}])
\* the row contributed by ONE occurrence p = <<f, li>>: set of <<coarse dof j, numerator>> (non-zero numerators only)
OccRow(p, NUM, Gc, par, dim) ==
  LET c == ParentCell(par, dim, p[1]) IN
  {<<Gc[c][lj], NUM[p[1]][p[2]][lj]>> : lj \in {l \in 1..Len(Gc[1]) : NUM[p[1]][p[2]][l] # 0}}
\* H1-conforming families: every occurrence of a fine dof yields the same row
ProlWellDefined(occ, NUM, Gc, par, dim) == Cardinality({OccRow(p, NUM, Gc, par, dim) : p \in occ}) = 1
\* the specified row of a fine dof as a set of <<j, numerator>> over the denominator  mult * LocalScale :
\* the sum over the occurrences (mult = number of occurrences)
SummedRow(occ, NUM, Gc, par, dim) ==
  LET all == UNION {{<<p, t[1], t[2]>> : t \in OccRow(p, NUM, Gc, par, dim)} : p \in occ}      \* <<occurrence, j, num>>
      J == {t[2] : t \in all}
  IN {<<j, MapThenSumSet(LAMBDA t : t[3], {t \in all : t[2] = j})>> : j \in J}
\* [row |-> set of <<j, numerator>>, den |-> denominator / LocalScale]: for a well-defined row the common row itself (den 1)
SpecRow(occ, NUM, Gc, par, dim, wd) ==
  IF wd THEN [row |-> OccRow(CHOOSE p \in occ : TRUE, NUM, Gc, par, dim), den |-> 1]
  ELSE [row |-> SummedRow(occ, NUM, Gc, par, dim), den |-> Cardinality(occ)]
\* (P x)[i'] * den * LocalScale
RowTimes(sr, x) == MapThenSumSet(LAMBDA t : t[2] * x[t[1] + 1], sr.row)

\* an observed sparse row: [c |-> <<columns>>, v |-> <<integer values at scale ps>>]
RowSet(row) == {<<row.c[k], row.v[k]>> : k \in {q \in 1..Len(row.c) : row.v[q] # 0}}
ColsDistinct(row) == Cardinality({row.c[k] : k \in 1..Len(row.c)}) = Len(row.c)
\* the observed row equals the specified one: ps = scale of the observed integers, ls = LocalScale (ps is a multiple of ls)
RowMatches(row, sr, ps, ls) ==
  /\ ColsDistinct(row)
  /\ {<<t[1], t[2] * sr.den>> : t \in RowSet(row)} = {<<t[1], t[2] * (ps \div ls)>> : t \in {u \in sr.row : u[2] # 0}}
\* observed matrix (rows) times integer vector
RowDot(row, y) == FoldSeq(LAMBDA k, acc : acc + row.v[k] * y[row.c[k] + 1], 0, [k \in 1..Len(row.c) |-> k])

Triples(rows) == UNION {{<<i, rows[i].c[k], rows[i].v[k]>> : k \in {q \in 1..Len(rows[i].c) : rows[i].v[q] # 0}} : i \in 1..Len(rows)}
IsTranspose(rowsR, rowsP) == TLCEval({<<t[2] + 1, t[1] - 1, t[3]>> : t \in Triples(rowsP)}) = TLCEval(Triples(rowsR))
\* every row and every column holds exactly one entry, and that entry is 1
IsPermutationMatrix(rows) ==
  LET T == Triples(rows) IN
  /\ Cardinality(T) = Len(rows) /\ \A t \in T : t[3] = 1
  /\ Cardinality({t[1] : t \in T}) = Len(rows) /\ Cardinality({t[2] : t \in T}) = Len(rows)
IsIdentity(rows, one) == Triples(rows) = {<<i, i - 1, one>> : i \in 1..Len(rows)}
\* ------------------------------------------------------------------------------------------------------------------------
\* HISTORIES within one process (enumerated by TransferHist.tla).
\* The transfer operators and the refined cubature rules are FUNCTIONS of their inputs: the observation of step k of any history of
\* assemblies in one process equals the observation of the same step in a fresh process.  obs / fresh: sequences of observations
\* (digests of the bit patterns of everything the step produced).
HistoryDependent(obs, fresh) == {k \in 1..Len(obs) : obs[k] # fresh[k]}
OrderIndependent(obs, fresh) == Len(obs) = Len(fresh) /\ HistoryDependent(obs, fresh) = {}

\* THE REFINED CUBATURE RULE of the 2-level assembly (Cubature::RefineFactoryCore, "refine:<base>"): for the one-cell mesh Mc and its
\* regular refinement Mf, point c*n + k of the refined rule is the image of point k of the base rule under the reference map of child
\* cell c (the fine cell number c, its local vertex order included - this is how the assembly pairs fine cubature points with coarse
\* reference points), and its weight is the base weight times the volume fraction of the child.
\* Points are integers at scale S (rounded by the harness), weights integers at some scale; the tolerances are the rounding of both sides.
ChildVerts(Mc, Mf, par, fam, dim, f) == FineInCoarse(Mc, Mf, par, fam, dim, RefVerts(fam, dim), f)
EdgeVec(Y, fam, e) == Sub(Y[(IF fam = "hypercube" THEN Pow2(e - 1) ELSE e) + 1], Y[1])
SumDim(F(_), dim) == F(1) + F(2) + (IF dim = 3 THEN F(3) ELSE 0)
\* the children of the reference hypercube are parallelepipeds: vertex v = vertex 0 + the edge vectors of the set bits of v
ChildAffine(Y, fam, dim) ==
  fam = "hypercube" => \A v \in 0..(Pow2(dim) - 1) : \A a \in 1..dim :
    Y[v + 1][a] = Y[1][a] + SumDim(LAMBDA e : IF (v \div Pow2(e - 1)) % 2 = 1 THEN EdgeVec(Y, fam, e)[a] ELSE 0, dim)
\* numerator of coordinate a of the image of the base point b (integers at scale S) over  PointScale * S * (2 for hypercubes: [-1,1]^d)
ImageNum(Y, fam, dim, b, S, a) ==
  IF fam = "hypercube" THEN Y[1][a] * 2 * S + SumDim(LAMBDA e : EdgeVec(Y, fam, e)[a] * (b[e] + S), dim)
  ELSE Y[1][a] * S + SumDim(LAMBDA e : EdgeVec(Y, fam, e)[a] * b[e], dim)
PointIsImage(Y, fam, dim, b, r, S) ==
  \A a \in 1..dim : AbsI(r[a] * PointScale(fam) * (IF fam = "hypercube" THEN 2 ELSE 1) - ImageNum(Y, fam, dim, b, S, a)) <= PointScale(fam) * (dim + 2)
ChildVol(Y, fam, dim) == AbsI(IF dim = 2 THEN Det2(EdgeVec(Y, fam, 1), EdgeVec(Y, fam, 2)) ELSE Det3(EdgeVec(Y, fam, 1), EdgeVec(Y, fam, 2), EdgeVec(Y, fam, 3)))
RefVol(fam, dim) == IPow(PointScale(fam) * (IF fam = "hypercube" THEN 2 ELSE 1), dim)
WeightIsScaled(Y, fam, dim, bw, rw) == AbsI(rw * RefVol(fam, dim) - bw * ChildVol(Y, fam, dim)) <= RefVol(fam, dim) + ChildVol(Y, fam, dim)
RefinedRuleSizes(Mc, Mf, dim, n, bp, bw, rp, rw) ==
  /\ N(Mc, dim) = 1 /\ n >= 1 /\ Len(bp) = n /\ Len(bw) = n /\ Len(rp) = n * N(Mf, dim) /\ Len(rw) = n * N(Mf, dim)
  /\ \A k \in 1..Len(bp) : Len(bp[k]) = dim
  /\ \A k \in 1..Len(rp) : Len(rp[k]) = dim
RefinedRulePoints(Mc, Mf, par, fam, dim, n, bp, rp, S) ==
  \A f \in 1..N(Mf, dim) : LET Y == ChildVerts(Mc, Mf, par, fam, dim, f) IN
    ChildAffine(Y, fam, dim) /\ \A k \in 1..n : PointIsImage(Y, fam, dim, bp[k], rp[(f - 1) * n + k], S)
RefinedRuleWeights(Mc, Mf, par, fam, dim, n, bw, rw) ==
  \A f \in 1..N(Mf, dim) : LET Y == ChildVerts(Mc, Mf, par, fam, dim, f) IN
    ChildVol(Y, fam, dim) > 0 /\ \A k \in 1..n : WeightIsScaled(Y, fam, dim, bw[k], rw[(f - 1) * n + k])
\* the children tile the reference cell
ChildrenTile(Mc, Mf, par, fam, dim) ==
  FoldSeq(LAMBDA f, acc : acc + ChildVol(ChildVerts(Mc, Mf, par, fam, dim, f), fam, dim), 0, [f \in 1..N(Mf, dim) |-> f]) = RefVol(fam, dim)
=============================================================================
