------------------------------- MODULE Transfer -------------------------------
(* C18: grid transfer between a conforming mesh Mc and its regular refinement Mf (MeshTopo!Refine), for the         *)
(* element families with exact reference bases (RefElement).                                                      *)
(*                                                                                                                *)
(* DEFINITION.  For a fine dof i' let Occ(i') be the set of its occurrences <<f, li>> (fine cell f, local dof li    *)
(* with Global(f, li) = i').  The prolongation is                                                                 *)
(*       P[i', j] = 1/|Occ(i')| * sum_{<<f,li>> in Occ(i')}  sum_{lj : Global(parent f, lj) = j}  N'_{f,li}( phi_{parent f, lj} )   *)
(* i.e. the fine node functional applied to the coarse basis function, averaged over the fine cells sharing the     *)
(* functional.  For H1-conforming nested families all occurrences contribute the same value (ProlWellDefined), so   *)
(* P[i',j] = N'_{i'}(phi_j) and P c(u) = c'(u) for every coarse function u: the prolongation is the identity on    *)
(* the coarse space.  For the non-conforming Crouzeix-Raviart family the average is the documented behaviour of     *)
(* Assembly::GridTransfer (weight vector = multiplicity).                                                          *)
(* N'(phi) is evaluated EXACTLY: the fine node functional is a mean over barycentres of fine-cell vertex sets       *)
(* (RefElement!NodeSets); a fine vertex is the barycentre of the coarse entity it originates from (certificate par, *)
(* checked by MeshTopo!VertexOrigin / IsParent), whose position in the reference coordinates of the coarse cell is   *)
(* the barycentre of the corresponding local face.  Nothing depends on the numbering of either mesh, so transfer     *)
(* between permuted meshes must equal the transfer defined here on the permuted index sets (PermutationInvariant).   *)
(*                                                                                                                *)
(* Restriction R = P^T entry-wise, truncation T with T P = I (nested families), Transfer::prol(x) = P x,            *)
(* Transfer::rest(y) = P^T y, prolongate_vector(x) = P x.                                                          *)
EXTENDS DofMap

\* local index (0-based) of the coarse entity <<d, i>> in the closure of the coarse cell c (1-based); -1 if absent
LocalOf(Mc, dim, c, d, i) ==
  IF d = dim THEN (IF i = c - 1 THEN 0 ELSE -1)
  ELSE LET row == Idx(Mc, dim, d)[c]
           K == {k \in 1..Len(row) : row[k] = i}
       IN IF K = {} THEN -1 ELSE (CHOOSE k \in K : TRUE) - 1

ParentCell(par, dim, f) == par[dim + 1][f][2] + 1
\* every fine cell has a coarse cell as parent and all its vertices originate from the closure of that cell
CellsHaveParents(Mc, Mf, par, dim) ==
  \A f \in 1..N(Mf, dim) :
    /\ par[dim + 1][f][1] = dim
    /\ \A lv \in 1..Len(Idx(Mf, dim, 0)[f]) :
         LET o == par[1][Idx(Mf, dim, 0)[f][lv] + 1] IN LocalOf(Mc, dim, ParentCell(par, dim, f), o[1], o[2]) >= 0

\* integer coordinates (scale PointScale) of the vertices of the fine cell f in the reference coordinates of its parent
FineInCoarse(Mc, Mf, par, fam, dim, RV, f) ==
  LET c == ParentCell(par, dim, f)
      fv == Idx(Mf, dim, 0)[f]
  IN TLCEval([lv \in 1..Len(fv) |-> LET o == par[1][fv[lv] + 1]
                                        k == LocalOf(Mc, dim, c, o[1], o[2])
                                    IN BaryOf(RV, LFaceSet(fam, dim, o[1], k))])

\* NUM[f][li][lj] = numerator of N'_{f,li}(phi_{parent f, lj}) over  T.den * S^D * Len(nodes)
LocalNum(Mc, Mf, par, T) ==
  LET RV == RefVerts(T.fam, T.dim)
      nl == Len(T.layout)
  IN TLCEval([f \in 1..N(Mf, T.dim) |->
       LET Y == FineInCoarse(Mc, Mf, par, T.fam, T.dim, RV, f) IN
         TLCEval([li \in 1..nl |-> TLCEval([lj \in 1..nl |-> ApplyNode(T.nodes[li], T.basis[lj], Y, T.S, T.D)])])])
LocalScale(T) == T.den * IPow(T.S, T.D) * Len(T.nodes[1])
NodesIntegral(Mc, Mf, par, T) ==
  LET RV == RefVerts(T.fam, T.dim) IN
  \A f \in 1..N(Mf, T.dim) : \A li \in 1..Len(T.layout) : NodeDivisible(T.nodes[li], FineInCoarse(Mc, Mf, par, T.fam, T.dim, RV, f))

\* occurrences of every fine dof:  OCC[i + 1] = {<<f, li>>}
Occurrences(Gf, ng) ==
  LET pairs == {<<f, li>> : f \in 1..Len(Gf), li \in 1..Len(Gf[1])} IN TLCEval([i \in 1..ng |-> {p \in pairs : Gf[p[1]][p[2]] = i - 1}])
\* contributions to row i' (1-based i): set of <<f, li, lj, j, num>> with num # 0
RowContribs(occ, NUM, Gc, par, dim) ==
  UNION {{<<p[1], p[2], lj, Gc[ParentCell(par, dim, p[1])][lj], NUM[p[1]][p[2]][lj]>> : lj \in {l \in 1..Len(Gc[1]) : NUM[p[1]][p[2]][l] # 0}} : p \in occ}
RowValue(contribs, j) == MapThenSumSet(LAMBDA t : t[5], {t \in contribs : t[4] = j})
RowCols(contribs) == {t[4] : t \in contribs}
\* (P x)[i'] * mult * LocalScale
RowTimes(contribs, x) == MapThenSumSet(LAMBDA t : t[5] * x[t[4] + 1], contribs)

\* H1-conforming families: every occurrence of a fine dof yields the same row
ProlWellDefined(occ, NUM, Gc, par, dim) ==
  \A p1, p2 \in occ :
    \A lj \in 1..Len(Gc[1]) :
      LET j == Gc[ParentCell(par, dim, p1[1])][lj]
          c2 == ParentCell(par, dim, p2[1])
          L2 == {l \in 1..Len(Gc[1]) : Gc[c2][l] = j}
      IN NUM[p1[1]][p1[2]][lj] = (IF L2 = {} THEN 0 ELSE NUM[p2[1]][p2[2]][CHOOSE l \in L2 : TRUE])

\* an observed sparse row: [c |-> <<columns>>, v |-> <<integer values at scale ps>>]; value of column j
RowGet(row, j) == LET K == {k \in 1..Len(row.c) : row.c[k] = j} IN IF K = {} THEN 0 ELSE row.v[CHOOSE k \in K : TRUE]
RowSupport(row) == {row.c[k] : k \in {q \in 1..Len(row.c) : row.v[q] # 0}}
\* the observed row equals the specified one: ps = scale of the observed integers, ls = LocalScale (ps is a multiple of ls)
RowMatches(row, contribs, mult, ps, ls) ==
  /\ RowSupport(row) \subseteq RowCols(contribs)
  /\ \A j \in RowCols(contribs) : RowGet(row, j) * mult = RowValue(contribs, j) * (ps \div ls)

Triples(rows) == UNION {{<<i, rows[i].c[k], rows[i].v[k]>> : k \in {q \in 1..Len(rows[i].c) : rows[i].v[q] # 0}} : i \in 1..Len(rows)}
IsTranspose(rowsR, rowsP) == {<<t[2] + 1, t[1] - 1, t[3]>> : t \in Triples(rowsP)} = Triples(rowsR)
IsIdentity(rows, one) == Triples(rows) = {<<i, i - 1, one>> : i \in 1..Len(rows)}
=============================================================================
