SPECIFICATION Spec
CONSTANTS Fam = "hypercube" Dim = 3 Mode = "pair" PartLevel = 2
INVARIANTS AllPositive Conforming GluedOnFacet Emit
CHECK_DEADLOCK FALSE
