SPECIFICATION Spec
CONSTANTS Family = "mean" MinN = 0 MaxN = 5 BS = 1 Depth = 1 Pal = 2
INVARIANTS FilterOK ExactDomain ConstraintHolds ComplementHolds IdempotentHolds Emit
CHECK_DEADLOCK FALSE
