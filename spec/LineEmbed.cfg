SPECIFICATION Spec
INVARIANTS ExactDomain OrientationFree EndsOK Emit
CHECK_DEADLOCK FALSE
