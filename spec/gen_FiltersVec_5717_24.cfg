SPECIFICATION Spec
CONSTANTS Family = "seq" MinN = 0 MaxN = 2 BS = 2 Depth = 2 Pal = 1
INVARIANTS FilterOK ExactDomain ConstraintHolds ComplementHolds IdempotentHolds Emit
CHECK_DEADLOCK FALSE
