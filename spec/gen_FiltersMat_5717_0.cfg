SPECIFICATION Spec
CONSTANTS MFmt = "csr" MaxM = 3 MaxN = 3 SquareOnly = FALSE BH = 1 BW = 1 Comp = "unit" Pal = 1
INVARIANTS RepValid MatConstraint MatComplement MatIdempotent FilteredSolve Emit
CHECK_DEADLOCK FALSE
