----------------------------- MODULE ThreadAsm -----------------------------
(* C17, layer 2: the master/worker fence protocol of Assembly::DomainAssembler *)
(* (kernel/assembly/domain_assembler.hpp, kernel/util/thread.hpp), one action  *)
(* per statement group that touches shared state:                              *)
(*   master : assemble()          - reset fences, spawn, open front / per      *)
(*                                   colour handshake, join                    *)
(*   worker : Worker::operator()  - _work_layered, _work_colored,              *)
(*                                   _work_no_scatter, failure path            *)
(* A fence is [open, okay]; wait(f) is one step enabled iff f is open (the     *)
(* fence mutex makes test-and-sleep atomic).  All indices are the code's       *)
(* 0-based ones: LE(i) = _layer_elements[i], TL(i) = _thread_layers[i],        *)
(* CE(i) = _color_elements[i]; element positions are positions in              *)
(* _element_indices.                                                           *)
(*                                                                             *)
(* The same actions are used (a) for exhaustive model checking (MC_*.cfg) and  *)
(* (b) by Trace_ThreadAsm.tla to validate event logs recorded from the real    *)
(* threads through the FEAT3_VERIF_HOOKS hooks.                                *)
EXTENDS Integers, Sequences, FiniteSets, TLC

CONSTANTS
  Strategy,      \* "layered" (also layered_sorted) | "colored"
  W,             \* number of worker threads spawned: >= 2, or 0 = the job is run on the master thread
  NFences,       \* size of _thread_fences (= W+2 when W >= 2); front = 0, back = NFences-1
  NeedScatter,   \* Task::need_scatter
  NeedCombine,   \* Task::need_combine
  NumElems,      \* size of _element_indices
  LayerElems,    \* _layer_elements  (sequence; layered only, else <<>>)
  ThreadLayers,  \* _thread_layers   (sequence; layered only, else <<>>)
  ColorElems,    \* _color_elements  (sequence; colored only, else <<>>)
  AdjPairs,      \* set of <<p, q>>: positions of vertex-adjacent cells (symmetric, irreflexive)
  MayFail,       \* workers whose task may throw in prepare/assemble (or in its constructor)
  Jobs           \* number of consecutive assemble() calls on the same assembler

VARIABLES
  fopen, fokay,  \* fences 0..W+1: 0 = front (master), 1..W = workers, W+1 = back (master)
  mutex,         \* holder of the assembler's thread mutex, 0 = free
  mpc, mi, micol, mallok, job,   \* master: program counter, loop index, colour, all_okay, jobs done
  wpc, we, wcol, \* worker: program counter, current element (loop variable `elem`), colour
  asm, scat,     \* per position: number of times assembled / scattered in the current job
  failed         \* workers that took the failure path in the current job

vars == <<fopen, fokay, mutex, mpc, mi, micol, mallok, job, wpc, we, wcol, asm, scat, failed>>

Workers == 1..W
Fences == 0..(NFences - 1)
Back == NFences - 1
LE(i) == LayerElems[i + 1]
TL(i) == ThreadLayers[i + 1]
CE(i) == ColorElems[i + 1]
NumColors == IF ColorElems = <<>> THEN 0 ELSE Len(ColorElems) - 1
Path == IF ~NeedScatter THEN "noscatter" ELSE Strategy    \* which _work_* function the worker runs
\* which branch of the master's switch: jobs without scatter are started and joined as in the layered case
\* (their workers run _work_no_scatter, which takes no part in the per-colour handshake)
MasterPath == IF ~NeedScatter THEN "layered" ELSE Strategy

\* ---- element ranges, exactly as the worker functions compute them ---------------------------
LBeg(w) == LE(TL(w - 1))
LEnd(w) == LE(TL(w))
OpenAt(w) == IF w > 1 THEN LE(TL(w - 1) + 1) - 1 ELSE -1     \* last element of the first layer
WaitAt(w) == IF w < W THEN LE(TL(w) - 1) ELSE -1             \* first element of the last layer
NBeg(w) == ((w - 1) * NumElems) \div W
NEnd(w) == (w * NumElems) \div W
CSize(c) == CE(c + 1) - CE(c)
CBeg(w, c) == (CSize(c) * (w - 1)) \div W
CEnd(w, c) == (CSize(c) * w) \div W
\* position in _element_indices the worker is currently working on
Pos(w) == IF Path = "colored" THEN CE(wcol[w]) + we[w] ELSE we[w]

Open(f, ok)  == fopen' = [fopen EXCEPT ![f] = TRUE] /\ fokay' = [fokay EXCEPT ![f] = ok]
Close(f)     == fopen' = [fopen EXCEPT ![f] = FALSE] /\ fokay' = [fokay EXCEPT ![f] = FALSE]
SetW(w, pc)  == wpc' = [wpc EXCEPT ![w] = pc]

Init ==
  /\ fopen = [f \in Fences |-> FALSE] /\ fokay = [f \in Fences |-> FALSE]
  /\ mutex = 0
  /\ mpc = "start" /\ mi = 0 /\ micol = 0 /\ mallok = TRUE /\ job = 0
  /\ wpc = [w \in Workers |-> "idle"] /\ we = [w \in Workers |-> 0] /\ wcol = [w \in Workers |-> 0]
  /\ asm = [p \in 0..(NumElems - 1) |-> 0] /\ scat = [p \in 0..(NumElems - 1) |-> 0]
  /\ failed = {}

(***************************************************************************)
(* master thread: DomainAssembler::assemble()                              *)
(***************************************************************************)
MStart ==      \* begin of assemble(): the per-job observation counters are reset
  /\ mpc = "start" /\ job < Jobs
  /\ mpc' = (IF NumElems = 0 THEN "endjob" ELSE "closeall") /\ mi' = 0      \* no elements: assemble() returns at once
  /\ asm' = [p \in 0..(NumElems - 1) |-> 0] /\ scat' = [p \in 0..(NumElems - 1) |-> 0] /\ failed' = {}
  /\ UNCHANGED <<fopen, fokay, mutex, micol, mallok, job, wpc, we, wcol>>

MCloseAll ==   \* for(auto& s : _thread_fences) s.close();
  /\ mpc = "closeall"
  /\ Close(mi)
  /\ IF mi = Back THEN mpc' = (IF W = 0 THEN "m_openfront" ELSE "spawn") /\ mi' = 1 ELSE mpc' = mpc /\ mi' = mi + 1
  /\ UNCHANGED <<mutex, micol, mallok, job, wpc, we, wcol, asm, scat, failed>>

MSpawn ==      \* _threads.emplace_back(std::thread(Worker(...)))
  /\ mpc = "spawn"
  /\ wpc[mi] = "idle" /\ SetW(mi, "begin")
  /\ IF mi = W
       THEN IF MasterPath = "colored" THEN mpc' = "colcheck" /\ mi' = 0 ELSE mpc' = "openfront" /\ mi' = 0
       ELSE mpc' = mpc /\ mi' = mi + 1
  /\ micol' = 0
  /\ UNCHANGED <<fopen, fokay, mutex, mallok, job, we, wcol, asm, scat, failed>>

MOpenFront ==  \* single/layered: _thread_fences.front().open(true)
  /\ mpc = "openfront"
  /\ Open(0, TRUE) /\ mpc' = "join" /\ mi' = 1
  /\ UNCHANGED <<mutex, micol, mallok, job, wpc, we, wcol, asm, scat, failed>>

MJoin ==       \* _threads.at(i).join()
  /\ mpc = "join"
  /\ wpc[mi] = "ended" /\ SetW(mi, "idle")
  /\ IF mi = W THEN mpc' = "endjob" /\ mi' = 0 ELSE mpc' = mpc /\ mi' = mi + 1
  /\ UNCHANGED <<fopen, fokay, mutex, micol, mallok, job, we, wcol, asm, scat, failed>>

MEndJob ==     \* _threads.clear(); return
  /\ mpc = "endjob"
  /\ job' = job + 1 /\ mpc' = "start"
  /\ UNCHANGED <<fopen, fokay, mutex, mi, micol, mallok, wpc, we, wcol, asm, scat, failed>>

\* colored: for(icol ...) { open front; wait+close all; close front; open back; wait+close all; close back }
MColCheck ==
  /\ mpc = "colcheck"
  /\ IF micol < NumColors THEN mpc' = "c_openfront" /\ mi' = 0 ELSE mpc' = "join" /\ mi' = 1
  /\ UNCHANGED <<fopen, fokay, mutex, micol, mallok, job, wpc, we, wcol, asm, scat, failed>>
MColOpenFront ==
  /\ mpc = "c_openfront"
  /\ Open(0, TRUE) /\ mallok' = TRUE /\ mpc' = "c_wait1" /\ mi' = 1
  /\ UNCHANGED <<mutex, micol, job, wpc, we, wcol, asm, scat, failed>>
MColWait1 ==
  /\ mpc = "c_wait1" /\ fopen[mi]
  /\ mallok' = (fokay[mi] /\ mallok) /\ mpc' = "c_close1"
  /\ UNCHANGED <<fopen, fokay, mutex, mi, micol, job, wpc, we, wcol, asm, scat, failed>>
MColClose1 ==
  /\ mpc = "c_close1"
  /\ Close(mi)
  /\ IF mi = W THEN mpc' = "c_closefront" /\ mi' = 0 ELSE mpc' = "c_wait1" /\ mi' = mi + 1
  /\ UNCHANGED <<mutex, micol, mallok, job, wpc, we, wcol, asm, scat, failed>>
MColCloseFront ==
  /\ mpc = "c_closefront"
  /\ Close(0) /\ mpc' = "c_openback"
  /\ UNCHANGED <<mutex, mi, micol, mallok, job, wpc, we, wcol, asm, scat, failed>>
MColOpenBack ==
  /\ mpc = "c_openback"
  /\ Open(Back, mallok)
  /\ IF mallok THEN mpc' = "c_wait2" /\ mi' = 1 ELSE mpc' = "join" /\ mi' = 1       \* break on error
  /\ UNCHANGED <<mutex, micol, mallok, job, wpc, we, wcol, asm, scat, failed>>
MColWait2 ==
  /\ mpc = "c_wait2" /\ fopen[mi]
  /\ mpc' = "c_close2"
  /\ UNCHANGED <<fopen, fokay, mutex, mi, micol, mallok, job, wpc, we, wcol, asm, scat, failed>>
MColClose2 ==
  /\ mpc = "c_close2"
  /\ Close(mi)
  /\ IF mi = W THEN mpc' = "c_closeback" /\ mi' = 0 ELSE mpc' = "c_wait2" /\ mi' = mi + 1
  /\ UNCHANGED <<mutex, micol, mallok, job, wpc, we, wcol, asm, scat, failed>>
MColCloseBack ==
  /\ mpc = "c_closeback"
  /\ Close(Back) /\ micol' = micol + 1 /\ mpc' = "colcheck"
  /\ UNCHANGED <<mutex, mi, mallok, job, wpc, we, wcol, asm, scat, failed>>

\* ---- assemble_master(): no (or a single) worker thread - the master runs _work_single itself ----
\* (mi is the loop variable `elem`)
SAfterLoop == IF NeedCombine THEN "s_combine" ELSE "endjob"
SLoopPc(e) == IF e < NumElems THEN "s_elem" ELSE SAfterLoop
MRunOpenFront ==
  /\ mpc = "m_openfront" /\ Open(0, TRUE) /\ mpc' = "m_openback"
  /\ UNCHANGED <<mutex, mi, micol, mallok, job, wpc, we, wcol, asm, scat, failed>>
MRunOpenBack ==
  /\ mpc = "m_openback" /\ Open(Back, TRUE) /\ mi' = 0 /\ mpc' = SLoopPc(0)
  /\ UNCHANGED <<mutex, micol, mallok, job, wpc, we, wcol, asm, scat, failed>>
SPrepare ==
  /\ mpc = "s_elem" /\ mpc' = "s_asm"
  /\ UNCHANGED <<fopen, fokay, mutex, mi, micol, mallok, job, wpc, we, wcol, asm, scat, failed>>
SAssemble ==
  /\ mpc = "s_asm"
  /\ asm' = [asm EXCEPT ![mi] = @ + 1]
  /\ mpc' = (IF NeedScatter THEN "s_scatter" ELSE "s_finish")
  /\ UNCHANGED <<fopen, fokay, mutex, mi, micol, mallok, job, wpc, we, wcol, scat, failed>>
SFinish ==
  /\ mpc = "s_finish" /\ mi' = mi + 1 /\ mpc' = SLoopPc(mi + 1)
  /\ UNCHANGED <<fopen, fokay, mutex, micol, mallok, job, wpc, we, wcol, asm, scat, failed>>
SScatterBegin ==
  /\ mpc = "s_scatter" /\ mpc' = "s_inscatter"
  /\ UNCHANGED <<fopen, fokay, mutex, mi, micol, mallok, job, wpc, we, wcol, asm, scat, failed>>
SScatterEnd ==
  /\ mpc = "s_inscatter" /\ scat' = [scat EXCEPT ![mi] = @ + 1] /\ mpc' = "s_finish"
  /\ UNCHANGED <<fopen, fokay, mutex, mi, micol, mallok, job, wpc, we, wcol, asm, failed>>
SCombineBegin ==
  /\ mpc = "s_combine" /\ mpc' = "s_incombine"
  /\ UNCHANGED <<fopen, fokay, mutex, mi, micol, mallok, job, wpc, we, wcol, asm, scat, failed>>
SCombineEnd ==
  /\ mpc = "s_incombine" /\ mpc' = "endjob"
  /\ UNCHANGED <<fopen, fokay, mutex, mi, micol, mallok, job, wpc, we, wcol, asm, scat, failed>>
SThrow ==       \* the task throws on the master thread: caught in Worker::operator()
  /\ 0 \in MayFail /\ mpc = "s_asm" /\ mpc' = "s_fail"
  /\ UNCHANGED <<fopen, fokay, mutex, mi, micol, mallok, job, wpc, we, wcol, asm, scat, failed>>
SFail ==        \* _thread_fences.at(0).open(false)
  /\ mpc = "s_fail" /\ Open(0, FALSE) /\ failed' = failed \cup {0} /\ mpc' = "endjob"
  /\ UNCHANGED <<mutex, mi, micol, mallok, job, wpc, we, wcol, asm, scat>>
MasterRun == MRunOpenFront \/ MRunOpenBack \/ SAssemble \/ SFinish \/ SPrepare \/ SScatterBegin \/ SScatterEnd \/ SCombineBegin \/ SCombineEnd \/ SThrow \/ SFail

Master == MasterRun \/ MStart \/ MCloseAll \/ MSpawn \/ MOpenFront \/ MJoin \/ MEndJob \/ MColCheck \/ MColOpenFront
          \/ MColWait1 \/ MColClose1 \/ MColCloseFront \/ MColOpenBack \/ MColWait2 \/ MColClose2 \/ MColCloseBack

(***************************************************************************)
(* worker thread w: Worker::operator()                                     *)
(***************************************************************************)
\* pc after the loop over the elements has ended
AfterLoop == IF NeedCombine THEN "lock" ELSE "exit"
\* pc for loop variable value e in the layered / no-scatter loops
LoopPc(w, e) == IF Path = "noscatter" THEN (IF e < NEnd(w) THEN "elem" ELSE AfterLoop)
                ELSE (IF e < LEnd(w) THEN "elem" ELSE AfterLoop)

WBegin(w) ==     \* thread starts, task object is created, work function is chosen
  /\ wpc[w] = "begin"
  /\ CASE Path = "noscatter" -> we' = [we EXCEPT ![w] = NBeg(w)] /\ SetW(w, LoopPc(w, NBeg(w))) /\ UNCHANGED wcol
       [] Path = "layered"   -> SetW(w, "waitfront") /\ UNCHANGED <<we, wcol>>
       [] Path = "colored"   -> wcol' = [wcol EXCEPT ![w] = 0] /\ UNCHANGED we
                                /\ SetW(w, IF NumColors > 0 THEN "c_waitfront" ELSE AfterLoop)
  /\ UNCHANGED <<fopen, fokay, mutex, mpc, mi, micol, mallok, job, asm, scat, failed>>

WThrow(w) ==     \* the task constructor / prepare / assemble throws: catch(...) { okay = false; }
  /\ w \in MayFail /\ wpc[w] \in {"begin", "asm", "c_asm"}
  /\ SetW(w, "fail")
  /\ UNCHANGED <<fopen, fokay, mutex, mpc, mi, micol, mallok, job, we, wcol, asm, scat, failed>>

WFail(w) ==      \* if(!okay) _thread_fences.at(_my_id).open(false);
  /\ wpc[w] = "fail"
  /\ Open(w, FALSE) /\ SetW(w, "exit") /\ failed' = failed \cup {w}
  /\ UNCHANGED <<mutex, mpc, mi, micol, mallok, job, we, wcol, asm, scat>>

\* ---- layered ------------------------------------------------------------------------------
WWaitFront(w) == \* if(!_thread_fences.front().wait()) return false;
  /\ wpc[w] = "waitfront" /\ fopen[0]
  /\ IF fokay[0] THEN we' = [we EXCEPT ![w] = LBeg(w)] /\ SetW(w, LoopPc(w, LBeg(w)))
                 ELSE SetW(w, "fail") /\ UNCHANGED we
  /\ UNCHANGED <<fopen, fokay, mutex, mpc, mi, micol, mallok, job, wcol, asm, scat, failed>>

WPrepare(w) ==   \* task->prepare(cell)
  /\ wpc[w] = "elem" /\ SetW(w, "asm")
  /\ UNCHANGED <<fopen, fokay, mutex, mpc, mi, micol, mallok, job, we, wcol, asm, scat, failed>>

WAssemble(w) ==  \* task->assemble() returned normally
  /\ wpc[w] = "asm"
  /\ asm' = [asm EXCEPT ![we[w]] = @ + 1]
  /\ SetW(w, IF Path = "noscatter" THEN "finish" ELSE IF we[w] = WaitAt(w) THEN "waitnext" ELSE "scatter")
  /\ UNCHANGED <<fopen, fokay, mutex, mpc, mi, micol, mallok, job, we, wcol, scat, failed>>

WFinish(w) ==    \* task->finish(); ++elem
  /\ wpc[w] = "finish"
  /\ we' = [we EXCEPT ![w] = @ + 1] /\ SetW(w, LoopPc(w, we[w] + 1))
  /\ UNCHANGED <<fopen, fokay, mutex, mpc, mi, micol, mallok, job, wcol, asm, scat, failed>>

WWaitNext(w) ==  \* first element of last layer: _thread_fences.at(_my_id+1).wait()
  /\ wpc[w] = "waitnext" /\ fopen[w + 1]
  /\ SetW(w, IF fokay[w + 1] THEN "scatter" ELSE "fail")
  /\ UNCHANGED <<fopen, fokay, mutex, mpc, mi, micol, mallok, job, we, wcol, asm, scat, failed>>

WScatterBegin(w) ==
  /\ wpc[w] \in {"scatter", "c_scatter"}
  /\ SetW(w, IF wpc[w] = "scatter" THEN "inscatter" ELSE "c_inscatter")
  /\ UNCHANGED <<fopen, fokay, mutex, mpc, mi, micol, mallok, job, we, wcol, asm, scat, failed>>

WScatterEnd(w) ==  \* scatter returns
  /\ wpc[w] = "inscatter"
  /\ scat' = [scat EXCEPT ![we[w]] = @ + 1]
  /\ SetW(w, IF we[w] = OpenAt(w) THEN "openprev" ELSE "finish")
  /\ UNCHANGED <<fopen, fokay, mutex, mpc, mi, micol, mallok, job, we, wcol, asm, failed>>

WOpenPrev(w) ==  \* last element of first layer: _thread_fences.at(_my_id).open(true)
  /\ wpc[w] = "openprev"
  /\ Open(w, TRUE) /\ SetW(w, "finish")
  /\ UNCHANGED <<mutex, mpc, mi, micol, mallok, job, we, wcol, asm, scat, failed>>

\* ---- colored ------------------------------------------------------------------------------
CLoopPc(w, c, e) == IF e < CEnd(w, c) THEN "c_elem" ELSE "c_open1"

WColWaitFront(w) ==
  /\ wpc[w] = "c_waitfront" /\ fopen[0]
  /\ IF fokay[0] THEN we' = [we EXCEPT ![w] = CBeg(w, wcol[w])] /\ SetW(w, CLoopPc(w, wcol[w], CBeg(w, wcol[w])))
                 ELSE SetW(w, "fail") /\ UNCHANGED we
  /\ UNCHANGED <<fopen, fokay, mutex, mpc, mi, micol, mallok, job, wcol, asm, scat, failed>>

WColPrepare(w) ==
  /\ wpc[w] = "c_elem" /\ SetW(w, "c_asm")
  /\ UNCHANGED <<fopen, fokay, mutex, mpc, mi, micol, mallok, job, we, wcol, asm, scat, failed>>

WColAssemble(w) ==
  /\ wpc[w] = "c_asm"
  /\ asm' = [asm EXCEPT ![Pos(w)] = @ + 1]
  /\ SetW(w, "c_scatter")
  /\ UNCHANGED <<fopen, fokay, mutex, mpc, mi, micol, mallok, job, we, wcol, scat, failed>>

WColScatterEnd(w) ==
  /\ wpc[w] = "c_inscatter"
  /\ scat' = [scat EXCEPT ![Pos(w)] = @ + 1] /\ SetW(w, "c_finish")
  /\ UNCHANGED <<fopen, fokay, mutex, mpc, mi, micol, mallok, job, we, wcol, asm, failed>>

WColFinish(w) ==
  /\ wpc[w] = "c_finish"
  /\ we' = [we EXCEPT ![w] = @ + 1] /\ SetW(w, CLoopPc(w, wcol[w], we[w] + 1))
  /\ UNCHANGED <<fopen, fokay, mutex, mpc, mi, micol, mallok, job, wcol, asm, scat, failed>>

WColOpen1(w) ==  \* notify master that we're ready
  /\ wpc[w] = "c_open1"
  /\ Open(w, TRUE) /\ SetW(w, "c_waitback")
  /\ UNCHANGED <<mutex, mpc, mi, micol, mallok, job, we, wcol, asm, scat, failed>>

WColWaitBack(w) ==
  /\ wpc[w] = "c_waitback" /\ fopen[Back]
  /\ SetW(w, IF fokay[Back] THEN "c_open2" ELSE "fail")
  /\ UNCHANGED <<fopen, fokay, mutex, mpc, mi, micol, mallok, job, we, wcol, asm, scat, failed>>

WColOpen2(w) ==
  /\ wpc[w] = "c_open2"
  /\ Open(w, TRUE)
  /\ wcol' = [wcol EXCEPT ![w] = @ + 1]
  /\ SetW(w, IF wcol[w] + 1 < NumColors THEN "c_waitfront" ELSE AfterLoop)
  /\ UNCHANGED <<mutex, mpc, mi, micol, mallok, job, we, asm, scat, failed>>

\* ---- combine ------------------------------------------------------------------------------
WLock(w) ==      \* std::unique_lock<std::mutex> lock(_thread_mutex);  (combine begins)
  /\ wpc[w] = "lock" /\ mutex = 0
  /\ mutex' = w /\ SetW(w, "incombine")
  /\ UNCHANGED <<fopen, fokay, mpc, mi, micol, mallok, job, we, wcol, asm, scat, failed>>

WUnlock(w) ==    \* combine returns, lock released
  /\ wpc[w] = "incombine"
  /\ mutex' = 0 /\ SetW(w, "exit")
  /\ UNCHANGED <<fopen, fokay, mpc, mi, micol, mallok, job, we, wcol, asm, scat, failed>>

WEnd(w) ==       \* Worker::operator() returns (the thread becomes joinable-finished)
  /\ wpc[w] = "exit" /\ SetW(w, "ended")
  /\ UNCHANGED <<fopen, fokay, mutex, mpc, mi, micol, mallok, job, we, wcol, asm, scat, failed>>

Worker(w) == WEnd(w) \/ WAssemble(w) \/ WFinish(w) \/ WColAssemble(w) \/ WColFinish(w) \/ WBegin(w) \/ WThrow(w) \/ WFail(w) \/ WWaitFront(w) \/ WPrepare(w) \/ WWaitNext(w) \/ WScatterBegin(w)
             \/ WScatterEnd(w) \/ WOpenPrev(w) \/ WColWaitFront(w) \/ WColPrepare(w) \/ WColScatterEnd(w)
             \/ WColOpen1(w) \/ WColWaitBack(w) \/ WColOpen2(w) \/ WLock(w) \/ WUnlock(w)

Finished == mpc = "start" /\ job = Jobs
Next == Master \/ (\E w \in Workers : Worker(w)) \/ (Finished /\ UNCHANGED vars)

Spec == Init /\ [][Next]_vars
FairSpec == Spec /\ WF_vars(Master) /\ \A w \in Workers : WF_vars(Worker(w))

(***************************************************************************)
(* properties                                                              *)
(***************************************************************************)
InScatter(w) == wpc[w] \in {"inscatter", "c_inscatter"}
\* no two threads scatter concurrently into vertex-adjacent cells (or the same cell)
NoAdjacentScatter ==
  \A a, b \in Workers : a # b /\ InScatter(a) /\ InScatter(b) =>
      Pos(a) # Pos(b) /\ <<Pos(a), Pos(b)>> \notin AdjPairs
CombineExclusive == Cardinality({w \in Workers : wpc[w] = "incombine"}) <= 1
                    /\ (mutex # 0 <=> \E w \in Workers : wpc[w] = "incombine")
\* at the end of a job without failures every selected cell was assembled (and scattered) exactly once
EachCellOnce ==
  mpc = "endjob" /\ failed = {} =>
     \A p \in 0..(NumElems - 1) : asm[p] = 1 /\ scat[p] = (IF NeedScatter THEN 1 ELSE 0)
NeverTwice == \A p \in 0..(NumElems - 1) : asm[p] <= 1 /\ scat[p] <= 1
\* the master only returns after every worker has been joined
JoinedAtEnd == mpc \in {"endjob", "start"} => \A w \in Workers : wpc[w] = "idle"
\* deadlock freedom: TLC's deadlock check (the only terminal state is Finished, which stutters)
Terminates == <>Finished

\* the configuration is what _build_thread_layers promises: every thread owns >= 2 layers
ConfigOK ==
  Path = "layered" /\ W >= 2 =>
    /\ NFences = W + 2 /\ Len(ThreadLayers) = W + 1 /\ TL(0) = 0 /\ TL(W) = Len(LayerElems) - 1
    /\ \A w \in Workers : TL(w - 1) + 2 <= TL(w)
=============================================================================
