SPECIFICATION Spec
CONSTANTS MaxN = 5 ConcatAll = FALSE
INVARIANTS ObjValid SwapLaw CtorLaw InverseLaw ConcatLaw Emit
CHECK_DEADLOCK FALSE
