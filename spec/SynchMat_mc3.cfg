SPECIFICATION FairSpec
CONSTANTS NR = 3 ND = 2 NC = 2 SQUARE = TRUE PVS = {0, 2} BS = 2
INVARIANTS ConvCorrect RoundsAndLengthsMatch NoLostMessage RecvOnce
PROPERTY Terminates
