------------------------------ MODULE Storage ------------------------------
(* Representation-level description of the LAFEM matrix storage formats and *)
(* their abstraction functions Abs*(rep) : the dense integer matrix a       *)
(* container with these raw arrays represents.  Written from the format     *)
(* documentation in the class headers (sparse_matrix_csr.hpp, ..._bcsr.hpp, *)
(* ..._cscr.hpp, ..._banded.hpp, dense_matrix.hpp), independent of any      *)
(* kernel.  All index arrays hold 0-based values exactly as the containers  *)
(* store them; TLA+ sequences themselves are 1-based.                        *)
EXTENDS IntLinAlg, SequencesExt

(***************************************************************************)
(* CSR: rp (m+1 row pointers), ci (column indices), va (values)            *)
(***************************************************************************)
CSRValid(m, n, rep) ==
  /\ Len(rep.rp) = m + 1 /\ rep.rp[1] = 0
  /\ \A i \in 1..m : rep.rp[i] <= rep.rp[i+1]
  /\ rep.rp[m+1] = Len(rep.ci) /\ Len(rep.va) = Len(rep.ci)
  /\ \A k \in 1..Len(rep.ci) : rep.ci[k] \in 0..(n-1)
  /\ \A i \in 1..m : \A k \in (rep.rp[i]+1)..(rep.rp[i+1]-1) : rep.ci[k] < rep.ci[k+1]

AbsCSR(m, n, rep) ==
  [i \in 1..m |-> [j \in 1..n |->
     LET K == {k \in (rep.rp[i]+1)..rep.rp[i+1] : rep.ci[k] = j - 1}
     IN  IF K = {} THEN 0 ELSE rep.va[CHOOSE k \in K : TRUE]]]

PatCSR(m, rep) == {<<i, rep.ci[k] + 1>> : i \in 1..m, k \in 1..Len(rep.ci)} \cap
                  UNION {{<<i, rep.ci[k] + 1>> : k \in (rep.rp[i]+1)..rep.rp[i+1]} : i \in 1..m}

\* the CSR arrays storing exactly pattern P (a set of <<i,j>>) with the values of dense D
RowCols(P, i) == SetToSortSeq({e[2] : e \in {f \in P : f[1] = i}}, <)
CSROf(m, n, D, P) ==
  LET cols(i) == RowCols(P, i)
      cnt[i \in 0..m] == IF i = 0 THEN 0 ELSE cnt[i-1] + Len(cols(i))
  IN  [rp |-> [i \in 1..(m+1) |-> cnt[i-1]],
       ci |-> Flatten([i \in 1..m |-> [k \in 1..Len(cols(i)) |-> cols(i)[k] - 1]]),
       va |-> Flatten([i \in 1..m |-> [k \in 1..Len(cols(i)) |-> D[i][cols(i)[k]]]])]

(***************************************************************************)
(* CSCR: CSR over the listed rows only; rn = the (0-based) numbers of the  *)
(* used rows, strictly increasing; rp has Len(rn)+1 entries                *)
(***************************************************************************)
CSCRValid(m, n, rep) ==
  /\ Len(rep.rp) = Len(rep.rn) + 1 /\ rep.rp[1] = 0
  /\ \A u \in 1..Len(rep.rn) : rep.rn[u] \in 0..(m-1) /\ rep.rp[u] <= rep.rp[u+1]
  /\ \A u \in 1..(Len(rep.rn)-1) : rep.rn[u] < rep.rn[u+1]
  /\ rep.rp[Len(rep.rp)] = Len(rep.ci) /\ Len(rep.va) = Len(rep.ci)
  /\ \A k \in 1..Len(rep.ci) : rep.ci[k] \in 0..(n-1)
  /\ \A u \in 1..Len(rep.rn) : \A k \in (rep.rp[u]+1)..(rep.rp[u+1]-1) : rep.ci[k] < rep.ci[k+1]

AbsCSCR(m, n, rep) ==
  [i \in 1..m |-> [j \in 1..n |->
     LET U == {u \in 1..Len(rep.rn) : rep.rn[u] = i - 1}
     IN  IF U = {} THEN 0
         ELSE LET u == CHOOSE u \in U : TRUE
                  K == {k \in (rep.rp[u]+1)..rep.rp[u+1] : rep.ci[k] = j - 1}
              IN  IF K = {} THEN 0 ELSE rep.va[CHOOSE k \in K : TRUE]]]

\* CSCR arrays for pattern P, listing the rows in R (R must contain every non-empty row of P)
CSCROf(m, n, D, P, R) ==
  LET rows == SetToSortSeq(R, <)
      nu   == Len(rows)
      cols(u) == RowCols(P, rows[u])
      cnt[u \in 0..nu] == IF u = 0 THEN 0 ELSE cnt[u-1] + Len(cols(u))
  IN  [rp |-> [u \in 1..(nu+1) |-> cnt[u-1]],
       rn |-> [u \in 1..nu |-> rows[u] - 1],
       ci |-> Flatten([u \in 1..nu |-> [k \in 1..Len(cols(u)) |-> cols(u)[k] - 1]]),
       va |-> Flatten([u \in 1..nu |-> [k \in 1..Len(cols(u)) |-> D[rows[u]][cols(u)[k]]]])]

(***************************************************************************)
(* BCSR(bh,bw): CSR over blocks; va is a sequence of blocks, each a bh x bw*)
(* matrix; the represented scalar matrix is (mb*bh) x (nb*bw)              *)
(***************************************************************************)
AbsBCSR(mb, nb, bh, bw, rep) ==
  [i \in 1..(mb*bh) |-> [j \in 1..(nb*bw) |->
     LET bi == ((i-1) \div bh) + 1
         li == ((i-1) % bh) + 1
         bj == ((j-1) \div bw) + 1
         lj == ((j-1) % bw) + 1
         K == {k \in (rep.rp[bi]+1)..rep.rp[bi+1] : rep.ci[k] = bj - 1}
     IN  IF K = {} THEN 0 ELSE rep.va[CHOOSE k \in K : TRUE][li][lj]]]

\* BCSR arrays for block pattern BP with scalar values of dense D
BCSROf(mb, nb, bh, bw, D, BP) ==
  LET cols(i) == RowCols(BP, i)
      cnt[i \in 0..mb] == IF i = 0 THEN 0 ELSE cnt[i-1] + Len(cols(i))
      blk(bi, bj) == [li \in 1..bh |-> [lj \in 1..bw |-> D[(bi-1)*bh + li][(bj-1)*bw + lj]]]
  IN  [rp |-> [i \in 1..(mb+1) |-> cnt[i-1]],
       ci |-> Flatten([i \in 1..mb |-> [k \in 1..Len(cols(i)) |-> cols(i)[k] - 1]]),
       va |-> Flatten([i \in 1..mb |-> [k \in 1..Len(cols(i)) |-> blk(i, cols(i)[k])]])]

(***************************************************************************)
(* Banded: offs = strictly increasing diagonal offsets in 0..m+n-2, where  *)
(* offset o holds the entries (i,j) with j = i + o + 1 - m  (1-based; the   *)
(* main diagonal of a square matrix is o = m-1); va has m entries per      *)
(* offset (row-indexed), entries falling outside the matrix are padding.   *)
(***************************************************************************)
BandedValid(m, n, rep) ==
  /\ \A k \in 1..Len(rep.offs) : rep.offs[k] \in 0..(m+n-2)
  /\ \A k \in 1..(Len(rep.offs)-1) : rep.offs[k] < rep.offs[k+1]
  /\ Len(rep.va) = m * Len(rep.offs)

AbsBanded(m, n, rep) ==
  [i \in 1..m |-> [j \in 1..n |->
     LET K == {k \in 1..Len(rep.offs) : j = i + rep.offs[k] + 1 - m}
     IN  IF K = {} THEN 0 ELSE rep.va[((CHOOSE k \in K : TRUE) - 1) * m + i]]]

\* Banded arrays for offset set O with the values of D on those diagonals and `pad` in the padding
BandedOf(m, n, D, O, pad) ==
  LET offs == SetToSortSeq(O, <)
  IN  [offs |-> offs,
       va   |-> Flatten([k \in 1..Len(offs) |-> [i \in 1..m |->
                  LET j == i + offs[k] + 1 - m IN IF j \in 1..n THEN D[i][j] ELSE pad]])]
BandPattern(m, n, O) == {<<i, j>> \in (1..m) \X (1..n) : (j - i + m - 1) \in O}

(***************************************************************************)
(* Dense: row-major values                                                  *)
(***************************************************************************)
AbsDense(m, n, rep) == [i \in 1..m |-> [j \in 1..n |-> rep.va[(i-1)*n + j]]]
DenseOf(m, n, D) == [va |-> Flatten(D)]

\* D restricted to pattern P
RestrictTo(m, n, D, P) == [i \in 1..m |-> [j \in 1..n |-> IF <<i, j>> \in P THEN D[i][j] ELSE 0]]
=============================================================================
