SPECIFICATION Spec
CONSTANT Kind = "saddle"
INVARIANTS LeavesValid Placement Emit
CHECK_DEADLOCK FALSE
