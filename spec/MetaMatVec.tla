----------------------------- MODULE MetaMatVec -----------------------------
(* C01, composed containers: matrix-vector products of the meta matrices     *)
(* SaddlePointMatrix [[A B][D 0]], TupleMatrix (2x2 blocks of different       *)
(* shapes), TupleDiagMatrix (2 and 3 diagonal blocks of different shapes),    *)
(* PowerDiagMatrix, PowerFullMatrix, PowerRowMatrix, PowerColMatrix           *)
(* over CSR leaf blocks.  The represented matrix is the block placement of    *)
(* the leaves' Abs (Storage.tla); vectors are the concatenation of the        *)
(* component vectors (TupleVector / PowerVector).  Calls as in MatVec.tla:    *)
(* apply, apply_transposed and the axpy forms with r aliasing y; each of them *)
(* also through the flat DenseVector overloads.  TLC enumerates the leaf      *)
(* patterns of every block from a palette (empty, full, staircase, single     *)
(* entry, ...) and emits every post-state for the replayer                    *)
(* (harness/c01_metamat.cpp).                                                 *)
EXTENDS Storage, Json, TLC

CONSTANTS Kind      \* "saddle" | "tuple22" | "tdiag2" | "tdiag3" | "pdiag2" | "pfull22" | "prow2" | "pcol2"

VARIABLES ph, M, x, y, r, call
vars == <<ph, M, x, y, r, call>>

\* block grid: row heights / column widths of the composed matrix, and which grid cells hold a leaf
Heights == CASE Kind = "saddle" -> <<2, 1>> [] Kind = "tuple22" -> <<2, 1>> [] Kind = "pdiag2" -> <<2, 2>>
             [] Kind = "tdiag2" -> <<2, 1>> [] Kind = "tdiag3" -> <<1, 2, 1>>
             [] Kind = "pfull22" -> <<2, 2>> [] Kind = "prow2" -> <<2>> [] Kind = "pcol2" -> <<2, 2>>
Widths  == CASE Kind = "saddle" -> <<2, 1>> [] Kind = "tuple22" -> <<2, 1>> [] Kind = "pdiag2" -> <<3, 3>>
             [] Kind = "tdiag2" -> <<3, 2>> [] Kind = "tdiag3" -> <<2, 1, 2>>
             [] Kind = "pfull22" -> <<1, 1>> [] Kind = "prow2" -> <<2, 2>> [] Kind = "pcol2" -> <<2>>
Cells == CASE Kind = "saddle" -> {<<1,1>>, <<1,2>>, <<2,1>>}
           [] Kind = "pdiag2" -> {<<1,1>>, <<2,2>>}
           [] Kind = "tdiag2" -> {<<1,1>>, <<2,2>>}
           [] Kind = "tdiag3" -> {<<1,1>>, <<2,2>>, <<3,3>>}
           [] OTHER -> (1..Len(Heights)) \X (1..Len(Widths))

Val(b, i, j) == LET k == (i - 1) * 3 + j + 4 * (b[1] * 2 + b[2]) IN IF k % 2 = 0 THEN k + 1 ELSE -(k + 2)
\* leaf pattern palette for an h x w block
Pal(h, w) ==
  LET Pos == (1..h) \X (1..w) IN
  <<{}, Pos, {p \in Pos : p[1] = p[2]}, {p \in Pos : p[1] = h /\ p[2] = 1}, {p \in Pos : p[1] <= p[2]} \ {<<1, 1>>}, {p \in Pos : p[1] = 1}>>

RowOff(bi) == LET S[k \in 0..Len(Heights)] == IF k = 0 THEN 0 ELSE S[k-1] + Heights[k] IN S[bi - 1]
ColOff(bj) == LET S[k \in 0..Len(Widths)] == IF k = 0 THEN 0 ELSE S[k-1] + Widths[k] IN S[bj - 1]
TotM == RowOff(Len(Heights) + 1)
TotN == ColOff(Len(Widths) + 1)
BlockOfRow(i) == CHOOSE bi \in 1..Len(Heights) : RowOff(bi) < i /\ i <= RowOff(bi + 1)
BlockOfCol(j) == CHOOSE bj \in 1..Len(Widths) : ColOff(bj) < j /\ j <= ColOff(bj + 1)

\* the dense matrix a composition of leaves represents (leaf: cell -> [m, n, rep])
AbsMeta(leaf) ==
  [i \in 1..TotM |-> [j \in 1..TotN |->
     LET bi == BlockOfRow(i)  bj == BlockOfCol(j) IN
     IF <<bi, bj>> \in Cells THEN AbsCSR(Heights[bi], Widths[bj], leaf[<<bi, bj>>].rep)[i - RowOff(bi)][j - ColOff(bj)] ELSE 0]]

XV(len) == [k \in 1..len |-> IF k % 2 = 1 THEN 2 * k + 1 ELSE -(3 * k - 1)]
YV(len) == [k \in 1..len |-> IF k % 2 = 1 THEN -(7 * k + 4) ELSE 5 * k + 3]
Alphas == {<<0, 1>>, <<1, 1>>, <<-1, 1>>, <<2, 1>>, <<-1, 2>>}

Init ==
  /\ ph = "init"
  /\ \E pick \in [Cells -> 1..6] :
       M = [leaf |-> [b \in Cells |->
                  LET h == Heights[b[1]]  w == Widths[b[2]]
                      D == [i \in 1..h |-> [j \in 1..w |-> Val(b, i, j)]]
                  IN [bi |-> b[1], bj |-> b[2], m |-> h, n |-> w, rep |-> CSROf(h, w, D, Pal(h, w)[pick[b]])]]]
  /\ x = <<>> /\ y = <<>> /\ r = <<>>
  /\ call = [op |-> "none", an |-> 1, ad |-> 1, alias |-> FALSE]

Dense == AbsMeta(M.leaf)
Done(c, xx, yy, rr) == ph' = "done" /\ call' = c /\ x' = xx /\ y' = yy /\ r' = rr /\ UNCHANGED M

Apply  == ph = "init" /\ LET xx == XV(TotN) IN Done([op |-> "apply", an |-> 1, ad |-> 1, alias |-> FALSE], xx, <<>>, MatVec(TotM, TotN, Dense, xx))
ApplyT == ph = "init" /\ LET xx == XV(TotM) IN Done([op |-> "applyT", an |-> 1, ad |-> 1, alias |-> FALSE], xx, <<>>, MatTVec(TotM, TotN, Dense, xx))
ApplyAxpy ==
  /\ ph = "init"
  /\ \E al \in Alphas, alias \in BOOLEAN :
       LET xx == XV(TotN)  yy == YV(TotM) IN
         Done([op |-> "axpy", an |-> al[1], ad |-> al[2], alias |-> alias], xx, yy, Axpy(al[1], MatVec(TotM, TotN, Dense, xx), Scale(al[2], yy)))
ApplyAxpyT ==
  /\ ph = "init"
  /\ \E al \in Alphas, alias \in BOOLEAN :
       LET xx == XV(TotM)  yy == YV(TotN) IN
         Done([op |-> "axpyT", an |-> al[1], ad |-> al[2], alias |-> alias], xx, yy, Axpy(al[1], MatTVec(TotM, TotN, Dense, xx), Scale(al[2], yy)))

Next == Apply \/ ApplyT \/ ApplyAxpy \/ ApplyAxpyT
Spec == Init /\ [][Next]_vars

LeavesValid == \A b \in Cells : CSRValid(M.leaf[b].m, M.leaf[b].n, M.leaf[b].rep)
\* the composition places every leaf entry exactly once: the total of all entries is preserved
SumMat(m, n, D) == SumSeq([i \in 1..m |-> SumSeq(D[i])])
Placement == SumMat(TotM, TotN, Dense) =
             SumSeq([k \in 1..Len(SetToSeq(Cells)) |-> LET b == SetToSeq(Cells)[k] IN
                       SumMat(M.leaf[b].m, M.leaf[b].n, AbsCSR(M.leaf[b].m, M.leaf[b].n, M.leaf[b].rep))])

Emit == ph = "done" =>
  PrintT(ToJson([kind |-> Kind, m |-> TotM, n |-> TotN, heights |-> Heights, widths |-> Widths,
                 leaves |-> SetToSeq({M.leaf[b] : b \in Cells}), dense |-> Dense,
                 op |-> call.op, an |-> call.an, ad |-> call.ad, alias |-> call.alias, x |-> x, y |-> y,
                 r0 |-> [k \in 1..Len(r) |-> 77 + k], exp |-> r]))
=============================================================================
