------------------------------ MODULE AsmXMesh ------------------------------
(* C16 extension (C16x): the mesh side of the specification of the boundary / facet assembly (TraceAssembler), the   *)
(* error computers, the function-integral jobs and the filter assemblers.                                            *)
(*                                                                                                                   *)
(* Everything in here is a constant-level definition evaluated by TLC with exact integer arithmetic:                 *)
(*  (1) a CATALOGUE OF SMALL MESHES given explicitly (integer coordinates X in units of 1/G, cells as tuples of      *)
(*      vertex numbers in FEAT's local numbering, spec/RefCell.tla): tensor grids of axis-parallel boxes (also       *)
(*      anisotropic), their splittings into triangles / Kuhn tetrahedra, and the straight-sided two-cell /           *)
(*      parallelogram meshes of the existing C16 check; every mesh in several RE-NUMBERED / RE-ORIENTED VARIANTS     *)
(*      (vertex permutation, cell permutation, a rotation of the reference cell per cell from RefCell!Rot);          *)
(*  (2) the FACETS of a mesh as vertex sets with their adjacent (cell, local facet) pairs -- the numbering of the    *)
(*      facets inside FEAT is never needed, a facet is identified by its vertices;                                   *)
(*  (3) EXACT FACET INTEGRALS of monomials:  int_f x^e dS  for segments (any direction), axis-parallel rectangles    *)
(*      and triangles with axis-parallel legs, and the outer-normal fluxes  int_f x^e n_k dS;                        *)
(*      a value is a record  [d |-> den, t |-> << <<num, r>>, ... >>]  standing for  sum num * sqrt(r) / den         *)
(*      (r = 1: rational; r > 1 only for slanted segments, whose length is the square root of an integer);           *)
(*  (4) exact DOMAIN MOMENTS (unit boxes: closed form; 2D straight-sided meshes: triangle closed forms of            *)
(*      spec/Assembly.tla).                                                                                          *)
EXTENDS Integers, Sequences, FiniteSets, TLC, SequencesExt

RC == INSTANCE RefCell
A == INSTANCE Assembly WITH DegSlack <- 0, PlanShapes <- {}, PlanDims <- {}, PairKind <- "same", plan <- 0

SumA(s) == A!SumA(s)
PowA(b, k) == A!PowA(b, k)
RangeA(s) == {s[k] : k \in 1..Len(s)}
Abs(x) == IF x < 0 THEN -x ELSE x
Sgn(x) == IF x < 0 THEN -1 ELSE IF x > 0 THEN 1 ELSE 0
\* ascending tuple of a finite set of integers
SortedSeq(S) == RC!SortedTuple(S)
\* a deterministic enumeration of any finite set
SetSeq(S) == SetToSeq(S)
RECURSIVE Gcd(_, _)
Gcd(a, b) == IF b = 0 THEN a ELSE Gcd(b, a % b)
Binom(n, k) == LET f(m) == IF m <= 1 THEN 1 ELSE IF m = 2 THEN 2 ELSE IF m = 3 THEN 6 ELSE IF m = 4 THEN 24 ELSE IF m = 5 THEN 120 ELSE 720
               IN f(n) \div (f(k) * f(n - k))
Fact(m) == IF m <= 1 THEN 1 ELSE IF m = 2 THEN 2 ELSE IF m = 3 THEN 6 ELSE IF m = 4 THEN 24 ELSE IF m = 5 THEN 120
           ELSE IF m = 6 THEN 720 ELSE IF m = 7 THEN 5040 ELSE 40320

\* ------------------------------------------------------------------------------------------------------------------
\* (1) meshes.   [name, shape, dim, class, cs, X, cells]   coordinates = X / 2^cs,  G = 2^cs
\* ------------------------------------------------------------------------------------------------------------------
\* tensor grid on the lines xs (x) ys [(x) zs]; vertex (i,j,k) has the number i + j*nx + k*nx*ny
GridX2(xs, ys) == TLCEval([v \in 1..(Len(xs) * Len(ys)) |-> <<xs[((v - 1) % Len(xs)) + 1], ys[((v - 1) \div Len(xs)) + 1]>>])
GridX3(xs, ys, zs) ==
  TLCEval([v \in 1..(Len(xs) * Len(ys) * Len(zs)) |->
     <<xs[((v - 1) % Len(xs)) + 1], ys[(((v - 1) \div Len(xs)) % Len(ys)) + 1], zs[((v - 1) \div (Len(xs) * Len(ys))) + 1]>>])
\* the corners of grid cell q (0-based) in hypercube numbering (bit 0 = x, bit 1 = y, bit 2 = z)
Corner2(nx, ny, q, b) == ((q % (nx - 1)) + RC!Bit(b, 0)) + ((q \div (nx - 1)) + RC!Bit(b, 1)) * nx
Corner3(nx, ny, nz, q, b) ==
  LET i == q % (nx - 1)   j == (q \div (nx - 1)) % (ny - 1)   k == q \div ((nx - 1) * (ny - 1))
  IN (i + RC!Bit(b, 0)) + (j + RC!Bit(b, 1)) * nx + (k + RC!Bit(b, 2)) * nx * ny
Quads(nx, ny) == TLCEval([c \in 1..((nx - 1) * (ny - 1)) |-> TLCEval([b \in 1..4 |-> Corner2(nx, ny, c - 1, b - 1)])])
Hexas(nx, ny, nz) == TLCEval([c \in 1..((nx - 1) * (ny - 1) * (nz - 1)) |-> TLCEval([b \in 1..8 |-> Corner3(nx, ny, nz, c - 1, b - 1)])])
\* two positively oriented triangles per grid cell, the diagonal alternating with the parity of the cell
TriCorners == << << <<0, 1, 3>>, <<0, 3, 2>> >>, << <<0, 1, 2>>, <<1, 3, 2>> >> >>
Trias(nx, ny) ==
  TLCEval([c \in 1..(2 * (nx - 1) * (ny - 1)) |->
     LET q == (c - 1) \div 2   h == (c - 1) % 2
         par == ((q % (nx - 1)) + (q \div (nx - 1))) % 2
     IN TLCEval([b \in 1..3 |-> Corner2(nx, ny, q, TriCorners[par + 1][h + 1][b])])])
\* Kuhn's splitting of a box into six positively oriented tetrahedra around the diagonal corner 0 -- corner 7
KuhnCorners == << <<0, 1, 3, 7>>, <<0, 5, 1, 7>>, <<0, 3, 2, 7>>, <<0, 2, 6, 7>>, <<0, 4, 5, 7>>, <<0, 6, 4, 7>> >>
Tetras(nx, ny, nz) ==
  TLCEval([c \in 1..(6 * (nx - 1) * (ny - 1) * (nz - 1)) |->
     TLCEval([b \in 1..4 |-> Corner3(nx, ny, nz, (c - 1) \div 6, KuhnCorners[((c - 1) % 6) + 1][b])])])

MeshRec(name, shape, dim, class, cs, X, cells) ==
  [name |-> name, shape |-> shape, dim |-> dim, class |-> class, cs |-> cs, X |-> X, cells |-> cells]
BoxMesh2(name, shape, cs, xs, ys) ==
  MeshRec(name, shape, 2, "box", cs, GridX2(xs, ys), IF shape = "hypercube" THEN Quads(Len(xs), Len(ys)) ELSE Trias(Len(xs), Len(ys)))
BoxMesh3(name, shape, cs, xs, ys, zs) ==
  MeshRec(name, shape, 3, "box", cs, GridX3(xs, ys, zs),
          IF shape = "hypercube" THEN Hexas(Len(xs), Len(ys), Len(zs)) ELSE Tetras(Len(xs), Len(ys), Len(zs)))

\* the catalogue: tier 0 = quick, 1 = thorough only.  The straight-sided meshes are those of checks/C16.py
\* (twoquad: a trapezoid -- non-affine -- glued to a rectangle; parallelograms; twotria)
Catalogue ==
  << [t |-> 0, m |-> BoxMesh2("q11", "hypercube", 0, <<0, 1>>, <<0, 1>>)],
     [t |-> 0, m |-> BoxMesh2("q22a", "hypercube", 2, <<0, 1, 4>>, <<0, 2, 4>>)],
     [t |-> 1, m |-> BoxMesh2("q32", "hypercube", 2, <<0, 1, 2, 4>>, <<0, 3, 4>>)],
     [t |-> 0, m |-> MeshRec("twoquad", "hypercube", 2, "general", 2,
                             << <<0, 0>>, <<4, 0>>, <<0, 4>>, <<4, 2>>, <<8, 0>>, <<8, 4>> >>, << <<0, 1, 2, 3>>, <<4, 5, 1, 3>> >>)],
     [t |-> 0, m |-> MeshRec("para", "hypercube", 2, "affine", 2,
                             << <<0, 0>>, <<2, 0>>, <<4, 0>>, <<1, 2>>, <<3, 2>>, <<5, 2>>, <<2, 4>>, <<4, 4>>, <<6, 4>> >>,
                             << <<0, 1, 3, 4>>, <<1, 2, 4, 5>>, <<3, 4, 6, 7>>, <<4, 5, 7, 8>> >>)],
     [t |-> 0, m |-> BoxMesh2("t11", "simplex", 0, <<0, 1>>, <<0, 1>>)],
     [t |-> 0, m |-> BoxMesh2("t22a", "simplex", 2, <<0, 1, 4>>, <<0, 2, 4>>)],
     [t |-> 0, m |-> MeshRec("twotria", "simplex", 2, "affine", 2,
                             << <<0, 0>>, <<8, 0>>, <<2, 6>>, <<10, 4>> >>, << <<0, 1, 2>>, <<3, 2, 1>> >>)],
     [t |-> 0, m |-> BoxMesh3("h111", "hypercube", 0, <<0, 1>>, <<0, 1>>, <<0, 1>>)],
     [t |-> 0, m |-> BoxMesh3("h211a", "hypercube", 2, <<0, 1, 4>>, <<0, 4>>, <<0, 4>>)],
     [t |-> 1, m |-> BoxMesh3("h222a", "hypercube", 1, <<0, 1, 2>>, <<0, 1, 2>>, <<0, 1, 2>>)],
     \* a frustum: non-affine hexahedron whose faces x = 0 and y = 0 are planar TRAPEZOIDS (the Jacobian of the facet varies, so the
     \* orientation of the cubature points on the facet matters), z = 0 and z = 1 are squares, the other two faces are slanted
     [t |-> 0, m |-> MeshRec("hfrust", "hypercube", 3, "general", 1,
                             << <<0, 0, 0>>, <<2, 0, 0>>, <<0, 2, 0>>, <<2, 2, 0>>, <<0, 0, 2>>, <<1, 0, 2>>, <<0, 1, 2>>, <<1, 1, 2>> >>,
                             << <<0, 1, 2, 3, 4, 5, 6, 7>> >>)],
     [t |-> 0, m |-> BoxMesh3("s111", "simplex", 0, <<0, 1>>, <<0, 1>>, <<0, 1>>)],
     [t |-> 1, m |-> BoxMesh3("s211a", "simplex", 1, <<0, 1, 2>>, <<0, 2>>, <<0, 2>>)] >>

MeshG(M) == PowA(2, M.cs)
NV(M) == Len(M.X)
NC(M) == Len(M.cells)
NVC(M) == RC!NVerts(M.shape, M.dim)            \* vertices per cell
Pt(M, v) == M.X[v + 1]                         \* coordinates of vertex v (0-based number)
CellPts(M, c) == [k \in 1..Len(M.cells[c]) |-> Pt(M, M.cells[c][k])]

\* ---- re-numbered / re-oriented variants --------------------------------------------------------------------------
\* variant 0 = the mesh as generated.  variant k >= 1: vertex v becomes (a*v + k) mod nv with a the k-th number > 1 coprime to nv;
\* cell c is rotated by the symmetry number (5c + 3k) mod |Rot| of its reference cell and moved to position (a2*c + k) mod nc.
\* (a vertex/cell permutation plus per-cell rotations is exactly what lib/vmeshlib.renumber draws at random for C10/C16)
RECURSIVE KthCoprime(_, _, _)
KthCoprime(n, k, from) == IF n <= 2 THEN 1
                          ELSE IF Gcd(from, n) = 1 THEN (IF k <= 1 THEN from ELSE KthCoprime(n, k - 1, from + 1))
                          ELSE KthCoprime(n, k, from + 1)
Rots(shape, dim) == SetSeq(RC!Rot(shape, dim))
Variant(M, k) ==
  IF k = 0 THEN M ELSE
  LET nv == NV(M)   nc == NC(M)
      a == KthCoprime(nv, k, 2)   a2 == KthCoprime(nc, k, 2)
      vp(v) == (a * v + k) % nv
      cp(c) == (a2 * c + k) % nc                     \* 0-based old cell -> 0-based new position
      R == Rots(M.shape, M.dim)
      rot(c) == R[((5 * c + 3 * k) % Len(R)) + 1]
      newcell(c) == TLCEval([q \in 1..NVC(M) |-> vp(M.cells[c + 1][rot(c)[q] + 1])])
      oldv(w) == CHOOSE v \in 0..(nv - 1) : vp(v) = w
      oldc(p) == CHOOSE c \in 0..(nc - 1) : cp(c) = p
  IN [M EXCEPT !.X = TLCEval([w \in 1..nv |-> M.X[oldv(w - 1) + 1]]),
               !.cells = TLCEval([p \in 1..nc |-> newcell(oldc(p - 1))])]

\* every cell of every mesh must be a valid FEAT cell: positive orientation (at every corner)
MeshValid(M) == \A c \in 1..NC(M) : RC!CellPositive(M.shape, M.dim, CellPts(M, c))

\* ------------------------------------------------------------------------------------------------------------------
\* (2) facets
\* ------------------------------------------------------------------------------------------------------------------
NLF(M) == RC!NFaces(M.shape, M.dim, M.dim - 1)        \* local facets per cell
\* vertex tuple (global numbers) of local facet l (0-based) of cell c (1-based position), in the cell's local order
\* (the local facet tables of RefCell.tla, evaluated once)
FT_h2 == RC!FaceTable("hypercube", 2, 1)
FT_h3 == RC!FaceTable("hypercube", 3, 2)
FT_s2 == RC!FaceTable("simplex", 2, 1)
FT_s3 == RC!FaceTable("simplex", 3, 2)
LocalFacet(shape, dim, l) == (IF shape = "hypercube" THEN (IF dim = 2 THEN FT_h2 ELSE FT_h3) ELSE (IF dim = 2 THEN FT_s2 ELSE FT_s3))[l + 1]
FacetTuple(M, c, l) == LET fv == LocalFacet(M.shape, M.dim, l) IN [i \in 1..Len(fv) |-> M.cells[c][fv[i] + 1]]
\* all (cell, local facet) pairs; a facet is the vertex SET
CellFacets(M) == {<<c, l>> : c \in 1..NC(M), l \in 0..(NLF(M) - 1)}
FacetOf(M, cl) == RangeA(FacetTuple(M, cl[1], cl[2]))
Facets(M) == {FacetOf(M, cl) : cl \in CellFacets(M)}
AdjOf(M, F) == {cl \in CellFacets(M) : FacetOf(M, cl) = F}
IsBoundaryFacet(M, F) == Cardinality(AdjOf(M, F)) = 1
IsInnerFacet(M, F) == Cardinality(AdjOf(M, F)) = 2
\* conforming mesh: every facet belongs to one or two cells
MeshConforming(M) == \A F \in Facets(M) : Cardinality(AdjOf(M, F)) \in {1, 2}

\* ------------------------------------------------------------------------------------------------------------------
\* (3) facet geometry and exact facet integrals, per (cell, local facet) pair cl
\* ------------------------------------------------------------------------------------------------------------------
FPts(M, cl) == LET t == FacetTuple(M, cl[1], cl[2]) IN [i \in 1..Len(t) |-> Pt(M, t[i])]
Sub(p, q) == [a \in 1..Len(p) |-> p[a] - q[a]]
Dot(p, q) == SumA([a \in 1..Len(p) |-> p[a] * q[a]])
Cross(a, b) == <<a[2] * b[3] - a[3] * b[2], a[3] * b[1] - a[1] * b[3], a[1] * b[2] - a[2] * b[1]>>
AxisOf(v) == IF Cardinality({a \in 1..Len(v) : v[a] # 0}) = 1 THEN CHOOSE a \in 1..Len(v) : v[a] # 0 ELSE 0

\* kind of the facet: "seg" (2D, any direction), "rect" (3D hypercube, axis-parallel parallelogram spanned by the edges leaving
\* its first vertex), "rtri" (3D simplex: two edges leaving one of its vertices are parallel to two different axes), "aquad"
\* (3D hypercube meshes of class "general": any quadrilateral lying in a plane x_g = const, split into two triangles), "other"
\* FBase = [o |-> origin, a |-> first edge vector, b |-> second edge vector (3D)]
RtriApex(P) == {r \in 1..3 : LET o == {1, 2, 3} \ {r}
                                 q1 == CHOOSE x \in o : TRUE   q2 == CHOOSE x \in o : x # q1
                             IN AxisOf(Sub(P[q1], P[r])) # 0 /\ AxisOf(Sub(P[q2], P[r])) # 0
                                /\ AxisOf(Sub(P[q1], P[r])) # AxisOf(Sub(P[q2], P[r]))}
FKind(M, cl) ==
  LET P == FPts(M, cl) IN
  IF M.dim = 2 THEN "seg"
  ELSE IF M.shape = "hypercube" /\ M.class = "general" THEN
    (IF \E g \in 1..3 : \A i \in 1..4 : P[i][g] = P[1][g] THEN "aquad" ELSE "other")
  ELSE IF M.shape = "hypercube" THEN
    (IF AxisOf(Sub(P[2], P[1])) # 0 /\ AxisOf(Sub(P[3], P[1])) # 0 /\ AxisOf(Sub(P[2], P[1])) # AxisOf(Sub(P[3], P[1]))
        /\ Sub(P[4], P[3]) = Sub(P[2], P[1]) THEN "rect" ELSE "other")
  ELSE (IF RtriApex(P) # {} THEN "rtri" ELSE "other")
FBase(M, cl) ==
  LET P == FPts(M, cl) IN
  IF M.dim = 2 THEN [o |-> P[1], a |-> Sub(P[2], P[1]), b |-> <<0, 0>>]
  ELSE IF M.shape = "hypercube" THEN [o |-> P[1], a |-> Sub(P[2], P[1]), b |-> Sub(P[3], P[1])]
  ELSE LET r == CHOOSE x \in RtriApex(P) : TRUE
           q1 == CHOOSE x \in {1, 2, 3} \ {r} : TRUE   q2 == CHOOSE x \in {1, 2, 3} \ {r} : x # q1
       IN [o |-> P[r], a |-> Sub(P[q1], P[r]), b |-> Sub(P[q2], P[r])]

\* the (non-normalised) normal N of the facet with |N| = Jacobian of the parametrisation over the reference facet, oriented
\* OUTWARD with respect to the cell of the pair:  2D: N = +-(a_2, -a_1), |N| = length;  3D: N = +-(a x b), |N| = area of the
\* spanned parallelogram.  Outward: N . (p - x_v) >= 0 for every vertex v of the (convex) cell, > 0 for one of them.
RawNormal(M, cl) == LET B == FBase(M, cl) IN IF M.dim = 2 THEN <<B.a[2], -B.a[1]>> ELSE Cross(B.a, B.b)
OutSign(M, cl) ==
  LET N == RawNormal(M, cl)   B == FBase(M, cl)
      s == SumA([k \in 1..NVC(M) |-> Dot(N, Sub(B.o, Pt(M, M.cells[cl[1]][k])))])
  IN Sgn(s)
OutNormal(M, cl) == LET N == RawNormal(M, cl) IN [a \in 1..M.dim |-> OutSign(M, cl) * N[a]]
\* squared Jacobian (integer); the measure of the facet is sqrt(FJac2)/G^(dim-1) times the measure of the reference facet
FJac2(M, cl) == LET N == RawNormal(M, cl) IN Dot(N, N)
\* 3D facets of the supported kinds have an axis-parallel normal: the Jacobian itself is an integer
FJac3(M, cl) == LET N == RawNormal(M, cl) IN Abs(N[1]) + Abs(N[2]) + Abs(N[3])

\* common denominator of the reference integrals:  1/(i+1) for i <= 6;  i! j! / (i+j+2)! for i + j <= 5
LSeg == 420
LSeg3 == 60
LTri == 2520
\* LSeg3 * int_0^1 (p + t h)^e dt   (3D: degrees <= 4)
I1s(p, h, e) == SumA([i \in 1..(e + 1) |-> Binom(e, i - 1) * PowA(p, e - (i - 1)) * PowA(h, i - 1) * (LSeg3 \div i)])
\* segment in 2D:  LSeg * int_0^1 (o1 + t a1)^e1 (o2 + t a2)^e2 dt
ISeg(o, a, e) ==
  SumA([i \in 1..(e[1] + 1) |-> SumA([j \in 1..(e[2] + 1) |->
     Binom(e[1], i - 1) * PowA(o[1], e[1] - (i - 1)) * PowA(a[1], i - 1)
     * Binom(e[2], j - 1) * PowA(o[2], e[2] - (j - 1)) * PowA(a[2], j - 1) * (LSeg \div (i + j - 1))])])
\* rectangle in 3D with edges a, b along two different axes:  every coordinate depends on at most one parameter;
\* LSeg3^2 * int int prod_k (o_k + s a_k + t b_k)^e_k ds dt  (the coordinate normal to the facet contributes o_k^e_k)
IRect(o, a, b, e) ==
  LET f(k) == IF a[k] = 0 /\ b[k] = 0 THEN PowA(o[k], e[k]) ELSE I1s(o[k], a[k] + b[k], e[k])
  IN f(1) * f(2) * f(3)
\* right triangle in 3D, legs a (axis alpha) and b (axis beta) leaving the apex o:
\* LTri * int_{s,t >= 0, s+t <= 1} (o_al + s a_al)^e_al (o_be + t b_be)^e_be o_ga^e_ga ds dt,   int s^i t^j = i! j! / (i+j+2)!
ITri(o, a, b, e) ==
  LET al == AxisOf(a)   be == AxisOf(b)   ga == CHOOSE g \in 1..3 : g # al /\ g # be
  IN PowA(o[ga], e[ga]) *
     SumA([i \in 1..(e[al] + 1) |-> SumA([j \in 1..(e[be] + 1) |->
        Binom(e[al], i - 1) * PowA(o[al], e[al] - (i - 1)) * PowA(a[al], i - 1)
        * Binom(e[be], j - 1) * PowA(o[be], e[be] - (j - 1)) * PowA(b[be], j - 1)
        * ((LTri * Fact(i - 1) * Fact(j - 1)) \div Fact(i + j))])])
\* everything the integrals need to know about a (cell, local facet) pair, computed once per mesh
FInfo(M, cl) ==
  LET kd == FKind(M, cl) IN
  IF kd = "other" THEN [k |-> kd, o |-> << >>, a |-> << >>, b |-> << >>, j2 |-> 0, j3 |-> 0, n |-> << >>]
  ELSE IF kd = "aquad" THEN
       \* the integral IRef of this kind carries the measure: j3 = 1, n = the outer UNIT normal (+- a unit vector)
       [k |-> kd, o |-> FPts(M, cl), a |-> << >>, b |-> << >>, j2 |-> 0, j3 |-> 1, n |-> [x \in 1..3 |-> Sgn(OutNormal(M, cl)[x])]]
  ELSE LET B == FBase(M, cl) IN
       [k |-> kd, o |-> B.o, a |-> B.a, b |-> B.b, j2 |-> FJac2(M, cl), j3 |-> (IF M.dim = 3 THEN FJac3(M, cl) ELSE 0), n |-> OutNormal(M, cl)]
FInfoTable(M) == TLCEval([cl \in CellFacets(M) |-> FInfo(M, cl)])
\* reference integral of x^e over the facet of the pair, times IRefDen(kind); coordinates in integer units (x = X/G)
\* any triangle o, o+a, o+b in the plane x_g = const:  LTri * |a x b| * int_{ref triangle} (o + s a + t b)^e ds dt
\* ((o + s a + t b)_k)^n = sum_{i+j<=n} n!/(i! j! (n-i-j)!) o^(n-i-j) a^i b^j s^i t^j)
Multi(n, i, j) == Fact(n) \div (Fact(i) * Fact(j) * Fact(n - i - j))
ITriG(o, a, b, e) ==
  LET ga == CHOOSE g \in 1..3 : a[g] = 0 /\ b[g] = 0
      al == CHOOSE x \in 1..3 : x # ga   be == CHOOSE x \in 1..3 : x # ga /\ x # al
      IJ(n) == SetSeq({p \in (0..n) \X (0..n) : p[1] + p[2] <= n})
      A1 == IJ(e[al])   B1 == IJ(e[be])
      c(k, n, p) == Multi(n, p[1], p[2]) * PowA(o[k], n - p[1] - p[2]) * PowA(a[k], p[1]) * PowA(b[k], p[2])
  IN PowA(o[ga], e[ga]) * Abs(Cross(a, b)[ga]) *
     SumA([q \in 1..Len(A1) |-> SumA([r \in 1..Len(B1) |->
        c(al, e[al], A1[q]) * c(be, e[be], B1[r])
        * ((LTri * Fact(A1[q][1] + B1[r][1]) * Fact(A1[q][2] + B1[r][2])) \div Fact(A1[q][1] + B1[r][1] + A1[q][2] + B1[r][2] + 2))])])
\* quadrilateral P (hypercube numbering 00, 10, 01, 11) in an axis plane = triangles (P1, P2, P4) and (P1, P4, P3)
IQuadA(P, e) == ITriG(P[1], Sub(P[2], P[1]), Sub(P[4], P[1]), e) + ITriG(P[1], Sub(P[4], P[1]), Sub(P[3], P[1]), e)
IRef(fi, e) ==
  CASE fi.k = "seg" -> ISeg(fi.o, fi.a, e) [] fi.k = "rect" -> IRect(fi.o, fi.a, fi.b, e) [] fi.k = "rtri" -> ITri(fi.o, fi.a, fi.b, e)
    [] fi.k = "aquad" -> IQuadA(fi.o, e)
IRefDen(kind) == CASE kind = "seg" -> LSeg [] kind = "rect" -> LSeg3 * LSeg3 [] kind = "rtri" -> LTri [] kind = "aquad" -> LTri
TotDeg(e) == SumA(e)

\* ---- values:  [d |-> den, t |-> << <<num, r>> ... >>]  =  sum num * sqrt(r) / den ---------------------------------------
\* Sel = a set of (cell, local facet) pairs; FI = FInfoTable of the mesh; a mesh has facets of one supported kind (or "other")
DefKind(M) == IF M.dim = 2 THEN "seg" ELSE IF M.shape = "hypercube" THEN (IF M.class = "general" THEN "aquad" ELSE "rect") ELSE "rtri"
SelSupported(FI, Sel) == \A cl \in Sel : FI[cl].k # "other"
\* int over Sel of x^e dS  (every pair counts: an inner facet selected with both adjacent cells counts twice)
\* (IR = table of the reference integrals  IR[cl][e] = IRef(FI[cl], e), computed once per mesh)
IRefTable(FI, CF, Exps) == TLCEval([cl \in CF |-> TLCEval([e \in Exps |-> IF FI[cl].k = "other" THEN 0 ELSE IRef(FI[cl], e)])])
MomVal(M, FI, IR, Sel, e) ==
  LET den == IRefDen(DefKind(M)) * PowA(MeshG(M), TotDeg(e) + M.dim - 1)
  IN IF M.dim = 2 THEN
       LET rq == SetSeq({FI[cl].j2 : cl \in Sel})
           grp(r) == LET S == SetSeq({cl \in Sel : FI[cl].j2 = r}) IN SumA([q \in 1..Len(S) |-> IR[S[q]][e]])
       IN [d |-> den, t |-> [q \in 1..Len(rq) |-> <<grp(rq[q]), rq[q]>>]]
     ELSE LET S == SetSeq(Sel) IN
       [d |-> den, t |-> << <<SumA([q \in 1..Len(S) |-> FI[S[q]].j3 * IR[S[q]][e]]), 1>> >>]
\* int over Sel of x^e n_k dS with n the outer unit normal of the pair's cell (rational: |N| cancels)
FluxVal(M, FI, IR, Sel, e, k) ==
  LET S == SetSeq(Sel)
  IN [d |-> IRefDen(DefKind(M)) * PowA(MeshG(M), TotDeg(e) + M.dim - 1),
      t |-> << <<SumA([q \in 1..Len(S) |-> FI[S[q]].n[k] * IR[S[q]][e]]), 1>> >>]
\* an upper bound of  int over Sel of |x^e| dS  as a value (all coordinates of the catalogue are >= 0: it is the integral itself
\* for the 1-norm of the direction instead of the length), used as the magnitude of the rounding bounds
ZeroE(dim) == [k \in 1..dim |-> 0]
MagOf(v) == [d |-> v.d, t |-> [q \in 1..Len(v.t) |-> <<Abs(v.t[q][1]), v.t[q][2]>>]]

\* ------------------------------------------------------------------------------------------------------------------
\* (4) domain moments:  int_Omega x^e dx  as [n |-> num, d |-> den]
\* ------------------------------------------------------------------------------------------------------------------
BoxDen(dim) == PowA(A!BoxL, dim)
\* 2D straight-sided meshes: 24 * G^(deg+2) * int x^e = sum of the triangle closed forms (total degree <= 2)
PolyMom(M, e) ==
  SumA([c \in 1..NC(M) |->
     LET T == A!CellTris(M.shape, CellPts(M, c)) IN SumA([q \in 1..Len(T) |-> A!TriMom24(T[q][1], T[q][2], T[q][3], e)])])
\* the moment of x^e over the domain of the mesh: [n, d];  defined iff DomMomOK
DomMomOK(M, e) == IF M.class = "box" THEN A!BoxOK(e) ELSE M.dim = 2 /\ TotDeg(e) <= 2
DomMom(M, e) == IF M.class = "box" THEN [n |-> A!MomBox(e), d |-> BoxDen(M.dim)]
                ELSE [n |-> PolyMom(M, e), d |-> A!PolyScale(MeshG(M), TotDeg(e))]
\* barycentre value of the monomial x^e at the entity with vertex set E:  prod_k (sum_v X_v[k])^e_k / (|E| G)^|e|
BaryVal(M, E, e) ==
  LET S == SetSeq(E)
      sumc(a) == SumA([q \in 1..Len(S) |-> Pt(M, S[q])[a]])
  IN [n |-> A!ProdA([a \in 1..M.dim |-> PowA(sumc(a), e[a])]), d |-> PowA(Cardinality(E) * MeshG(M), TotDeg(e))]

\* the class claimed by the catalogue is what the coordinates say: box = axis-parallel cells tiling [0,1]^dim
ClassOK(M) ==
  /\ M.class = "box" =>
       /\ \A v \in 1..NV(M) : \A a \in 1..M.dim : M.X[v][a] \in 0..MeshG(M)
       /\ SumA([c \in 1..NC(M) |-> RC!CellVolScaled(M.shape, M.dim, CellPts(M, c))])
            = RC!VolUnit(M.shape, M.dim) * PowA(MeshG(M), M.dim)
       /\ M.shape = "hypercube" => \A c \in 1..NC(M) : \A l \in 0..(NLF(M) - 1) : FKind(M, <<c, l>>) \in {"seg", "rect"}
       /\ M.shape = "hypercube" /\ M.dim = 2 => \A c \in 1..NC(M) : \A l \in 0..3 : AxisOf(FBase(M, <<c, l>>).a) # 0
  /\ M.class = "affine" /\ M.shape = "hypercube" => M.dim = 2 /\ \A c \in 1..NC(M) : (LET P == CellPts(M, c) IN \A a \in 1..2 : P[1][a] + P[4][a] = P[2][a] + P[3][a])
=============================================================================
