------------------------------ MODULE MGCycleGen ------------------------------
(* C09 (G): generator of multigrid histories with the results predicted by the specification.            *)
(*                                                                                                      *)
(* A state is a hierarchy (number of levels N, presence of pre-/post-/peak-smoothers and coarse solvers  *)
(* on the levels: uniform, or uniform with ONE level k carrying the complementary combination) plus a    *)
(* history of applications of one MultiGrid object on it:                                                *)
(*     ctor(cycle, top, crs) [set_adapt_cgc]  apply(d1)   { again | set_cycle | set_levels | all }  apply(d2) *)
(* Every application record carries  calls = Calls(Decl(...))  - the documented cycle expanded to the    *)
(* calls of the user supplied objects - and  cor = Apply(...)  - the correction as computed from the     *)
(* denotation over Z_p.  The specification's semantics of a history: every application is a function of  *)
(* its own configuration and defect only (no state is carried from one application to the next).         *)
(* The invariant Emit prints each complete history as one JSON case for harness/c09_mgmock.cpp.          *)
EXTENDS MGCycle, Json

CONSTANTS Ns,        \* hierarchy sizes (number of levels, 1..7)
          SubRanges, \* TRUE: all sub-ranges top..crs of the hierarchy, FALSE: only the full range 0..N-1
          Cycles,    \* cycles of the first application (subset of 0..2)
          Adapts,    \* adaptive coarse grid correction modes of the first application (subset of 0..2)
          MaxWL,     \* W-cycles only on sub-ranges with at most MaxWL levels above the coarse level
          Family,    \* "uniform" | "onediff"
          Bases,     \* base presence combinations, subset of 0..7 (bit 0 pre, bit 1 post, bit 2 peak)
          Depth,     \* applications per history (1 or 2)
          Succs,     \* kinds of second steps, subset of {"again", "cycle", "levels", "adapt", "all"}
          LinMaxL    \* linearity law checked for L < LinMaxL (fixed coarse grid correction), 0 = off

VARIABLES hier, hist
vars == <<hier, hist>>

Bit(b, n) == (b \div Pow2(n)) % 2 = 1
Hiers ==
  {[N |-> n, pre |-> Bit(b, 0), post |-> Bit(b, 1), peak |-> Bit(b, 2), cs |-> cs, k |-> k,
    share |-> (Bit(b, 0) /\ Bit(b, 1) /\ ~cs /\ k < 0)] :     \* on this sub-family ONE object serves as pre- and post-smoother
      n \in Ns, b \in Bases, cs \in BOOLEAN, k \in (IF Family = "uniform" THEN {-1} ELSE 0..6)}
FlagsOf(h) == [l \in 0..MaxLevAll |->
  IF l = h.k THEN [pre |-> ~h.pre, post |-> ~h.post, peak |-> ~h.peak, cs |-> ~h.cs]
  ELSE [pre |-> h.pre, post |-> h.post, peak |-> h.peak, cs |-> h.cs]]

CrsArg(n, top, crs) == IF crs = n - 1 /\ top % 2 = 0 THEN -1           \* the constructor's default
                       ELSE IF (top + crs) % 3 = 0 THEN crs - n         \* general negative form: size_virtual + crs_level
                       ELSE crs

MkApp(h, how, cyc, top, crs, adapt, dk) ==
  LET c == [top |-> top, crs |-> crs, adapt |-> adapt, fl |-> FlagsOf(h), share |-> h.share]
      r == Apply(c, cyc, Defect(dk, top))
  IN [how |-> how, cyc |-> cyc, top |-> top, crs |-> crs, crsarg |-> CrsArg(h.N, top, crs), adapt |-> adapt, dk |-> dk,
      calls |-> Calls(Decl(cyc, top, crs), c.fl), cor |-> r.cor, ok |-> r.ok, stat |-> r.stat]

Init ==
  /\ hier \in Hiers
  /\ hist = <<>>

First ==
  /\ hist = <<>>
  /\ \E cyc \in Cycles, adapt \in Adapts, crs \in 0..(hier.N - 1) : \E top \in 0..crs :
       /\ SubRanges \/ (top = 0 /\ crs = hier.N - 1)
       /\ cyc = 2 => crs - top <= MaxWL
       /\ hier.k >= 0 => (top <= hier.k /\ hier.k <= crs)     \* the different level lies inside the range
       /\ hist' = <<MkApp(hier, "ctor", cyc, top, crs, adapt, 1)>>
  /\ UNCHANGED hier

\* the other sub-range used by set_levels: the mirrored range, or (if that is the same) a range shifted/shrunk by one
OtherRange(n, top, crs) ==
  LET mt == n - 1 - crs  mc == n - 1 - top IN
  IF <<mt, mc>> # <<top, crs>> THEN <<mt, mc>>
  ELSE IF top < crs THEN <<top + 1, crs>> ELSE <<0, n - 1>>

\* configuration of the second application for step kind `how`
SuccCfg(n, a, how) ==
  LET o == OtherRange(n, a.top, a.crs) IN
  [cyc |-> IF how \in {"cycle", "all"} THEN (a.cyc + 1) % 3 ELSE a.cyc,
   top |-> IF how \in {"levels", "all"} THEN o[1] ELSE a.top,
   crs |-> IF how \in {"levels", "all"} THEN o[2] ELSE a.crs,
   adapt |-> IF how \in {"adapt", "all"} THEN (a.adapt + 1) % 3 ELSE a.adapt]
Allowed(n, a, how) ==
  LET s == SuccCfg(n, a, how) IN
  /\ s.cyc = 2 => s.crs - s.top <= MaxWL
  /\ (how \in {"levels", "all"}) => <<s.top, s.crs>> # <<a.top, a.crs>>     \* a one-level hierarchy has no other range

Second ==
  /\ Len(hist) = 1 /\ Depth >= 2
  /\ \E how \in Succs :
       /\ Allowed(hier.N, hist[1], how)
       /\ LET s == SuccCfg(hier.N, hist[1], how) IN
            hist' = hist \o <<MkApp(hier, how, s.cyc, s.top, s.crs, s.adapt, 2)>>
  /\ UNCHANGED hier

Next == First \/ Second
Spec == Init /\ [][Next]_vars

\* ---- invariants of the specification itself --------------------------------------------------------------
\* "with adaptive coarse-grid correction the step length is the stated energy/defect minimiser":
\* the quotients satisfy the stationarity conditions of their minimisation problems
StepLengthsAreMinimisers == \A q \in 1..Len(hist) : hist[q].stat
\* "the same linear map of the defect": with fixed coarse grid correction  Apply(d1 + d2) = Apply(d1) + Apply(d2)
Linear ==
  (Len(hist) = 1 /\ hist[1].adapt = 0 /\ hist[1].crs - hist[1].top < LinMaxL) =>
     LET a == hist[1]
         c == [top |-> a.top, crs |-> a.crs, adapt |-> 0, fl |-> FlagsOf(hier), share |-> hier.share]
         d1 == Defect(1, a.top)  d2 == Defect(2, a.top)
     IN Apply(c, a.cyc, VAdd(d1, d2)).cor = VAdd(a.cor, Apply(c, a.cyc, d2).cor)
\* the call log has the documented numbers of coarse solves / transfers
CallCounts ==
  \A q \in 1..Len(hist) : LET a == hist[q]  fl == FlagsOf(hier) IN
     /\ CountKind(a.calls, KCoarse) = (IF fl[a.crs].cs THEN NumCoarse(a.cyc, a.top, a.crs) ELSE 0)
     /\ CountKind(a.calls, KRest) = CountKind(a.calls, KProl)

\* ---- emission ----------------------------------------------------------------------------------------------
\* a history is complete at the depth bound, or when no second step is possible
Complete == \/ Len(hist) = Depth
            \/ Len(hist) = 1 /\ \A how \in Succs : ~Allowed(hier.N, hist[1], how)
InDomain == \A q \in 1..Len(hist) : hist[q].ok
Emit == Complete =>
  IF InDomain
  THEN PrintT(ToJson([seed |-> Seed, N |-> hier.N, pre |-> hier.pre, post |-> hier.post, peak |-> hier.peak, cs |-> hier.cs,
                      k |-> hier.k, share |-> hier.share,
                      apps |-> [q \in 1..Len(hist) |-> [how |-> hist[q].how, cyc |-> hist[q].cyc, top |-> hist[q].top, crs |-> hist[q].crs,
                                                        crsarg |-> hist[q].crsarg, adapt |-> hist[q].adapt, dk |-> hist[q].dk,
                                                        calls |-> hist[q].calls, cor |-> hist[q].cor]]]))
  ELSE PrintT(ToJson([kind |-> "degenerate", N |-> hier.N, pre |-> hier.pre, post |-> hier.post, peak |-> hier.peak, cs |-> hier.cs, k |-> hier.k,
                      apps |-> [q \in 1..Len(hist) |-> [cyc |-> hist[q].cyc, top |-> hist[q].top, crs |-> hist[q].crs, adapt |-> hist[q].adapt, ok |-> hist[q].ok]]]))

\* the level data, printed once (the replayer's generator must reproduce it)
DataRecord ==
  LET n == 7 IN
  [kind |-> "data", seed |-> Seed, N |-> n,
   dims |-> [l \in 1..n |-> Dim(l - 1)],
   fkind |-> [l \in 1..n |-> FKinds[l - 1]], fp |-> [l \in 1..n |-> FP[l - 1]], fd |-> [l \in 1..n |-> FD[l - 1]],
   A |-> [l \in 1..n |-> Amat[l - 1]], Spre |-> [l \in 1..n |-> Spre[l - 1]], Spost |-> [l \in 1..n |-> Spost[l - 1]],
   Speak |-> [l \in 1..n |-> Speak[l - 1]], C |-> [l \in 1..n |-> Csol[l - 1]],
   Pm |-> [l \in 1..(n - 1) |-> Pmat[l - 1]], Rm |-> [l \in 1..(n - 1) |-> Rmat[l - 1]],
   defects |-> [q \in 1..(2 * n) |-> LET top == (q - 1) \div 2  dk == 1 + ((q - 1) % 2) IN [top |-> top, dk |-> dk, d |-> Defect(dk, top)]]]
ASSUME PrintT(ToJson(DataRecord))
=============================================================================
