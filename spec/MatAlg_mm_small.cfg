SPECIFICATION Spec
CONSTANTS Fmt = "csr" Group = "mm" M0 = 1 M1 = 1 K0 = 2 K1 = 2 N0 = 3 N1 = 3 MaxRow = 9 BH = 1 BW = 1 Palette = 1 ArrayLess = FALSE NAlpha = 2 ABFull = FALSE
INVARIANTS RepsValid PatternKept ExactDomain CompleteIsFull Assoc LumpIsMatVec DMulLaws Emit
CHECK_DEADLOCK FALSE
