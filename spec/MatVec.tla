------------------------------- MODULE MatVec -------------------------------
(* C01: matrix-vector products in every storage format.                     *)
(*                                                                          *)
(* State: one container A (storage format Fmt, raw arrays `rep`), operand   *)
(* vectors x, y and the result vector r.  Actions are the public calls      *)
(*    Apply        r := A x                 ApplyT        r := A^T x        *)
(*    ApplyAxpy    r := y + alpha A x       ApplyAxpyT    r := y + alpha A^T x *)
(*    ApplySB      r := (A (x) I_bs) x      (scalar matrix, blocked vectors)*)
(* with r allowed to alias y.  alpha = an/ad is dyadic, results are held    *)
(* scaled by ad, so everything is integer and exact.  The post-state is     *)
(* defined through Abs(rep) (Storage.tla) and IntLinAlg!MatVec only.        *)
(* Frame: A (all raw arrays), x and - unless aliased - y are unchanged.     *)
(*                                                                          *)
(* TLC enumerates every initial state (shape x sparsity pattern x format    *)
(* parameters) and every enabled call; the invariant Emit prints each       *)
(* reached post-state as one JSON case which the C++ replayer executes on   *)
(* the real container and compares with.                                    *)
EXTENDS Storage, Json, TLC

CONSTANTS Fmt,          \* "csr" | "cscr" | "dense" | "banded" | "bcsr"
          MaxM, MaxN,   \* scalar shapes 0..MaxM x 0..MaxN  (block counts for bcsr)
          BH, BW,       \* block shape (bcsr only)
          Palette,      \* 1 = injective non-zero values, 2 = values with stored zeros / repeats
          MaxNnz        \* bound on stored entries (pruning for the big shapes), a large value = none

VARIABLES ph,    \* "init" | "done"
          A,     \* [m, n, rep, dense]  -- dense is Abs(rep), recomputed from rep
          x, y, r, \* operand / result vectors (r scaled by `ad` once written)
          call   \* the call that was made: [op, an, ad, alias, bs]

vars == <<ph, A, x, y, r, call>>

\* value palettes ------------------------------------------------------------
Val1(i, j) == LET k == (i - 1) * 5 + j IN IF k % 2 = 0 THEN k + 1 ELSE -(k + 2)   \* injective, non-zero
Val2(i, j) == ((i * 3 + j * 5) % 5) - 2                                            \* -2..2, zeros and repeats
Val(i, j) == IF Palette = 1 THEN Val1(i, j) ELSE Val2(i, j)
XV(len) == [k \in 1..len |-> IF k % 2 = 1 THEN 2 * k + 1 ELSE -(3 * k - 1)]       \* 3,-5,7,-11,...
YV(len) == [k \in 1..len |-> IF k % 2 = 1 THEN -(7 * k + 4) ELSE 5 * k + 3]
Garbage(len) == [k \in 1..len |-> 77 + k]
Alphas == {<<0, 1>>, <<1, 1>>, <<-1, 1>>, <<2, 1>>, <<-1, 2>>, <<-5, 2>>}
\* alpha and 1/alpha both dyadic: every correct evaluation order is exact (a kernel may legitimately
\* divide by alpha, as the transposed CSR kernel does); otherwise the replayer compares within the
\* rounding bound  c * eps * (|alpha| |A| |x| + |y|)  whose integer magnitude `mag` is supplied here
ExactAlpha(an) == an \in {0, 1, -1, 2, -2, 4, -4}
AbsMat(m, n, D) == [i \in 1..m |-> [j \in 1..n |-> Abs(D[i][j])]]
AbsVec(v) == [i \in 1..Len(v) |-> Abs(v[i])]

\* scalar dimensions of the represented matrix
SM(mm) == IF Fmt = "bcsr" THEN mm * BH ELSE mm
SN(nn) == IF Fmt = "bcsr" THEN nn * BW ELSE nn
DenseVals(m, n) == [i \in 1..m |-> [j \in 1..n |-> Val(i, j)]]

AbsOf(mm, nn, rep) ==
  CASE Fmt = "csr"    -> AbsCSR(mm, nn, rep)
    [] Fmt = "cscr"   -> AbsCSCR(mm, nn, rep)
    [] Fmt = "dense"  -> AbsDense(mm, nn, rep)
    [] Fmt = "banded" -> AbsBanded(mm, nn, rep)
    [] Fmt = "bcsr"   -> AbsBCSR(mm, nn, BH, BW, rep)

\* all containers of the format with mm x nn (block) shape
Reps(mm, nn) ==
  LET D == DenseVals(SM(mm), SN(nn))
      Pos == (1..mm) \X (1..nn)
      Pats == IF MaxNnz >= Cardinality(Pos) THEN SUBSET Pos ELSE {P \in SUBSET Pos : Cardinality(P) <= MaxNnz}
  IN CASE Fmt = "csr"    -> {CSROf(mm, nn, D, P) : P \in Pats}
       [] Fmt = "cscr"   -> UNION {{CSCROf(mm, nn, D, P, R) :
                                     R \in {R \in SUBSET (1..mm) : {e[1] : e \in P} \subseteq R}} : P \in Pats}
       [] Fmt = "dense"  -> {DenseOf(mm, nn, RestrictTo(mm, nn, D, P)) : P \in Pats}
       [] Fmt = "banded" -> {BandedOf(mm, nn, D, O, 0) : O \in SUBSET (0..(mm + nn - 2))}
       [] Fmt = "bcsr"   -> {BCSROf(mm, nn, BH, BW, D, P) : P \in Pats}

Init ==
  /\ ph = "init"
  /\ \E mm \in 0..MaxM, nn \in 0..MaxN : \E rep \in Reps(mm, nn) :
       /\ (Fmt = "dense" => mm >= 1 /\ nn >= 1)   \* DenseMatrix(rows, cols) requires non-zero dimensions (documented precondition)
       /\ A = [m |-> SM(mm), n |-> SN(nn), mb |-> mm, nb |-> nn, rep |-> rep, dense |-> AbsOf(mm, nn, rep)]
  /\ x = <<>> /\ y = <<>> /\ r = <<>>
  /\ call = [op |-> "none", an |-> 1, ad |-> 1, alias |-> FALSE, bs |-> 1]

Done(c, xx, yy, rr) == ph' = "done" /\ call' = c /\ x' = xx /\ y' = yy /\ r' = rr /\ UNCHANGED A

\* r := A x
Apply ==
  /\ ph = "init"
  /\ LET xx == XV(A.n) IN
       Done([op |-> "apply", an |-> 1, ad |-> 1, alias |-> FALSE, bs |-> 1], xx, <<>>, MatVec(A.m, A.n, A.dense, xx))

\* r := A^T x
\* (the banded format does not offer the transposed product: banded_transposed_generic is "not implemented")
ApplyT ==
  /\ ph = "init" /\ Fmt # "banded"
  /\ LET xx == XV(A.m) IN
       Done([op |-> "applyT", an |-> 1, ad |-> 1, alias |-> FALSE, bs |-> 1], xx, <<>>, MatTVec(A.m, A.n, A.dense, xx))

\* r := y + alpha A x   (result scaled by ad)
ApplyAxpy ==
  /\ ph = "init"
  /\ \E al \in Alphas, alias \in BOOLEAN :
       LET xx == XV(A.n)  yy == YV(A.m) IN
         Done([op |-> "axpy", an |-> al[1], ad |-> al[2], alias |-> alias, bs |-> 1], xx, yy,
              Axpy(al[1], MatVec(A.m, A.n, A.dense, xx), Scale(al[2], yy)))

ApplyAxpyT ==
  /\ ph = "init" /\ Fmt # "banded"
  /\ \E al \in Alphas, alias \in BOOLEAN :
       LET xx == XV(A.m)  yy == YV(A.n) IN
         Done([op |-> "axpyT", an |-> al[1], ad |-> al[2], alias |-> alias, bs |-> 1], xx, yy,
              Axpy(al[1], MatTVec(A.m, A.n, A.dense, xx), Scale(al[2], yy)))

\* scalar CSR matrix applied to blocked vectors: (A (x) I_bs)
Kron(m, n, D, bs) == [i \in 1..(m*bs) |-> [j \in 1..(n*bs) |->
                        IF (i-1) % bs = (j-1) % bs THEN D[((i-1) \div bs) + 1][((j-1) \div bs) + 1] ELSE 0]]
ApplySB ==
  /\ ph = "init" /\ Fmt = "csr"
  /\ \E bs \in {2, 3}, al \in {<<1, 1>>, <<-1, 2>>, <<-5, 2>>}, mode \in {"applysb", "axpysb", "axpysb_alias"} :
       LET xx == XV(A.n * bs)  yy == YV(A.m * bs)  K == Kron(A.m, A.n, A.dense, bs) IN
         IF mode = "applysb"
         THEN al = <<1, 1>> /\ Done([op |-> "applysb", an |-> 1, ad |-> 1, alias |-> FALSE, bs |-> bs], xx, <<>>,
                                     MatVec(A.m * bs, A.n * bs, K, xx))
         ELSE Done([op |-> "axpysb", an |-> al[1], ad |-> al[2], alias |-> (mode = "axpysb_alias"), bs |-> bs], xx, yy,
                   Axpy(al[1], MatVec(A.m * bs, A.n * bs, K, xx), Scale(al[2], yy)))

Next == Apply \/ ApplyT \/ ApplyAxpy \/ ApplyAxpyT \/ ApplySB
Spec == Init /\ [][Next]_vars

\* ---- invariants of the specification itself ---------------------------------
RepValid ==
  CASE Fmt = "csr"    -> CSRValid(A.mb, A.nb, A.rep)
    [] Fmt = "cscr"   -> CSCRValid(A.mb, A.nb, A.rep)
    [] Fmt = "banded" -> BandedValid(A.mb, A.nb, A.rep)
    [] Fmt = "bcsr"   -> CSRValid(A.mb, A.nb, [rp |-> A.rep.rp, ci |-> A.rep.ci, va |-> A.rep.ci])
    [] OTHER          -> TRUE
\* the two transposed definitions agree:  A^T x computed directly = MatVec of Transpose
TransposeConsistent ==
  ph = "done" /\ call.op \in {"applyT"} =>
     r = MatVec(A.n, A.m, Transpose(A.m, A.n, A.dense), x)
\* linearity sanity: alpha = 0 gives (scaled) y
AlphaZero == ph = "done" /\ call.op \in {"axpy", "axpyT"} /\ call.an = 0 => r = y

\* |ad| |y| + |an| |A| |x|  per result entry (0 for the calls without y)
Mag ==
  LET ax == AbsVec(x)  ay == IF y = <<>> THEN Zeros(Len(r)) ELSE AbsVec(y)
      D  == IF call.bs = 1 THEN AbsMat(A.m, A.n, A.dense) ELSE AbsMat(A.m * call.bs, A.n * call.bs, Kron(A.m, A.n, A.dense, call.bs))
      mm == A.m * call.bs  nn == A.n * call.bs
      p  == IF call.op \in {"applyT", "axpyT"} THEN MatTVec(mm, nn, D, ax) ELSE MatVec(mm, nn, D, ax)
  IN  [i \in 1..Len(r) |-> Abs(call.ad) * ay[i] + Abs(call.an) * p[i]]

\* ---- emission --------------------------------------------------------------
Emit == ph = "done" =>
  PrintT(ToJson([fmt |-> Fmt, m |-> A.m, n |-> A.n, mb |-> A.mb, nb |-> A.nb, bh |-> BH, bw |-> BW, rep |-> A.rep,
                 dense |-> A.dense, op |-> call.op, an |-> call.an, ad |-> call.ad, alias |-> call.alias,
                 bs |-> call.bs, x |-> x, y |-> y, r0 |-> Garbage(Len(r)), exp |-> r,
                 exact |-> ExactAlpha(call.an), mag |-> Mag]))
=============================================================================
