INIT Init
NEXT Next
CONSTANTS MaxLayers = 10 MaxSize = 3 MaxW = 6
INVARIANT Inv
