SPECIFICATION GenSpec
CONSTANTS NR = 4 ND = 3 RENK = 2
INVARIANTS Emit LawRenum
