SPECIFICATION GenSpec
CONSTANTS NR = 4 ND = 3
INVARIANT Emit
