---------------------------- MODULE PartitionDistCheck ----------------------------
(* Trace validation for the MPI route of C12: every line of the ndjson file named by C12_BATCH3 is one configuration of     *)
(* Control::Domain::PartiDomainControl run on C.nr MPI processes (harness/c12_pdc.cpp); the line holds the dumps of ALL     *)
(* ranks.  One TLC state per case; Emit evaluates the cross-rank invariants of PartitionDist.tla for every layer and every  *)
(* level and prints the verdict (the predicates that do not hold, with layer and level).                                   *)
EXTENDS PartitionDist, Json, IOUtils

Cases == ndJsonDeserialize(IOEnv.C12_BATCH3)
VARIABLE ci
Init == ci \in 1..Len(Cases)
Next == UNCHANGED ci
Spec == Init /\ [][Next]_ci

Fail(cond, pred, layer, lev) == IF cond THEN {} ELSE {[p |-> pred, layer |-> layer, l |-> lev]}

LevelFails(C, l, lv, T0) ==
  LET T == IF l = 0 /\ lv = C.K THEN T0 ELSE EntTable(C, l, lv) IN
  UNION {
    Fail(Cover(C, l, lv, T), "Cover", l, lv),
    Fail(PatchClosed(C, l, lv, T), "PatchClosed", l, lv),
    Fail(NeighbourSymmetricComplete(C, l, lv, T), "NeighbourSymmetricComplete", l, lv),
    Fail(HaloAgree(C, l, lv, T), "HaloAgree", l, lv),
    Fail(BndPartOK(C, l, lv, T), "BndPartOK", l, lv),
    Fail(RefinedWithin(C, l, lv, T), "RefinedWithin", l, lv) }

Verdict(C, T0) ==
  IF ~LayerShapeOK(C) THEN Fail(FALSE, "LayerShapeOK", -1, -1)
  ELSE IF ~LevelsOK(C) THEN Fail(FALSE, "LevelsOK", -1, -1)
  ELSE IF ~MeshesWellFormed(C) THEN Fail(FALSE, "MeshesWellFormed", -1, -1)
  ELSE UNION {UNION {LevelFails(C, l, lv, T0) : lv \in Levels(C, l)} : l \in 0..(NLayers(C) - 1)}
       \cup UNION {Fail(NbrRanksAreLayerRanks(C, l), "NbrRanksAreLayerRanks", l, -1) : l \in 0..(NLayers(C) - 1)}
       \cup UNION {Fail(NbrsEqualHaloRanks(C, l), "NbrsEqualHaloRanks", l, -1) : l \in 0..(NLayers(C) - 1)}
       \cup UNION {Fail(NbrsSymmetric(C, l), "NbrsSymmetric", l, -1) : l \in 0..(NLayers(C) - 1)}
       \cup UNION {Fail(ChildrenPartitionParent(C, l), "ChildrenPartitionParent", l, PartLevel(C, l)) : l \in 1..(NLayers(C) - 1)}
       \cup Fail(SiblingsOK(C), "SiblingsOK", -1, -1)
       \cup Fail(AncestryOK(C), "AncestryOK", -1, -1)

\* coverage information: neighbour pairs of the finest layer, pairs touching in one vertex only, pairs of different parents
Info(C, T) ==
  IF ~(LayerShapeOK(C) /\ LevelsOK(C) /\ MeshesWellFormed(C)) THEN [pairs |-> 0, single |-> 0, cross |-> 0, layers |-> 0, levels |-> 0, shifted |-> 0, groups |-> 0]
  ELSE LET X == {ab \in Members(C, 0) \X Members(C, 0) : ab[1] < ab[2] /\ Touch(T, ab[1], ab[2])}
       IN [pairs |-> Cardinality(X),
           single |-> Cardinality({ab \in X : Cardinality(T[ab[1]][1] \cap T[ab[2]][1]) = 1}),
           cross |-> IF NLayers(C) < 2 THEN 0 ELSE Cardinality({ab \in X : ab[1] \div Stride(C, 1) # ab[2] \div Stride(C, 1)}),
           layers |-> NLayers(C),
           \* processes in a progeny group with non-zero offset that have a sibling as neighbour (all layers); largest number of
           \* progeny groups of a layer
           shifted |-> FoldSeq(LAMBDA l, acc : acc + ShiftedSiblingNeighbours(C, l - 1), 0, [l \in 1..NLayers(C) |-> l]),
           groups |-> IF NLayers(C) < 2 THEN 1 ELSE Max({LayerProcs(C)[l + 1] : l \in 1..(NLayers(C) - 1)}),
           levels |-> FoldSeq(LAMBDA l, acc : acc + Cardinality(Levels(C, l - 1)), 0, [l \in 1..NLayers(C) |-> l])]

\* T0 = the entity table of the finest level of layer 0 (only evaluated - lazily - once the shape predicates hold)
Emit == LET C == Cases[ci]
            T0 == EntTable(C, 0, C.K)
        IN PrintT(ToJson([id |-> C.id, fails |-> SetToSeq(Verdict(C, T0)), info |-> Info(C, T0)]))
=============================================================================
