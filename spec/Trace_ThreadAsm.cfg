SPECIFICATION TraceSpec
CONSTANTS
  Strategy <- TrStrategy
  W <- TrW
  NFences <- TrNFences
  NeedScatter <- TrScatter
  NeedCombine <- TrCombine
  NumElems <- TrNumElems
  LayerElems <- TrLayerElems
  ThreadLayers <- TrThreadLayers
  ColorElems <- TrColorElems
  AdjPairs <- TrAdj
  MayFail <- TrMayFail
  Jobs <- TrJobs
CONSTRAINT Track
INVARIANTS ConfigInv NoAdjacentScatter CombineExclusive EachCellOnce NeverTwice JoinedAtEnd NotAccepted
CHECK_DEADLOCK FALSE
