---------------------------- MODULE TransferCheck ----------------------------
(* C18, direction V: every line of the ndjson file named by the environment variable C18_BATCH is one case = what    *)
(* the real code produced for one (mesh, refinement, permutation strategy, element family): both mesh levels, the    *)
(* dof mappings, the assembled prolongation / restriction / truncation matrices and the results of the vector         *)
(* operations, projected to integers at the scale `ps` the specification asked for (RefElementSanity!ProlScale).      *)
(* One TLC state per case; Emit evaluates every property of Transfer.tla and prints the list of those that fail.      *)
EXTENDS Transfer, Json, IOUtils

Cases == ndJsonDeserialize(IOEnv.C18_BATCH)

VARIABLE ci
Init == ci \in 1..Len(Cases)
Next == UNCHANGED ci
Spec == Init /\ [][Next]_ci

Fail(cond, pred) == IF cond THEN {} ELSE {pred}

Verdict(C) ==
  LET fam == C.fam  dim == C.dim  el == C.el
      Mc == C.levels[1]  Mf == C.levels[2]  par == C.par
      wf == WellFormed(Mc, fam, dim) /\ WellFormed(Mf, fam, dim) /\ ParShapeOK(Mc, Mf, par, dim)
  IN
  IF ~wf THEN {"Precond:WellFormed"}
  ELSE IF ~(VertexOrigin(Mc, Mf, par, fam) /\ CellsHaveParents(Mc, Mf, par, dim) /\ ParentsValid(Mc, Mf, par, fam, dim))
    THEN {"Precond:RefinementOrigin"}
  ELSE IF ~Supported(el, fam, dim) THEN {"MACHINERY:Unsupported"}
  ELSE
    LET sig == Sig(el, fam, dim)
        Gc == DofTable(Mc, sig, fam, dim)
        Gf == DofTable(Mf, sig, fam, dim)
        ngc == NumGlobalDofs(Mc, sig, dim)
        ngf == NumGlobalDofs(Mf, sig, dim)
        mapsOK == C.gc = Gc /\ C.gf = Gf /\ C.ngc = ngc /\ C.ngf = ngf
        nested == Nested(el, fam)
        \* properties judged for every family (projections computed by the harness with its own inverse mapping / dense algebra)
        common == UNION {
           Fail(nested => (C.fn.n > 0 /\ C.fn.bad = 0 /\ C.fn.orphan = 0), "ProlExactFunction"),
           Fail(C.rbit, "RestBitwise"),
           Fail(nested => (~C.tnoise /\ IsIdentity(C.TP, 1)), "TruncLeftInverse"),
           \* the Transfer object: trunc(prol(x)) = x; clone() and convert() (index type: bitwise; single precision: 2e-4 relative) then use
           Fail((nested /\ C.trunc) => (~C.tpxnoise /\ C.tpx = C.x), "TransferTruncLeftInverse"),
           Fail(C.clone_ok, "CloneAgrees"),
           Fail(C.cvi_ok /\ C.cvf_ok, "ConvertedAgrees"),
           Fail((nested /\ C.trunc) => C.cvf_tp_ok, "ConvertedTruncLeftInverse"),
           \* the control-layer route Control::Asm::asm_transfer_scalar: equal to the direct assembly, and a second assembly into the
           \* same transfer object gives the same matrices again
           Fail(C.ctl_ok, "ControlAsmAgrees"),
           Fail(C.ctl_repeat_ok, "ControlAsmRepeatable"),
           \* inter-mesh transfer (assemble_intermesh_transfer): XC = fine -> coarse with target cubature points on source-cell interfaces,
           \* XF = coarse -> fine, XS = the same fine mesh in its original numbering -> the (permuted) fine mesh
           Fail(C.xfail = 0, "IntermeshUnmapped"),
           Fail((nested /\ C.xdone) => (~C.xcnoise /\ IsIdentity(C.XCP, 1)), "IntermeshLeftInverse"),
           Fail(C.xsdone => (~C.xsnoise /\ IsPermutationMatrix(C.XS) /\ C.xs_fn_ok), "IntermeshSameFunction") }
    IN
    IF ~mapsOK THEN Fail(C.gc = Gc, "DofMapCoarse") \cup Fail(C.gf = Gf, "DofMapFine") \cup Fail(C.ngc = ngc /\ C.ngf = ngf, "NumDofs")
    ELSE IF C.intmode # HasNodal(el, fam, dim) THEN {"MACHINERY:Mode"}
    ELSE IF ~C.intmode THEN
      \* families without exact tables (Lagrange-3, Bernstein-2): function-level exactness + float-level agreement of the operators
      common \cup Fail(C.xdone => C.xf_ok, "IntermeshProlExact") \cup Fail(C.vdev_ok, "VectorProlAgrees") \cup Fail(C.rdev_ok, "TransferRestAgrees") \cup Fail(C.nnz > 0, "ProlNonTrivial")
    ELSE
    LET T == TLCEval(FamilyTable(el, fam, dim)) IN
    IF ~NodesIntegral(Mc, Mf, par, T) THEN {"MACHINERY:NodesIntegral"}
    ELSE IF C.ps % LocalScale(T) # 0 THEN {"MACHINERY:Scale"}
    ELSE IF Len(C.P) # ngf \/ Len(C.x) # ngc \/ Len(C.y) # ngf THEN {"MACHINERY:Sizes"}
    ELSE
      LET NUM == LocalNum(Mc, Mf, par, T)
          OCC == Occurrences(Gf, ngf)
          ls == LocalScale(T)
          k == C.ps \div ls
          h1 == Conformity(el) \in {"H1", "C1"}
          WD == TLCEval([i \in 1..ngf |-> ProlWellDefined(OCC[i], NUM, Gc, par, dim)])
          ROWS == TLCEval([i \in 1..ngf |-> SpecRow(OCC[i], NUM, Gc, par, dim, WD[i])])
          vecOK(v) == Len(v) = ngf /\ \A i \in 1..ngf : v[i] * ROWS[i].den = RowTimes(ROWS[i], C.x) * k
          prolOK == \A i \in 1..ngf : RowMatches(C.P[i], ROWS[i], C.ps, ls)
          transOK == IsTranspose(C.R, C.P)
          \* Transfer::rest(y) = R y; R is judged against P^T, P against the specification
          restOK == Len(C.ry) = ngc /\ Len(C.R) = ngc /\ \A j \in 1..ngc : C.ry[j] = RowDot(C.R[j], C.y)
      IN common \cup UNION {
           Fail(h1 => \A i \in 1..ngf : WD[i], "ProlWellDefined"),
           Fail(~C.pnoise, "ProlNoise"),
           Fail(prolOK, "ProlExact"),
           Fail(C.xdone => (~C.xfnoise /\ Len(C.XF) = ngf /\ \A i \in 1..ngf : RowMatches(C.XF[i], ROWS[i], C.ps, ls)), "IntermeshProlExact"),
           Fail(transOK, "RestIsTranspose"),
           Fail(~C.vnoise /\ vecOK(C.pxv), "VectorProlAgrees"),
           Fail(~C.xnoise /\ vecOK(C.pxt), "TransferProlAgrees"),
           Fail(~C.rnoise /\ restOK, "TransferRestAgrees") }

Info(C) == [nc |-> C.levels[1].n[C.dim + 1], nf |-> C.levels[2].n[C.dim + 1], ngc |-> C.ngc, ngf |-> C.ngf,
            nnz |-> C.nnz]
Emit == LET C == Cases[ci] IN PrintT(ToJson([id |-> C.id, fails |-> SetToSeq(Verdict(C)), info |-> Info(C)]))
=============================================================================
