------------------------------ MODULE WorkDist ------------------------------
(* C17, layer 1: how DomainAssembler::compile distributes the selected cells *)
(* to worker threads.  BuildThreadLayers is a statement-by-statement          *)
(* transcription of DomainAssembler::_build_thread_layers (0-based arrays are *)
(* held as functions on 0..k); the declarative contracts every distribution   *)
(* must satisfy are LayersOK / ThreadLayersOK / ColorsOK.  MC_WorkDist checks *)
(* the transcription against ThreadLayersOK for every layer-size vector; the  *)
(* trace specification compares the arrays the real compile() produced with   *)
(* the transcription and evaluates the contracts on the real mesh adjacency.  *)
EXTENDS Integers, Sequences, FiniteSets

Min2(a, b) == IF a < b THEN a ELSE b

\* le: sequence = _layer_elements (Len = numLayers + 1);  0-based access
At(s, i) == s[i + 1]
NumLayers(le) == Len(le) - 1

\* number of worker threads for the layered strategies: min(max, _layer_elements.size() / 3)
LayeredWorkers(le, maxW) == Min2(maxW, Len(le) \div 3)

\* while((j < num_layers) && (le[j] < desired)) ++j;
RECURSIVE Advance(_, _, _)
Advance(j, le, desired) == IF j < NumLayers(le) /\ At(le, j) < desired THEN Advance(j + 1, le, desired) ELSE j

\* Step 1: thread_layers = <<0>>; for i = 1..W-1 push first layer at/after the desired first element; push num_layers
RECURSIVE Step1(_, _, _, _)
Step1(t, i, W, le) ==
  IF i >= W THEN Append(t, NumLayers(le))
  ELSE LET desired == (At(le, NumLayers(le)) * i) \div W
           j == Advance(t[Len(t)] + 1, le, desired)
       IN Step1(Append(t, j), i + 1, W, le)

\* Step 2: backward sweep  for(i = W-1; i > 0; --i) { if(t[i+1] < t[i]+2) t[i] = t[i+1]-2; if(t[i] < 2) break; }
RECURSIVE Step2(_, _)
Step2(t, i) ==
  IF i <= 0 THEN t
  ELSE LET t2 == IF At(t, i + 1) < At(t, i) + 2 THEN [t EXCEPT ![i + 1] = At(t, i + 1) - 2] ELSE t
       IN IF At(t2, i) < 2 THEN t2 ELSE Step2(t2, i - 1)

\* Step 3: forward sweep  for(i = 0; i < W; ++i) if(t[i+1] < t[i]+2) t[i+1] = t[i]+2;
RECURSIVE Step3(_, _, _)
Step3(t, i, W) ==
  IF i >= W THEN t
  ELSE Step3(IF At(t, i + 1) < At(t, i) + 2 THEN [t EXCEPT ![i + 2] = At(t, i) + 2] ELSE t, i + 1, W)

\* result of _build_thread_layers: <<>> when no worker results (multi-threading disabled)
BuildThreadLayers(le, maxW) ==
  LET W == LayeredWorkers(le, maxW)
  IN IF maxW < 1 \/ W < 1 THEN <<>> ELSE Step3(Step2(Step1(<<0>>, 1, W, le), W - 1), 0, W)

\* the unsigned subtraction in the backward sweep never wraps
RECURSIVE Step2NoUnderflow(_, _)
Step2NoUnderflow(t, i) ==
  IF i <= 0 THEN TRUE
  ELSE LET need == At(t, i + 1) < At(t, i) + 2
           t2 == IF need THEN [t EXCEPT ![i + 1] = At(t, i + 1) - 2] ELSE t
       IN (need => At(t, i + 1) >= 2) /\ (IF At(t2, i) < 2 THEN TRUE ELSE Step2NoUnderflow(t2, i - 1))

(***************************************************************************)
(* contracts                                                               *)
(***************************************************************************)
\* every thread owns a consecutive block of at least two layers, blocks tile 0..numLayers
ThreadLayersOK(tl, le) ==
  tl # <<>> =>
    /\ At(tl, 0) = 0 /\ At(tl, Len(tl) - 1) = NumLayers(le)
    /\ \A w \in 1..(Len(tl) - 1) : At(tl, w - 1) + 2 <= At(tl, w)

\* layer/colour offsets tile 0..N:  0 = o_0 <= o_1 <= ... <= o_k = N   (every cell in exactly one group)
OffsetsOK(off, N) ==
  /\ Len(off) >= 1 /\ At(off, 0) = 0 /\ At(off, Len(off) - 1) = N
  /\ \A k \in 0..(Len(off) - 2) : At(off, k) <= At(off, k + 1)
GroupOfPos(p, off) == CHOOSE g \in 0..(Len(off) - 2) : At(off, g) <= p /\ p < At(off, g + 1)

\* vertex-adjacent cells lie in the same or in consecutive layers
LayerLocality(le, adj) == \A e \in adj : LET a == GroupOfPos(e[1], le)  b == GroupOfPos(e[2], le) IN a - b \in {-1, 0, 1}
\* no two vertex-adjacent cells share a colour
ColorsProper(ce, adj) == \A e \in adj : GroupOfPos(e[1], ce) # GroupOfPos(e[2], ce)
\* the element list is a permutation of the selected cells
IsPermutationOf(elems, selected) ==
  /\ Len(elems) = Cardinality(selected) /\ {elems[k] : k \in 1..Len(elems)} = selected

\* (total: a colour table without colours has maximal colour size 0)
MaxColorSize(ce) == LET S == {At(ce, k + 1) - At(ce, k) : k \in 0..(Len(ce) - 2)} IN IF S = {} THEN 0 ELSE CHOOSE m \in S : \A x \in S : x <= m
=============================================================================
