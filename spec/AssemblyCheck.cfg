SPECIFICATION CSpec
CONSTANTS DegSlack = 0
 PlanShapes = {}
 PlanDims = {}
 PairKind = "all"
INVARIANT CEmit
CHECK_DEADLOCK FALSE
