SPECIFICATION Spec
INVARIANTS AllRunsAgree HasReference
CHECK_DEADLOCK FALSE
