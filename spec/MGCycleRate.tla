------------------------------ MODULE MGCycleRate ------------------------------
(* C09 (V, floating part): validation of runs recorded from the real Solver::MultiGrid on a real LAFEM    *)
(* hierarchy (harness/c09_mgreal.cpp: Q1 Poisson on the refined unit square, mesh levels lmin..lmax,      *)
(* damped Jacobi smoothing, defect correction  x := x + MG(b - A x)  with residuals computed by the       *)
(* harness in long double).  One record per run (ndjson file named by the environment variable TRACE):   *)
(*    [lmax, nlev, cyc, adapt, peak, steps, finite, ratios_pm, calls, shape]                              *)
(*  ratios_pm  floor(1000 * |r_k| / |r_k-1|) per cycle                - the finite abstraction of the run  *)
(*  calls      smoother / coarse solver calls (kind*16 + level) of the first cycle as logged by FEAT's    *)
(*             own Statistics solver expressions                                                          *)
(*  shape      kinds of all expressions logged under the multigrid's name                                 *)
(* The state variable k walks over the runs; the invariants are the contract:                            *)
(*   CallsAccepted     the logged calls are those of the documented cycle Decl(cyc, 0, nlev-1)            *)
(*   ShapeAccepted     event grammar  start call* level_timings^nlev end                                  *)
(*   Contracts         every cycle reduces the residual                                                   *)
(*   RateBelowHalf, LevelIndependent   rate(L) < 1/2 and rate(L) <= rate(base level) + 0.15: the          *)
(*                     reduction per cycle is bounded away from 1 independently of the number of levels   *)
(*                     (stated for fixed and energy-minimising coarse grid correction; the defect-        *)
(*                     minimising step length under-relaxes the correction by construction and is only    *)
(*                     required to contract).                                                             *)
EXTENDS MGCycle, Json, IOUtils

CONSTANT BaseLevel      \* the mesh level whose rate the others are compared with (2)

Runs == ndJsonDeserialize(IOEnv.TRACE)

VARIABLE k
Init == k = 1
Next == k < Len(Runs) /\ k' = k + 1
Spec == Init /\ [][Next]_k

Run == Runs[k]
FlagsOfRun(r) == [l \in 0..MaxLevAll |-> [pre |-> TRUE, post |-> TRUE, peak |-> r.peak, cs |-> TRUE]]
\* transfers are not part of FEAT's expression log
ExpCalls(r) == SelectSeq(Calls(Decl(r.cyc, 0, r.nlev - 1), FlagsOfRun(r)), LAMBDA e : EvKind(e) \in {KPre, KPost, KPeak, KCoarse})

RECURSIVE MaxOf(_, _)
MaxOf(s, i) == IF i > Len(s) THEN 0 ELSE LET m == MaxOf(s, i + 1) IN IF s[i] > m THEN s[i] ELSE m
Rate(r) == MaxOf(r.ratios_pm, 1)
SameSetup(a, b) == a.cyc = b.cyc /\ a.adapt = b.adapt /\ a.peak = b.peak /\ a.steps = b.steps

WellFormed == Run.nlev \in 1..(MaxLevAll + 1) /\ Run.cyc \in 0..2 /\ Run.adapt \in 0..2 /\ Len(Run.ratios_pm) >= 1
CallsAccepted == Run.calls = ExpCalls(Run)
ShapeAccepted == Run.shape = <<"start">> \o [i \in 1..Len(Run.calls) |-> "call"] \o [i \in 1..Run.nlev |-> "lt"] \o <<"end">>
Contracts == Run.finite /\ \A i \in 1..Len(Run.ratios_pm) : Run.ratios_pm[i] < 1000
RateBelowHalf == Run.adapt # 2 => Rate(Run) < 500
LevelIndependent ==
  Run.adapt # 2 =>
    /\ \E j \in 1..Len(Runs) : SameSetup(Runs[j], Run) /\ Runs[j].lmax = BaseLevel       \* not vacuous
    /\ \A j \in 1..Len(Runs) : (SameSetup(Runs[j], Run) /\ Runs[j].lmax = BaseLevel) => Rate(Run) <= Rate(Runs[j]) + 150
=============================================================================
