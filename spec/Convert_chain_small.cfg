SPECIFICATION Spec
CONSTANTS NS = 2 Depth = 2 Seeds = {"mini"} SeedTypes = {"f64u64"}
 Ops = {"conv", "clone", "transp", "tinplace", "permute", "layout", "graph", "copy", "format", "poke"} Types = {"f32u32"} PermSel = "few" Palette = 1
INVARIANTS RepValid LawsHold ChunksExist Emit
CHECK_DEADLOCK FALSE
