--------------------------- MODULE AdjacencyPerm ---------------------------
(* C19, permutation part: every permutation of length 0..MaxN in every      *)
(* constructor representation, followed by every public call.               *)
(*                                                                          *)
(* Behaviour:  Init (choose n, the permutation and the representation it is *)
(* given in)  ->  Construct (the object [perm, swap] the constructor must   *)
(* build)  ->  one call on the object:                                      *)
(*    ApplyOut(invert)     apply(y, x, invert)     y[i] = x[perm[i]] / y[perm[i]] = x[i] *)
(*    ApplyInSitu(invert)  apply(x, invert)        same result through the swap array    *)
(*    InverseCall, CloneCall, MapCall, ConcatCall(q)                         *)
(* Arrays carry one extra trailing entry that no call may touch (frame).    *)
(* The length-0 permutation is the default-constructed object (the sized    *)
(* constructor documents num_entries > 0).                                  *)
EXTENDS Adjacency, Json, TLC

CONSTANTS MaxN,        \* lengths 0..MaxN
          ConcatAll    \* TRUE: concat after every constructor kind, FALSE: only after kind "perm"

VARIABLES ph, arg, P, call, res
vars == <<ph, arg, P, call, res>>

XV(n) == [i \in 1..(n + 1) |-> 100 + i]
YV(n) == [i \in 1..(n + 1) |-> 900 + i]
NoCall == [op |-> "none", invert |-> FALSE, q |-> <<>>]
\* all permutations per length (a constant: evaluated once)
AllPerms == [k \in 0..MaxN |-> Perms0(k)]

Init ==
  /\ ph = "init" /\ P = EmptyPermObj /\ call = NoCall /\ res = <<>>
  /\ \E n \in 0..MaxN :
       IF n = 0 THEN arg = [kind |-> "default", n |-> 0, v |-> <<>>]
       ELSE \E p \in AllPerms[n], kind \in CtorKinds :
              /\ (kind = "identity" => p = Id0(n))
              /\ arg = [kind |-> kind, n |-> n, v |-> CtorArg(kind, p)]

Construct ==
  /\ ph = "init" /\ ph' = "built" /\ UNCHANGED <<arg, call, res>>
  /\ P' = IF arg.n = 0 THEN EmptyPermObj ELSE PermObj(CtorResult(arg.kind, arg.n, arg.v))

Done(c, r) == ph = "built" /\ ph' = "done" /\ call' = c /\ res' = r /\ UNCHANGED <<arg, P>>
n == arg.n
\* first n entries replaced, trailing entry kept
Over(base, first) == [i \in 1..Len(base) |-> IF i <= Len(first) THEN first[i] ELSE base[i]]

ApplyOut == \E inv \in BOOLEAN :
  Done([NoCall EXCEPT !.op = "apply_out", !.invert = inv],
       Over(YV(n), IF inv THEN ApplyPInv(P.perm, XV(n)) ELSE ApplyP(P.perm, XV(n))))
ApplyInSitu == \E inv \in BOOLEAN :
  Done([NoCall EXCEPT !.op = "apply_insitu", !.invert = inv],
       Over(XV(n), IF inv THEN ApplyPInv(P.perm, XV(n)) ELSE ApplyP(P.perm, XV(n))))
InverseCall == Done([NoCall EXCEPT !.op = "inverse"], IF n = 0 THEN EmptyPermObj ELSE PermObj(Inv0(P.perm)))
CloneCall == Done([NoCall EXCEPT !.op = "clone"], P)
MapCall == Done([NoCall EXCEPT !.op = "map"], P.perm)
ConcatCall ==
  /\ n > 0 /\ (ConcatAll \/ arg.kind = "perm")
  /\ \E q \in AllPerms[n] : Done([NoCall EXCEPT !.op = "concat", !.q = q], PermObj(Concat0(P.perm, q)))

Next == Construct \/ ApplyOut \/ ApplyInSitu \/ InverseCall \/ CloneCall \/ MapCall \/ ConcatCall
Spec == Init /\ [][Next]_vars

\* ---- laws -------------------------------------------------------------------------------------------
ObjValid == ph # "init" => PermObjValid(P)
\* the two arrays describe the same bijection, forwards and backwards
SwapLaw == ph = "built" /\ n > 0 =>
             LET x == [i \in 1..n |-> 100 + i] IN
             /\ ApplySwaps(P.swap, x) = ApplyP(P.perm, x)
             /\ ApplySwapsRev(P.swap, x) = ApplyPInv(P.perm, x)
             /\ ApplyPInv(P.perm, ApplyP(P.perm, x)) = x
             /\ ApplyP(P.perm, ApplyPInv(P.perm, x)) = x
\* constructor kinds agree: inverse kinds build the inverse of what the direct kinds build from the same array
CtorLaw == ph = "built" /\ n > 0 =>
             /\ (arg.kind = "inv_perm" => P.perm = Inv0(CtorResult("perm", n, arg.v)))
             /\ (arg.kind = "inv_swap" => P.perm = Inv0(CtorResult("swap", n, arg.v)))
             /\ (arg.kind = "swap" => P.swap = arg.v)
InverseLaw == ph = "done" /\ call.op = "inverse" /\ n > 0 =>
                /\ PermObjValid(res) /\ Concat0(P.perm, res.perm) = Id0(n) /\ Concat0(res.perm, P.perm) = Id0(n)
\* concat composes:  P3 x = P1 (P2 x)
ConcatLaw == ph = "done" /\ call.op = "concat" =>
               LET x == [i \in 1..n |-> 100 + i] IN
               /\ PermObjValid(res) /\ ApplyP(res.perm, x) = ApplyP(P.perm, ApplyP(call.q, x))

Emit == ph = "done" =>
  PrintT(ToJson([n |-> n, kind |-> arg.kind, v |-> arg.v, P |-> P, op |-> call.op, invert |-> call.invert, q |-> call.q,
                 x |-> XV(n), y0 |-> YV(n), exp |-> res]))
=============================================================================
