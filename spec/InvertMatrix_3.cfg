SPECIFICATION Spec
CONSTANT N = 3
INVARIANTS InverseOK Emit
CHECK_DEADLOCK FALSE
