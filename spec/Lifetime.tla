------------------------------ MODULE Lifetime ------------------------------
(* C20: container lifetimes.  The state is a small pool of container slots   *)
(* plus the MemoryPool chunk table; every action is one public lifetime call *)
(* of LAFEM::Container (ctor, clone in every mode, convert/assign between    *)
(* data/index types, move, move-ctor, ranged slice, clear, destroy, write),   *)
(* written as the sequence of MemoryPool calls (allocate / increase /        *)
(* release) the call performs - transcribed from kernel/lafem/container.hpp  *)
(* and kernel/util/memory_pool.hpp.  An array of size 0 is the NULL chunk    *)
(* (id 0): never counted, never freed.                                       *)
(*                                                                           *)
(* Invariants: RefCount (the counter of every live chunk equals the number   *)
(* of owning references), NoDangling (every array a live container refers to *)
(* is live), NoLeak (every live chunk is referenced), EmptyAtEnd.  Contents  *)
(* are abstracted to one token per chunk, so "an operation on one container  *)
(* never changes another unless they share the chunk" is the frame condition *)
(* of every action.  TLC emits each history with the predicted world after   *)
(* every step; harness/c20_lifetime.cpp replays it on real containers under  *)
(* ASan and compares reference counters (hook H1), aliasing classes, sizes,  *)
(* contents and the number of live chunks after every step.                  *)
EXTENDS Integers, Sequences, FiniteSets, Json, TLC

CONSTANTS Slots,     \* e.g. 1..3
          Fams,      \* subset of {"dv", "csr"}
          Depth,     \* history length at which a behaviour is emitted
          EmitOn,    \* TRUE: print behaviours (generation runs); FALSE: pure model checking
          Ops        \* the actions enabled in this run (focus), e.g. {"create", "clone", ...}; {"all"} = everything

VARIABLES slot,      \* slot id -> [live, fam, ty, foreign, arr]   arr: sequence of [k, c, n, off]
          pool,      \* chunk id -> [refs, n, tok]     (live chunks only; DOMAIN pool = live chunk ids)
          next,      \* next fresh chunk id
          hist       \* sequence of [op, args, world]  (history variable: the behaviour so far)

vars == <<slot, pool, next, hist>>

\* data/index type tags: 1 = <double,u64>, 2 = <float,u64> (other DT), 3 = <double,u32> (other IT)
Types == {1, 2, 3}
SameDT(a, b) == (a = 2) = (b = 2)
SameIT(a, b) == (a = 3) = (b = 3)
Modes == {"shallow", "layout", "weak", "deep", "allocate"}
Undef == -1

Free == [live |-> FALSE, fam |-> "", ty |-> 0, foreign |-> FALSE, shell |-> FALSE, arr |-> <<>>]

\* the (pool, next) pair threaded through the MemoryPool calls of one action
W0 == [pool |-> pool, next |-> next]
Alloc(w, n, tok) ==   \* allocate_memory(n): size 0 -> null chunk
  IF n = 0 THEN [w |-> w, c |-> 0]
  ELSE [w |-> [pool |-> (w.next :> [refs |-> 1, n |-> n, tok |-> tok]) @@ w.pool, next |-> w.next + 1], c |-> w.next]
Incr(w, c) ==         \* increase_memory(c): no-op for the null chunk
  IF c = 0 THEN w ELSE [w EXCEPT !.pool[c].refs = @ + 1]
Release(w, c) ==      \* release_memory(c): no-op for the null chunk, frees at counter 1
  IF c = 0 THEN w
  ELSE IF w.pool[c].refs = 1 THEN [w EXCEPT !.pool = [d \in (DOMAIN w.pool) \ {c} |-> w.pool[d]]]
  ELSE [w EXCEPT !.pool[c].refs = @ - 1]

RECURSIVE ReleaseArr(_, _)
ReleaseArr(w, arr) == IF arr = <<>> THEN w ELSE ReleaseArr(Release(w, Head(arr).c), Tail(arr))
RECURSIVE IncrArr(_, _)
IncrArr(w, arr) == IF arr = <<>> THEN w ELSE IncrArr(Incr(w, Head(arr).c), Tail(arr))
ReleaseOwn(w, s) == IF slot[s].live /\ ~slot[s].foreign THEN ReleaseArr(w, slot[s].arr) ELSE w

TokOf(w, a) == IF a.c = 0 THEN Undef ELSE w.pool[a.c].tok

\* new arrays for the entries of `arr`: per array either shared (increase) or freshly allocated (content
\* copied or undefined), decided by the rule:
\*   clone modes   shallow: share all | layout: share ix, el undefined | weak: share ix, el copied
\*                 deep: copy all | allocate: all undefined
\*   assign_XY     elements shared iff X = "e" (equal data types), index arrays iff Y = "e", else converted copies
ShareP(rule, a) ==
  CASE rule = "shallow" -> TRUE
    [] rule \in {"layout", "weak"} -> a.k = "ix"
    [] rule \in {"deep", "allocate"} -> FALSE
    [] rule = "assign_ee" -> TRUE
    [] rule = "assign_en" -> a.k = "el"
    [] rule = "assign_ne" -> a.k = "ix"
    [] rule = "assign_nn" -> FALSE
CopyP(rule, a) == rule \notin {"layout", "allocate"}
RECURSIVE BuildArr(_, _, _, _)
BuildArr(w, arr, rule, acc) ==
  IF arr = <<>> THEN [w |-> w, arr |-> acc]
  ELSE LET a == Head(arr) IN
       IF ShareP(rule, a)
       THEN BuildArr(Incr(w, a.c), Tail(arr), rule, Append(acc, a))
       ELSE LET r == Alloc(w, a.n, IF CopyP(rule, a) THEN TokOf(w, a) ELSE Undef)
            IN BuildArr(r.w, Tail(arr), rule, Append(acc, [k |-> a.k, c |-> r.c, n |-> a.n, off |-> 0]))

\* allocate_memory rounds the element count up to a multiple of 4
AllocCount(n) == IF (n % 4) = 0 THEN n ELSE n + (4 - (n % 4))

\* compact projection of a world for the replayer: per slot <<live, fam, ty, foreign, <<k, c, n, off, tok, allocated count>>...>>,
\* and the reference counters as <<chunk, refs>> pairs
WorldOf(sl, pl) ==
  [slots |-> [s \in Slots |-> <<sl[s].live, sl[s].fam, sl[s].ty, sl[s].foreign,
                                [i \in 1..Len(sl[s].arr) |->
                                   LET a == sl[s].arr[i] IN <<a.k, a.c, a.n, a.off, IF a.c = 0 THEN Undef ELSE pl[a.c].tok, AllocCount(a.n)>>]>>],
   refs |-> [c \in DOMAIN pl |-> pl[c].refs]]

Commit(w, newslots, op, args) ==
  /\ pool' = w.pool /\ next' = w.next /\ slot' = newslots
  /\ hist' = Append(hist, [op |-> op, args |-> args, world |-> WorldOf(newslots, w.pool)])

\* API obligation made explicit: the owner of a ranged (foreign) slice must outlive it, i.e. no action
\* may free a chunk that a live foreign slot still points into
KeepsOwners(w, newslots) == \A s \in Slots : newslots[s].live /\ newslots[s].foreign =>
                               \A i \in 1..Len(newslots[s].arr) : newslots[s].arr[i].c \in DOMAIN w.pool

\* releasing what slot s owns must not free a chunk another live ranged slot still points into
SafeRelease(s) ==
  LET w1 == ReleaseOwn(W0, s) IN
  \A t \in Slots \ {s} : slot[t].live /\ slot[t].foreign => \A i \in 1..Len(slot[t].arr) : slot[t].arr[i].c \in DOMAIN w1.pool

Init == /\ slot = [s \in Slots |-> Free] /\ pool = <<>> /\ next = 1 /\ hist = <<>>

Step == Len(hist) + 1

\* ---- constructors -----------------------------------------------------------------------------
Shapes(fam) == IF fam = "dv" THEN {"n3", "n0"} ELSE {"full", "wide", "nz0", "bare"}
\* arrays of a freshly constructed container: <<kind, size>> list
Layout(fam, var) ==
  CASE fam = "dv" /\ var = "n3"    -> <<<<"el", 3>>>>
    [] fam = "dv" /\ var = "n0"    -> <<>>                                           \* DenseVector(0): returns before allocating, no array
    [] fam = "csr" /\ var = "full" -> <<<<"el", 3>>, <<"ix", 3>>, <<"ix", 3>>>>        \* 2x3, 3 entries: val, col_ind, row_ptr
    [] fam = "csr" /\ var = "wide" -> <<<<"el", 5>>, <<"ix", 5>>, <<"ix", 3>>>>        \* 2x3, 5 entries
    [] fam = "csr" /\ var = "nz0"  -> <<<<"el", 0>>, <<"ix", 0>>, <<"ix", 3>>>>        \* entry-free but allocated: CSR(rows, cols, 0)
    [] fam = "csr" /\ var = "bare" -> <<>>                                           \* dimension-only constructor: no arrays

RECURSIVE AllocLayout(_, _, _, _)
AllocLayout(w, lay, tok, acc) ==
  IF lay = <<>> THEN [w |-> w, arr |-> acc]
  ELSE LET r == Alloc(w, Head(lay)[2], IF Head(lay)[1] = "el" THEN tok ELSE 7)
       IN AllocLayout(r.w, Tail(lay), tok, Append(acc, [k |-> Head(lay)[1], c |-> r.c, n |-> Head(lay)[2], off |-> 0]))

Create(s, fam, var, ty) ==
  /\ ~slot[s].live
  /\ LET r == AllocLayout(W0, Layout(fam, var), 100 + Step, <<>>)
     IN Commit(r.w, [slot EXCEPT ![s] = [live |-> TRUE, fam |-> fam, ty |-> ty, foreign |-> FALSE, shell |-> FALSE, arr |-> r.arr]],
               "create", [s |-> s, fam |-> fam, var |-> var, ty |-> ty])

\* ---- clone ------------------------------------------------------------------------------------
\* Container::assign(other) into a container of type ty2 that currently owns nothing (the temporary of
\* the cross-type clone, or - after releasing - the target of convert): elements are shared iff the
\* data types agree, index arrays iff the index types agree, otherwise allocated and converted
AssignFrom(w, arr, ty1, ty2) ==
  BuildArr(w, arr, IF SameDT(ty1, ty2) THEN (IF SameIT(ty1, ty2) THEN "assign_ee" ELSE "assign_en")
                   ELSE (IF SameIT(ty1, ty2) THEN "assign_ne" ELSE "assign_nn"), <<>>)

\* Container::clone(other, mode) for equal types, after this->clear()
CloneSame(w, arr, mode) == BuildArr(w, arr, mode, <<>>)

Clone(src, dst, mode) ==
  /\ src # dst /\ slot[src].live /\ slot[src].fam # "lay"
  /\ (slot[dst].live => slot[dst].fam = slot[src].fam)
  /\ SafeRelease(dst)
  /\ (slot[src].foreign => mode = "deep")                    \* XASSERT: ranged sources must be cloned deep
  /\ \E ty2 \in (IF slot[dst].live THEN {slot[dst].ty} ELSE Types) :
       /\ (ty2 # slot[src].ty => ~slot[src].foreign)          \* cross-type clone goes through assign(): forbidden for ranged sources
       /\ LET w1 == ReleaseOwn(W0, dst)                        \* this->clear()
              r  == IF ty2 = slot[src].ty
                    THEN CloneSame(w1, slot[src].arr, mode)
                    ELSE LET t  == AssignFrom(W0, slot[src].arr, slot[src].ty, ty2)   \* Container t; t.assign(other)
                             w2 == ReleaseOwn(t.w, dst)                                \* clone(t, mode): this->clear()
                             c  == CloneSame(w2, t.arr, mode)
                         IN [w |-> ReleaseArr(c.w, t.arr), arr |-> c.arr]              \* ~t
              ns == [slot EXCEPT ![dst] = [live |-> TRUE, fam |-> slot[src].fam, ty |-> ty2, foreign |-> FALSE, shell |-> slot[src].shell, arr |-> r.arr]]
          IN KeepsOwners(r.w, ns) /\ Commit(r.w, ns, "clone", [src |-> src, dst |-> dst, mode |-> mode, ty |-> ty2, fresh |-> ~slot[dst].live])

\* ---- convert (assign) -------------------------------------------------------------------------
Convert(src, dst) ==
  /\ src # dst /\ slot[src].live /\ ~slot[src].foreign          \* XASSERT: no foreign-memory sources
  /\ slot[src].fam # "lay"
  /\ SafeRelease(dst)
  /\ (slot[dst].live => slot[dst].fam = slot[src].fam)
  /\ \E ty2 \in (IF slot[dst].live THEN {slot[dst].ty} ELSE Types) :
       LET w1 == ReleaseOwn(W0, dst)
           r  == AssignFrom(w1, slot[src].arr, slot[src].ty, ty2)
           ns == [slot EXCEPT ![dst] = [live |-> TRUE, fam |-> slot[src].fam, ty |-> ty2, foreign |-> FALSE, shell |-> slot[src].shell, arr |-> r.arr]]
       IN KeepsOwners(r.w, ns) /\ Commit(r.w, ns, "convert", [src |-> src, dst |-> dst, ty |-> ty2, fresh |-> ~slot[dst].live])

\* ---- move / move constructor ------------------------------------------------------------------
Move(src, dst) ==
  /\ src # dst /\ slot[src].live /\ slot[src].fam # "lay"
  /\ IF slot[dst].live THEN slot[dst].fam = slot[src].fam /\ slot[dst].ty = slot[src].ty ELSE TRUE
  /\ SafeRelease(dst)
  /\ LET w1 == ReleaseOwn(W0, dst)
         ns == [slot EXCEPT ![dst] = [slot[src] EXCEPT !.live = TRUE],
                            ![src] = [slot[src] EXCEPT !.arr = <<>>, !.shell = TRUE]]   \* the source stays alive as an empty shell
     IN KeepsOwners(w1, ns) /\ Commit(w1, ns, IF slot[dst].live THEN "move" ELSE "movector", [src |-> src, dst |-> dst])

\* ---- ranged slice (foreign memory) ------------------------------------------------------------
Range(src, dst) ==
  /\ src # dst /\ slot[src].live /\ ~slot[dst].live /\ slot[src].fam = "dv" /\ ~slot[src].foreign
  /\ Len(slot[src].arr) = 1 /\ slot[src].arr[1].n >= 3
  /\ LET a == slot[src].arr[1]
         ns == [slot EXCEPT ![dst] = [live |-> TRUE, fam |-> "dv", ty |-> slot[src].ty, foreign |-> TRUE, shell |-> FALSE,
                                      arr |-> <<[k |-> "el", c |-> a.c, n |-> 2, off |-> 1]>>]]
     IN Commit(W0, ns, "range", [src |-> src, dst |-> dst])

\* ---- matrix built on another matrix' layout: shares the index arrays, own value array ---------
FromLayout(src, dst) ==
  /\ src # dst /\ slot[src].live /\ ~slot[dst].live /\ slot[src].fam \in {"csr", "lay"}
  /\ ~slot[src].shell                       \* a cleared / moved-from container has no dimensions: layout() is not defined
  /\ \E ty2 \in {t \in Types : SameIT(t, slot[src].ty)} :
       LET ixs == SelectSeq(slot[src].arr, LAMBDA a : a.k = "ix")
           nnz == IF ixs = <<>> THEN 0 ELSE ixs[1].n
           w1  == IncrArr(W0, ixs)
           r   == Alloc(w1, nnz, Undef)
           ns  == [slot EXCEPT ![dst] = [live |-> TRUE, fam |-> "csr", ty |-> ty2, foreign |-> FALSE, shell |-> FALSE,
                                         arr |-> <<[k |-> "el", c |-> r.c, n |-> nnz, off |-> 0]>> \o ixs]]
       IN Commit(r.w, ns, "fromlayout", [src |-> src, dst |-> dst, ty |-> ty2])

\* ---- SparseLayout objects: first-class holders of references to the index arrays -----------------
\* (fam "lay"; ty 1 = index type u64, 3 = u32).  TakeLayout: L = M.layout(), stored by move construction.
IxOf(arr) == SelectSeq(arr, LAMBDA a : a.k = "ix")
TakeLayout(src, dst) ==
  /\ src # dst /\ slot[src].live /\ ~slot[dst].live /\ slot[src].fam = "csr" /\ ~slot[src].shell
  /\ LET ixs == IxOf(slot[src].arr)
         ns == [slot EXCEPT ![dst] = [live |-> TRUE, fam |-> "lay", ty |-> IF SameIT(slot[src].ty, 1) THEN 1 ELSE 3, foreign |-> FALSE,
                                      shell |-> FALSE, arr |-> ixs]]
     IN Commit(IncrArr(W0, ixs), ns, "takelayout", [src |-> src, dst |-> dst])

\* M = L (SparseMatrixCSR::operator=(const SparseLayout&)): drop everything M owns, share L's index arrays, own value array
AssignLayout(src, dst) ==
  /\ src # dst /\ slot[src].live /\ slot[src].fam = "lay" /\ ~slot[src].shell /\ slot[dst].live /\ slot[dst].fam = "csr" /\ ~slot[dst].shell
  /\ SameIT(slot[src].ty, slot[dst].ty) /\ SafeRelease(dst)
  /\ LET ixs == slot[src].arr
         nnz == IF ixs = <<>> THEN 0 ELSE ixs[1].n
         w1  == IncrArr(ReleaseOwn(W0, dst), ixs)
         r   == Alloc(w1, nnz, Undef)
         ns  == [slot EXCEPT ![dst] = [slot[dst] EXCEPT !.arr = <<[k |-> "el", c |-> r.c, n |-> nnz, off |-> 0]>> \o ixs]]
     IN Commit(r.w, ns, "assignlayout", [src |-> src, dst |-> dst])

\* L2 = std::move(L1): L2 drops its own references and takes over L1's; L1 is left empty
MoveLayout(src, dst) ==
  /\ src # dst /\ slot[src].live /\ slot[src].fam = "lay" /\ slot[dst].live /\ slot[dst].fam = "lay" /\ slot[src].ty = slot[dst].ty
  /\ LET w1 == ReleaseOwn(W0, dst)
         ns == [slot EXCEPT ![dst] = [slot[dst] EXCEPT !.arr = slot[src].arr, !.shell = slot[src].shell], ![src] = [slot[src] EXCEPT !.arr = <<>>, !.shell = TRUE]]   \* the moved-from layout has no dimensions any more
     IN Commit(w1, ns, "movelayout", [src |-> src, dst |-> dst])

\* ---- clear / destroy / write ------------------------------------------------------------------
Clear(s) ==
  /\ slot[s].live /\ SafeRelease(s) /\ slot[s].fam # "lay"
  /\ LET w1 == ReleaseOwn(W0, s)
         ns == [slot EXCEPT ![s] = [slot[s] EXCEPT !.arr = <<>>, !.foreign = FALSE, !.shell = TRUE]]
     IN KeepsOwners(w1, ns) /\ Commit(w1, ns, "clear", [s |-> s])

Destroy(s) ==
  /\ slot[s].live /\ SafeRelease(s)
  /\ LET w1 == ReleaseOwn(W0, s)
         ns == [slot EXCEPT ![s] = Free]
     IN KeepsOwners(w1, ns) /\ Commit(w1, ns, "destroy", [s |-> s])

\* overwrite every value of the container (format(v)): visible in exactly the slots sharing the chunk
Poke(s) ==
  /\ slot[s].live /\ ~slot[s].foreign
  /\ \E i \in 1..Len(slot[s].arr) : slot[s].arr[i].k = "el" /\ slot[s].arr[i].c # 0
  /\ \A t \in Slots : slot[t].live /\ slot[t].foreign => \A i \in 1..Len(slot[s].arr), j \in 1..Len(slot[t].arr) : slot[t].arr[j].c # slot[s].arr[i].c
  /\ LET cs == {slot[s].arr[i].c : i \in {j \in 1..Len(slot[s].arr) : slot[s].arr[j].k = "el" /\ slot[s].arr[j].c # 0}}
         w1 == [W0 EXCEPT !.pool = [c \in DOMAIN pool |-> IF c \in cs THEN [pool[c] EXCEPT !.tok = 200 + Step] ELSE pool[c]]]
     IN Commit(w1, slot, "poke", [s |-> s, tok |-> 200 + Step])

On(op) == "all" \in Ops \/ op \in Ops
Next ==
  /\ Len(hist) < Depth
  /\ \/ On("create") /\ \E s \in Slots, fam \in Fams : \E var \in Shapes(fam), ty \in Types :
            ("all" \in Ops \/ (ty = 1 /\ var \in {"full", "wide", "n3"})) /\ Create(s, fam, var, ty)
     \/ On("clone") /\ \E s \in Slots, t \in Slots : \E m \in Modes : Clone(s, t, m)
     \/ On("convert") /\ \E s \in Slots, t \in Slots : Convert(s, t)
     \/ On("move") /\ \E s \in Slots, t \in Slots : Move(s, t)
     \/ On("range") /\ \E s \in Slots, t \in Slots : Range(s, t)
     \/ On("layout") /\ "csr" \in Fams /\ \E s \in Slots, t \in Slots : FromLayout(s, t) \/ TakeLayout(s, t) \/ AssignLayout(s, t) \/ MoveLayout(s, t)
     \/ On("clear") /\ \E s \in Slots : Clear(s)
     \/ On("destroy") /\ \E s \in Slots : Destroy(s)
     \/ On("poke") /\ \E s \in Slots : Poke(s)
Spec == Init /\ [][Next]_vars

(***************************************************************************)
(* properties                                                              *)
(***************************************************************************)
OwnRefs(c) == Cardinality({<<s, i>> \in Slots \X (1..3) : slot[s].live /\ ~slot[s].foreign /\ i <= Len(slot[s].arr) /\ slot[s].arr[i].c = c})
RefCount == \A c \in DOMAIN pool : pool[c].refs = OwnRefs(c)
NoLeak == \A c \in DOMAIN pool : pool[c].refs >= 1 /\ OwnRefs(c) >= 1
NoDangling == \A s \in Slots : slot[s].live => \A i \in 1..Len(slot[s].arr) : slot[s].arr[i].c = 0 \/ slot[s].arr[i].c \in DOMAIN pool
EmptyAtEnd == (\A s \in Slots : ~slot[s].live) => DOMAIN pool = {}
NullNeverCounted == 0 \notin DOMAIN pool
TypeOK == \A s \in Slots : slot[s].live => slot[s].fam \in Fams \cup {"lay"} /\ slot[s].ty \in Types

\* ---- emission: one behaviour per state at the depth bound -------------------------------------
Emit == (EmitOn /\ Len(hist) = Depth) => PrintT(ToJson([steps |-> hist]))
=============================================================================
