------------------------------- MODULE PartitionDist -------------------------------
(* C12, distributed route: what N MPI processes hold after Control::Domain::PartiDomainControl::create() - single-layered   *)
(* or multi-layered (recursive partitioning 1 -> p1 -> p2 -> ... -> N with halo splitting).  Nothing here refers to a local   *)
(* numbering of another process: entities are identified GEOMETRICALLY, a vertex by its integer coordinate tuple (scale 2^K), *)
(* a d-entity by the tuple/set of the coordinates of its vertices, so every predicate below is a CROSS-RANK invariant.        *)
(*                                                                                                                           *)
(* A case C = [nr, dim, grid = <<nx,ny,nz>>, want = <<[lvl,np],...>> (the --level arguments), multi, ranks]                   *)
(*   C.ranks[w+1] = what world rank w dumped: [rank, K, ancestry, layers];  layers[l+1] = [layer, crank, csize, sibrank,      *)
(*   sibsize, parent_rank, nbrs, levels];  levels[k] = [lvl, mesh (MeshTopo level incl. the split mesh part "bnd"), halos =    *)
(*   <<[rank, t]>>, patches = <<[rank, t]>> (patch mesh parts of the children, on parent processes)], finest level first.    *)
(* The base mesh is the structured grid 0..nx x 0..ny (x 0..nz) of unit cells, so the cells of refinement level l are known   *)
(* to the specification (GridCells) without asking any FEAT object.                                                          *)
(*                                                                                                                           *)
(* Layer structure demanded (LayerProcs): layer 0 = all N processes, layer i = the np of the i-th --level argument; world     *)
(* rank w belongs to layer i iff Stride(i) divides w, with layer rank w / Stride(i); the children of the layer-(i+1) patch     *)
(* of process p are the layer-i patches of the processes p, p + Stride(i), ..., below p + Stride(i+1).                         *)
(* Invariants (per layer and level): LayerShapeOK, Cover, PatchClosed, NeighbourSymmetricComplete, HaloAgree, BndPartOK,      *)
(* per layer: NbrRanksAreLayerRanks, NbrsEqualHaloRanks, NbrsSymmetric (the stored neighbour ranks, in the layer's numbering);   *)
(* RefinedWithin; across layers: ChildrenPartitionParent (the child patches of one parent partition the parent's patch and    *)
(* ARE the patch mesh parts of the parent node, entity by entity), SiblingsOK, AncestryOK.                                    *)
EXTENDS MeshTopo

TwoTo(n) == 2 ^ n

\* ---- layer structure ---------------------------------------------------------------------------------------------------
MultiLayered(C) == C.nr > 1 /\ C.multi /\ Len(C.want) > 2
LayerProcs(C) == IF MultiLayered(C) THEN <<C.nr>> \o [i \in 1..(Len(C.want) - 2) |-> C.want[i + 1].np] ELSE <<C.nr>>
NLayers(C) == Len(LayerProcs(C))
Stride(C, l) == C.nr \div LayerProcs(C)[l + 1]
Members(C, l) == {w \in 0..(C.nr - 1) : w % Stride(C, l) = 0}
LRank(C, l, w) == w \div Stride(C, l)
WorldOf(C, l, r) == r * Stride(C, l)
RankRec(C, w) == C.ranks[w + 1]
LayerRec(C, l, w) == RankRec(C, w).layers[l + 1]
LevelSeq(C, l, w) == [k \in 1..Len(LayerRec(C, l, w).levels) |-> LayerRec(C, l, w).levels[k].lvl]
\* the record of level index lv (position K_finest - lv + 1 once LevelsOK holds)
LevelRec(C, l, w, lv) == LET L == LayerRec(C, l, w).levels IN L[CHOOSE k \in 1..Len(L) : L[k].lvl = lv]
MeshOf(C, l, w, lv) == LevelRec(C, l, w, lv).mesh
AnyMember(C, l) == CHOOSE w \in Members(C, l) : TRUE
Levels(C, l) == TRange(LevelSeq(C, l, AnyMember(C, l)))

\* every process holds exactly the layers it is a member of, with the right communicator rank / size
LayerShapeOK(C) ==
  /\ Len(C.ranks) = C.nr
  /\ \A l \in 0..(NLayers(C) - 1) : LayerProcs(C)[l + 1] >= 1 /\ C.nr % LayerProcs(C)[l + 1] = 0
  /\ \A w \in 0..(C.nr - 1) :
       /\ RankRec(C, w).rank = w
       /\ Len(RankRec(C, w).layers) = Cardinality({l \in 0..(NLayers(C) - 1) : w \in Members(C, l)})
       /\ \A l \in 0..(Len(RankRec(C, w).layers) - 1) :
            /\ w \in Members(C, l)
            /\ LayerRec(C, l, w).layer = l
            /\ LayerRec(C, l, w).crank = LRank(C, l, w)
            /\ LayerRec(C, l, w).csize = LayerProcs(C)[l + 1]
\* all members of a layer hold the same levels: consecutive, finest first; the finest level of layer 0 is the scale K of the
\* dump; the finest level of a parent layer is the coarsest level of its child layer (the level on which it was partitioned)
LevelsOK(C) ==
  /\ \A l \in 0..(NLayers(C) - 1) : \A w \in Members(C, l) :
       /\ Len(LevelSeq(C, l, w)) >= 1
       /\ LevelSeq(C, l, w) = LevelSeq(C, l, AnyMember(C, l))
       /\ \A k \in 1..(Len(LevelSeq(C, l, w)) - 1) : LevelSeq(C, l, w)[k] = LevelSeq(C, l, w)[k + 1] + 1
       /\ LevelSeq(C, l, w)[Len(LevelSeq(C, l, w))] >= 0
  /\ LevelSeq(C, 0, 0)[1] = C.K /\ \A w \in 0..(C.nr - 1) : RankRec(C, w).K = C.K
  /\ \A l \in 1..(NLayers(C) - 1) :
       LevelSeq(C, l, 0)[1] = LevelSeq(C, l - 1, 0)[Len(LevelSeq(C, l - 1, 0))]
MeshesWellFormed(C) ==
  \A l \in 0..(NLayers(C) - 1) : \A w \in Members(C, l) : \A k \in 1..Len(LayerRec(C, l, w).levels) :
    LET M == LayerRec(C, l, w).levels[k].mesh IN
      /\ WellFormed(M, C.fam, C.dim) /\ CoordsOK(M, C.dim) /\ DistinctVertices(M)
      /\ \A j \in 1..Len(M.parts) : PartTargetsOK(M, M.parts[j], C.dim)

\* ---- geometric identity ----------------------------------------------------------------------------------------------------
\* the d-entity i of mesh M as the tuple of its vertex coordinates (local vertex order) and as a set
GTup(M, d, i) == IF d = 0 THEN <<M.X[i + 1]>> ELSE LET vt == Idx(M, d, 0)[i + 1] IN [k \in 1..Len(vt) |-> M.X[vt[k] + 1]]
GEnt(M, d, i) == TRange(GTup(M, d, i))
\* the d-entities in the closure of the cells of M - from the cells and the reference cell's face table only
CellClosure(M, fam, dim, d) ==
  IF d = dim THEN {GEnt(M, dim, c) : c \in 0..(N(M, dim) - 1)}
  ELSE IF d = 0 THEN UNION {{{x} : x \in GEnt(M, dim, c)} : c \in 0..(N(M, dim) - 1)}
  ELSE {{GTup(M, dim, c)[FT[fam][dim][d][k][i] + 1] : i \in 1..Len(FT[fam][dim][d][k])} : c \in 0..(N(M, dim) - 1), k \in 1..NF(fam, dim, d)}
\* the entities the code's own index sets list
Listed(M, d) == {GEnt(M, d, i) : i \in 0..(N(M, d) - 1)}
\* the patch mesh holds exactly the closure of its cells, each entity once
PatchClosedM(M, fam, dim) == \A d \in 0..dim : Listed(M, d) = CellClosure(M, fam, dim, d) /\ Cardinality(Listed(M, d)) = N(M, d)

\* ---- the cells of the refined grid -------------------------------------------------------------------------------------------
Box(i, j, k, h, dim) ==
  IF dim = 2 THEN {<<(i + a) * h, (j + b) * h>> : a \in 0..1, b \in 0..1}
  ELSE {<<(i + a) * h, (j + b) * h, (k + c) * h>> : a \in 0..1, b \in 0..1, c \in 0..1}
GridCells(C, lv) ==
  LET h == TwoTo(C.K - lv)  f == TwoTo(lv) IN
  {Box(i, j, k, h, C.dim) : i \in 0..(C.grid[1] * f - 1), j \in 0..(C.grid[2] * f - 1), k \in 0..((IF C.dim = 3 THEN C.grid[3] * f ELSE 1) - 1)}
OnBoundary(C, e) ==
  \E a \in 1..C.dim : \E v \in {0, C.grid[a] * TwoTo(C.K)} : \A x \in e : x[a] = v

\* ---- one layer on one level -------------------------------------------------------------------------------------------------
\* tables, evaluated once per (layer, level): T[w][d+1] = closure entities of dimension d of the patch of world rank w
EntTable(C, l, lv) ==
  [w \in Members(C, l) |-> TLCEval([d \in 1..(C.dim + 1) |-> TLCEval(CellClosure(MeshOf(C, l, w, lv), C.fam, C.dim, d - 1))])]

\* every cell of the grid belongs to exactly one patch of the layer; no patch is empty
Cover(C, l, lv, T) ==
  /\ \A w \in Members(C, l) : N(MeshOf(C, l, w, lv), C.dim) >= 1 /\ Cardinality(T[w][C.dim + 1]) = N(MeshOf(C, l, w, lv), C.dim)
  /\ \A w1 \in Members(C, l) : \A w2 \in Members(C, l) : w1 < w2 => T[w1][C.dim + 1] \cap T[w2][C.dim + 1] = {}
  /\ UNION {T[w][C.dim + 1] : w \in Members(C, l)} = GridCells(C, lv)
PatchClosed(C, l, lv, T) ==
  \A w \in Members(C, l) : \A d \in 0..C.dim :
    LET M == MeshOf(C, l, w, lv) IN Listed(M, d) = T[w][d + 1] /\ Cardinality(T[w][d + 1]) = N(M, d)

\* a process lists b as a neighbour iff b lists it iff the two patches share a vertex; one halo per neighbour
Touch(T, w1, w2) == w1 # w2 /\ T[w1][1] \cap T[w2][1] # {}
NeighbourSymmetricComplete(C, l, lv, T) ==
  \A w \in Members(C, l) :
    LET nb == LayerRec(C, l, w).nbrs
        hs == LevelRec(C, l, w, lv).halos
        want == {LRank(C, l, v) : v \in {u \in Members(C, l) : Touch(T, w, u)}}
    IN /\ TRange(nb) = want /\ Cardinality(want) = Len(nb)
       /\ {hs[j].rank : j \in 1..Len(hs)} = want /\ Len(hs) = Cardinality(want)
\* ---- the neighbour ranks of a layer (DomainLayer::set_neighbor_ranks: what gates and muxers of that layer talk to) -----------
\* They are ranks of the LAYER's communicator - not child indices inside a progeny group, not world ranks -: in range, never the
\* process itself, each once.  (In a multi-layered hierarchy extract_patch returns child indices within the progeny group; the
\* control layer has to shift them by the group offset - for the groups with non-zero offset the two numberings differ.)
Nbrs(C, l, w) == LayerRec(C, l, w).nbrs
NbrRanksAreLayerRanks(C, l) ==
  \A w \in Members(C, l) :
    /\ \A j \in 1..Len(Nbrs(C, l, w)) : Nbrs(C, l, w)[j] \in (0..(LayerProcs(C)[l + 1] - 1)) \ {LRank(C, l, w)}
    /\ Cardinality(TRange(Nbrs(C, l, w))) = Len(Nbrs(C, l, w))
\* the halos of the patch carry exactly these ranks, on every level the layer holds
NbrsEqualHaloRanks(C, l) ==
  \A w \in Members(C, l) : \A lv \in Levels(C, l) :
    LET hs == LevelRec(C, l, w, lv).halos IN
      {hs[j].rank : j \in 1..Len(hs)} = TRange(Nbrs(C, l, w)) /\ Len(hs) = Len(Nbrs(C, l, w))
\* 'is a neighbour' is symmetric across the processes of the layer
NbrsSymmetric(C, l) ==
  \A w \in Members(C, l) : \A v \in Members(C, l) :
    (LRank(C, l, v) \in TRange(Nbrs(C, l, w))) <=> (LRank(C, l, w) \in TRange(Nbrs(C, l, v)))
\* coverage: processes of the layer whose progeny group has a non-zero offset and that have a neighbour inside their own group
GroupOffset(C, l, w) ==
  IF l + 1 >= NLayers(C) THEN 0 ELSE LET k == LayerProcs(C)[l + 1] \div LayerProcs(C)[l + 2] IN LRank(C, l, w) - (LRank(C, l, w) % k)
ShiftedSiblingNeighbours(C, l) ==
  Cardinality({w \in Members(C, l) : GroupOffset(C, l, w) > 0 /\
                 \E s \in TRange(Nbrs(C, l, w)) : s >= 0 /\ s < LayerProcs(C)[l + 1] /\ GroupOffset(C, l, WorldOf(C, l, s)) = GroupOffset(C, l, w)})

\* both halos of a pair list exactly the shared entities Ent(a,d) \cap Ent(b,d), each once, in the same order
HaloSeq(M, h, d) == [j \in 1..Len(h.t[d + 1]) |-> GEnt(M, d, h.t[d + 1][j])]
HaloAgree(C, l, lv, T) ==
  \A w \in Members(C, l) :
    LET M == MeshOf(C, l, w, lv)  hs == LevelRec(C, l, w, lv).halos IN
    \A j \in 1..Len(hs) :
      LET h == hs[j]  s == h.rank IN
      /\ s \in 0..(LayerProcs(C)[l + 1] - 1) /\ s # LRank(C, l, w)
      /\ Len(h.t) = C.dim + 1
      /\ \A d \in 0..C.dim : \A i \in 1..Len(h.t[d + 1]) : h.t[d + 1][i] \in 0..(N(M, d) - 1)
      /\ LET v == WorldOf(C, l, s)
             Mv == MeshOf(C, l, v, lv)
             back == {g \in TRange(LevelRec(C, l, v, lv).halos) : g.rank = LRank(C, l, w)}
         IN \A d \in 0..C.dim :
              /\ TRange(HaloSeq(M, h, d)) = T[w][d + 1] \cap T[v][d + 1]
              /\ Cardinality(TRange(h.t[d + 1])) = Len(h.t[d + 1])
              /\ \A g \in back :
                   (Len(g.t) = C.dim + 1 /\ \A i \in 1..Len(g.t[d + 1]) : g.t[d + 1][i] \in 0..(N(Mv, d) - 1)) =>
                     HaloSeq(M, h, d) = HaloSeq(Mv, g, d)
\* the split mesh part "bnd" of a patch = the entities of the patch on the boundary of the domain (absent iff there are none)
BndPartOK(C, l, lv, T) ==
  \A w \in Members(C, l) :
    LET M == MeshOf(C, l, w, lv)
        cand == {j \in 1..Len(M.parts) : M.parts[j].name = "bnd"}
        want(d) == IF d = C.dim THEN {} ELSE {e \in T[w][d + 1] : OnBoundary(C, e)}
    IN IF cand = {} THEN \A d \in 0..C.dim : want(d) = {}
       ELSE /\ Cardinality(cand) = 1
            /\ LET P == M.parts[CHOOSE j \in cand : TRUE] IN
               \A d \in 0..C.dim : /\ {GEnt(M, d, P.t[d + 1][i]) : i \in 1..Len(P.t[d + 1])} = want(d)
                                   /\ Cardinality(TRange(P.t[d + 1])) = Len(P.t[d + 1])
\* joint refinement: the patch of a process on level lv+1 covers the same region as its patch on level lv - the grid cell of
\* level lv that contains a cell of level lv+1 (lower corner rounded down to the mesh width of level lv) is a cell of the patch,
\* and every cell of the patch is obtained that way
ParentBox(C, lv, cell) ==
  LET H == TwoTo(C.K - lv)
      lo(a) == Min({p[a] : p \in cell}) \div H
  IN Box(lo(1), lo(2), IF C.dim = 3 THEN lo(3) ELSE 0, H, C.dim)
RefinedWithin(C, l, lv, T) ==
  (lv + 1) \in Levels(C, l) =>
    \A w \in Members(C, l) :
      LET Mf == MeshOf(C, l, w, lv + 1) IN
      /\ N(Mf, C.dim) = N(MeshOf(C, l, w, lv), C.dim) * TwoTo(C.dim)
      /\ {ParentBox(C, lv, GEnt(Mf, C.dim, c)) : c \in 0..(N(Mf, C.dim) - 1)} = T[w][C.dim + 1]

\* ---- parent layer l (l >= 1) and its child layer l-1 ----------------------------------------------------------------------------
NumSibs(C, l) == LayerProcs(C)[l] \div LayerProcs(C)[l + 1]          \* children per patch of layer l
Children(C, l, p) == {w \in Members(C, l - 1) : (w \div Stride(C, l)) * Stride(C, l) = p}
ChildWorld(C, l, p, k) == p + k * Stride(C, l - 1)
PartLevel(C, l) == LevelSeq(C, l, 0)[1]
\* the children of one parent partition the parent's patch, and the patch mesh part "k" of the parent node IS the child k:
\* same entities in the same order, same local vertex order, same coordinates
ChildrenPartitionParent(C, l) ==
  LET lv == PartLevel(C, l) IN
  \A p \in Members(C, l) :
    LET Mp == MeshOf(C, l, p, lv)
        ps == LevelRec(C, l, p, lv).patches
        cells(M) == {GEnt(M, C.dim, c) : c \in 0..(N(M, C.dim) - 1)}
    IN /\ Cardinality(Children(C, l, p)) = NumSibs(C, l)
       /\ Children(C, l, p) = {ChildWorld(C, l, p, k) : k \in 0..(NumSibs(C, l) - 1)}
       /\ UNION {cells(MeshOf(C, l - 1, w, lv)) : w \in Children(C, l, p)} = cells(Mp)
       /\ \A w1 \in Children(C, l, p) : \A w2 \in Children(C, l, p) :
            w1 < w2 => cells(MeshOf(C, l - 1, w1, lv)) \cap cells(MeshOf(C, l - 1, w2, lv)) = {}
       /\ {ps[j].rank : j \in 1..Len(ps)} = 0..(NumSibs(C, l) - 1) /\ Len(ps) = NumSibs(C, l)
       /\ \A j \in 1..Len(ps) :
            ps[j].rank \in 0..(NumSibs(C, l) - 1) =>
              LET Mc == MeshOf(C, l - 1, ChildWorld(C, l, p, ps[j].rank), lv) IN
              /\ Len(ps[j].t) = C.dim + 1
              /\ \A d \in 0..C.dim :
                   /\ Len(ps[j].t[d + 1]) = N(Mc, d)
                   /\ \A i \in 1..Len(ps[j].t[d + 1]) : ps[j].t[d + 1][i] \in 0..(N(Mp, d) - 1)
                   /\ (Len(ps[j].t[d + 1]) = N(Mc, d) /\ \A i \in 1..Len(ps[j].t[d + 1]) : ps[j].t[d + 1][i] \in 0..(N(Mp, d) - 1)) =>
                        \A i \in 1..N(Mc, d) : GTup(Mp, d, ps[j].t[d + 1][i]) = GTup(Mc, d, i - 1)
\* sibling communicators: the children of one parent, the parent process being sibling 0; the top layer has none
SiblingsOK(C) ==
  \A l \in 0..(NLayers(C) - 1) : \A w \in Members(C, l) :
    LET R == LayerRec(C, l, w) IN
    IF l = NLayers(C) - 1 THEN R.sibsize = 0
    ELSE /\ R.sibsize = NumSibs(C, l + 1)
         /\ R.sibrank = LRank(C, l, w) % NumSibs(C, l + 1)
         /\ R.parent_rank = 0

\* ---- ancestry ---------------------------------------------------------------------------------------------------------------
\* one ancestor per partitioning step: the layers with more than one process (a single process: one trivial ancestor)
AncProcs(C) == IF MultiLayered(C) THEN SelectSeq(LayerProcs(C), LAMBDA n : n > 1) ELSE <<C.nr>>
AncestryOK(C) ==
  \A w \in 0..(C.nr - 1) :
    LET A == RankRec(C, w).ancestry  P == AncProcs(C) IN
    /\ Len(A) = Len(P)
    /\ \A i \in 1..Len(P) :
         LET np == P[i]
             nq == IF i < Len(P) THEN P[i + 1] ELSE 1                 \* processes of the parent layer
             sc == C.nr \div np                                        \* world stride of this layer
             sp == C.nr \div nq                                        \* world stride of the parent layer
             me == w \div sc                                           \* the patch of this layer that w descends from
         IN /\ A[i].num_procs = np /\ A[i].num_parts = np \div nq
            /\ A[i].child = me % (np \div nq) /\ A[i].group = me - (me % (np \div nq))
            /\ A[i].first = (w \div sp) * sp /\ A[i].count = sp
            /\ A[i].pcomm_size = sp /\ A[i].pcomm_rank = w - (w \div sp) * sp
            /\ A[i].layer = (IF w % sc = 0 THEN i - 1 ELSE -1)
            /\ A[i].layer_p = (IF MultiLayered(C) /\ Len(RankRec(C, w).layers) > i THEN i ELSE -1)
            /\ (A[i].found \/ A[i].apriori)

=============================================================================
