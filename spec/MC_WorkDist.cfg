INIT Init
NEXT Next
CONSTANTS MaxLayers = 8 MaxSize = 3 MaxW = 5
INVARIANT Inv
