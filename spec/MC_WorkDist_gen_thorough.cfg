INIT Init
NEXT Next
CONSTANTS MaxLayers = 9 MaxSize = 3 MaxW = 6
INVARIANT Emit
