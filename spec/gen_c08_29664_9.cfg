SPECIFICATION Spec
CONSTANTS NS = {4} Kinds = {"sor", "ssor", "ilu"} Pals = {1} MinOff = 0 MaxOff = 3 Filters = 0 Mode = "canon" MaxHist = 0
INVARIANTS SorRelation SsorRelation JacobiRelation IluLaws Linearity LifeOK Emit
CHECK_DEADLOCK FALSE
