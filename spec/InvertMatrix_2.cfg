SPECIFICATION Spec
CONSTANT N = 2
INVARIANTS InverseOK Emit
CHECK_DEADLOCK FALSE
