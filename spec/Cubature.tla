------------------------------ MODULE Cubature ------------------------------
(* C14: the cubature rule NAME LANGUAGE and the CONTRACT TABLE.             *)
(*                                                                          *)
(* Name language (as DynamicFactory / AutoAlias / RefineFactory /           *)
(* TensorProductFactory / SimplexScalarFactory / DriverFactory accept it;   *)
(* every keyword is case-insensitive, parameters are decimal naturals):     *)
(*                                                                          *)
(*   Name   ::= [ Refine ] Core                                             *)
(*   Refine ::= "refine:" | "refine*" k ":"          (k-fold refinement; at *)
(*              most ONE refine prefix: the refine factory wraps the        *)
(*              non-refining factories only)                                *)
(*   Core   ::= [ Prefix ] driver [ ":" n ]   |  [ Prefix ] alias           *)
(*            | "auto-degree:" n                                            *)
(*   Prefix ::= "tensor:" (hypercubes) | "scalar:" (Simplex<1>) for the     *)
(*              scalar drivers - ONLY in builds that define                 *)
(*              FEAT_CUBATURE_TENSOR_PREFIX / FEAT_CUBATURE_SCALAR_PREFIX   *)
(*              (constant Prefixes); in such a build the prefix is          *)
(*              mandatory, otherwise it is not part of the language.        *)
(*                                                                          *)
(* Contract table: per driver and shape the parameter range, the number of  *)
(* points and the NOMINAL DEGREE, transcribed from the literature the       *)
(* driver headers name (kernel/cubature/*.hpp, kernel/cubature/scalar/*.hpp)*)
(* - not read off the coefficient tables:                                   *)
(*   gauss-legendre n (1..20)     n^d points   degree 2n-1                  *)
(*   gauss-lobatto n (3..6)       n^d          degree 2n-3                  *)
(*   newton-cotes-closed n (2..7) n^d          degree n (n odd), n-1 (even) *)
(*        aliases simpson=3 pulcherrima=4 milne-boole=5 6-point=6 weddle=7  *)
(*   newton-cotes-open n (1..7)   n^d          degree n (n odd), n-1 (even) *)
(*   maclaurin n (1..5)           n^d          degree n (n odd), n-1 (even) *)
(*   barycentre (alias midpoint)  1            degree 1                     *)
(*   trapezoidal                  vertices     degree 1                     *)
(*   hammer-stroud-degree-2/3 (Simplex 2,3)  d+1 / d+2 points, degree 2 / 3 *)
(*   hammer-stroud-degree-5 (Simplex 3)      15 points, degree 5            *)
(*   lauffer-degree-2 (Simplex 2,3)  (d+1)(d+2)/2 points, degree 2          *)
(*   lauffer-degree-4 (Simplex 3)    35 points, degree 4                    *)
(*   silvester-open n (2..8, Simplex 2)  (n+1)(n+2)/2 points, degree n      *)
(*   dunavant n (2..20, Simplex 2)   Dunavant's table of points, degree n   *)
(*   shunn-ham n (2..6, Simplex 3)   n(n+1)(n+2)/6 points, degree 2,3,5,6,8 *)
(*   refine*k:R     points(R) * c^k (c = 2,4,12 / 2,4,8), degree of R       *)
(*   auto-degree:n  some rule of degree >= min(n, advertised maximum)       *)
(*                                                                          *)
(* Meaning(sentence, shape) is  Unknown  or  Rule(points, degree).  TLC     *)
(* enumerates every sentence (valid ones in every case style, and the       *)
(* invalid neighbours of the language: parameter below/above the range,     *)
(* missing, empty, non-numeric, with trailing garbage, fractional, negative,*)
(* misspelt keywords, rules of other shapes, doubled refine, uncompiled     *)
(* prefixes ...) for the six shapes and prints one case per sentence.       *)
(* Contract checked by the replayer on DynamicFactory::create/create_throw: *)
(*   Unknown  <=>  refused;   Rule(p, d)  =>  accepted, p points, weights   *)
(*   sum to the reference volume, every monomial of total degree <= d       *)
(*   integrated exactly up to the stated rounding bound.                    *)
EXTENDS Integers, Sequences, FiniteSets, TLC, Json

CONSTANTS Prefixes,       \* BOOLEAN: build with FEAT_CUBATURE_TENSOR_PREFIX / _SCALAR_PREFIX
          Styles,         \* subset of {"lower", "upper", "mixed"}: case styles of the valid sentences
          RefineMaxPts,   \* a refine prefix is put in front of a core as long as the refined rule has at most this many points
          Invalid         \* BOOLEAN: enumerate the invalid neighbours as well

VARIABLES ph, shape, sentence
vars == <<ph, shape, sentence>>

Shapes == {[kind |-> k, dim |-> d] : k \in {"simplex", "hypercube"}, d \in 1..3}

\* ---- contract table ------------------------------------------------------------------------------
ScalarDrivers == {"gauss-legendre", "gauss-lobatto", "maclaurin", "newton-cotes-closed", "newton-cotes-open"}
FixedDrivers == {"barycentre", "trapezoidal", "hammer-stroud-degree-2", "hammer-stroud-degree-3", "hammer-stroud-degree-5",
                 "lauffer-degree-2", "lauffer-degree-4"}
VariadicDrivers == ScalarDrivers \cup {"silvester-open", "dunavant", "shunn-ham"}
Drivers == FixedDrivers \cup VariadicDrivers
\* alias -> <<driver, parameter>> (parameter 0 for fixed drivers)
Aliases == [a \in {"midpoint", "simpson", "pulcherrima", "milne-boole", "6-point", "weddle"} |->
              CASE a = "midpoint"    -> <<"barycentre", 0>>
                [] a = "simpson"     -> <<"newton-cotes-closed", 3>>
                [] a = "pulcherrima" -> <<"newton-cotes-closed", 4>>
                [] a = "milne-boole" -> <<"newton-cotes-closed", 5>>
                [] a = "6-point"     -> <<"newton-cotes-closed", 6>>
                [] a = "weddle"      -> <<"newton-cotes-closed", 7>>]

ParMin(drv) == CASE drv = "gauss-lobatto" -> 3
                 [] drv \in {"newton-cotes-closed", "silvester-open", "dunavant", "shunn-ham"} -> 2
                 [] OTHER -> 1
ParMax(drv) == CASE drv = "gauss-legendre" -> 20
                 [] drv = "gauss-lobatto" -> 6
                 [] drv = "maclaurin" -> 5
                 [] drv \in {"newton-cotes-closed", "newton-cotes-open"} -> 7
                 [] drv = "silvester-open" -> 8
                 [] drv = "dunavant" -> 20
                 [] drv = "shunn-ham" -> 6
                 [] OTHER -> 0

Avail(drv, sh) ==
  CASE drv \in ScalarDrivers -> sh.kind = "hypercube" \/ sh.dim = 1
    [] drv \in {"barycentre", "trapezoidal"} -> TRUE
    [] drv \in {"hammer-stroud-degree-2", "hammer-stroud-degree-3", "lauffer-degree-2"} -> sh.kind = "simplex" /\ sh.dim \in {2, 3}
    [] drv \in {"hammer-stroud-degree-5", "lauffer-degree-4", "shunn-ham"} -> sh.kind = "simplex" /\ sh.dim = 3
    [] drv \in {"silvester-open", "dunavant"} -> sh.kind = "simplex" /\ sh.dim = 2

Pow(b, e) == LET p[k \in 0..e] == IF k = 0 THEN 1 ELSE b * p[k-1] IN p[e]
\* D.A. Dunavant, Int. J. Numer. Meth. Eng. 21 (1985), table II: number of points of the degree-n rule
DunavantPoints == <<1, 3, 4, 6, 7, 12, 13, 16, 19, 25, 27, 33, 37, 42, 48, 52, 61, 70, 73, 79>>
\* L. Shunn, F. Ham, J. Comput. Appl. Math. 236 (2012): 1, 4, 10, 20, 35, 56 points are of degree 1, 2, 3, 5, 6, 8
ShunnHamDegree == <<1, 2, 3, 5, 6, 8>>
OddDegree(n) == IF n % 2 = 1 THEN n ELSE n - 1

Points(drv, n, sh) ==
  LET d == sh.dim IN
  CASE drv \in ScalarDrivers -> Pow(n, d)
    [] drv = "barycentre" -> 1
    [] drv = "trapezoidal" -> IF sh.kind = "simplex" THEN d + 1 ELSE Pow(2, d)
    [] drv = "hammer-stroud-degree-2" -> d + 1
    [] drv = "hammer-stroud-degree-3" -> d + 2
    [] drv = "hammer-stroud-degree-5" -> 15
    [] drv = "lauffer-degree-2" -> ((d + 1) * (d + 2)) \div 2
    [] drv = "lauffer-degree-4" -> 35
    [] drv = "silvester-open" -> ((n + 1) * (n + 2)) \div 2
    [] drv = "dunavant" -> DunavantPoints[n]
    [] drv = "shunn-ham" -> (n * (n + 1) * (n + 2)) \div 6

NominalDegree(drv, n) ==
  CASE drv = "gauss-legendre" -> 2 * n - 1
    [] drv = "gauss-lobatto" -> 2 * n - 3
    [] drv \in {"maclaurin", "newton-cotes-closed", "newton-cotes-open"} -> OddDegree(n)
    [] drv \in {"barycentre", "trapezoidal"} -> 1
    [] drv \in {"hammer-stroud-degree-2", "lauffer-degree-2"} -> 2
    [] drv = "hammer-stroud-degree-3" -> 3
    [] drv = "lauffer-degree-4" -> 4
    [] drv = "hammer-stroud-degree-5" -> 5
    [] drv \in {"silvester-open", "dunavant"} -> n
    [] drv = "shunn-ham" -> ShunnHamDegree[n]

RefineFactor(sh) == IF sh.kind = "hypercube" THEN Pow(2, sh.dim) ELSE (IF sh.dim = 3 THEN 12 ELSE Pow(2, sh.dim))
\* AutoAlias<Shape>::max_auto_degree
MaxAutoDegree(sh) == IF sh.kind = "hypercube" \/ sh.dim = 1 THEN 39 ELSE IF sh.dim = 2 THEN 19 ELSE 5

\* ---- sentences -------------------------------------------------------------------------------------
\* refine: [kind |-> "none" | "plain" | "count" | "bad", k, txt]       (txt: the text after "refine", before ":")
\* core:   [kind |-> "driver" | "alias" | "auto" | "raw", tok, par]    par: [kind |-> "none" | "num" | "bad", n, txt, why]
Unknown == [accept |-> FALSE, pts |-> 0, deg |-> 0]
Rule(p, d) == [accept |-> TRUE, pts |-> p, deg |-> d]

NoPar == [kind |-> "none", n |-> 0, txt |-> "", why |-> ""]
NumPar(n) == [kind |-> "num", n |-> n, txt |-> ToString(n), why |-> ""]
BadPar(txt, why) == [kind |-> "bad", n |-> 0, txt |-> txt, why |-> why]

\* meaning of a core (without refine) for a shape: <<verdict, base name, reason if unknown>>
CoreMeaning(core, sh) ==
  CASE core.kind = "driver" ->
         LET drv == core.tok  par == core.par IN
         IF ~Avail(drv, sh) THEN <<Unknown, "", "rule_of_other_shape">>
         ELSE IF drv \in FixedDrivers
              THEN IF par.kind = "none" THEN <<Rule(Points(drv, 0, sh), NominalDegree(drv, 0)), drv, "">>
                   ELSE <<Unknown, "", "param_unexpected">>
              ELSE (CASE par.kind = "none" -> <<Unknown, "", "param_missing">>
                      [] par.kind = "bad"  -> <<Unknown, "", par.why>>
                      [] par.kind = "num"  -> IF par.n \in ParMin(drv)..ParMax(drv)
                                              THEN <<Rule(Points(drv, par.n, sh), NominalDegree(drv, par.n)), drv \o ":" \o ToString(par.n), "">>
                                              ELSE <<Unknown, "", "param_out_of_range">>)
    [] core.kind = "alias" ->
         LET adrv == Aliases[core.tok][1]  an == Aliases[core.tok][2] IN
         IF ~Avail(adrv, sh) THEN <<Unknown, "", "rule_of_other_shape">>
         ELSE IF core.par.kind # "none" THEN <<Unknown, "", "param_unexpected">>
         ELSE <<Rule(Points(adrv, an, sh), NominalDegree(adrv, an)), IF an = 0 THEN adrv ELSE adrv \o ":" \o ToString(an), "">>
    [] core.kind = "auto" ->
         (CASE core.par.kind = "num" -> LET m == MaxAutoDegree(sh) IN
                                        <<Rule(0 - 1, IF core.par.n < m THEN core.par.n ELSE m), "auto-degree", "">>
            [] core.par.kind = "none" -> <<Unknown, "", "param_missing">>
            [] OTHER -> <<Unknown, "", core.par.why>>)
    [] core.kind = "raw" -> <<Unknown, "", core.par.why>>

IsScalarCore(core) == \/ core.kind = "driver" /\ core.tok \in ScalarDrivers
                      \/ core.kind = "alias" /\ Aliases[core.tok][1] \in ScalarDrivers
PrefixOf(sh) == IF sh.kind = "hypercube" THEN "tensor" ELSE "scalar"

Meaning(s, sh) ==
  LET cm == CoreMeaning(s.core, sh)
      \* the scalar drivers carry the prefix exactly in the builds that compile it in
      pfx_ok == IF Prefixes /\ IsScalarCore(s.core) THEN s.prefix = PrefixOf(sh) ELSE s.prefix = ""
      v == cm[1]
  IN  IF ~v.accept THEN [v |-> Unknown, base |-> "", why |-> cm[3]]
      ELSE IF ~pfx_ok THEN [v |-> Unknown, base |-> "", why |-> "prefix_not_in_this_build"]
      ELSE CASE s.refine.kind = "none"  -> [v |-> v, base |-> cm[2], why |-> ""]
             [] s.refine.kind = "plain" -> [v |-> Rule(IF v.pts < 0 THEN v.pts ELSE v.pts * RefineFactor(sh), v.deg), base |-> cm[2], why |-> ""]
             [] s.refine.kind = "count" -> [v |-> Rule(IF v.pts < 0 THEN v.pts ELSE v.pts * Pow(RefineFactor(sh), s.refine.k), v.deg), base |-> cm[2], why |-> ""]
             [] s.refine.kind = "bad"   -> [v |-> Unknown, base |-> "", why |-> s.refine.why]

\* ---- text ---------------------------------------------------------------------------------------------
Tokens == Drivers \cup DOMAIN Aliases \cup {"refine", "tensor", "scalar", "auto-degree"}
UpperOf == [t \in Tokens |->
  CASE t = "gauss-legendre" -> "GAUSS-LEGENDRE" [] t = "gauss-lobatto" -> "GAUSS-LOBATTO" [] t = "maclaurin" -> "MACLAURIN"
    [] t = "newton-cotes-closed" -> "NEWTON-COTES-CLOSED" [] t = "newton-cotes-open" -> "NEWTON-COTES-OPEN"
    [] t = "barycentre" -> "BARYCENTRE" [] t = "trapezoidal" -> "TRAPEZOIDAL"
    [] t = "hammer-stroud-degree-2" -> "HAMMER-STROUD-DEGREE-2" [] t = "hammer-stroud-degree-3" -> "HAMMER-STROUD-DEGREE-3"
    [] t = "hammer-stroud-degree-5" -> "HAMMER-STROUD-DEGREE-5" [] t = "lauffer-degree-2" -> "LAUFFER-DEGREE-2"
    [] t = "lauffer-degree-4" -> "LAUFFER-DEGREE-4" [] t = "silvester-open" -> "SILVESTER-OPEN" [] t = "dunavant" -> "DUNAVANT"
    [] t = "shunn-ham" -> "SHUNN-HAM" [] t = "midpoint" -> "MIDPOINT" [] t = "simpson" -> "SIMPSON" [] t = "pulcherrima" -> "PULCHERRIMA"
    [] t = "milne-boole" -> "MILNE-BOOLE" [] t = "6-point" -> "6-POINT" [] t = "weddle" -> "WEDDLE" [] t = "refine" -> "REFINE"
    [] t = "tensor" -> "TENSOR" [] t = "scalar" -> "SCALAR" [] t = "auto-degree" -> "AUTO-DEGREE"]
MixedOf == [t \in Tokens |->
  CASE t = "gauss-legendre" -> "Gauss-Legendre" [] t = "gauss-lobatto" -> "Gauss-Lobatto" [] t = "maclaurin" -> "MacLaurin"
    [] t = "newton-cotes-closed" -> "Newton-Cotes-closed" [] t = "newton-cotes-open" -> "newton-Cotes-Open"
    [] t = "barycentre" -> "baryCentre" [] t = "trapezoidal" -> "Trapezoidal"
    [] t = "hammer-stroud-degree-2" -> "Hammer-Stroud-degree-2" [] t = "hammer-stroud-degree-3" -> "hammer-stroud-Degree-3"
    [] t = "hammer-stroud-degree-5" -> "Hammer-stroud-degree-5" [] t = "lauffer-degree-2" -> "Lauffer-Degree-2"
    [] t = "lauffer-degree-4" -> "lauffer-degreE-4" [] t = "silvester-open" -> "Silvester-Open" [] t = "dunavant" -> "Dunavant"
    [] t = "shunn-ham" -> "Shunn-Ham" [] t = "midpoint" -> "MidPoint" [] t = "simpson" -> "Simpson" [] t = "pulcherrima" -> "pulcherrimA"
    [] t = "milne-boole" -> "Milne-Boole" [] t = "6-point" -> "6-Point" [] t = "weddle" -> "Weddle" [] t = "refine" -> "Refine"
    [] t = "tensor" -> "Tensor" [] t = "scalar" -> "Scalar" [] t = "auto-degree" -> "Auto-Degree"]
Styled(t, style) == IF t \notin Tokens THEN t ELSE IF style = "upper" THEN UpperOf[t] ELSE IF style = "mixed" THEN MixedOf[t] ELSE t

CoreText(core, style) ==
  IF core.kind = "raw" THEN core.tok
  ELSE Styled(core.tok, style) \o (IF core.par.kind = "none" THEN "" ELSE ":" \o core.par.txt)
RefineText(r, style) ==
  CASE r.kind = "none"  -> ""
    [] r.kind = "plain" -> Styled("refine", style) \o ":"
    [] OTHER            -> Styled("refine", style) \o r.txt \o ":"
Text(s) == RefineText(s.refine, s.style) \o (IF s.prefix = "" THEN "" ELSE Styled(s.prefix, s.style) \o ":") \o CoreText(s.core, s.style)

\* ---- the enumerated sentences -------------------------------------------------------------------------
NoRefine == [kind |-> "none", k |-> 0, txt |-> "", why |-> ""]
PlainRefine == [kind |-> "plain", k |-> 1, txt |-> "", why |-> ""]
CountRefine(k) == [kind |-> "count", k |-> k, txt |-> "*" \o ToString(k), why |-> ""]
BadRefine(txt, why) == [kind |-> "bad", k |-> 0, txt |-> txt, why |-> why]

DriverCore(drv, par) == [kind |-> "driver", tok |-> drv, par |-> par]
AliasCore(a, par) == [kind |-> "alias", tok |-> a, par |-> par]
AutoCore(par) == [kind |-> "auto", tok |-> "auto-degree", par |-> par]
RawCore(txt, why) == [kind |-> "raw", tok |-> txt, par |-> BadPar("", why)]

CorePts(core, sh) == IF core.kind = "alias" THEN Points(Aliases[core.tok][1], Aliases[core.tok][2], sh)
                     ELSE Points(core.tok, core.par.n, sh)

\* valid cores of a shape (every driver with every parameter of its range, every alias, auto-degree 0..max+2)
ValidCores(sh) ==
  {DriverCore(drv, NoPar) : drv \in {f \in FixedDrivers : Avail(f, sh)}}
  \cup UNION {{DriverCore(drv, NumPar(n)) : n \in ParMin(drv)..ParMax(drv)} : drv \in {v \in VariadicDrivers : Avail(v, sh)}}
  \cup {AliasCore(a, NoPar) : a \in {b \in DOMAIN Aliases : Avail(Aliases[b][1], sh)}}
  \cup {AutoCore(NumPar(n)) : n \in 0..(MaxAutoDegree(sh) + 2)}

RefinesFor(core, sh) ==
  {NoRefine}
  \cup (IF core.kind # "auto" /\ CorePts(core, sh) * RefineFactor(sh) <= RefineMaxPts THEN {PlainRefine, CountRefine(0), CountRefine(1)} ELSE {})
  \cup (IF core.kind = "auto" /\ core.par.n \in {2, 5} THEN {PlainRefine} ELSE {})
  \cup (IF core.kind # "auto" /\ CorePts(core, sh) * RefineFactor(sh) * RefineFactor(sh) <= RefineMaxPts THEN {CountRefine(2)} ELSE {})

PrefixFor(core, sh) == IF Prefixes /\ IsScalarCore(core) THEN PrefixOf(sh) ELSE ""

ValidSentences(sh) ==
  UNION {{[refine |-> r, prefix |-> PrefixFor(core, sh), core |-> core, style |-> st] : r \in RefinesFor(core, sh), st \in Styles} :
           core \in ValidCores(sh)}

\* invalid neighbours of the language --------------------------------------------------------------------
BadParsFor(drv) ==
  LET lo == ParMin(drv)  hi == ParMax(drv) IN
  {BadPar("", "param_empty"), BadPar("x", "param_not_a_number"), BadPar(ToString(lo) \o "x", "param_trailing_garbage"),
   BadPar(ToString(lo) \o ".5", "param_fraction"), BadPar("-1", "param_negative"), BadPar(ToString(lo) \o ":1", "param_trailing_colon")}
OutOfRange(drv) == {NumPar(n) : n \in ({ParMin(drv) - 1, ParMax(drv) + 1, 0, 99} \ (ParMin(drv)..ParMax(drv))) \cap Nat}
Typos(t) == {t \o "x", "x" \o t, t \o "-", "_" \o t}

InvalidCores(sh) ==
  \* parameter problems of the available variadic drivers
  UNION {{DriverCore(drv, p) : p \in BadParsFor(drv) \cup OutOfRange(drv) \cup {NoPar}} : drv \in {v \in VariadicDrivers : Avail(v, sh)}}
  \* a parameter on a fixed rule or on an alias
  \cup {DriverCore(drv, NumPar(2)) : drv \in {f \in FixedDrivers : Avail(f, sh)}}
  \cup {AliasCore(a, NumPar(Aliases[a][2])) : a \in {b \in DOMAIN Aliases : Avail(Aliases[b][1], sh)}}
  \* rules of other shapes
  \cup {DriverCore(drv, IF drv \in FixedDrivers THEN NoPar ELSE NumPar(ParMin(drv))) : drv \in {x \in Drivers : ~Avail(x, sh)}}
  \cup {AliasCore(a, NoPar) : a \in {b \in DOMAIN Aliases : ~Avail(Aliases[b][1], sh)}}
  \* misspelt names (with the parameter a correct spelling would need)
  \cup UNION {{RawCore(ty \o (IF drv \in FixedDrivers THEN "" ELSE ":" \o ToString(ParMin(drv))), "name_misspelt") : ty \in Typos(drv)} : drv \in Drivers}
  \cup UNION {{RawCore(ty, "name_misspelt") : ty \in Typos(a)} : a \in DOMAIN Aliases}
  \* auto-degree problems
  \cup {AutoCore(NoPar), AutoCore(BadPar("", "param_empty")), AutoCore(BadPar("x", "param_not_a_number")),
        AutoCore(BadPar("3x", "param_trailing_garbage")), AutoCore(BadPar("3.5", "param_fraction")), AutoCore(BadPar("-1", "param_negative")),
        RawCore("auto-degre:3", "name_misspelt"), RawCore("auto:3", "name_misspelt"), RawCore("auto-degree-3", "name_misspelt"),
        RawCore("autodegree:3", "name_misspelt"), RawCore("auto-points:3", "name_misspelt")}
  \* no rule at all
  \cup {RawCore("", "empty_name"), RawCore(":", "empty_name"), RawCore("::", "empty_name"), RawCore("default", "name_misspelt"),
        RawCore("dummy", "name_misspelt"), RawCore("1", "name_misspelt")}

\* a valid core behind a broken refine prefix
SomeValidCore(sh) == IF sh.kind = "simplex" /\ sh.dim = 2 THEN DriverCore("dunavant", NumPar(2))
                     ELSE IF sh.kind = "simplex" /\ sh.dim = 3 THEN DriverCore("shunn-ham", NumPar(2))
                     ELSE DriverCore("gauss-legendre", NumPar(2))
BadRefines == {BadRefine("*", "refine_count_empty"), BadRefine("*x", "refine_count_not_a_number"),
               BadRefine("*1x", "refine_count_trailing_garbage"), BadRefine("*1.5", "refine_count_fraction"),
               BadRefine("x", "name_misspelt"), BadRefine("-", "name_misspelt"), BadRefine(":refine", "refine_twice"),
               BadRefine("*1:refine", "refine_twice")}

InvalidSentences(sh) ==
  {[refine |-> r, prefix |-> PrefixFor(core, sh), core |-> core, style |-> "lower"] : r \in {NoRefine, PlainRefine}, core \in InvalidCores(sh)}
  \cup {[refine |-> r, prefix |-> PrefixFor(SomeValidCore(sh), sh), core |-> SomeValidCore(sh), style |-> "lower"] : r \in BadRefines}
  \* prefix misuse: a prefix the build does not know / a missing mandatory prefix / the prefix of the other shape family
  \cup (IF sh.kind = "hypercube" \/ sh.dim = 1
        THEN {[refine |-> NoRefine, prefix |-> p, core |-> DriverCore("gauss-legendre", NumPar(2)), style |-> "lower"] :
                 p \in {"", "tensor", "scalar"} \ {PrefixFor(DriverCore("gauss-legendre", NumPar(2)), sh)}}
        ELSE {})

Init ==
  /\ ph = "init"
  /\ shape \in Shapes
  /\ sentence = [refine |-> NoRefine, prefix |-> "", core |-> RawCore("", ""), style |-> "lower"]
Pick ==
  /\ ph = "init" /\ ph' = "done" /\ UNCHANGED shape
  /\ sentence' \in ValidSentences(shape) \cup (IF Invalid THEN InvalidSentences(shape) ELSE {})
Next == Pick
Spec == Init /\ [][Next]_vars

\* ---- sanity laws of the table ---------------------------------------------------------------------
\* valid sentences are known, invalid ones unknown
Partition == ph = "done" => (Meaning(sentence, shape).v.accept = (sentence \in ValidSentences(shape)))
\* refinement keeps the degree; the auto rule reaches the requested degree within the advertised maximum
DegreeLaws == ph = "done" /\ Meaning(sentence, shape).v.accept =>
  LET m == Meaning(sentence, shape)  plain == Meaning([sentence EXCEPT !.refine = NoRefine], shape) IN
  /\ m.v.deg = plain.v.deg /\ m.v.deg >= 0
  /\ (sentence.core.kind = "auto" /\ sentence.core.par.n <= MaxAutoDegree(shape) => m.v.deg >= sentence.core.par.n)
  /\ (sentence.core.kind # "auto" => m.v.pts >= plain.v.pts /\ plain.v.pts >= 1)

Emit == ph = "done" =>
  LET m == Meaning(sentence, shape) IN
  PrintT(ToJson([name |-> Text(sentence), kind |-> shape.kind, dim |-> shape.dim, accept |-> m.v.accept, pts |-> m.v.pts,
                 deg |-> m.v.deg, base |-> m.base, why |-> m.why, maxauto |-> MaxAutoDegree(shape), prefixes |-> Prefixes,
                 refine |-> sentence.refine.kind, style |-> sentence.style, core |-> sentence.core.kind]))
=============================================================================
