-------------------------- MODULE AdjacencyGraph --------------------------
(* C19, graph part: generation of every call on Adjacency::Graph within     *)
(* small bounds, with the post-state predicted from Rel.tla / Adjacency.tla.*)
(*                                                                          *)
(* State: the source graph(s) g1 (and g2 for composite rendering), the call *)
(* that was made and the predicted result `res`.  One action per public     *)
(* call:                                                                    *)
(*   RenderCall(t)     Graph(RenderType t, g1)                              *)
(*   SortCall          g1.sort_indices()          (requires indices)        *)
(*   InspectCall       degree(i), degree(), clone(), serialize round trip   *)
(*   Render2Call(t)    Graph(RenderType t, g1, g2)        (composition)     *)
(*   CompAdjCall       iteration of CompositeAdjactor(g1, g2)               *)
(*   PermuteCall       Graph(g1, domain_perm, image_perm)                   *)
(*   RenameCall        g1.permute_indices(q)                                *)
(*   MatPermCall       SparseMatrixCSR::permute(pr, pc), DenseVector::permute(pr) *)
(* and on Adjacency::DynamicGraph (kernel/adjacency/dynamic_graph.hpp), a   *)
(* SET-valued relation (one std::set of images per domain node), i.e. the   *)
(* injectified relation with ascending images - its value is written as the *)
(* graph value of Render("injectify_sorted", .):                            *)
(*   DynRenderCall(t)   DynamicGraph(RenderType t, g1): every render type   *)
(*                      gives the injectified relation, transposing types   *)
(*                      its converse; plus degree, exists, get_num_indices, *)
(*                      clone and the conversion back Graph(as_is, dyn)     *)
(*   DynRender2Call(t)  DynamicGraph(RenderType t, g1, g2)  (composition)   *)
(*   DynComposeCall     DynamicGraph(as_is, g1).compose(g2)                 *)
(*   DynEditCall        insert(i, j) / erase(i, j) on DynamicGraph(as_is,   *)
(*                      g1): returns whether the pair was absent / present  *)
(*   DynClearCall       clear(): no adjacency, same node counts             *)
(* The INVARIANTS Law* check the constructive prediction against the        *)
(* declarative bag semantics for every generated case; Emit prints the case.*)
EXTENDS Adjacency, Json, TLC

CONSTANTS Mode,      \* "single" | "compose" | "gperm" | "mperm"
          ND, NI,    \* domain / image node bounds of g1 (single, gperm), outer bounds (compose), matrix shape (mperm)
          NM,        \* middle size bound (compose)
          MaxLen,    \* max images per node of g1
          MaxLen2    \* max images per node of g2 (compose)

VARIABLES ph, g1, g2, call, res
vars == <<ph, g1, g2, call, res>>

NoGraph == [nd |-> 0, ni |-> 0, ptr |-> <<0>>, idx |-> <<>>]
NoCall == [op |-> "none", t |-> "", dp |-> <<>>, ip |-> <<>>, ei |-> 0, ej |-> 0, ret |-> FALSE]

\* matrix of mode mperm: pattern P with position-coded non-zero values
MVal(n, i, j) == (i - 1) * n + j
MatOf(m, n, P) == [i \in 1..m |-> [j \in 1..n |-> IF <<i, j>> \in P THEN MVal(n, i, j) ELSE 0]]

Init ==
  /\ ph = "init" /\ call = NoCall /\ res = NoGraph
  /\ \/ /\ Mode = "single"
        /\ \E nd \in 0..ND, ni \in 0..NI : g1 \in AllGraphs(nd, ni, MaxLen)
        /\ g2 = NoGraph
     \/ /\ Mode = "compose"
        /\ \E nd \in 0..ND, nm \in 0..NM, ni \in 0..NI :
             /\ g1 \in AllGraphs(nd, nm, MaxLen)
             /\ g2 \in AllGraphs(nm, ni, MaxLen2)
     \/ /\ Mode = "gperm"
        /\ \E nd \in 1..ND, ni \in 1..NI : g1 \in AllGraphs(nd, ni, MaxLen)
        /\ g2 = NoGraph
     \/ /\ Mode = "mperm"
        /\ \E m \in 1..ND, n \in 1..NI : \E P \in SUBSET ((1..m) \X (1..n)) :
             g1 = [nd |-> m, ni |-> n, P |-> P, D |-> MatOf(m, n, P), rep |-> CSROf(m, n, MatOf(m, n, P), P)]
        /\ g2 = NoGraph

Done(c, r) == ph' = "done" /\ call' = c /\ res' = r /\ UNCHANGED <<g1, g2>>

RenderCall ==
  /\ ph = "init" /\ Mode = "single"
  /\ \E t \in RenderTypes : Done([NoCall EXCEPT !.op = "render", !.t = t], Render(t, g1))

\* Graph::sort_indices asserts that the graph has an index array
SortCall ==
  /\ ph = "init" /\ Mode = "single" /\ Len(g1.idx) > 0
  /\ Done([NoCall EXCEPT !.op = "sort"], Render("as_is_sorted", g1))

InspectCall ==
  /\ ph = "init" /\ Mode = "single"
  /\ Done([NoCall EXCEPT !.op = "inspect"], g1)

Render2Call ==
  /\ ph = "init" /\ Mode = "compose"
  /\ \E t \in RenderTypes : Done([NoCall EXCEPT !.op = "render2", !.t = t], Render2(t, g1, g2))

CompAdjCall ==
  /\ ph = "init" /\ Mode = "compose"
  /\ Done([NoCall EXCEPT !.op = "compadj", !.t = "as_is"], Render2("as_is", g1, g2))

PermuteCall ==
  /\ ph = "init" /\ Mode = "gperm"
  /\ \E dp \in Perms0(g1.nd), ip \in Perms0(g1.ni) :
       Done([NoCall EXCEPT !.op = "permute", !.dp = dp, !.ip = ip], PermuteGraph(g1, dp, ip))

\* Graph::permute_indices asserts  number of indices = size of the permutation  (and maps through .at())
RenameCall ==
  /\ ph = "init" /\ Mode = "gperm" /\ Len(g1.idx) = g1.ni
  /\ \E q \in Perms0(g1.ni) : Done([NoCall EXCEPT !.op = "rename", !.ip = q], RenameImages(g1, q))

MatPermCall ==
  /\ ph = "init" /\ Mode = "mperm"
  /\ \E pr \in Perms0(g1.nd), pc \in Perms0(g1.ni) :
       Done([NoCall EXCEPT !.op = "matperm", !.dp = pr, !.ip = pc],
            [D |-> PermuteMat(g1.nd, g1.ni, g1.D, pr, pc),
             v |-> PermuteVec([i \in 1..g1.nd |-> 10 + i], pr)])

\* ---- DynamicGraph: the set-valued relation, written as its sorted duplicate-free graph value --------------
DynType(t) == IF Transposing(t) THEN "injectify_transpose_sorted" ELSE "injectify_sorted"
DynOf(t, g) == Render(DynType(t), g)
DynOf2(t, ga, gb) == Render2(DynType(t), ga, gb)
\* the graph value of the relation with support S
OfSupport(nd, ni, S) == GraphOf(nd, ni, [i \in 1..nd |-> Flatten([j \in 1..ni |-> IF <<i - 1, j - 1>> \in S THEN <<j - 1>> ELSE <<>>])])

DynRenderCall ==
  /\ ph = "init" /\ Mode = "single"
  /\ \E t \in RenderTypes : Done([NoCall EXCEPT !.op = "dyn_render", !.t = t], DynOf(t, g1))
DynRender2Call ==
  /\ ph = "init" /\ Mode = "compose"
  /\ \E t \in RenderTypes : Done([NoCall EXCEPT !.op = "dyn_render2", !.t = t], DynOf2(t, g1, g2))
DynComposeCall ==
  /\ ph = "init" /\ Mode = "compose"
  /\ Done([NoCall EXCEPT !.op = "dyn_compose", !.t = "as_is"], DynOf2("as_is", g1, g2))
\* (the pre-state DynamicGraph(as_is, g1) depends on the support of g1 only: edits start from the canonical graphs)
DynEditCall ==
  /\ ph = "init" /\ Mode = "single" /\ g1 = Render("injectify_sorted", g1)
  /\ \E kind \in {"insert", "erase"}, i \in 0..(g1.nd - 1), j \in 0..(g1.ni - 1) :
       LET S == Support(g1)  present == <<i, j>> \in S IN
       Done([NoCall EXCEPT !.op = "dyn_edit", !.t = kind, !.ei = i, !.ej = j, !.ret = (IF kind = "insert" THEN ~present ELSE present)],
            OfSupport(g1.nd, g1.ni, IF kind = "insert" THEN S \cup {<<i, j>>} ELSE S \ {<<i, j>>}))
DynClearCall ==
  /\ ph = "init" /\ Mode = "single"
  /\ Done([NoCall EXCEPT !.op = "dyn_clear"], OfSupport(g1.nd, g1.ni, {}))

Next == DynRenderCall \/ DynRender2Call \/ DynComposeCall \/ DynEditCall \/ DynClearCall \/ RenderCall \/ SortCall \/ InspectCall \/ Render2Call \/ CompAdjCall \/ PermuteCall \/ RenameCall \/ MatPermCall
Spec == Init /\ [][Next]_vars

\* ---- laws (the constructive prediction obeys the declarative semantics) ---------------------------
InputsValid == Mode # "mperm" => GraphValid(g1) /\ GraphValid(g2)
LawSingle == ph = "done" /\ call.op = "render" => LawRender(call.t, g1, res)
LawSort == ph = "done" /\ call.op = "sort" =>
             /\ GraphValid(res) /\ res.ptr = g1.ptr
             /\ \A i \in 1..g1.nd : SameBag(AdjOf(res)[i], AdjOf(g1)[i]) /\ IsSortedSeq(AdjOf(res)[i])
LawCompose == ph = "done" /\ call.op \in {"render2", "compadj"} => LawRender2(call.t, g1, g2, res)
\* transposing twice gives the sorted original; injectify is idempotent
LawInvolution == ph = "done" /\ call.op = "render" /\ call.t = "transpose" =>
                   Render("transpose", res) = Render("as_is_sorted", g1)
LawPermute == ph = "done" /\ call.op = "permute" =>
                /\ GraphValid(res) /\ res.nd = g1.nd /\ res.ni = g1.ni
                /\ \A i \in 0..(g1.nd - 1), k \in 0..(g1.ni - 1) :
                     Mult(res, i, call.ip[k + 1]) = Mult(g1, call.dp[i + 1], k)
LawRename == ph = "done" /\ call.op = "rename" =>
               \A i \in 0..(g1.nd - 1), k \in 0..(g1.ni - 1) : Mult(res, i, call.ip[k + 1]) = Mult(g1, i, k)
\* graph / matrix consistency: layout of the permuted matrix = layout graph permuted by (pr, pc^-1), sorted
LawMatPerm == ph = "done" /\ call.op = "matperm" =>
                LayoutOf(g1.nd, g1.ni, res.D) =
                  Render("as_is_sorted", PermuteGraph(LayoutOf(g1.nd, g1.ni, g1.D), call.dp, Inv0(call.ip)))

\* DynamicGraph: the injectified (set) semantics of Rel.tla, ascending images; an unedited as-is rendering has the
\* support of the source; insert/erase change exactly one pair
LawDyn == ph = "done" /\ call.op = "dyn_render" => LawRender(DynType(call.t), g1, res)
LawDyn2 == ph = "done" /\ call.op \in {"dyn_render2", "dyn_compose"} => LawRender2(DynType(call.t), g1, g2, res)
LawDynEdit == ph = "done" /\ call.op = "dyn_edit" =>
  /\ GraphValid(res) /\ res.nd = g1.nd /\ res.ni = g1.ni
  /\ \A i \in 1..res.nd : IsSortedSeq(AdjOf(res)[i]) /\ NoDup(AdjOf(res)[i])
  /\ Support(res) = (IF call.t = "insert" THEN Support(g1) \cup {<<call.ei, call.ej>>} ELSE Support(g1) \ {<<call.ei, call.ej>>})
  /\ call.ret = (Support(res) # Support(g1))

\* ---- emission --------------------------------------------------------------------------------------
FirstEmpty == Mode = "compose" /\ \E i \in 1..g1.nd : LET row == AdjOf(g1)[i] IN Len(row) > 0 /\ AdjOf(g2)[row[1] + 1] = <<>>
Emit == ph = "done" =>
  PrintT(ToJson([mode |-> Mode, op |-> call.op, t |-> call.t, dp |-> call.dp, ip |-> call.ip, g1 |-> g1, g2 |-> g2,
                 exp |-> res, ordered |-> (call.op \notin {"render", "render2"} \/ OrderContractual(call.t)),
                 first_empty |-> FirstEmpty, ei |-> call.ei, ej |-> call.ej, ret |-> call.ret,
                 deg |-> (IF Mode = "mperm" THEN <<>> ELSE [i \in 1..g1.nd |-> Degree(g1, i - 1)]),
                 maxdeg |-> (IF Mode = "mperm" THEN 0 ELSE MaxDegree(g1))]))
=============================================================================
