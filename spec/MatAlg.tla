------------------------------- MODULE MatAlg -------------------------------
(* C03: matrix-level algebra on SparseMatrixCSR / SparseMatrixBCSR.         *)
(*                                                                          *)
(* A container is a pattern (set of stored positions) plus a dense integer  *)
(* matrix; its raw arrays are Storage!CSROf / BCSROf of the two.  Every     *)
(* operation is defined by the textbook formula on the dense matrices       *)
(* (IntLinAlg), restricted to the pattern of the output container where the *)
(* API drops missing entries.  Stored zeros are ordinary entries.           *)
(*                                                                          *)
(* Groups of behaviours (constant Group):                                   *)
(*  "elem": one matrix X and a second matrix Y of the same layout:          *)
(*      axpy (X += alpha Y, also Y==X), scale (X = alpha Y), scale_rows,    *)
(*      scale_cols, lump_rows, extract_diag (square), norm_frobenius,       *)
(*      row_norm2, row_norm2sqr (+ scaled by a column vector),              *)
(*      max/min(_abs)_element (at least one stored entry), shrink(eps)      *)
(*  "mm":  X += alpha D B            (add_mat_mat_product)                  *)
(*  "dvm": X += alpha D diag(a) B    (add_double_mat_product, vector a)     *)
(*  "dmm": X += alpha D A B          (add_double_mat_product, matrix A)     *)
(*  "delem": DenseMatrix X and Y of the same shape: axpy, scale (also Y==X),  *)
(*      norm_frobenius (the Arch::Axpy / Scale / Norm2 kernels over the     *)
(*      row-major array of rows*columns elements)                           *)
(*  "dmul": the dense matrix products  DenseMatrix::multiply  onto a result *)
(*      matrix X WITH PRIOR CONTENTS (so that "beta * old", "not written"   *)
(*      and "overwritten" are three different post-states):                 *)
(*        multiply_dd     X <- x y                  x dense, y dense        *)
(*        multiply_sd     X <- x y                  x CSR,   y dense        *)
(*        multiply_ddz    X <- alpha x y + beta z   x dense; z = Y or z = X *)
(*        multiply_sd_ab  X <- alpha x y + beta X   x CSR                   *)
(*      x = D (CSR: every sparsity pattern incl. empty rows and the entry-  *)
(*      free matrix in both of its states; dense: the full pattern), y = B, *)
(*      z = Y; alpha, beta from {0, 1, -1, 2, -1/2}.  For the two plain     *)
(*      products the post-state does not depend on the pre-state of X at    *)
(*      all: call.dirty = TRUE says the prior contents are arbitrary bit    *)
(*      patterns, non-finite ones included (X(m,n) is not initialised by    *)
(*      its constructor).                                                   *)
(* Product outcome rule: let S be the structural pattern of the product.    *)
(*   S subset Pat(X)                     -> value, X' = X + alpha (product) *)
(*   otherwise and allow_incomplete      -> value, the same restricted to   *)
(*                                          Pat(X) (missing entries dropped)*)
(*   otherwise and not allow_incomplete  -> the call must be refused        *)
(*                                          (outcome abort / exception)     *)
(* Frame: operands and the layout arrays of X are unchanged.                *)
(* alpha = an/ad, beta = bn/bd dyadic; results are held scaled by `den`.     *)
EXTENDS Storage, Json, TLC

CONSTANTS Fmt,         \* "csr" | "bcsr"
          Group,       \* "elem" | "mm" | "dvm" | "dmm" | "delem" | "dmul"
          M0, M1, K0, K1, N0, N1,   \* ranges of the (block) dimensions m, k (= l), n
          MaxRow,      \* bound on stored entries per row (pruning; large = none)
          BH, BW,      \* block shape (bcsr)
          Palette,     \* 1 injective non-zero values, 2 values -2..2 with stored zeros and repeats, 3 all negative, 4 all positive
          ArrayLess,   \* TRUE: an entry-free matrix is the dimension-only container (no arrays); FALSE: allocated, 0 entries
          NAlpha,      \* number of alpha values used for the products (2 or 3)
          ABFull       \* "dmul": TRUE all 25 pairs (alpha, beta) from A5 x A5, FALSE a covering set of 7 pairs

VARIABLES ph, X, Y, D, A, B, call, out
vars == <<ph, X, Y, D, A, B, call, out>>

Val(seed, i, j) ==
  IF Palette = 1 THEN LET q == (i - 1) * 5 + j + seed IN IF q % 2 = 0 THEN q + 1 ELSE -(q + 2)
  ELSE IF Palette = 2 THEN ((i * 3 + j * 5 + seed) % 5) - 2
  ELSE IF Palette = 3 THEN 0 - (((i * 3 + j * 5 + seed) % 7) + 1)      \* all stored values negative (-7..-1), extrema anywhere
  ELSE ((i * 5 + j * 3 + seed) % 7) + 1                                  \* all stored values positive (1..7)
SVec(len) == [q \in 1..len |-> IF q % 2 = 1 THEN q + 1 ELSE -(2 * q - 1)]      \* 2,-3,4,-7,...  scaling vectors
\* the special scaling factors 1, -1, 0 (a row / column scaled by exactly one must still be written when the call is out of place)
SVecU(len) == [q \in 1..len |-> CASE q % 4 = 1 -> 1 [] q % 4 = 2 -> -1 [] q % 4 = 3 -> 0 [] OTHER -> 2]
SVecs(len) == {SVec(len), SVecU(len)}
DVec(len) == [q \in 1..len |-> IF q % 3 = 0 THEN 0 ELSE IF q % 2 = 1 THEN -2 ELSE 3] \* -2,3,0,...  diagonal of A
AbsMat(m, n, Dn) == [i \in 1..m |-> [j \in 1..n |-> Abs(Dn[i][j])]]
Lim == 16777216

BHx == IF Fmt = "bcsr" THEN BH ELSE 1
BWx == IF Fmt = "bcsr" THEN BW ELSE 1
\* scalar pattern of a block pattern
Expand(P, bh, bw) == {<<(e[1]-1) * bh + li, (e[2]-1) * bw + lj>> : e \in P, li \in 1..bh, lj \in 1..bw}

Patterns(m, n) == {P \in SUBSET ((1..m) \X (1..n)) : \A i \in 1..m : Cardinality({e \in P : e[1] = i}) <= MaxRow}

\* a container: block dims mb x nb, block shape bh x bw, block pattern pat, dense scalar matrix (zero outside the pattern)
Mat(mb, nb, bh, bw, P, seed) ==
  LET m == mb * bh  n == nb * bw  SP == Expand(P, bh, bw)
      Dn == [i \in 1..m |-> [j \in 1..n |-> IF <<i, j>> \in SP THEN Val(seed, i, j) ELSE 0]]
  IN [mb |-> mb, nb |-> nb, bh |-> bh, bw |-> bw, m |-> m, n |-> n, pat |-> P, spat |-> SP, dense |-> Dn,
      arrayless |-> (P = {} /\ (ArrayLess \/ mb = 0 \/ nb = 0))]
WithDense(Mx, Dn) == [Mx EXCEPT !.dense = Dn]
RepOf(Mx) == IF Fmt = "bcsr" \/ Mx.bh # 1 \/ Mx.bw # 1
             THEN BCSROf(Mx.mb, Mx.nb, Mx.bh, Mx.bw, Mx.dense, Mx.pat)
             ELSE CSROf(Mx.mb, Mx.nb, Mx.dense, Mx.pat)
NoMat == Mat(0, 0, 1, 1, {}, 0)

NoCall == [op |-> "none", an |-> 1, ad |-> 1, bn |-> 1, bd |-> 1, self |-> FALSE, allow |-> FALSE, eps |-> 0, s |-> <<>>, dirty |-> FALSE]
Full(m, n) == (1..m) \X (1..n)
NoOut == [outcome |-> "value", X |-> NoMat, den |-> 1, vres |-> <<>>, vkind |-> "none", sres |-> 0, skind |-> "none", mag |-> 0]

Init ==
  /\ ph = "init" /\ call = NoCall /\ out = NoOut
  /\ \E m \in M0..M1, n \in N0..N1 :
       CASE Group = "elem" ->
              \E P \in Patterns(m, n) :
                /\ X = Mat(m, n, BHx, BWx, P, 0) /\ Y = Mat(m, n, BHx, BWx, P, 7)
                /\ D = NoMat /\ A = NoMat /\ B = NoMat
         [] Group \in {"mm", "dvm"} ->
              \E k \in K0..K1 : \E PX \in Patterns(m, n), PD \in Patterns(m, k), PB \in Patterns(k, n) :
                /\ X = Mat(m, n, BHx, BWx, PX, 0) /\ D = Mat(m, k, BHx, BWx, PD, 3) /\ B = Mat(k, n, BHx, BWx, PB, 11)
                /\ Y = NoMat /\ A = NoMat
         [] Group = "delem" ->
                /\ X = Mat(m, n, 1, 1, Full(m, n), 0) /\ Y = Mat(m, n, 1, 1, Full(m, n), 7)
                /\ D = NoMat /\ A = NoMat /\ B = NoMat
         [] Group = "dmul" ->
              \* X: the result matrix with its prior contents, D: the left factor x, B: the right factor y, Y: the summand z
              \E k \in K0..K1 : \E PD \in Patterns(m, k) :
                /\ X = Mat(m, n, 1, 1, Full(m, n), 0) /\ D = Mat(m, k, 1, 1, PD, 3) /\ B = Mat(k, n, 1, 1, Full(k, n), 11)
                /\ Y = Mat(m, n, 1, 1, Full(m, n), 7) /\ A = NoMat
         [] Group = "dmm" ->
              \E k \in K0..K1, l \in K0..K1 :
                \E PX \in Patterns(m, n), PD \in Patterns(m, k), PA \in Patterns(k, l), PB \in Patterns(l, n) :
                  /\ X = Mat(m, n, BHx, BWx, PX, 0) /\ D = Mat(m, k, BHx, BWx, PD, 3)
                  /\ A = Mat(k, l, BHx, BWx, PA, 6) /\ B = Mat(l, n, BHx, BWx, PB, 11)
                  /\ Y = NoMat

Fin(c, o) == ph' = "done" /\ call' = c /\ out' = o /\ UNCHANGED <<X, Y, D, A, B>>
MaxAbsMat(Mx) == IF Mx.spat = {} THEN 0 ELSE MaxSeq(Flatten(AbsMat(Mx.m, Mx.n, Mx.dense)))
\* X := Dn restricted to the pattern of X, scaled by den
WrX(Dn, den) == LET Xn == WithDense(X, RestrictTo(X.m, X.n, Dn, X.spat)) IN
                [NoOut EXCEPT !.X = Xn, !.den = den, !.mag = MaxAbsMat(Xn)]
VRes(vec, kind, mag) == [NoOut EXCEPT !.X = X, !.vres = vec, !.vkind = kind, !.mag = mag]
SRes(val, kind, mag) == [NoOut EXCEPT !.X = X, !.sres = val, !.skind = kind, !.mag = mag]
Alphas6 == {<<0, 1>>, <<1, 1>>, <<-1, 1>>, <<2, 1>>, <<-1, 2>>, <<-5, 2>>}
PAlphas == IF NAlpha = 2 THEN {<<1, 1>>, <<-2, 1>>} ELSE {<<1, 1>>, <<-2, 1>>, <<-1, 2>>}
IsElem == ph = "init" /\ Group = "elem"
\* axpy, scale and norm_frobenius have the same definition for a DenseMatrix (a matrix whose pattern is full)
IsElemD == ph = "init" /\ Group \in {"elem", "delem"}
Src(self) == IF self THEN X ELSE Y

(***************************************************************************)
(* "elem" group                                                             *)
(***************************************************************************)
AxpyOp == IsElemD /\ \E self \in BOOLEAN, al \in Alphas6 :
            Fin([NoCall EXCEPT !.op = "axpy", !.an = al[1], !.ad = al[2], !.self = self],
                WrX(MatAxpy(X.m, X.n, al[1], Src(self).dense, MatScale(X.m, X.n, al[2], X.dense)), al[2]))
ScaleOp == IsElemD /\ \E self \in BOOLEAN, al \in Alphas6 :
            Fin([NoCall EXCEPT !.op = "scale", !.an = al[1], !.ad = al[2], !.self = self],
                WrX(MatScale(X.m, X.n, al[1], Src(self).dense), al[2]))
ScaleRowsOp == IsElem /\ \E self \in BOOLEAN, s \in SVecs(X.m) :
            Fin([NoCall EXCEPT !.op = "scale_rows", !.self = self, !.s = s],
                WrX([i \in 1..X.m |-> [j \in 1..X.n |-> Src(self).dense[i][j] * s[i]]], 1))
ScaleColsOp == IsElem /\ \E self \in BOOLEAN, s \in SVecs(X.n) :
            Fin([NoCall EXCEPT !.op = "scale_cols", !.self = self, !.s = s],
                WrX([i \in 1..X.m |-> [j \in 1..X.n |-> Src(self).dense[i][j] * s[j]]], 1))
RowSums(Mx) == [i \in 1..Mx.m |-> SumSeq(Mx.dense[i])]
LumpOp == IsElem /\ Fin([NoCall EXCEPT !.op = "lump_rows"], VRes(RowSums(X), "exact", MaxAbsMat(X) * X.n))
DiagOp == IsElem /\ X.mb = X.nb /\ X.bh = X.bw
          /\ Fin([NoCall EXCEPT !.op = "extract_diag"], VRes([i \in 1..X.m |-> X.dense[i][i]], "exact", MaxAbsMat(X)))
RowSq(Mx) == [i \in 1..Mx.m |-> Norm2Sqr(Mx.dense[i])]
FrobOp == IsElemD /\ Fin([NoCall EXCEPT !.op = "norm_frobenius"], SRes(SumSeq(RowSq(X)), "sqrt", SumSeq(RowSq(X))))
RowNormOp == IsElem /\ \E op \in {"row_norm2", "row_norm2sqr"} :
               Fin([NoCall EXCEPT !.op = op], VRes(RowSq(X), IF op = "row_norm2" THEN "sqrt" ELSE "exact", SumSeq(RowSq(X))))
\* row_norms_i = sum_j scal_j (this_ij)^2   (documented formula; scal lives in the column space)
RowNormScaledOp == IsElem /\ \E s \in SVecs(X.n) :
               Fin([NoCall EXCEPT !.op = "row_norm2sqr_scaled", !.s = s],
                   VRes([i \in 1..X.m |-> SumSeq([j \in 1..X.n |-> s[j] * X.dense[i][j] * X.dense[i][j]])], "exact",
                        SumSeq(RowSq(X)) * (2 * X.n + 1)))
\* extremal stored entries (the zeros outside the pattern do not take part; a stored zero does)
StoredVals(Mx) == LET sp == SetToSortSeq(Mx.spat, LAMBDA e, f : e[1] < f[1] \/ (e[1] = f[1] /\ e[2] < f[2]))
                  IN [q \in 1..Len(sp) |-> Mx.dense[sp[q][1]][sp[q][2]]]
AbsSeq(x) == [q \in 1..Len(x) |-> Abs(x[q])]
MaxMinOp == IsElem /\ X.pat # {} /\ \E op \in {"max_abs_element", "min_abs_element", "max_element", "min_element"} :
              LET sv == StoredVals(X) IN
              Fin([NoCall EXCEPT !.op = op],
                  SRes(CASE op = "max_abs_element" -> MaxSeq(AbsSeq(sv)) [] op = "min_abs_element" -> MinSeq(AbsSeq(sv))
                         [] op = "max_element" -> MaxSeq(sv) [] op = "min_element" -> MinSeq(sv), "exact", 0))
\* shrink(eps): drop the stored entries with |a_ij| < eps  (documented: "smaller absolute value than eps")
ShrinkOp == IsElem /\ Fmt = "csr" /\ \E eps \in 1..3 :
              LET keep == {e \in X.pat : Abs(X.dense[e[1]][e[2]]) >= eps}
                  Xn == [X EXCEPT !.pat = keep, !.spat = keep, !.dense = RestrictTo(X.m, X.n, X.dense, keep), !.arrayless = (keep = {})]
              IN Fin([NoCall EXCEPT !.op = "shrink", !.eps = eps], [NoOut EXCEPT !.X = Xn])

(***************************************************************************)
(* products                                                                 *)
(***************************************************************************)
\* structural pattern of a product of patterns (block level)
PatMul(P, Q) == {<<ef[1][1], ef[2][2]>> : ef \in {pq \in P \X Q : pq[1][2] = pq[2][1]}}
Product(c, S, Dn, mag) ==
  \E allow \in BOOLEAN, al \in PAlphas :
    LET complete == S \subseteq X.pat
        cc == [c EXCEPT !.an = al[1], !.ad = al[2], !.allow = allow]
    IN IF ~complete /\ ~allow
       THEN Fin(cc, [NoOut EXCEPT !.outcome = "abort", !.X = X])
       ELSE Fin(cc, [WrX(MatAxpy(X.m, X.n, al[1], Dn, MatScale(X.m, X.n, al[2], X.dense)), al[2])
                       EXCEPT !.mag = 2 * MaxAbsMat(X) + 2 * mag])
MaxOf(Dn, m, n) == IF m = 0 \/ n = 0 THEN 0 ELSE MaxSeq(Flatten(Dn))
MMOp == ph = "init" /\ Group = "mm" /\ Fmt = "csr" /\
        Product([NoCall EXCEPT !.op = "add_mat_mat_product"], PatMul(D.pat, B.pat),
                MatMat(D.m, D.n, B.n, D.dense, B.dense),
                MaxOf(MatMat(D.m, D.n, B.n, AbsMat(D.m, D.n, D.dense), AbsMat(B.m, B.n, B.dense)), D.m, B.n))
DiagMat(a) == [i \in 1..Len(a) |-> [j \in 1..Len(a) |-> IF i = j THEN a[i] ELSE 0]]
\* the diagonal matrix takes part structurally with all its diagonal entries (a zero on the diagonal is a value, not a hole)
DVMOp == ph = "init" /\ Group = "dvm" /\ Fmt = "csr" /\
         LET a == DVec(D.n)
             DA == MatMat(D.m, D.n, D.n, D.dense, DiagMat(a))
         IN Product([NoCall EXCEPT !.op = "add_double_mat_product_diag", !.s = a], PatMul(D.pat, B.pat),
                    MatMat(D.m, D.n, B.n, DA, B.dense),
                    MaxOf(MatMat(D.m, D.n, B.n, AbsMat(D.m, D.n, DA), AbsMat(B.m, B.n, B.dense)), D.m, B.n))
DMMOp == ph = "init" /\ Group = "dmm" /\
         LET DA == MatMat(D.m, D.n, A.n, D.dense, A.dense)
         IN Product([NoCall EXCEPT !.op = "add_double_mat_product"], PatMul(PatMul(D.pat, A.pat), B.pat),
                    MatMat(D.m, A.n, B.n, DA, B.dense),
                    MaxOf(MatMat(D.m, A.n, B.n, AbsMat(D.m, A.n, MatMat(D.m, D.n, A.n, AbsMat(D.m, D.n, D.dense), AbsMat(A.m, A.n, A.dense))),
                                 AbsMat(B.m, B.n, B.dense)), D.m, B.n))

(***************************************************************************)
(* dense products (DenseMatrix::multiply)                                   *)
(***************************************************************************)
A5 == {<<0, 1>>, <<1, 1>>, <<-1, 1>>, <<2, 1>>, <<-1, 2>>}
\* the reduced set still contains every alpha and every beta of A5, beta = 1 (the default), (1,0) = the plain product, (0,0)
ABPairs == IF ABFull THEN A5 \X A5
           ELSE {<<<<1, 1>>, <<1, 1>>>>, <<<<1, 1>>, <<0, 1>>>>, <<<<0, 1>>, <<0, 1>>>>, <<<<2, 1>>, <<-1, 1>>>>,
                 <<<<-1, 2>>, <<2, 1>>>>, <<<<0, 1>>, <<-1, 2>>>>, <<<<-1, 1>>, <<-1, 2>>>>}
IsDMul == ph = "init" /\ Group = "dmul"
XIsDense == D.pat = Full(D.m, D.n)
DProd == MatMat(D.m, D.n, B.n, D.dense, B.dense)
DProdAbs == MatMat(D.m, D.n, B.n, AbsMat(D.m, D.n, D.dense), AbsMat(B.m, B.n, B.dense))
\* X <- x y : every entry of X is overwritten, whatever it held before
PlainRes == [WrX(DProd, 1) EXCEPT !.mag = MaxOf(DProdAbs, X.m, X.n)]
\* X <- alpha x y + beta Z, scaled by den = ad * bd
GenRes(al, be, Z) ==
  LET sa == al[1] * be[2]  sb == be[1] * al[2]
  IN [WrX([i \in 1..X.m |-> [j \in 1..X.n |-> sa * DProd[i][j] + sb * Z.dense[i][j]]], al[2] * be[2])
        EXCEPT !.mag = MaxOf([i \in 1..X.m |-> [j \in 1..X.n |-> Abs(sa) * DProdAbs[i][j] + Abs(sb) * Abs(Z.dense[i][j])]], X.m, X.n)]
PlainCall(op, dirty) == [NoCall EXCEPT !.op = op, !.bn = 0, !.dirty = dirty]
GenCall(op, al, be, self) == [NoCall EXCEPT !.op = op, !.an = al[1], !.ad = al[2], !.bn = be[1], !.bd = be[2], !.self = self]
MulDDOp == IsDMul /\ XIsDense /\ \E dirty \in BOOLEAN : Fin(PlainCall("multiply_dd", dirty), PlainRes)
MulSDOp == IsDMul /\ \E dirty \in BOOLEAN : Fin(PlainCall("multiply_sd", dirty), PlainRes)
\* self = TRUE: the summand z is the result matrix itself (allowed: entry (i,j) of z is read once, before (i,j) is written)
MulDDZOp == IsDMul /\ XIsDense /\ \E ab \in ABPairs, self \in BOOLEAN :
              Fin(GenCall("multiply_ddz", ab[1], ab[2], self), GenRes(ab[1], ab[2], Src(self)))
MulSDABOp == IsDMul /\ \E ab \in ABPairs : Fin(GenCall("multiply_sd_ab", ab[1], ab[2], TRUE), GenRes(ab[1], ab[2], X))

Next == AxpyOp \/ ScaleOp \/ ScaleRowsOp \/ ScaleColsOp \/ LumpOp \/ DiagOp \/ FrobOp \/ RowNormOp \/ RowNormScaledOp
        \/ MaxMinOp \/ ShrinkOp \/ MMOp \/ DVMOp \/ DMMOp \/ MulDDOp \/ MulSDOp \/ MulDDZOp \/ MulSDABOp
Spec == Init /\ [][Next]_vars

(***************************************************************************)
(* laws of the specification                                                *)
(***************************************************************************)
\* the raw arrays generated for the containers are valid CSR structures representing the dense matrices
RepsValid == \A Mx \in {X, Y, D, A, B} :
  LET r == RepOf(Mx) IN
    /\ CSRValid(Mx.mb, Mx.nb, [rp |-> r.rp, ci |-> r.ci, va |-> r.ci])
    /\ (IF Fmt = "bcsr" \/ Mx.bh # 1 \/ Mx.bw # 1 THEN AbsBCSR(Mx.mb, Mx.nb, Mx.bh, Mx.bw, r) ELSE AbsCSR(Mx.mb, Mx.nb, r)) = Mx.dense
\* results never leave the output pattern; non-shrinking operations keep it
PatternKept == ph = "done" =>
  /\ \A i \in 1..out.X.m, j \in 1..out.X.n : <<i, j>> \notin out.X.spat => out.X.dense[i][j] = 0
  /\ (call.op # "shrink" => out.X.pat = X.pat)
  /\ (call.op = "shrink" => out.X.pat \subseteq X.pat)
ExactDomain == ph = "done" => out.mag < Lim
\* with a complete pattern the restricted result is the full textbook result
CompleteIsFull == ph = "done" /\ call.op = "add_mat_mat_product" /\ out.outcome = "value" /\ PatMul(D.pat, B.pat) \subseteq X.pat =>
  out.X.dense = MatAxpy(X.m, X.n, call.an, MatMat(D.m, D.n, B.n, D.dense, B.dense), MatScale(X.m, X.n, call.ad, X.dense))
\* (D A) B = D (A B) for the double product
Assoc == ph = "done" /\ call.op = "add_double_mat_product" /\ out.outcome = "value" =>
  MatMat(D.m, A.n, B.n, MatMat(D.m, D.n, A.n, D.dense, A.dense), B.dense) = MatMat(D.m, D.n, B.n, D.dense, MatMat(A.m, A.n, B.n, A.dense, B.dense))
\* lumping is the product with the all-ones vector; the Frobenius norm squared is the sum of the row norms squared
LumpIsMatVec == ph = "done" /\ call.op = "lump_rows" => out.vres = MatVec(X.m, X.n, X.dense, [j \in 1..X.n |-> 1])

\* laws of the dense products: every entry of the result is written; a structurally empty row of x leaves exactly
\* beta * z in that row (nothing for the plain product); the plain product is the general one with alpha = 1, beta = 0;
\* (x y)^T = y^T x^T; alpha = 0 leaves beta z; and the result of a plain product does not depend on the prior X
DMulLaws == ph = "done" /\ Group = "dmul" =>
  LET Z == Src(call.self \/ call.op # "multiply_ddz")
      sa == call.an * call.bd  sb == call.bn * call.ad
      plain == call.op \in {"multiply_dd", "multiply_sd"}
  IN /\ out.outcome = "value" /\ out.X.pat = Full(X.m, X.n) /\ out.den = call.ad * call.bd
     /\ \A i \in 1..X.m : (\A j \in 1..D.n : <<i, j>> \notin D.pat) => out.X.dense[i] = Scale(sb, Z.dense[i])
     /\ (plain => sb = 0 /\ sa = 1 /\ out.den = 1 /\ out.X.dense = DProd /\ out = GenRes(<<1, 1>>, <<0, 1>>, Y))
     /\ (~plain => ~call.dirty)
     /\ (sa = 0 => out.X.dense = MatScale(X.m, X.n, sb, Z.dense))
     /\ Transpose(X.m, X.n, MatAxpy(X.m, X.n, -sb, Z.dense, out.X.dense))
          = MatScale(X.n, X.m, sa, MatMat(B.n, B.m, D.m, Transpose(B.m, B.n, B.dense), Transpose(D.m, D.n, D.dense)))

(***************************************************************************)
(* emission                                                                 *)
(***************************************************************************)
J(Mx) == [mb |-> Mx.mb, nb |-> Mx.nb, bh |-> Mx.bh, bw |-> Mx.bw, rep |-> RepOf(Mx),
          nnz |-> Cardinality(Mx.pat), arrayless |-> Mx.arrayless]
Emit == ph = "done" =>
  PrintT(ToJson([fmt |-> Fmt, grp |-> Group, pal |-> Palette, op |-> call.op, an |-> call.an, ad |-> call.ad, bn |-> call.bn, bd |-> call.bd,
                 self |-> call.self, dirty |-> call.dirty,
                 allow |-> call.allow, eps |-> call.eps, s |-> call.s,
                 X |-> J(X), Y |-> J(Y), D |-> J(D), A |-> J(A), B |-> J(B),
                 outcome |-> out.outcome, XP |-> J(out.X), den |-> out.den,
                 vres |-> out.vres, vkind |-> out.vkind, sres |-> out.sres, skind |-> out.skind]))
=============================================================================
