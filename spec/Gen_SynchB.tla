----------------------------- MODULE Gen_SynchB -----------------------------
(* G direction for C13, second part: for every decomposition of the Synch     *)
(* module the results that the remaining operations of kernel/global must     *)
(* produce:                                                                   *)
(*  * blocked vectors (DenseVectorBlocked<2>, <3>) and a tuple vector         *)
(*    (scalar part on dofs[r], blocked part on the mirrored decomposition     *)
(*    dofs2[r] = {ND+1-d}) through Gate / Global::Vector: sync_0, sync_1,     *)
(*    dot, norm2, max/min_abs_element, global dof count, and their _async     *)
(*    variants (same results);                                                *)
(*  * scalar reductions of one value per rank: sum, min, max, norm2           *)
(*    (SynchScalarTicket), blocking and _async;                               *)
(*  * Splitter: join of a consistent (type-1) vector into the base vector on  *)
(*    the root rank (= the undecomposed vector, 0 at dofs nobody holds),      *)
(*    split of a base vector (every rank gets the restriction to dofs[r]);    *)
(*    the harness also checks the frame conditions (input unchanged, a second *)
(*    join gives the same result);                                            *)
(*  * Global::Filter<UnitFilter> (rank-local restriction of one global unit   *)
(*    filter) and Global::MeanFilter (global integrals with frequencies).     *)
(* All per-rank lists are in the local numbering of the rank (Gen_Synch,     *)
(* Renum): mirrors, splitter patch mirrors and filter indices are not        *)
(* monotone in general.                                                      *)
EXTENDS Gen_Synch

Abs(n) == IF n < 0 THEN 0 - n ELSE n
MaxOf(S) == CHOOSE x \in S : \A y \in S : y <= x
MinOf(S) == CHOOSE x \in S : \A y \in S : x <= y

\* ---- blocked values (component k = 1..3) ------------------------------------------------------------------
VB(r, d, k) == Val(r, d) * k - 2 * k * k + r          \* type-0: differs between the sharers
XB(d, k) == X(d) + 3 * k - 2 * d * k                     \* type-1: common value
YB(d, k) == Y(d) - k
SharersIn(dd, d) == {s \in Ranks : d \in dd[s]}
Sync0B(dd, d, k) == LET S == SharersIn(dd, d) IN SumOver(S, [s \in S |-> VB(s, d, k)])
DotB(own, bs) == SumOver(own, [d \in own |-> SumOver(1..bs, [k \in 1..bs |-> XB(d, k) * YB(d, k)])])
NrmB(own, bs) == SumOver(own, [d \in own |-> SumOver(1..bs, [k \in 1..bs |-> XB(d, k) * XB(d, k)])])
AbsB(own, bs) == {Abs(XB(d, k)) : d \in own, k \in 1..bs}

\* ---- the mirrored decomposition of the tuple vector's second component ---------------------------------------
Dofs2 == [r \in Ranks |-> {ND + 1 - d : d \in dofs[r]}]
Owned2 == UNION {Dofs2[r] : r \in Ranks}
Sorted(S) == [i \in 1..Cardinality(S) |-> CHOOSE d \in S : Cardinality({e \in S : e < d}) = i - 1]
PerDof(S, Op(_)) == LET q == Sorted(S) IN [i \in 1..Len(q) |-> Op(q[i])]
\* per-rank lists in the LOCAL numbering of the rank (Gen_Synch: renumbering kind ren[r]); the second component of the tuple
\* vector is renumbered by the same kind on its own patch
PerLoc(r, Op(_)) == LET q == SortedDofs(r) IN [i \in 1..Len(q) |-> Op(q[i])]
T2Ord(r) == RnOrder(Dofs2[r], ren[r])
PerLoc2(r, Op(_)) == LET q == T2Ord(r) IN [i \in 1..Len(q) |-> Op(q[i])]
Shared2(r, s) == Dofs2[r] \cap Dofs2[s]
Mir2(r, s) == IF s # r /\ Shared2(r, s) # {} THEN RnMirror(T2Ord(r), Shared2(r, s)) ELSE <<>>
Blk(bs, Op(_)) == [k \in 1..bs |-> Op(k)]

\* ---- one scalar per rank ------------------------------------------------------------------------------------------
SV(r) == 3 * r * r - 7 * r + 3
SVals == {SV(r) : r \in Ranks}

\* ---- splitter -----------------------------------------------------------------------------------------------------
Root == (Cardinality(dofs[0]) + Cardinality(Owned)) % NR
BV(d) == 11 * d - 4                                     \* a base vector to be split
BVB(d, k) == BV(d) * k + d

\* ---- filters ------------------------------------------------------------------------------------------------------
FSet == {d \in Dofs : d % 2 = 1}
FV(d) == 100 + d
PW(d) == 1 + (d % 2)                                    \* primal weighting vector of the mean filter (type 1)
DW(d) == d + 1                                          \* dual weighting vector (type 1)
MVol == SumOver(Owned, [d \in Owned |-> PW(d) * DW(d)])
MIntSol == SumOver(Owned, [d \in Owned |-> X(d) * DW(d)])
MIntRhs == SumOver(Owned, [d \in Owned |-> X(d) * PW(d)])

CaseB ==
  [kind |-> "vec", nr |-> NR, nd |-> ND,
   dofs |-> [r \in Ranks |-> SortedDofs(r)],
   ren |-> [r \in Ranks |-> ren[r]], nonmono |-> NonMono,
   mir |-> [r \in Ranks |-> [s \in Ranks |-> Mir(r, s)]],
   count |-> [r \in Ranks |-> PerLoc(r, LAMBDA d : Cardinality(Sharers(d)))],
   \* scalar part (as in Gen_Synch)
   v0 |-> [r \in Ranks |-> PerLoc(r, LAMBDA d : v0[r][d])],
   sync0 |-> [r \in Ranks |-> PerLoc(r, LAMBDA d : Sync0Of(v0, dofs)[r][d])],
   x |-> [r \in Ranks |-> PerLoc(r, X)], y |-> [r \in Ranks |-> PerLoc(r, Y)],
   dot |-> SumOver(Owned, [d \in Dofs |-> X(d) * Y(d)]), nrm2 |-> SumOver(Owned, [d \in Dofs |-> X(d) * X(d)]),
   maxabs |-> MaxOf({Abs(X(d)) : d \in Owned}), minabs |-> MinOf({Abs(X(d)) : d \in Owned}),
   nglobal |-> Cardinality(Owned),
   \* blocked
   vb0 |-> [r \in Ranks |-> PerLoc(r, LAMBDA d : Blk(3, LAMBDA k : VB(r, d, k)))],
   sync0b |-> [r \in Ranks |-> PerLoc(r, LAMBDA d : Blk(3, LAMBDA k : Sync0B(dofs, d, k)))],
   xb |-> [r \in Ranks |-> PerLoc(r, LAMBDA d : Blk(3, LAMBDA k : XB(d, k)))],
   yb |-> [r \in Ranks |-> PerLoc(r, LAMBDA d : Blk(3, LAMBDA k : YB(d, k)))],
   dotb |-> [bs \in 2..3 |-> DotB(Owned, bs)], nrm2b |-> [bs \in 2..3 |-> NrmB(Owned, bs)],
   maxabsb |-> [bs \in 2..3 |-> MaxOf(AbsB(Owned, bs))], minabsb |-> [bs \in 2..3 |-> MinOf(AbsB(Owned, bs))],
   \* tuple: second component (blocked, 2 components) on the mirrored decomposition
   t2dofs |-> [r \in Ranks |-> T2Ord(r)],
   t2mir |-> [r \in Ranks |-> [s \in Ranks |-> Mir2(r, s)]],
   t2v0 |-> [r \in Ranks |-> PerLoc2(r, LAMBDA d : Blk(2, LAMBDA k : VB(r, d, k)))],
   t2sync0 |-> [r \in Ranks |-> PerLoc2(r, LAMBDA d : Blk(2, LAMBDA k : Sync0B(Dofs2, d, k)))],
   t2x |-> [r \in Ranks |-> PerLoc2(r, LAMBDA d : Blk(2, LAMBDA k : XB(d, k)))],
   t2y |-> [r \in Ranks |-> PerLoc2(r, LAMBDA d : Blk(2, LAMBDA k : YB(d, k)))],
   tdot |-> SumOver(Owned, [d \in Dofs |-> X(d) * Y(d)]) + DotB(Owned2, 2),
   tnrm2 |-> SumOver(Owned, [d \in Dofs |-> X(d) * X(d)]) + NrmB(Owned2, 2),
   tmaxabs |-> MaxOf({Abs(X(d)) : d \in Owned} \cup AbsB(Owned2, 2)),
   tminabs |-> MinOf({Abs(X(d)) : d \in Owned} \cup AbsB(Owned2, 2)),
   tnglobal |-> Cardinality(Owned) + Cardinality(Owned2), tnglobalpod |-> Cardinality(Owned) + 2 * Cardinality(Owned2),
   \* scalars
   sval |-> [r \in Ranks |-> SV(r)], ssum |-> SumOver(Ranks, [r \in Ranks |-> SV(r)]),
   smin |-> MinOf(SVals), smax |-> MaxOf(SVals), ssq |-> SumOver(Ranks, [r \in Ranks |-> SV(r) * SV(r)]),
   \* splitter
   root |-> Root,
   base |-> [d \in Dofs |-> IF d \in Owned THEN X(d) ELSE 0],
   baseb |-> [d \in Dofs |-> Blk(2, LAMBDA k : IF d \in Owned THEN XB(d, k) ELSE 0)],
   bv |-> [d \in Dofs |-> BV(d)], bvb |-> [d \in Dofs |-> Blk(2, LAMBDA k : BVB(d, k))],
   split |-> [r \in Ranks |-> PerLoc(r, BV)],
   splitb |-> [r \in Ranks |-> PerLoc(r, LAMBDA d : Blk(2, LAMBDA k : BVB(d, k)))],
   \* filters
   fdofs |-> [r \in Ranks |-> Sorted(dofs[r] \cap FSet)],
   fvals |-> [r \in Ranks |-> PerDof(dofs[r] \cap FSet, FV)],
   fsol |-> [r \in Ranks |-> PerLoc(r, LAMBDA d : IF d \in FSet THEN FV(d) ELSE X(d))],
   fdef |-> [r \in Ranks |-> PerLoc(r, LAMBDA d : IF d \in FSet THEN 0 ELSE X(d))],
   pw |-> [r \in Ranks |-> PerLoc(r, PW)], dw |-> [r \in Ranks |-> PerLoc(r, DW)],
   mvol |-> MVol,
   msol |-> [r \in Ranks |-> PerLoc(r, LAMBDA d : X(d) * MVol - PW(d) * MIntSol)],   \* = MVol * filter_sol(x)
   mrhs |-> [r \in Ranks |-> PerLoc(r, LAMBDA d : X(d) * MVol - DW(d) * MIntRhs)],   \* = MVol * filter_rhs(x)
   mmag |-> Abs(MIntSol) + Abs(MIntRhs) + MaxOf({Abs(X(d)) : d \in Owned}) * Abs(MVol)]

EmitB == NonEmpty => PrintT(ToJson(CaseB))
\* sanity laws of the expected values
LawSyncShared == \A r, s \in Ranks : \A d \in dofs[r] \cap dofs[s] : Sync0B(dofs, d, 2) = Sync0B(dofs, d, 2) /\ Sync0Of(v0, dofs)[r][d] = Sync0Of(v0, dofs)[s][d]
LawRenum2 == \A r \in Ranks : RnIsPerm(T2Ord(r), Dofs2[r]) /\ \A s \in Ranks \ {r} : RnMirrorsAgree(T2Ord(r), T2Ord(s), Shared2(r, s))
LawNorm == NrmB(Owned, 3) >= NrmB(Owned, 2) /\ (NonEmpty => MVol > 0)
=============================================================================
