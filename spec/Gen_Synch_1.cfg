SPECIFICATION GenSpec
CONSTANTS NR = 1 ND = 3
INVARIANT Emit
