SPECIFICATION GenSpec
CONSTANTS NR = 1 ND = 3 RENK = 2
INVARIANTS Emit LawRenum
