----------------------------- MODULE PersistFmt -----------------------------
(* C05: the persisted formats as pure definitions (no state): the generic   *)
(* container state Arrays(c) per container kind, the binary layout of       *)
(* Container::_serialize (BinFile / ReadBin / BinLayoutOK), the text        *)
(* formats (TextFile / ReadText) and the abstract view compared after a     *)
(* text round trip.  Used by Persist.tla (single container I/O) and         *)
(* PersistCkpt.tla (checkpoints).  See the header of Persist.tla.           *)
EXTENDS Storage

(***************************************************************************)
(* Generic container state per kind                                          *)
(***************************************************************************)
NonEmpty(s) == IF Len(s) = 0 THEN <<>> ELSE <<s>>
BandUsed(m, n, offs) == Cardinality(BandPattern(m, n, {offs[k] : k \in 1..Len(offs)}))
\* A container without any entry exists in two states: WITHOUT ARRAYS (alloc = FALSE: the dimension-only
\* constructors, e.g. SparseMatrixCSR(rows, cols), SparseVector(size)) and with ALLOCATED ARRAY SLOTS of length 0
\* (alloc = TRUE: SparseMatrixCSR(rows, cols, 0) - val and col_ind of length 0, row_ptr of length rows+1 -, the
\* array constructors with empty arrays, what the MatrixMarket readers produce).  An array of length 0 is still
\* an array: the number of arrays and their sizes are part of the persisted state.
Arrays(cc) ==
  LET r == cc.rep IN
  CASE cc.kind \in {"dv", "dvb"} -> [el |-> NonEmpty(r.va), ix |-> <<>>, si |-> <<cc.m>>]
    [] cc.kind \in {"sv", "svb"} ->
         [el |-> IF cc.alloc THEN <<r.va>> ELSE NonEmpty(r.va), ix |-> IF cc.alloc THEN <<r.idx>> ELSE NonEmpty(r.idx),
          si |-> <<cc.m, Len(r.idx), Len(r.idx), Min(cc.m, 1000), 1>>]
    [] cc.kind = "dm"     -> [el |-> <<r.va>>, ix |-> <<>>, si |-> <<cc.m * cc.n, cc.m, cc.n>>]
    [] cc.kind = "csr"    -> IF Len(r.ci) = 0 /\ ~cc.alloc THEN [el |-> <<>>, ix |-> <<>>, si |-> <<cc.m * cc.n, cc.m, cc.n, 0>>]
                             ELSE [el |-> <<r.va>>, ix |-> <<r.ci, r.rp>>, si |-> <<cc.m * cc.n, cc.m, cc.n, Len(r.ci)>>]
    [] cc.kind = "bcsr"   -> IF Len(r.ci) = 0 /\ ~cc.alloc THEN [el |-> <<>>, ix |-> <<>>, si |-> <<cc.m * cc.n, cc.m, cc.n, 0>>]
                             ELSE [el |-> <<Flatten([k \in 1..Len(r.va) |-> Flatten(r.va[k])])>>, ix |-> <<r.ci, r.rp>>,
                                   si |-> <<cc.m * cc.n, cc.m, cc.n, Len(r.ci)>>]
    [] cc.kind = "cscr"   -> IF Len(r.ci) = 0 /\ ~cc.alloc THEN [el |-> <<>>, ix |-> <<>>, si |-> <<cc.m * cc.n, cc.m, cc.n, 0, 0>>]
                             ELSE [el |-> <<r.va>>, ix |-> <<r.ci, r.rp, r.rn>>, si |-> <<cc.m * cc.n, cc.m, cc.n, Len(r.ci), Len(r.rn)>>]
    [] cc.kind = "banded" -> [el |-> <<r.va>>, ix |-> <<r.offs>>, si |-> <<cc.m * cc.n, cc.m, cc.n, BandUsed(cc.m, cc.n, r.offs), Len(r.offs)>>]

(***************************************************************************)
(* Binary format: transcription of Container::_serialize (uncompressed)     *)
(***************************************************************************)
Magic(mode) == CASE mode = "exp" -> 0 [] mode = "dv" -> 1 [] mode = "mtx" -> 2 [] mode = "csr" -> 4 [] mode = "bm" -> 6
                 [] mode = "dm" -> 7 [] mode = "sv" -> 8 [] mode = "svb" -> 9 [] mode = "dvb" -> 10 [] mode = "bcsr" -> 11
                 [] mode = "cscr" -> 12 [] mode = "binary" -> 13
NativeMode(kind) == CASE kind = "dv" -> "dv" [] kind = "dvb" -> "dvb" [] kind = "sv" -> "sv" [] kind = "svb" -> "svb" [] kind = "dm" -> "dm"
                      [] kind = "csr" -> "csr" [] kind = "bcsr" -> "bcsr" [] kind = "cscr" -> "cscr" [] kind = "banded" -> "bm"
\* Type::Traits<T>::feature_hash() = sizeof | int << 32 | float << 33 | signed << 34, as <<low word, high word>>
HashFloat(bytes) == <<bytes, 6>>
HashUInt(bytes) == <<bytes, 1>>
W(x) == <<x, 0>>
CompressionOff == 17       \* CompressionModes::elements_off | indices_off = 0x11 (kernel/lafem/base.hpp)
CeilDiv(a, b) == (a + b - 1) \div b
SumLens(ss) == SumSeq([i \in 1..Len(ss) |-> Len(ss[i])])
\* byte offsets of consecutive arrays of `unit` bytes per entry starting at `start`
Offsets(ss, start, unit) ==
  LET O[i \in 0..Len(ss)] == IF i = 0 THEN start ELSE O[i-1] + Len(ss[i]) * unit
  IN  [i \in 1..Len(ss) |-> O[i-1]]
BinFile(arr, magic, cdt, cit, sdt, sit) ==
  LET E == Len(arr.el)  I == Len(arr.ix)  S == Len(arr.si)
      g == 11 + 2 * E + 2 * I + S                       \* u64 words before the data section
      offEl == 8 * g                                   \* (no scalar_dt entries: no LAFEM container has any)
      endEl == offEl + SumLens(arr.el) * sdt
      offIx == CeilDiv(endEl, sit) * sit               \* index arrays are aligned to sizeof(IT2)
      raw == 8 * g + SumLens(arr.el) * sdt + SumLens(arr.ix) * sit
      len == raw + 16
  IN  [fmt |-> "bin", len |-> len,
       words |-> <<W(len), W(magic), HashFloat(cdt), HashUInt(cit), W(E), W(I), W(E), W(I), W(S), W(0), W(CompressionOff)>>
                 \o [i \in 1..E |-> W(Len(arr.el[i]))] \o [i \in 1..E |-> W(Len(arr.el[i]) * sdt)]
                 \o [i \in 1..I |-> W(Len(arr.ix[i]))] \o [i \in 1..I |-> W(Len(arr.ix[i]) * sit)]
                 \o [i \in 1..S |-> W(arr.si[i])],
       offEl |-> Offsets(arr.el, offEl, sdt), offIx |-> Offsets(arr.ix, offIx, sit),
       el |-> arr.el, ix |-> arr.ix, sdt |-> sdt, sit |-> sit]
\* the reader: counts and sizes from the header words, arrays from the data section
ReadBin(f) ==
  LET E == f.words[5][1]  I == f.words[6][1]  S == f.words[9][1]
      base == 11 + 2 * E + 2 * I
  IN  [el |-> [i \in 1..E |-> SubSeq(f.el[i], 1, f.words[11 + i][1])],
       ix |-> [i \in 1..I |-> SubSeq(f.ix[i], 1, f.words[11 + 2 * E + i][1])],
       si |-> [i \in 1..S |-> f.words[base + i][1]]]
BinLayoutOK(f) ==
  /\ \A i \in 1..Len(f.el) : f.offEl[i] % f.sdt = 0 /\ f.offEl[i] + Len(f.el[i]) * f.sdt <= f.len
  /\ \A i \in 1..Len(f.ix) : f.offIx[i] % f.sit = 0 /\ f.offIx[i] + Len(f.ix[i]) * f.sit <= f.len
  /\ \A i \in 1..Len(f.ix) : \A j \in 1..Len(f.el) : f.offIx[i] >= f.offEl[j] + Len(f.el[j]) * f.sdt   \* no overlap
  /\ f.len % 8 = 0 \/ f.sdt = 4 \/ f.sit = 4

(***************************************************************************)
(* Values: integer numerators over Den, plus the distinguished IEEE value   *)
(* NegZero (-0): EQUAL to 0 in value, but a different bit pattern.  Binary   *)
(* modes are bit-identical, so a stored -0 stays a stored -0; the text modes *)
(* promise equality to the printed precision only, so they are compared      *)
(* through Canon (a stored +0 / -0 is a STORED ENTRY in either case: the     *)
(* pattern - stored index set, used_elements - is part of the state).        *)
(***************************************************************************)
NegZero == 999999937
Canon(v) == IF v = NegZero THEN 0 ELSE v
CanonSeq(s) == [k \in 1..Len(s) |-> Canon(s[k])]
CanonRep(rep) == [rp |-> rep.rp, ci |-> rep.ci, va |-> CanonSeq(rep.va)]
IsZero(v) == Canon(v) = 0

(***************************************************************************)
(* Text formats                                                              *)
(***************************************************************************)
HdrArray == "%%MatrixMarket matrix array real general"
HdrCoord == "%%MatrixMarket matrix coordinate real general"
HdrCoordSym == "%%MatrixMarket matrix coordinate real symmetric"
L(i, x) == [i |-> i, x |-> x]
ExpandBlocks(cc) == \* scalar CSR arrays of a BCSR container: every stored block is written completely
  LET r == cc.rep
      Blk(i, k) == {<<(i - 1) * cc.bh + y, r.ci[k] * cc.bw + x>> : y \in 1..cc.bh, x \in 1..cc.bw}
      P == UNION {UNION {Blk(i, k) : k \in (r.rp[i] + 1)..r.rp[i+1]} : i \in 1..cc.m}
  IN  CSROf(cc.m * cc.bh, cc.n * cc.bw, AbsBCSR(cc.m, cc.n, cc.bh, cc.bw, r), P)
\* EVERY stored entry is one line - also an entry whose value is (+/-) 0
CoordLines(rep, mm) ==
  Flatten([i \in 1..mm |-> [k \in 1..(rep.rp[i+1] - rep.rp[i]) |-> L(<<i, rep.ci[rep.rp[i] + k] + 1>>, <<rep.va[rep.rp[i] + k]>>)]])
\* the symmetric coordinate format lists the stored entries of the lower triangle (row >= column) only
LowerLines(rep, mm) ==
  Flatten([i \in 1..mm |-> SelectSeq([k \in 1..(rep.rp[i+1] - rep.rp[i]) |-> L(<<i, rep.ci[rep.rp[i] + k] + 1>>, <<rep.va[rep.rp[i] + k]>>)],
                                     LAMBDA l : l.i[1] >= l.i[2])])
\* write_out(fm_mtx, file, symmetric = true) is defined for square matrices with a symmetric pattern and symmetric values
\* (+0 and -0 are the same VALUE)
SymCSR(mm, nn, rep) ==
  /\ mm = nn
  /\ LET P == PatCSR(mm, rep)  A == AbsCSR(mm, nn, rep)
     IN  \A e \in P : <<e[2], e[1]>> \in P /\ Canon(A[e[1]][e[2]]) = Canon(A[e[2]][e[1]])
TextFile(cc, mode) ==
  LET r == cc.rep IN
  CASE mode = "exp" -> [fmt |-> "text", hdr |-> "", lines |-> [k \in 1..Len(r.va) |-> L(<<>>, <<r.va[k]>>)]]
    [] mode = "mtx" /\ cc.kind \in {"dv", "dvb"} ->
         [fmt |-> "text", hdr |-> HdrArray, lines |-> <<L(<<Len(r.va), 1>>, <<>>)>> \o [k \in 1..Len(r.va) |-> L(<<>>, <<r.va[k]>>)]]
    [] mode = "mtx" /\ cc.kind = "sv" ->
         [fmt |-> "text", hdr |-> HdrCoord, lines |-> <<L(<<cc.m, 1, Len(r.idx)>>, <<>>)>> \o [k \in 1..Len(r.idx) |-> L(<<r.idx[k] + 1, 1>>, <<r.va[k]>>)]]
    [] mode = "mtx" /\ cc.kind = "dm" ->
         [fmt |-> "text", hdr |-> HdrArray, lines |-> <<L(<<cc.m, cc.n, cc.m * cc.n>>, <<>>)>> \o [k \in 1..Len(r.va) |-> L(<<>>, <<r.va[k]>>)]]
    [] mode = "mtx" /\ cc.kind = "csr" ->
         [fmt |-> "text", hdr |-> HdrCoord, lines |-> <<L(<<cc.m, cc.n, Len(r.ci)>>, <<>>)>> \o CoordLines(r, cc.m)]
    [] mode = "mtxsym" /\ cc.kind = "csr" ->
         [fmt |-> "text", hdr |-> HdrCoordSym, lines |-> <<L(<<cc.m, cc.n, Len(LowerLines(r, cc.m))>>, <<>>)>> \o LowerLines(r, cc.m)]
    [] mode = "mtx" /\ cc.kind = "bcsr" ->       \* block after block, each block row-major (coordinate entries may come in any order)
         [fmt |-> "text", hdr |-> HdrCoord,
          lines |-> <<L(<<cc.m * cc.bh, cc.n * cc.bw, Len(r.ci) * cc.bh * cc.bw>>, <<>>)>> \o
                    Flatten([i \in 1..cc.m |-> Flatten([k \in 1..(r.rp[i+1] - r.rp[i]) |->
                      [e \in 1..(cc.bh * cc.bw) |->
                         LET y == ((e - 1) \div cc.bw) + 1  x == ((e - 1) % cc.bw) + 1  q == r.rp[i] + k
                         IN  L(<<(i - 1) * cc.bh + y, r.ci[q] * cc.bw + x>>, <<r.va[q][y][x]>>)]])])]

\* the readers: an abstract view [m, n, ...] reconstructed from the lines only.  The number of stored entries (`used`) is the
\* number of entry lines; the values are the values of the tokens (Canon: the sign of a zero is not part of a text round trip)
ReadText(kind, mode, bs, f) ==
  LET ls == f.lines IN
  CASE mode = "exp" -> [m |-> Len(ls) \div bs, va |-> [k \in 1..Len(ls) |-> Canon(ls[k].x[1])]]
    [] mode = "mtx" /\ kind \in {"dv", "dvb"} -> [m |-> ls[1].i[1] \div bs, va |-> [k \in 1..(Len(ls) - 1) |-> Canon(ls[k+1].x[1])]]
    [] mode = "mtx" /\ kind = "sv" ->
         [m |-> ls[1].i[1], used |-> Len(ls) - 1, idx |-> [k \in 1..(Len(ls) - 1) |-> ls[k+1].i[1] - 1], va |-> [k \in 1..(Len(ls) - 1) |-> Canon(ls[k+1].x[1])]]
    [] mode = "mtx" /\ kind = "dm" -> [m |-> ls[1].i[1], n |-> ls[1].i[2], va |-> [k \in 1..(Len(ls) - 1) |-> Canon(ls[k+1].x[1])]]
    [] mode \in {"mtx", "mtxsym"} /\ kind \in {"csr", "bcsr"} ->       \* (a BCSR MatrixMarket file is read by the CSR reader)
         LET mm == ls[1].i[1]  nn == ls[1].i[2]
             K  == 2..Len(ls)
             Q  == {<<ls[k].i[1], ls[k].i[2]>> : k \in K}
             \* a symmetric file: every listed off-diagonal entry stands for its mirror image as well
             P  == IF f.hdr = HdrCoordSym THEN Q \cup {<<e[2], e[1]>> : e \in Q} ELSE Q
             Src(i, j) == IF <<i, j>> \in Q THEN <<i, j>> ELSE <<j, i>>
             D  == [i \in 1..mm |-> [j \in 1..nn |->
                      IF <<i, j>> \in P THEN Canon(ls[CHOOSE k \in K : ls[k].i = Src(i, j)].x[1]) ELSE 0]]
         IN  [m |-> mm, n |-> nn, used |-> Cardinality(P), rep |-> CSROf(mm, nn, D, P)]
AbsView(cc, mode) ==
  CASE cc.kind \in {"dv", "dvb"} -> [m |-> cc.m, va |-> CanonSeq(cc.rep.va)]
    [] cc.kind = "sv" -> [m |-> cc.m, used |-> Len(cc.rep.idx), idx |-> cc.rep.idx, va |-> CanonSeq(cc.rep.va)]
    [] cc.kind = "dm" -> [m |-> cc.m, n |-> cc.n, va |-> CanonSeq(cc.rep.va)]
    [] cc.kind = "csr" -> [m |-> cc.m, n |-> cc.n, used |-> Len(cc.rep.ci), rep |-> CanonRep(cc.rep)]
    [] cc.kind = "bcsr" -> [m |-> cc.m * cc.bh, n |-> cc.n * cc.bw, used |-> Len(cc.rep.ci) * cc.bh * cc.bw, rep |-> CanonRep(ExpandBlocks(cc))]
\* the number of stored entries of a container
StoredCount(cc) ==
  CASE cc.kind \in {"dv", "dvb", "dm"} -> Len(cc.rep.va)
    [] cc.kind = "sv" -> Len(cc.rep.idx)
    [] cc.kind = "csr" -> Len(cc.rep.ci)
    [] cc.kind = "bcsr" -> Len(cc.rep.ci) * cc.bh * cc.bw

=============================================================================
