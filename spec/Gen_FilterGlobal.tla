--------------------------- MODULE Gen_FilterGlobal ---------------------------
(* C06, filters on MORE THAN ONE process (kernel/global/filter.hpp,          *)
(* kernel/global/mean_filter.hpp).                                            *)
(*                                                                           *)
(* A distributed vector of type 1 holds, on every process r, the entries of  *)
(* ONE undecomposed vector at the dofs of its patch dofs[r] (in the local    *)
(* numbering of the patch); a dof may belong to several patches.  The        *)
(* statement decided here: a global filter applied to the distributed vector *)
(* gives, on every process, the restriction of what the LAFEM filter with    *)
(* the undecomposed data (Filters.tla) gives on the undecomposed vector -    *)
(* every dof counts ONCE in the integrals of the mean filter however many    *)
(* patches share it (Global::MeanFilter weights the local sums by the gate's *)
(* frequencies 1/#sharers).  For every decomposition of Gen_Synch (all       *)
(* hypergraphs of NR patches over ND dofs, local renumberings) and every     *)
(* global filter                                                              *)
(*   gmean      Global::MeanFilter(p, d, freqs, comm)                        *)
(*   gunit      Global::Filter<UnitFilter>  (all index sets of owned dofs)   *)
(*   gchain_um  FilterChain<UnitFilter, Global::MeanFilter>                  *)
(*   gchain_mu  FilterChain<Global::MeanFilter, UnitFilter>                  *)
(* the undecomposed vector after filter_<op> called once and twice is        *)
(* computed by Filters!Apply for all four operations; the invariants decide  *)
(* the property's clauses on it (GConstraint: prescribed values / zero       *)
(* WEIGHTED GLOBAL MEAN with every dof counted once; GComplement;            *)
(* GIdempotent; GExact) and GOnce states the counting rule itself.  Emit     *)
(* prints the case with all per-process data (local filter data, input and   *)
(* expected vectors in the local numbering, mirrors, sharer counts) for the  *)
(* MPI replayer harness/c06_gfilter.cpp, which also takes the filter object  *)
(* through the life-cycle routes `lcs` (value preserving: Filters!CopyOf;    *)
(* the in-place routes start from an object holding the previous content     *)
(* t0).                                                                       *)
EXTENDS Gen_Synch

CONSTANTS GKinds,  \* subset of {"gmean", "gunit", "gchain_um", "gchain_mu"}
          GUAll,   \* TRUE: the unit filters over ALL index sets of owned dofs; FALSE: none, the first, the odd, all owned dofs
          GPal,    \* value palette 1 | 2
          GLCs     \* life-cycle routes replayed for every case (a set of strings, passed through)

VARIABLES gf,      \* the global filter: a value of Filters.tla over the undecomposed vector (positions = owned dofs, ascending)
          gres     \* operation -> [a, b]: Filters!Apply results after the first / second call on the undecomposed vector
fvars == <<gvars, gf, gres>>

Flt == INSTANCE Filters

\* ---- the undecomposed vector ---------------------------------------------------------------------------------------
GSeq == RnSorted(Owned)                       \* position i (1-based) of the undecomposed vector is global dof GSeq[i]
NG == Cardinality(Owned)
GPos(d) == RnPos(GSeq, d)
XG(d) == IF d % 2 = 1 THEN 2 * d + 1 ELSE 0 - (3 * d - 1)       \* 3, -5, 7, -11: non-zero at every (shared) dof

\* weights of the mean filter per global dof; the dual weight of the last owned dof is chosen such that the volume
\* p.d (every dof once) is a power of two
PWof(d) == IF d = GSeq[NG] \/ GPal = 1 THEN 1 ELSE 1 + (d % 2)
DWraw(d) == ((2 * d + GPal) % 3) + 1
SRest == SumOver(Owned \ {GSeq[NG]}, [d \in Dofs |-> PWof(d) * DWraw(d)])
VolT == Flt!NextPow(SRest)
DWof(d) == IF d = GSeq[NG] THEN VolT - SRest ELSE DWraw(d)
GMean == [kind |-> "mean", bs |-> 1, p |-> [i \in 1..NG |-> PWof(GSeq[i])], d |-> [i \in 1..NG |-> DWof(GSeq[i])],
          vol |-> <<VolT>>, mun |-> <<0>>, mud |-> 1]                \* Global::MeanFilter has no prescribed mean: zero
GUnit(I) == Flt!UnitOf(1, I, GPal)                                   \* I = 0-based positions of the undecomposed vector
GUSets == IF GUAll THEN SUBSET (0..(NG - 1))
          ELSE {{}, {0}, {g \in 0..(NG - 1) : GSeq[g + 1] % 2 = 1}, 0..(NG - 1)}
GFilters ==
  (IF "gmean" \in GKinds THEN {GMean} ELSE {})
  \cup (IF "gunit" \in GKinds THEN {GUnit(I) : I \in GUSets} ELSE {})
  \cup (IF "gchain_um" \in GKinds THEN {[kind |-> "chain", bs |-> 1, fs |-> <<GUnit(I), GMean>>] : I \in GUSets} ELSE {})
  \cup (IF "gchain_mu" \in GKinds THEN {[kind |-> "chain", bs |-> 1, fs |-> <<GMean, GUnit(I)>>] : I \in GUSets} ELSE {})

\* the previous content of the object for the in-place routes: other weights / the complementary index set with other values
RECURSIVE PrevOf(_)
PrevOf(F) ==
  CASE F.kind = "mean" -> [F EXCEPT !.p = [i \in 1..NG |-> F.d[i] + 1], !.d = [i \in 1..NG |-> 3 - F.p[i]], !.vol = <<0>>]
    [] F.kind = "unit" -> Flt!UnitOf(1, (0..(NG - 1)) \ Flt!IdxSet(F.idx), 3 - GPal)
    [] OTHER -> [F EXCEPT !.fs = [j \in 1..Len(F.fs) |-> PrevOf(F.fs[j])]]

\* ---- denotation on the undecomposed vector ---------------------------------------------------------------------------
DenOf(F) == Flt!DivOf(F) * Flt!DivOf(F)
X0Of(F) == [i \in 1..NG |-> DenOf(F) * XG(GSeq[i])]
Den == DenOf(gf)
X0 == X0Of(gf)
TwoCalls(F, o) == LET a == Flt!Apply(F, o, DenOf(F), X0Of(F)) IN [a |-> a, b |-> Flt!Apply(F, o, DenOf(F), a.v)]
R1(o) == gres[o].a
R2(o) == gres[o].b

FInit == /\ GenInit /\ NonEmpty
         /\ gf \in GFilters
         /\ gres = [o \in Flt!Ops |-> TwoCalls(gf, o)]
FNext == UNCHANGED fvars
FSpec == FInit /\ [][FNext]_fvars

\* ---- what process r holds (local numbering of Gen_Synch) -------------------------------------------------------------
NLoc(r) == Cardinality(dofs[r])
LocalVec(r, vv) == [i \in 1..NLoc(r) |-> vv[GPos(SortedDofs(r)[i])]]
LocIdx(r, F) ==      \* the constrained local indices (0-based, ascending) of a unit filter
  RnSorted({RnPos(SortedDofs(r), GSeq[g + 1]) - 1 : g \in {h \in Flt!IdxSet(F.idx) : GSeq[h + 1] \in dofs[r]}})
RECURSIVE LocalOf(_, _)
LocalOf(F, r) ==
  CASE F.kind = "mean" -> [kind |-> "mean", bs |-> 1, p |-> LocalVec(r, F.p), d |-> LocalVec(r, F.d), vol |-> F.vol, mun |-> F.mun, mud |-> F.mud]
    [] F.kind = "unit" ->
         LET idx == LocIdx(r, F) IN
           [kind |-> "unit", bs |-> 1, idx |-> idx,
            val |-> [t \in 1..Len(idx) |-> F.val[Flt!PosOf(F.idx, GPos(SortedDofs(r)[idx[t] + 1]) - 1)]],
            msk |-> [t \in 1..Len(idx) |-> 1], ign |-> FALSE]
    [] OTHER -> [kind |-> F.kind, bs |-> F.bs, fs |-> [j \in 1..Len(F.fs) |-> LocalOf(F.fs[j], r)]]

\* ---- the property on the undecomposed vector ---------------------------------------------------------------------------
GFilterOK == Flt!WellFormed(gf, NG)
GExact == \A o \in Flt!Ops : R1(o).ex /\ R2(o).ex
GConstraint == \A o \in Flt!Ops : Flt!Constraint(gf, o, Den, NG, R1(o).v) /\ Flt!Constraint(gf, o, Den, NG, R2(o).v)
GComplement == \A o \in Flt!Ops : Flt!Complement(gf, o, NG, X0, R1(o).v) /\ Flt!Complement(gf, o, NG, R1(o).v, R2(o).v)
GIdempotent == Flt!IdemGuaranteed(gf, NG) => \A o \in Flt!Ops : R2(o).v = R1(o).v
\* the counting rule: the frequency weighted local sums add up to the integral over the undecomposed vector (every dof once);
\* written with the common denominator LCM = 12 of the sharer counts 1..4 (6 ranks: 60)
CntLcm == IF NR <= 4 THEN 12 ELSE 60
WSum(vv, ww) == SumOver(Ranks, [r \in Ranks |-> SumOver(dofs[r], [d \in Dofs |-> (CntLcm \div Cardinality(Sharers(d))) * vv[GPos(d)] * ww[GPos(d)]])])
GOnce == LET M == IF gf.kind = "mean" THEN gf ELSE GMean IN
           /\ WSum(X0, M.p) = CntLcm * Flt!CompDot(X0, M.p, 1, 1)
           /\ WSum(M.p, M.d) = CntLcm * M.vol[1]
\* the local filter data are a restriction: a unit filter constrains local dof i of process r iff it constrains its global dof
GRestrict == \A r \in Ranks :
  LET chk(F) == F.kind # "unit" \/ \A i \in 1..NLoc(r) : Flt!Has(LocalOf(F, r).idx, i - 1) <=> Flt!Has(F.idx, GPos(SortedDofs(r)[i]) - 1)
  IN  IF Flt!IsChain(gf) THEN \A j \in 1..Len(gf.fs) : chk(gf.fs[j]) ELSE chk(gf)

\* ---- emission ------------------------------------------------------------------------------------------------------------
MaxMx == LET m1 == [o \in Flt!Ops |-> Flt!Max(R1(o).mx, R2(o).mx)] IN Flt!Max(Flt!Max(m1["rhs"], m1["sol"]), Flt!Max(m1["def"], m1["cor"]))
GCase ==
  [part |-> "global", nr |-> NR, nd |-> ND, kind |-> "gfilter",
   dofs |-> [r \in Ranks |-> SortedDofs(r)], ren |-> [r \in Ranks |-> ren[r]],
   mir |-> [r \in Ranks |-> [s \in Ranks |-> Mir(r, s)]],
   count |-> [r \in Ranks |-> [i \in 1..NLoc(r) |-> Cardinality(Sharers(SortedDofs(r)[i]))]],
   gdofs |-> GSeq, f |-> gf, t0 |-> PrevOf(gf), den |-> Den, mx |-> MaxMx, lcs |-> GLCs,
   idem |-> Flt!IdemGuaranteed(gf, NG),
   loc |-> [r \in Ranks |-> LocalOf(gf, r)], loct0 |-> [r \in Ranks |-> LocalOf(PrevOf(gf), r)],
   x0 |-> [r \in Ranks |-> LocalVec(r, X0)],
   v1 |-> [o \in Flt!Ops |-> [r \in Ranks |-> LocalVec(r, R1(o).v)]],
   v2 |-> [o \in Flt!Ops |-> [r \in Ranks |-> LocalVec(r, R2(o).v)]],
   g0 |-> X0, g1 |-> [o \in Flt!Ops |-> R1(o).v]]
GEmit == PrintT(ToJson(GCase))
=============================================================================
