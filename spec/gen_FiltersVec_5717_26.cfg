SPECIFICATION Spec
CONSTANTS Family = "tuple" MinN = 0 MaxN = 2 BS = 3 Depth = 1 Pal = 2
INVARIANTS FilterOK ExactDomain ConstraintHolds ComplementHolds IdempotentHolds Emit
CHECK_DEADLOCK FALSE
