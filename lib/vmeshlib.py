"""Glue shared by checks/C10.py and checks/C12.py: origin certificates for refined meshes, size guards for TLC's
32-bit integers, seeded re-numbering / re-orientation of raw meshes, batching of dumps into TLC runs.

Nothing in here decides the property: the certificate computed by `parents` is *checked* by spec/MeshTopo.tla
(IsParent / VertexOrigin), a wrong or missing entry makes the specification reject the case.
"""
import json, os, random
import concurrent.futures as cf
import vlib


def nverts(fam, d):
    return (1 << d) if fam == "hypercube" else d + 1


def has_mid(fam, d):
    """does the regular refinement put a vertex into the barycentre of a d-entity (only used to build the hash map)"""
    if d == 0:
        return True
    if fam == "hypercube":
        return True
    return d in (1, 3)


def idx_of(M, d, e):
    return M["idx"]["i%d%d" % (d, e)]


def verts_of(M, d, i):
    return [i] if d == 0 else idx_of(M, d, 0)[i]


def parents(Mc, Mf, fam, dim):
    """certificate: for every fine entity the smallest coarse entity containing it, [[d,i],...] per fine dimension;
    [-1,-1] where none exists"""
    X, Xf = Mc["X"], Mf["X"]
    keymap = {}
    for d in range(dim + 1):
        if not has_mid(fam, d):
            continue
        nv = nverts(fam, d)
        mul = 8 // nv
        for i in range(Mc["n"][d]):
            vs = verts_of(Mc, d, i)
            key = tuple(mul * sum(X[v][a] for v in vs) for a in range(dim))
            keymap.setdefault(key, (d, i))
    # star: entities whose closure contains (e,j)
    star = {}
    for d in range(dim + 1):
        for i in range(Mc["n"][d]):
            star.setdefault((d, i), set()).add((d, i))
    for d in range(1, dim + 1):
        for e in range(d):
            tab = idx_of(Mc, d, e)
            for i, row in enumerate(tab):
                for j in row:
                    star.setdefault((e, j), set()).add((d, i))
    par = []
    p0 = []
    for v in range(Mf["n"][0]):
        key = tuple(8 * Xf[v][a] for a in range(dim))
        p0.append(keymap.get(key, (-1, -1)))
    par.append([list(p) for p in p0])
    for e in range(1, dim + 1):
        out = []
        tab = idx_of(Mf, e, 0)
        for t in range(Mf["n"][e]):
            os_ = set(p0[v] for v in tab[t])
            if (-1, -1) in os_:
                out.append([-1, -1]); continue
            it = iter(os_)
            cand = set(star.get(next(it), ()))
            for o in it:
                cand &= star.get(o, set())
                if not cand:
                    break
            cand = [c for c in cand if c[0] >= e]
            if not cand:
                out.append([-1, -1]); continue
            out.append(list(min(cand)))
        par.append(out)
    return par


def geo_exact(case):
    """can TLC evaluate volumes / Jacobians of this case in 32-bit integers? (global extent and per-cell extent)"""
    dim, fam = case["dim"], case["fam"]
    M0 = case["levels"][0]
    X = M0["X"]
    if not X:
        return False
    ext = [max(p[a] for p in X) - min(p[a] for p in X) for a in range(dim)]
    unit = {("simplex", 2): 2, ("simplex", 3): 6, ("hypercube", 2): 2, ("hypercube", 3): 12}[(fam, dim)]
    tot = unit
    for a in range(dim):
        tot *= max(1, ext[a])
    h = 0
    for cv in idx_of(M0, dim, 0):
        for a in range(dim):
            cs = [X[v][a] for v in cv]
            h = max(h, max(cs) - min(cs))
    percell = (384 * h ** 3) if dim == 3 else (16 * h ** 2)
    return tot < (1 << 30) and percell < (1 << 30)


def finish_case(path):
    """read a dump written by the harness, attach certificate + geo flag, return the case dict"""
    with open(path) as f:
        case = json.loads(f.readline())
    fam, dim = case["fam"], case["dim"]
    L = case["levels"]
    # a dump that is inconsistent in itself (e.g. entity counts that disagree with the containers) must reach the
    # specification, which then rejects it (WellFormed / ParentsExist): no certificate rather than a glue-code crash
    par = []
    for l in range(len(L) - 1):
        try:
            if "adapt" in case:
                # RootMeshNode::refine_unique(AdaptMode) (harness/c10_adapt.cpp): the certificate relates a level to its
                # UNADAPTED refinement (adaption moves vertices away from the barycentres)
                par.append(parents(L[l], case["adapt"]["none"][l], fam, dim))
            else:
                par.append(parents(L[l], L[l + 1], fam, dim))
        except (IndexError, KeyError, TypeError):
            par.append([])
    case["par"] = par
    try:
        case["geo"] = geo_exact(case)
    except (IndexError, KeyError, TypeError, ValueError):
        case["geo"] = False
    return case


def case_weight(case):
    return sum(sum(M["n"]) for M in case["levels"]) * (1 + sum(len(M.get("parts", [])) for M in case["levels"][:1]) // 8)


def run_tlc_batches(chk, module, envname, cases, tag, max_procs=6, target_weight=None, timeout=1500, xmx="3g", weight=case_weight):
    """write the cases into batches (ndjson), run one TLC process per batch in parallel, return {id: verdict-record}"""
    gdir = os.path.join(vlib.BUILD, "gen", chk.pid)
    os.makedirs(gdir, exist_ok=True)
    cases = sorted(cases, key=weight, reverse=True)
    if target_weight is None:
        # about two rounds of batches per process: a TLC start costs ~4 s (JVM, parsing, constant tables)
        total = sum(weight(c) for c in cases)
        target_weight = max(total // (2 * max_procs) + 1, 20000)
    batches, cur, w = [], [], 0
    for c in cases:
        cw = weight(c)
        if cur and w + cw > target_weight:
            batches.append(cur); cur, w = [], 0
        cur.append(c); w += cw
    if cur:
        batches.append(cur)
    paths = []
    for k, b in enumerate(batches):
        p = os.path.join(gdir, "%s_batch_%d_%d.ndjson" % (tag, os.getpid(), k))
        with open(p, "w") as f:
            for c in b:
                f.write(json.dumps(c, separators=(",", ":")) + "\n")
        paths.append(p)
    verdicts = {}

    def one(p):
        return vlib.tlc(module, module + ".cfg", env={envname: p}, timeout=timeout, xmx=xmx, tag="%s_%s" % (tag, os.path.basename(p)))
    try:
        with cf.ThreadPoolExecutor(max_workers=max_procs) as ex:
            for r, p, b in zip(ex.map(one, paths), paths, batches):
                chk.add_tlc(r, "%s %s (%d cases)" % (module, os.path.basename(p), len(b)))
                if r.violation:
                    raise vlib.MachineryError("TLC reported an error while evaluating %s: %s\n%s" % (p, r.violation, r.out[-1500:]))
                for v in r.printed:
                    verdicts[v["id"]] = v
                if len(r.printed) != len(b):
                    raise vlib.MachineryError("TLC evaluated %d of %d cases of %s" % (len(r.printed), len(b), p))
    finally:
        for p in paths:
            try:
                os.remove(p)
            except OSError:
                pass
    return verdicts


def _write_batch(args):
    """worker: build one batch file by streaming (one case in memory at a time); returns per-case summaries"""
    path, items, prepare_name = args
    prepare = globals()[prepare_name]
    info = []
    with open(path, "w") as f:
        for it in items:
            c = prepare(it["path"])
            for k, v in it.get("extra", {}).items():
                c[k] = v
            f.write(json.dumps(c, separators=(",", ":")) + "\n")
            info.append(summary(c))
            del c
    return info


def summary(c):
    """small per-case record kept by the check after the dump itself has been handed to TLC"""
    L = c.get("levels", [])
    out = {"id": c["id"], "nlevels": len(L), "geo": bool(c.get("geo", False))}
    if "parti" in c:      # C12 dump
        out.update({"success": c["parti"]["success"], "nranks": c["nranks"], "assign": c["assign"] if len(json.dumps(c["assign"])) < 2000 else "(large)",
                    "fine_cells": L[-1]["base"]["n"][-1] if L else 0})
        return out
    if L and "n" in L[-1]:
        out["fine_cells"] = L[-1]["n"][-1]
        out["n"] = [M["n"] for M in L]
        out["parts"] = [p["name"] for p in L[0].get("parts", [])][:8]
    return out


def run_tlc_stream(chk, module, envname, items, tag, prepare="finish_case", max_procs=6, target_weight=None, cap_weight=400000,
                   timeout=2400, xmx="4g"):
    """like run_tlc_batches, but memory-bounded: items = [{"id","path","weight"[,"extra"]}]; the batch files are built by
    worker processes that hold one case at a time (prepare(path) -> case dict), then one TLC process per batch.
    returns (verdicts by id, summaries by id)"""
    gdir = os.path.join(vlib.BUILD, "gen", chk.pid)
    os.makedirs(gdir, exist_ok=True)
    items = sorted(items, key=lambda it: it["weight"], reverse=True)
    if target_weight is None:
        total = sum(it["weight"] for it in items)
        target_weight = min(max(total // (2 * max_procs) + 1, 20000), cap_weight)
    batches, cur, w = [], [], 0
    for it in items:
        if cur and w + it["weight"] > target_weight:
            batches.append(cur); cur, w = [], 0
        cur.append(it); w += it["weight"]
    if cur:
        batches.append(cur)
    paths = [os.path.join(gdir, "%s_batch_%d_%d.ndjson" % (tag, os.getpid(), k)) for k in range(len(batches))]
    verdicts, infos = {}, {}

    def one(k):
        r = vlib.tlc(module, module + ".cfg", env={envname: paths[k]}, timeout=timeout, xmx=xmx, tag="%s_%s" % (tag, os.path.basename(paths[k])))
        try:
            os.remove(paths[k])
        except OSError:
            pass
        return r
    try:
        with cf.ProcessPoolExecutor(max_workers=max_procs) as pex, cf.ThreadPoolExecutor(max_workers=max_procs) as tex:
            wf = [pex.submit(_write_batch, (paths[k], batches[k], prepare)) for k in range(len(batches))]
            tf = []
            for k, fu in enumerate(wf):
                for inf in fu.result():
                    infos[inf["id"]] = inf
                tf.append(tex.submit(one, k))
            for k, fu in enumerate(tf):
                r = fu.result()
                chk.add_tlc(r, "%s batch %d (%d cases)" % (module, k, len(batches[k])))
                if r.violation:
                    raise vlib.MachineryError("TLC reported an error while evaluating batch %d: %s\n%s" % (k, r.violation, r.out[-1500:]))
                for v in r.printed:
                    verdicts[v["id"]] = v
                if len(r.printed) != len(batches[k]):
                    raise vlib.MachineryError("TLC evaluated %d of %d cases of batch %d" % (len(r.printed), len(batches[k]), k))
    finally:
        for p in paths:
            try:
                os.remove(p)
            except OSError:
                pass
    return verdicts, infos


def load_c12(path):
    """a dump of harness/c12_parti.cpp (no certificate needed)"""
    with open(path) as f:
        return json.loads(f.readline())


def load_plain(path):
    with open(path) as f:
        return json.loads(f.readline())


# ------------------------------------------------------------------------------------------------------------
# seeded re-numbering / re-orientation of a raw mesh (vertex permutation, cell permutation, a rotation of the
# reference cell per cell).  `rots` is the table of orientation preserving symmetries printed by the
# specification (RefCellSanity), so the set of admissible re-orientations comes from the spec, not from here.
# ------------------------------------------------------------------------------------------------------------
def renumber(raw, rots, rng, parts=None):
    nv = len(raw["X"])
    vperm = list(range(nv)); rng.shuffle(vperm)          # old vertex v becomes vperm[v]
    X = [None] * nv
    for v in range(nv):
        X[vperm[v]] = raw["X"][v]
    cells = []
    for c in raw["cells"]:
        s = rots[rng.randrange(len(rots))]
        cells.append([vperm[c[s[k]]] for k in range(len(c))])
    rng.shuffle(cells)
    out = {"X": X, "cs": raw.get("cs", 0), "cells": cells}
    nparts = None
    if parts is not None:
        nparts = []
        for p in parts:
            q = dict(p)
            if "ents" in p:
                q["ents"] = [[[vperm[v] for v in ent] for ent in lst] for lst in p["ents"]]
            nparts.append(q)
    return out, nparts
