"""C13 extension: the parts of kernel/global beyond the scalar vector gate.

  mat   spec/SynchMat.tla (M: the four-round isend/irecv protocol of SynchMatrix::init/exec, all arrival orders) and
        spec/Gen_GlobalMat.tla (G: every row/column decomposition x sparsity pattern variant with the expected
        convert_to_1 / extract_diag / lump_rows / apply* results for CSR, BCSR 2x2, BCSR 2x3) -> harness/c13_gmat.cpp
  vec   spec/Gen_SynchB.tla (G: blocked and tuple vectors through Gate / Global::Vector, scalar reductions and their
        *_async variants, Splitter join/split with frame conditions, Global::Filter / MeanFilter) -> harness/c13_gvec.cpp
  mux   spec/Gen_Muxer.tla (G: sibling groups, parent rank, child patches of unequal size; join/split/join_send/
        split_recv) -> harness/c13_gvec.cpp
  xfer  spec/Gen_XferLayers.tla (G: Global::Transfer over a muxer with ghost processes: rest/trunc/prol on the parents,
        rest_send/trunc_send/prol_recv on the ghosts, distinct restriction and truncation matrices, renumbered child patches)
        -> harness/c13_xfer.cpp
All per-rank data are in the rank's LOCAL numbering (spec/Renum.tla: identity, reversal, rotation, ...), so vector mirrors, row
and column mirrors of the matrix buffers, splitter patch mirrors and muxer mirrors are not monotone in general.
"""
import json, os, re, time
import concurrent.futures as cf
import vlib

# mpi_yield_when_idle: several shards of np processes run side by side on a shared machine; without it the busy-polling
# ranks starve each other (measured: 640 muxer cases on 6 ranks, two shards: 48 s without, 2.5 s with)
MPIRUN = ["mpirun", "--allow-run-as-root", "--oversubscribe", "--bind-to", "none", "--mca", "mpi_yield_when_idle", "1", "-np"]


def _cfg(name, text):
    path = os.path.join(vlib.SPEC, name)
    with open(path, "w") as f:
        f.write(text)
    return name


def _rm(name):
    try:
        os.remove(os.path.join(vlib.SPEC, name))
    except OSError:
        pass


def sig(c, r):
    why = r.get("why") or ""
    m = re.match(r"rank \d+: (\S+)", why)
    what = m.group(1) if m else ""
    s = {"kind": c.get("kind", ""), "nr": c["nr"], "outcome": r.get("outcome", "mismatch"), "what": what}
    m = re.search(r"ASSERTION FAILED: ([^\n]*)", r.get("stderr") or "")
    if m:
        s["assert"] = m.group(1).strip()[:100]
    return s


# ---- plans -------------------------------------------------------------------------------------------------
def mat_plan(thorough):
    # (nr, nd, nc, square, pattern variants, largest local renumbering kind of module Renum)
    plan = [(1, 2, 2, True, "{0}", 2), (2, 3, 3, True, "{0, 2}", 2), (3, 2, 2, True, "{0, 2}", 2), (3, 3, 3, True, "{2}", 2),
            (2, 2, 2, False, "{0, 1}", 2), (3, 2, 2, False, "{1}", 2), (4, 2, 2, True, "{2}", 2)]
    if thorough:
        plan += [(2, 3, 3, True, "{0, 1, 2}", 5), (3, 3, 3, True, "{0, 1}", 2), (4, 3, 3, True, "{2}", 0), (2, 3, 2, False, "{0, 1, 2}", 5),
                 (3, 2, 3, False, "{0, 1}", 0), (4, 2, 2, False, "{1}", 0), (5, 2, 2, True, "{0, 2}", 2), (6, 2, 2, True, "{2}", 2)]
    return plan


def gen_mat(nr, nd, nc, square, pvs, renk):
    name = "gen_GlobalMat_%d_%d_%d_%d_%s_%d_%d.cfg" % (nr, nd, nc, 1 if square else 0, "".join(ch for ch in pvs if ch.isdigit()), renk, os.getpid())
    laws = "LawUnshared LawConsistent LawRenum" + (" LawDiag" if square else "")
    _cfg(name, "SPECIFICATION GenSpec\nCONSTANTS NR = %d ND = %d NC = %d SQUARE = %s PVS = %s BS = 6 RENK = %d\nINVARIANTS Emit %s\n"
         % (nr, nd, nc, "TRUE" if square else "FALSE", pvs, renk, laws))
    try:
        return vlib.tlc("Gen_GlobalMat", name, workers=1, timeout=1500)
    finally:
        _rm(name)


def replay(chk, binary, cases, nr, harness, keyf, nontrivial, shards=None, tmo=30):
    # the three parts replay side by side: at most 3 mpirun jobs per part
    t0 = time.time()
    try:
        res = vlib.run_cases(binary, cases, tmo=tmo, max_abnormal=6, shards=shards or max(1, min(3, 9 // nr)), wrapper=MPIRUN + [str(nr)])
    except vlib.MachineryError as e:
        # an mpirun that fails to start on the loaded machine (ORTE out of resource) is not a statement about the property: one retry, one job
        vlib.log("[c13x] replay failed to start (%s); retrying once" % str(e).splitlines()[0][:200])
        res = vlib.run_cases(binary, cases, tmo=tmo, max_abnormal=6, shards=1, wrapper=MPIRUN + [str(nr)])
    vlib.judge_results(chk, cases, res, sig, harness=harness, keyf=keyf, nontrivial=nontrivial)
    vlib.log("[c13x] %s: %d %s cases on %d ranks replayed in %.1fs" % (harness, len(cases), cases[0].get("kind", "") if cases else "", nr, time.time() - t0))
    return len(cases)


def run_mat(chk, binary, ex):
    thorough = chk.tier == "thorough"
    mcs = [("SynchMat_mc3s.cfg", 4)] + ([("SynchMat_mc3.cfg", 6), ("SynchMat_mc2r.cfg", 2)] if thorough else [("SynchMat_mc2r.cfg", 2)])
    futs = [(ex.submit(vlib.tlc, "SynchMat", c, workers=w, want_printed=False, timeout=3000, xmx="8g"), c) for c, w in mcs]
    gens = [(ex.submit(gen_mat, *p), p) for p in mat_plan(thorough)]
    for f, c in futs:
        r = f.result()
        chk.add_tlc(r, c)
        if r.violation:
            chk.model_violation(r, "SynchMat.tla (%s)" % c)
    bynr = {}
    nonmono = 0
    for f, p in gens:
        r = f.result()
        chk.add_tlc(r, "Gen_GlobalMat nr=%d nd=%d nc=%d square=%s pv=%s renk=%d" % p)
        if r.violation:
            chk.model_violation(r, "Gen_GlobalMat laws (%s)" % (p,))
        bynr.setdefault(p[0], []).extend(r.printed)
    total = 0
    for nr in sorted(bynr):
        cases, seen = [], set()
        for c in bynr[nr]:
            k = json.dumps([c["rdofs"], c["cdofs"], c["pv"]], sort_keys=True)
            if k not in seen:
                seen.add(k)
                cases.append(c)
        total += replay(chk, binary, cases, nr, "c13_gmat",
                        keyf=lambda c: json.dumps(["mat", c["nr"], c["rdofs"], c["cdofs"], c["pv"]], sort_keys=True),
                        nontrivial=lambda c: c["nr"] >= 2 and any(x >= 2 for v in c["rcount"].values() for x in v))
        if nr == 3 and cases:
            c = cases[len(cases) // 2]
            chk.sample({k: c[k] for k in ("kind", "nr", "rdofs", "cdofs", "pv", "pat", "gnnz")})
            rn = [x for x in cases if x.get("nonmono")]
            if rn:
                c = rn[len(rn) // 2]
                chk.sample({k: c[k] for k in ("kind", "nr", "rdofs", "cdofs", "rmir", "cmir", "pv", "pat", "gnnz")})
        nonmono += sum(1 for x in cases if x.get("nonmono"))
    chk.extra["mat_cases"] = total
    chk.extra["mat_cases_nonmonotone_mirror"] = nonmono
    return total


# ---- vectors, scalars, splitter, filters ------------------------------------------------------------------------
def gen_vec(nr, nd, renk):
    name = "gen_SynchB_%d_%d_%d_%d.cfg" % (nr, nd, renk, os.getpid())
    _cfg(name, "SPECIFICATION GenSpec\nCONSTANTS NR = %d ND = %d RENK = %d\nINVARIANTS EmitB LawSyncShared LawNorm LawRenum LawRenum2\n" % (nr, nd, renk))
    try:
        return vlib.tlc("Gen_SynchB", name, workers=1, timeout=1500)
    finally:
        _rm(name)


def vec_plan(thorough):
    # (ranks, global dofs, largest local renumbering kind of module Renum)
    if thorough:
        return [(1, 3, 2), (2, 3, 5), (3, 3, 5), (4, 2, 2), (4, 3, 0), (5, 2, 2), (6, 2, 0)]
    return [(1, 3, 2), (2, 3, 2), (3, 3, 2), (4, 2, 2)]


def run_vec(chk, binary, ex):
    thorough = chk.tier == "thorough"
    gens = [(ex.submit(gen_vec, nr, nd, rk), nr, nd, rk) for nr, nd, rk in vec_plan(thorough)]
    total = 0
    nonmono = 0
    seen = set()
    for f, nr, nd, rk in gens:
        r = f.result()
        chk.add_tlc(r, "Gen_SynchB nr=%d nd=%d renk=%d" % (nr, nd, rk))
        if r.violation:
            chk.model_violation(r, "Gen_SynchB laws (nr=%d nd=%d)" % (nr, nd))
        cases = []
        for c in r.printed:       # a decomposition generated by two plan entries (quick and deeper renumbering kinds) is replayed once
            k = json.dumps([c["nr"], c["dofs"]], sort_keys=True)
            if k not in seen:
                seen.add(k)
                cases.append(c)
        nonmono += sum(1 for c in cases if c.get("nonmono"))
        # probe cases: the tickets of sync_*_async are waited for unconditionally (one process; two processes without a shared dof)
        probes = []
        if nr <= 2:
            for c in cases:
                if all(x == 1 for v in c["count"].values() for x in v):
                    d = dict(c)
                    d["kind"] = "asyncprobe"
                    probes.append(d)
                    break
        if not cases:
            continue
        total += replay(chk, binary, cases, nr, "c13_gvec",
                        keyf=lambda c: json.dumps(["vec", c["nr"], c["dofs"]], sort_keys=True),
                        nontrivial=lambda c: c["nr"] >= 2 and any(x >= 2 for v in c["count"].values() for x in v))
        if cases:
            # a pending scalar ticket that is moved before wait()
            d = dict(cases[len(cases) // 2])
            d["kind"] = "ticketprobe"
            probes.append(d)
        if probes:
            total += replay(chk, binary, probes, nr, "c13_gvec", keyf=lambda c: json.dumps([c["kind"], c["nr"], c["dofs"]], sort_keys=True),
                            nontrivial=lambda c: True, shards=1)
        if nr == 3 and cases:
            c = cases[len(cases) // 2]
            chk.sample({k: c[k] for k in ("kind", "nr", "dofs", "vb0", "sync0b", "t2dofs", "tdot", "root", "base", "ssum", "smin")})
    chk.extra["vec_cases"] = total
    chk.extra["vec_cases_nonmonotone_mirror"] = nonmono
    return total


# ---- muxer ------------------------------------------------------------------------------------------------------
def mux_plan(thorough):
    all2 = "{{1}, {2}, {1, 2}}"
    all3 = "{{1}, {2}, {3}, {1, 2}, {1, 3}, {2, 3}, {1, 2, 3}}"
    # (nr, np, child patches, max groups)
    plan = [(2, 3, all3, 2), (3, 2, all2, 3), (4, 2, all2, 2), (5, 2, "{{1}, {1, 2}}", 2), (6, 2, "{{1}, {1, 2}}", 2)]
    if thorough:
        plan = [(2, 3, all3, 2), (3, 3, all3, 3), (4, 2, all2, 4), (5, 2, all2, 2), (6, 2, all2, 2), (6, 2, "{{2}, {1, 2}}", 6)]
    return plan


def gen_mux(nr, np_, csets, maxg):
    name = "gen_Muxer_%d_%d_%d_%d_%d.cfg" % (nr, np_, maxg, len(csets), os.getpid())
    _cfg(name, "SPECIFICATION Spec\nCONSTANTS NR = %d NP = %d CSETS = %s MAXG = %d\nINVARIANTS Emit LawJoinSplit\n" % (nr, np_, csets, maxg))
    try:
        return vlib.tlc("Gen_Muxer", name, workers=1, timeout=1500)
    finally:
        _rm(name)


def run_mux(chk, binary, ex):
    thorough = chk.tier == "thorough"
    gens = [(ex.submit(gen_mux, *p), p) for p in mux_plan(thorough)]
    bynr = {}
    for f, p in gens:
        r = f.result()
        chk.add_tlc(r, "Gen_Muxer nr=%d np=%d csets=%s maxg=%d" % p)
        if r.violation:
            chk.model_violation(r, "Gen_Muxer laws (%s)" % (p,))
        bynr.setdefault(p[0], []).extend(r.printed)
    total = 0
    for nr in sorted(bynr):
        seen, cases = set(), []
        for c in bynr[nr]:
            k = json.dumps([c["grp"], c["prank"], c["cdofs"]], sort_keys=True)
            if k not in seen:
                seen.add(k)
                cases.append(c)
        total += replay(chk, binary, cases, nr, "c13_gvec",
                        keyf=lambda c: json.dumps(["mux", c["nr"], c["grp"], c["prank"], c["cdofs"]], sort_keys=True),
                        nontrivial=lambda c: any(x >= 2 for x in c["gsize"].values()))
        if nr == 4 and cases:
            c = [x for x in cases if x["unequal"]][len(cases) // 3]
            chk.sample({k: c[k] for k in ("kind", "nr", "grp", "prank", "cdofs", "cv", "join", "unequal")})
    chk.extra["mux_cases"] = total
    chk.extra["mux_unequal_child_sizes"] = sum(1 for nr in bynr for c in bynr[nr] if c["unequal"])
    return total


# ---- grid transfer across process layers (ghost processes) ------------------------------------------------------------
ALL2 = "{{1}, {2}, {1, 2}}"
ALL3 = "{{1}, {2}, {3}, {1, 2}, {1, 3}, {2, 3}, {1, 2, 3}}"


def xfer_plan(thorough):
    p3 = "{{1, 2}, {2, 3}, {1, 2, 3}}"
    # (nr, nf, nc, fine decompositions, parent patches, child patches, max groups, min groups, largest child renumbering kind)
    plan = [(1, 2, 2, "{0}", ALL2, ALL2, 1, 1, 0),
            (2, 3, 3, "{0, 1, 3}", p3, ALL3, 2, 1, 2),
            (3, 3, 3, "{1, 2}", p3, "{{2}, {1, 2}, {1, 3}, {1, 2, 3}}", 2, 1, 1),
            (4, 3, 2, "{1}", "{{1, 2}}", ALL2, 2, 2, 1)]
    if thorough:
        plan = [(1, 2, 2, "{0}", ALL2, ALL2, 1, 1, 0),
                (2, 3, 3, "{0, 1, 2, 3}", ALL3, ALL3, 2, 1, 5),
                (3, 2, 3, "{0, 3}", p3, ALL3, 3, 1, 1),
                (3, 3, 3, "{1, 2}", "{{1, 2, 3}}", "{{2}, {1, 2}, {1, 3}, {1, 2, 3}}", 2, 1, 5),
                (4, 3, 2, "{0, 1}", ALL2, ALL2, 4, 1, 1),
                (5, 3, 2, "{1}", "{{1, 2}}", ALL2, 3, 2, 1),
                (6, 3, 2, "{1}", "{{1, 2}}", "{{1}, {1, 2}}", 3, 2, 1)]
    return plan


def gen_xfer(nr, nf, nc, fsels, psets, csets, maxg, ming, renk):
    name = "gen_Xfer_%d_%d_%d_%d_%d_%d_%d_%d.cfg" % (nr, nf, nc, maxg, ming, renk, len(csets) + 100 * len(fsels), os.getpid())
    _cfg(name, "SPECIFICATION Spec\nCONSTANTS NR = %d NF = %d NC = %d FSELS = %s PSETS = %s CSETS = %s MAXG = %d MING = %d RENK = %d\n"
         "INVARIANTS Emit LawLayers LawRenum LawDistinct\n" % (nr, nf, nc, fsels, psets, csets, maxg, ming, renk))
    try:
        return vlib.tlc("Gen_XferLayers", name, workers=1, timeout=1500)
    finally:
        _rm(name)


def run_xfer(chk, binary, ex):
    thorough = chk.tier == "thorough"
    gens = [(ex.submit(gen_xfer, *p), p) for p in xfer_plan(thorough)]
    bynr = {}
    for f, p in gens:
        r = f.result()
        chk.add_tlc(r, "Gen_XferLayers nr=%d nf=%d nc=%d fsels=%s psets=%s csets=%s maxg=%d ming=%d renk=%d" % p)
        if r.violation:
            chk.model_violation(r, "Gen_XferLayers laws (%s)" % (p,))
        bynr.setdefault(p[0], []).extend(r.printed)
    total = ghosts = nonmono = 0
    for nr in sorted(bynr):
        seen, cases = set(), []
        for c in bynr[nr]:
            k = json.dumps([c["nf"], c["nc"], c["grp"], c["prank"], c["fdofs"], c["pdofs"], c["cdofs"]], sort_keys=True)
            if k not in seen:
                seen.add(k)
                c["kind"] = "xfer"
                cases.append(c)
        total += replay(chk, binary, cases, nr, "c13_xfer",
                        keyf=lambda c: json.dumps(["xfer", c["nr"], c["nf"], c["nc"], c["grp"], c["prank"], c["fdofs"], c["pdofs"], c["cdofs"]], sort_keys=True),
                        nontrivial=lambda c: c["nghost"] >= 1)
        ghosts += sum(1 for c in cases if c["nghost"] >= 1)
        nonmono += sum(1 for c in cases if c["nonmono"])
        if nr == 3 and cases:
            gc = [x for x in cases if x["nghost"] >= 1 and x["nonmono"]]
            c = gc[len(gc) // 2] if gc else cases[len(cases) // 2]
            chk.sample({k: c[k] for k in ("kind", "nr", "grp", "prank", "isparent", "fdofs", "pdofs", "cdofs", "muxc", "muxp", "f", "rest", "trunc", "c", "prol")})
    chk.extra["xfer_cases"] = total
    chk.extra["xfer_cases_with_ghost_process"] = ghosts
    chk.extra["xfer_cases_nonmonotone_muxer_mirror"] = nonmono
    return total


def run_ext(chk, gmat, gvec, gxfer=None):
    """all parts (the three parts run side by side: TLC generation in a small pool, one replay thread per part);
    returns the number of replayed cases"""
    with cf.ThreadPoolExecutor(max_workers=5) as ex, cf.ThreadPoolExecutor(max_workers=4) as parts:
        futs = [parts.submit(run_mat, chk, gmat, ex), parts.submit(run_vec, chk, gvec, ex), parts.submit(run_mux, chk, gvec, ex)]
        if gxfer is not None:
            futs.append(parts.submit(run_xfer, chk, gxfer, ex))
        return sum(f.result() for f in futs)
