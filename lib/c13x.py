"""C13 extension: the parts of kernel/global beyond the scalar vector gate.

  mat   spec/SynchMat.tla (M: the four-round isend/irecv protocol of SynchMatrix::init/exec, all arrival orders) and
        spec/Gen_GlobalMat.tla (G: every row/column decomposition x sparsity pattern variant with the expected
        convert_to_1 / extract_diag / lump_rows / apply* results for CSR, BCSR 2x2, BCSR 2x3) -> harness/c13_gmat.cpp
  vec   spec/Gen_SynchB.tla (G: blocked and tuple vectors through Gate / Global::Vector, scalar reductions and their
        *_async variants, Splitter join/split with frame conditions, Global::Filter / MeanFilter) -> harness/c13_gvec.cpp
  mux   spec/Gen_Muxer.tla (G: sibling groups, parent rank, child patches of unequal size; join/split/join_send/
        split_recv) -> harness/c13_gvec.cpp
"""
import json, os
import concurrent.futures as cf
import vlib

MPIRUN = ["mpirun", "--allow-run-as-root", "--oversubscribe", "--bind-to", "none", "-np"]


def _cfg(name, text):
    path = os.path.join(vlib.SPEC, name)
    with open(path, "w") as f:
        f.write(text)
    return name


def _rm(name):
    try:
        os.remove(os.path.join(vlib.SPEC, name))
    except OSError:
        pass


def sig(c, r):
    why = r.get("why") or ""
    what = why.split(":")[1].strip().split(" ")[0] if ":" in why else ""
    return {"kind": c.get("kind", ""), "nr": c["nr"], "outcome": r.get("outcome", "mismatch"), "what": what}


# ---- plans -------------------------------------------------------------------------------------------------
def mat_plan(thorough):
    # (nr, nd, nc, square, pattern variants)
    plan = [(1, 2, 2, True, "{0}"), (2, 3, 3, True, "{0, 2}"), (3, 2, 2, True, "{0, 2}"), (3, 3, 3, True, "{2}"),
            (2, 2, 2, False, "{0, 1}"), (3, 2, 2, False, "{1}"), (4, 2, 2, True, "{2}")]
    if thorough:
        plan += [(3, 3, 3, True, "{0, 1}"), (4, 3, 3, True, "{2}"), (2, 3, 2, False, "{0, 1, 2}"), (3, 2, 3, False, "{0, 1}"),
                 (4, 2, 2, False, "{1}"), (5, 2, 2, True, "{0, 2}"), (6, 2, 2, True, "{2}")]
    return plan


def gen_mat(nr, nd, nc, square, pvs):
    name = "gen_GlobalMat_%d_%d_%d_%d_%d.cfg" % (nr, nd, nc, 1 if square else 0, os.getpid())
    laws = "LawUnshared LawConsistent" + (" LawDiag" if square else "")
    _cfg(name, "SPECIFICATION GenSpec\nCONSTANTS NR = %d ND = %d NC = %d SQUARE = %s PVS = %s BS = 6\nINVARIANTS Emit %s\n"
         % (nr, nd, nc, "TRUE" if square else "FALSE", pvs, laws))
    try:
        return vlib.tlc("Gen_GlobalMat", name, workers=1, timeout=1500)
    finally:
        _rm(name)


def replay(chk, binary, cases, nr, harness, keyf, nontrivial, shards=None, tmo=30):
    res = vlib.run_cases(binary, cases, tmo=tmo, max_abnormal=6, shards=shards or max(1, min(6, 12 // nr)), wrapper=MPIRUN + [str(nr)])
    vlib.judge_results(chk, cases, res, sig, harness=harness, keyf=keyf, nontrivial=nontrivial)
    return len(cases)


def run_mat(chk, binary, ex):
    thorough = chk.tier == "thorough"
    mcs = [("SynchMat_mc3s.cfg", 4)] + ([("SynchMat_mc3.cfg", 6), ("SynchMat_mc2r.cfg", 2)] if thorough else [("SynchMat_mc2r.cfg", 2)])
    futs = [(ex.submit(vlib.tlc, "SynchMat", c, workers=w, want_printed=False, timeout=3000, xmx="8g"), c) for c, w in mcs]
    gens = [(ex.submit(gen_mat, *p), p) for p in mat_plan(thorough)]
    for f, c in futs:
        r = f.result()
        chk.add_tlc(r, c)
        if r.violation:
            chk.model_violation(r, "SynchMat.tla (%s)" % c)
    bynr = {}
    for f, p in gens:
        r = f.result()
        chk.add_tlc(r, "Gen_GlobalMat nr=%d nd=%d nc=%d square=%s pv=%s" % p)
        if r.violation:
            chk.model_violation(r, "Gen_GlobalMat laws (%s)" % (p,))
        bynr.setdefault(p[0], []).extend(r.printed)
    total = 0
    for nr in sorted(bynr):
        cases = bynr[nr]
        total += replay(chk, binary, cases, nr, "c13_gmat",
                        keyf=lambda c: json.dumps(["mat", c["nr"], c["rdofs"], c["cdofs"], c["pv"]], sort_keys=True),
                        nontrivial=lambda c: c["nr"] >= 2 and any(x >= 2 for v in c["rcount"].values() for x in v))
        if nr == 3 and cases:
            c = cases[len(cases) // 2]
            chk.sample({k: c[k] for k in ("kind", "nr", "rdofs", "cdofs", "pv", "pat", "gnnz")})
    chk.extra["mat_cases"] = total
    return total
