"""C17, direction G for schedules: TLC-generated behaviours of spec/ThreadAsm.tla (uniformly random interleavings from
Sched_ThreadAsm.tla and priority/PCT schedules from Sched_ThreadAsmPCT.tla), computed for the work distribution the real
DomainAssembler compiled, are forced onto the real threads by harness/c17_driven.cpp."""
import json, os, random
import concurrent.futures as cf
import vlib

# (label, case, MayFail workers or None = no failure injection)
BASE = dict(comps=1, subset="all", jobs=1, scatter=True, combine=True)
CONFIGS_QUICK = [
    ("lay 4x1 w2 j2", dict(BASE, nx=4, ny=1, strategy="layered", maxw=2, jobs=2), None),
    ("lay 7x1 w3", dict(BASE, nx=7, ny=1, strategy="layered", maxw=3), None),
    ("lay 4x4 w2", dict(BASE, nx=4, ny=4, strategy="layered", maxw=2), None),
    ("laysort 3x3 w2 j2", dict(BASE, nx=3, ny=3, strategy="layered_sorted", maxw=2, jobs=2), None),
    ("lay 6x1 w3 fail", dict(BASE, nx=6, ny=1, strategy="layered", maxw=3), "any"),
    ("col 2x2 w2 j2", dict(BASE, nx=2, ny=2, strategy="colored", maxw=2, jobs=2), None),
    ("col 3x2 w3", dict(BASE, nx=3, ny=2, strategy="colored", maxw=3), None),
    ("col 4x2 w2 fail", dict(BASE, nx=4, ny=2, strategy="colored", maxw=2), "any"),
    ("col 2x2 w4 nocombine", dict(BASE, nx=2, ny=2, strategy="colored", maxw=4, combine=False, jobs=2), None),
    ("nosc 5x1 w3 j2", dict(BASE, nx=5, ny=1, strategy="layered", maxw=3, scatter=False, jobs=2), None),
    ("nosc col 2x2 w2 fail", dict(BASE, nx=2, ny=2, strategy="colored", maxw=2, scatter=False), "any"),
    ("master 2x1", dict(BASE, nx=2, ny=1, strategy="layered", maxw=1, jobs=2), "any"),
    ("auto 5x2 w2 subset", dict(BASE, nx=5, ny=2, strategy="automatic", maxw=2, subset=[0, 1, 2, 3, 4, 6, 8]), None),
]
CONFIGS_THOROUGH = CONFIGS_QUICK + [
    ("lay 9x1 w4 j2", dict(BASE, nx=9, ny=1, strategy="layered", maxw=4, jobs=2), None),
    ("lay 5x5 w3 fail", dict(BASE, nx=5, ny=5, strategy="layered", maxw=3), "any"),
    ("col 4x4 w4 j2", dict(BASE, nx=4, ny=4, strategy="colored", maxw=4, jobs=2), None),
    ("col 3x3 w3 fail j2", dict(BASE, nx=3, ny=3, strategy="colored", maxw=3, jobs=2), "any"),
    ("lay 2x6 comps2 w3", dict(BASE, nx=2, ny=6, comps=2, strategy="layered", maxw=3), None),
    ("nosc 7x1 w4 fail", dict(BASE, nx=7, ny=1, strategy="layered", maxw=4, scatter=False, jobs=2), "any"),
]


def _seq(xs):
    return "<<" + ", ".join(str(x) for x in xs) + ">>"


def write_instance(name, cfg, case, mayfail, pct_cps=None):
    """module + cfg with the constants of ThreadAsm taken from the REAL compiled work distribution (probe result)"""
    W = cfg["W"] if cfg["W"] >= 2 else 0
    strategy = "colored" if cfg["strategy"] == "colored" else "layered"
    mod = "gen_SCH_%s_%d" % (name, os.getpid())
    base = "Sched_ThreadAsmPCT" if pct_cps is not None else "Sched_ThreadAsm"
    adj = "{" + ", ".join("<<%d, %d>>" % (a, b) for a, b in cfg["adj"]) + "}"
    mf = "{" + ", ".join(str(x) for x in mayfail) + "}"
    with open(os.path.join(vlib.SPEC, mod + ".tla"), "w") as f:
        f.write("---- MODULE %s ----\nEXTENDS %s\nLEc == %s\nTLc == %s\nCEc == %s\nADJc == %s\nMFc == %s\n%s====\n" % (
            mod, base, _seq(cfg["le"] if strategy == "layered" and W >= 2 else []), _seq(cfg["tl"] if strategy == "layered" and W >= 2 else []),
            _seq(cfg["ce"] if strategy == "colored" else []), adj, mf, ("CPc == %s\n" % _seq(pct_cps)) if pct_cps is not None else ""))
    with open(os.path.join(vlib.SPEC, mod + ".cfg"), "w") as f:
        f.write("SPECIFICATION %s\nCONSTANTS\n  Strategy = \"%s\"\n  W = %d\n  NFences = %d\n  NeedScatter = %s\n  NeedCombine = %s\n  Jobs = %d\n  NumElems = %d\n"
                "  LayerElems <- LEc\n  ThreadLayers <- TLc\n  ColorElems <- CEc\n  AdjPairs <- ADJc\n  MayFail <- MFc\n%s"
                "INVARIANTS NoAdjacentScatter CombineExclusive NeverTwice EachCellOnce JoinedAtEnd\nCHECK_DEADLOCK FALSE\n" % (
                    "PSpec" if pct_cps is not None else "SchedSpec", strategy, W, cfg["nfences"], "TRUE" if case["scatter"] else "FALSE",
                    "TRUE" if case["combine"] else "FALSE", case["jobs"], cfg["N"], "  CPs <- CPc\n" if pct_cps is not None else ""))
    return mod


def _rm(mod):
    for ext in (".tla", ".cfg"):
        try:
            os.remove(os.path.join(vlib.SPEC, mod + ext))
        except OSError:
            pass


def run(chk, variant="std"):
    binary, = vlib.build(["c17_driven"], variant=variant)
    thorough = chk.tier == "thorough"
    configs = CONFIGS_THOROUGH if thorough else CONFIGS_QUICK
    n_uni, n_pct, n_cpsets = (150, 40, 6) if thorough else (40, 12, 3)
    rnd = random.Random(vlib.seed() + 17)
    probes = [dict(c, op="probe") for _, c, _ in configs]
    pres = vlib.run_cases(binary, probes, tmo=30, shards=4)
    jobs = []
    for (label, case, mf), pr in zip(configs, pres):
        if pr.get("outcome") or "cfg" not in pr:
            chk.violation({"what": "driven-probe", "strategy": case["strategy"], "outcome": pr.get("outcome", "mismatch")},
                          "compile() of the configuration failed: %s" % (pr.get("stderr") or pr.get("why") or pr.get("outcome") or "")[:500],
                          {"kind": "case", "harness": "c17_driven", "case": dict(case, op="probe"), "result": pr})
            continue
        cfg = pr["cfg"]
        W = cfg["W"] if cfg["W"] >= 2 else 0
        mayfail = [] if mf is None else ([0] if W == 0 else list(range(1, W + 1)))
        # expected schedule length ~ events per job; change points are drawn inside it
        est = max(20, cfg["N"] * 6 + 4 * cfg["nfences"]) * case["jobs"]
        key = label.replace(" ", "_")
        jobs.append((label, case, cfg, write_instance(key + "_u", cfg, case, mayfail), dict(simulate=n_uni), "uniform"))
        for k in range(n_cpsets if W >= 2 else 0):
            cps = sorted(rnd.sample(range(3, est), min(k % 3 + 1, est - 3))) if k > 0 else []
            jobs.append((label, case, cfg, write_instance(key + "_p%d" % k, cfg, case, mayfail, pct_cps=cps), dict(simulate=n_pct), "pct%s" % cps))
    cases = []
    gen_total = [0]
    with cf.ThreadPoolExecutor(max_workers=6) as ex:
        futs = [(ex.submit(vlib.tlc, mod, mod + ".cfg", workers=1, depth=4000, tseed=vlib.seed() * 131 + k, timeout=600, xmx="2g", light=True, **kw),
                 label, case, cfg, mod, kind) for k, (label, case, cfg, mod, kw, kind) in enumerate(jobs)]
        for f, label, case, cfg, mod, kind in futs:
            try:
                r = f.result()
            finally:
                _rm(mod)
            chk.states += r.generated
            chk.transitions += r.generated
            gen_total[0] += r.generated
            if r.violation:
                chk.model_violation(r, "ThreadAsm invariant on the compiled work distribution of '%s'" % label)
                continue
            seen = set()
            for p in r.printed:
                k = json.dumps(p["sched"], sort_keys=True)
                if k in seen:
                    continue
                seen.add(k)
                cases.append(dict(case, op="drive", sched=p["sched"], failed=p["failed"], label=label, gen=kind))
    chk.extra["driven_tlc_runs"] = len(jobs)
    chk.extra["driven_tlc_states_generated"] = gen_total[0]
    if not cases:
        raise vlib.MachineryError("no schedules generated")
    res = vlib.run_cases(binary, cases, tmo=60, shards=8, max_abnormal=6, env={"TSAN_OPTIONS": "halt_on_error=1 exitcode=66"})
    # a divergence (exit code 96) or another abnormal end is re-run alone with a six times longer stall limit; only a repeated
    # divergence is reported (a stall on an overloaded machine must not become a false alarm)
    bad = [k for k, rr in enumerate(res) if rr.get("outcome") not in (None, "not_run") or (rr.get("outcome") is None and rr.get("ok") is not True)]
    if bad:
        # the first four are re-run (each alone, in parallel); the others are reported only if all of these repeat
        first = bad[:4]
        with cf.ThreadPoolExecutor(max_workers=len(first)) as ex:
            again = list(ex.map(lambda k: vlib.run_cases(binary, [dict(cases[k], stall_ms=60000)], tmo=200, shards=1, max_abnormal=1)[0], first))
        repeated = 0
        for k, r2 in zip(first, again):
            if r2.get("outcome") is None and r2.get("ok") is True:
                res[k] = dict(r2, retried=True)
            else:
                res[k] = dict(r2, first=res[k].get("stderr") or res[k].get("why"))
                repeated += 1
        if repeated < len(first):
            # some did not repeat (overloaded machine): do not trust the un-re-run ones either
            for k in bad[4:]:
                res[k] = {"ok": None, "outcome": "not_run"}
    nmulti = nrot = nfail = 0
    for c, rr in zip(cases, res):
        if rr.get("outcome") == "not_run":
            continue
        multi = (rr.get("W") or 0) >= 2 or rr.get("outcome") is not None
        nmulti += 1 if multi else 0
        nrot += rr.get("rotations") or 0
        nfail += 1 if c["failed"] else 0
        k = json.dumps([c["label"], [(e["t"], e["ev"], e["a"]) for e in c["sched"]]])
        chk.count(k, multi)
        oc = rr.get("outcome")
        if oc or rr.get("ok") is not True:
            msg = (rr.get("stderr") or rr.get("why") or oc or "")
            if oc == "exit96":
                oc = "divergence"
                msg = msg[msg.find("DIVERGENCE"):] if "DIVERGENCE" in msg else msg
            chk.violation({"what": "driven", "strategy": c["strategy"], "cells": c["nx"] * c["ny"] * c["comps"], "maxw": c["maxw"], "scatter": c["scatter"],
                           "combine": c["combine"], "fail": c["failed"], "outcome": oc or "mismatch"},
                          "real threads forced along a TLC schedule (%s, %s, %d events): %s" % (c["label"], c["gen"], len(c["sched"]), msg[:700]),
                          {"kind": "case", "harness": "c17_driven", "case": c, "result": rr})
    chk.extra["driven_schedules"] = len(cases)
    chk.extra["driven_schedules_2_or_more_workers"] = nmulti
    chk.extra["driven_schedules_with_injected_failure"] = nfail
    chk.extra["driven_combine_order_rotations"] = nrot
    ex = next((c for c in cases if c["gen"].startswith("pct") and c["maxw"] >= 2), cases[0])
    chk.sample({"driven_schedule": ex["label"], "generator": ex["gen"], "threads_in_order": "".join(str(e["t"]) for e in ex["sched"])[:200]})
    return len(cases)
