"""Shared machinery of /verif/bin/check: build, TLC wrapper, isolated replay, evidence, known findings.

Python standard library only.  Exit codes of a check: 0 = property held on everything explored,
1 = VIOLATION (printed as `VIOLATION property=<id> replay=<path>`), 2 = machinery error (build, TLC
parse error, harness missing) -- a machinery error is never reported as a violation.
"""
import json, os, re, shutil, subprocess, sys, tempfile, time, hashlib, random

VERIF = os.path.dirname(os.path.dirname(os.path.abspath(__file__)))
REPO = os.environ.get("FEAT3_REPO", "/repo")
BUILD = os.path.join(VERIF, "build")
SPEC = os.path.join(VERIF, "spec")
EVID = os.environ.get("VERIF_EVID_DIR") or os.path.join(VERIF, "evidence")
TLA_CP = "/opt/veriftools/tla/tla2tools.jar:/opt/veriftools/tla/CommunityModules-deps.jar"
NCPU = os.cpu_count() or 4


class MachineryError(Exception):
    pass


def log(*a):
    print(*a, file=sys.stderr, flush=True)


def seed():
    try:
        return int(os.environ.get("VERIF_SEED", "1"))
    except ValueError:
        return 1


# ----------------------------------------------------------------------------------------------
# build
# ----------------------------------------------------------------------------------------------
def build(targets, variant="std", opt=None, jobs=None):
    """make the given harness targets (names relative to build/<variant>/h/) from REPO's working tree"""
    vdir = variant if REPO == "/repo" else variant + "-" + hashlib.md5(REPO.encode()).hexdigest()[:8]
    cmd = ["make", "-C", os.path.join(VERIF, "harness"), "-j%d" % (jobs or NCPU), "REPO=" + REPO,
           "VARIANT=" + variant, "B=" + os.path.join(BUILD, vdir)]
    if opt:
        cmd.append("OPT=" + opt)
    paths = [os.path.join(BUILD, vdir, "h", t) for t in targets]
    cmd += ["lib"] + paths
    t0 = time.time()
    # one make at a time per build directory (several checks may run concurrently)
    import fcntl
    os.makedirs(os.path.join(BUILD, vdir), exist_ok=True)
    with open(os.path.join(BUILD, vdir, ".lock"), "w") as lk:
        fcntl.flock(lk, fcntl.LOCK_EX)
        p = subprocess.run(cmd, stdout=subprocess.PIPE, stderr=subprocess.STDOUT, text=True)
    if p.returncode != 0:
        tail = "\n".join(p.stdout.splitlines()[-60:])
        raise MachineryError("harness build failed (%s):\n%s" % (" ".join(targets), tail))
    log("[build] %s (%s) %.1fs" % (" ".join(targets), variant, time.time() - t0))
    return paths


# ----------------------------------------------------------------------------------------------
# TLC
# ----------------------------------------------------------------------------------------------
class TlcResult:
    def __init__(self):
        self.rc = None
        self.out = ""
        self.generated = 0
        self.distinct = 0
        self.depth = 0
        self.printed = []      # JSON values printed by the spec (PrintT(ToJson(..)))
        self.violation = None  # text of an invariant/property violation reported by TLC
        self.coverage = {}     # action -> (taken, generated) when -coverage was requested
        self.wall = 0.0
        self.cmd = ""

    @property
    def ok(self):
        return self.rc == 0 and self.violation is None


_PRINT_RE = re.compile(r'^"(.*)"$')


def _unescape_tla_string(s):
    # TLC prints strings with \" and \\ escaped
    try:
        return json.loads('"' + s + '"')
    except Exception:
        return s.replace('\\"', '"').replace("\\\\", "\\")


def tlc(module, cfg=None, spec_dir=None, workers=1, simulate=None, depth=None, tseed=None, env=None,
        timeout=900, xmx="6g", coverage=False, extra=None, deadlock=True, want_printed=True, tag=None,
        dfs=False, light=False):
    """run TLC on spec_dir/module.tla with spec_dir/cfg; returns TlcResult.
    simulate=N -> `-simulate num=N`; depth -> `-depth`; tseed -> `-seed`."""
    spec_dir = spec_dir or SPEC
    cfg = cfg or (module + ".cfg")
    tag = tag or (module + "_" + os.path.splitext(os.path.basename(cfg))[0])
    meta = os.path.join(BUILD, "tlc", "%s_%d_%d" % (tag, os.getpid(), random.randrange(1 << 30)))
    os.makedirs(meta, exist_ok=True)
    if light:
        # many short runs (trace validation): minimise JVM start-up cost and CPU fan-out
        jopts = ["-Xss256m", "-Xmx" + xmx, "-XX:+UseSerialGC", "-XX:TieredStopAtLevel=1", "-XX:CICompilerCount=1", "-Xshare:auto"]
    else:
        jopts = ["-Xss256m", "-Xmx" + xmx, "-XX:+UseParallelGC"]
    if dfs:
        jopts.append("-Dtlc2.tool.queue.IStateQueue=StateDeque")
    cmd = ["timeout", str(timeout), "java"] + jopts + ["-cp", TLA_CP + ":" + spec_dir, "tlc2.TLC",
           "-workers", str(workers), "-metadir", meta, "-config", cfg, "-noGenerateSpecTE"]
    if simulate is not None:
        cmd += ["-simulate", "num=%d" % simulate]
    if depth is not None:
        cmd += ["-depth", str(depth)]
    if tseed is not None:
        cmd += ["-seed", str(tseed)]
    if coverage:
        cmd += ["-coverage", "1"]
    if not deadlock:
        cmd += ["-deadlock"]
    if extra:
        cmd += extra
    cmd += [module + ".tla"]
    e = dict(os.environ)
    if env:
        e.update({k: str(v) for k, v in env.items()})
    r = TlcResult()
    r.cmd = " ".join(cmd)
    t0 = time.time()
    p = subprocess.run(cmd, cwd=spec_dir, env=e, stdout=subprocess.PIPE, stderr=subprocess.STDOUT, text=True,
                       errors="replace")
    r.wall = time.time() - t0
    r.rc = p.returncode
    r.out = p.stdout
    shutil.rmtree(meta, ignore_errors=True)
    viol = []
    for line in p.stdout.splitlines():
        if want_printed and line.startswith('"') and line.endswith('"') and len(line) > 2 and line[1] in "{[":
            try:
                r.printed.append(json.loads(_unescape_tla_string(line[1:-1])))
                continue
            except Exception:
                pass
        m = re.match(r"^(\d+) states generated, (\d+) distinct states found", line)
        if m:
            r.generated, r.distinct = int(m.group(1)), int(m.group(2))
        m = re.match(r"^The number of states generated: (\d+)", line)      # -simulate
        if m and not r.generated:
            r.generated = r.distinct = int(m.group(1))
        m = re.match(r"^The depth of the complete state graph search is (\d+)", line)
        if m:
            r.depth = int(m.group(1))
        if line.startswith("Error: Invariant") or line.startswith("Error: Action property") or \
           line.startswith("Error: Temporal properties were violated") or "is violated" in line and line.startswith("Error:") \
           or line.startswith("Error: Deadlock reached") or line.startswith("Error: Postcondition"):
            viol.append(line)
        m = re.match(r"^<(\w+) line .*>: (\d+):(\d+)", line)
        if m:
            r.coverage[m.group(1)] = (int(m.group(2)), int(m.group(3)))
    if viol:
        r.violation = "; ".join(viol)
    if r.rc == 124:
        raise MachineryError("TLC timed out after %ss: %s" % (timeout, r.cmd))
    # rc 12 = safety violation, 13 = liveness violation, 11 = deadlock: all reported through r.violation
    if r.rc not in (0, 10, 11, 12, 13) or (r.rc != 0 and not viol):
        tail = "\n".join([l for l in p.stdout.splitlines() if not l.startswith('"')][-40:])
        raise MachineryError("TLC failed (rc=%s): %s\n%s" % (r.rc, r.cmd, tail))
    log("[tlc] %s/%s: %d generated, %d distinct, %d printed, %.1fs%s" % (
        module, cfg, r.generated, r.distinct, len(r.printed), r.wall, "  VIOLATION " + r.violation if r.violation else ""))
    return r


def tlc_trace_states(out):
    """extract the counterexample states TLC printed (list of text blocks)"""
    blocks, cur = [], None
    for line in out.splitlines():
        if re.match(r"^State \d+:", line):
            if cur is not None:
                blocks.append("\n".join(cur))
            cur = [line]
        elif cur is not None:
            if line.strip() == "" or re.match(r"^\d+ states generated", line):
                blocks.append("\n".join(cur))
                cur = None
            else:
                cur.append(line)
    if cur:
        blocks.append("\n".join(cur))
    return blocks


# ----------------------------------------------------------------------------------------------
# isolated replay of cases in a harness binary
# ----------------------------------------------------------------------------------------------
def _run_shard(binary, path, n, tmo, env, wrapper=None, max_abnormal=None):
    """run cases 0..n-1 of ndjson file `path`; restart after abnormal termination. returns list of result dicts"""
    results = [None] * n
    start = 0
    restarts = 0
    while start < n:
        cmd = (wrapper or []) + [binary, "--cases", path, "--start", str(start), "--timeout", str(tmo)]
        p = subprocess.run(cmd, stdout=subprocess.PIPE, stderr=subprocess.PIPE, env=env, errors="replace", text=True)
        cur = None
        for line in p.stdout.splitlines():
            if line.startswith("B "):
                try:
                    cur = int(line[2:])
                except ValueError:
                    pass
            elif line.startswith("R "):
                sp = line.split(" ", 2)
                try:
                    k = int(sp[1])
                    results[k] = json.loads(sp[2])
                    if cur == k:
                        cur = None
                except Exception:
                    pass
        if p.returncode == 0 and cur is None:
            break
        # abnormal end while case `cur` was running
        if cur is None:
            # died outside any case (start-up failure): machinery problem
            raise MachineryError("harness %s died outside a case (rc=%s): %s" % (binary, p.returncode, p.stderr[-2000:]))
        rc = p.returncode
        if rc == 97:
            oc = "hang"
        elif rc < 0:
            oc = "abort" if -rc == 6 else "signal%d" % (-rc)
        else:
            oc = "exit%d" % rc
        msg = p.stderr.strip()
        if len(msg) > 1800:
            msg = msg[:1200] + "\n...\n" + msg[-500:]
        # sanitizer reports end up on stderr and exit with code 1
        if "AddressSanitizer" in msg or "runtime error:" in msg or "LeakSanitizer" in msg or "ThreadSanitizer" in p.stderr:
            oc = "sanitizer"
            msg = p.stderr[:3000]
        results[cur] = {"ok": None, "outcome": oc, "stderr": msg}
        start = cur + 1
        restarts += 1
        if max_abnormal is not None and restarts >= max_abnormal:
            # a broken tree can make thousands of cases abort or hang: enough evidence, do not run the rest of this shard
            for k in range(start, n):
                results[k] = {"ok": None, "skip": True, "outcome": "not_run"}
            break
    return results


def run_cases(binary, cases, tmo=20, shards=None, env=None, keep=None, wrapper=None, max_abnormal=None):
    """replay `cases` (list of JSON-able objects) through harness `binary` in parallel shards.
    returns list of results aligned with cases; result['outcome'] is set for abnormal ends."""
    if not cases:
        return []
    if not os.path.exists(binary):
        raise MachineryError("harness binary missing: " + binary)
    shards = min(shards or NCPU, max(1, len(cases) // 50 + 1))
    tmpd = tempfile.mkdtemp(prefix="cases_", dir=os.path.join(BUILD))
    e = dict(os.environ)
    e.setdefault("OMP_NUM_THREADS", "1")
    e["ASAN_OPTIONS"] = "detect_leaks=0:abort_on_error=0:exitcode=1"
    e["UBSAN_OPTIONS"] = "print_stacktrace=1"
    if env:
        e.update({k: str(v) for k, v in env.items()})
    import concurrent.futures as cf
    chunks = []
    per = (len(cases) + shards - 1) // shards
    for s in range(shards):
        part = cases[s * per:(s + 1) * per]
        if not part:
            continue
        path = os.path.join(tmpd, "shard%d.ndjson" % s)
        with open(path, "w") as f:
            for c in part:
                f.write(json.dumps(c, separators=(",", ":")) + "\n")
        chunks.append((path, len(part)))
    out = []
    try:
        with cf.ThreadPoolExecutor(max_workers=len(chunks)) as ex:
            futs = [ex.submit(_run_shard, binary, path, n, tmo, e, wrapper, max_abnormal) for path, n in chunks]
            for f in futs:
                out.extend(f.result())
        # a time-out on a loaded machine is not yet a hang: each such case (at most 8) is re-run alone with six times the budget and
        # only a repeated time-out is reported (a false alarm would discredit every real one)
        hung = [k for k, r in enumerate(out) if r is not None and r.get("outcome") == "hang"][:8]
        if hung:
            def again(k):
                path1 = os.path.join(tmpd, "retry%d.ndjson" % k)
                with open(path1, "w") as f:
                    f.write(json.dumps(cases[k], separators=(",", ":")) + "\n")
                return _run_shard(binary, path1, 1, max(6 * tmo, 120), e, wrapper, 1)[0]
            with cf.ThreadPoolExecutor(max_workers=2) as ex:
                for k, r in zip(hung, ex.map(again, hung)):
                    if r is not None and r.get("outcome") != "hang":
                        r["retried_after_timeout"] = True
                        out[k] = r
    finally:
        if keep:
            shutil.move(tmpd, keep)
        else:
            shutil.rmtree(tmpd, ignore_errors=True)
    for k, r in enumerate(out):
        if r is None:
            out[k] = {"ok": None, "outcome": "missing"}
    return out


# ----------------------------------------------------------------------------------------------
# known findings
# ----------------------------------------------------------------------------------------------
def load_known(pid):
    out = []
    paths = [os.path.join(VERIF, "known_findings.json")]
    kd = os.path.join(VERIF, "known_findings.d")
    if os.path.isdir(kd):
        paths += sorted(os.path.join(kd, x) for x in os.listdir(kd) if x.endswith(".json"))
    for path in paths:
        if not os.path.exists(path):
            continue
        with open(path) as f:
            data = json.load(f)
        out += [x for x in data.get("findings", []) if x.get("property") == pid]
    return out


def _match(sig, pat):
    for k, v in pat.items():
        if k not in sig:
            return False
        if isinstance(v, list):
            if sig[k] not in v:
                return False
        elif sig[k] != v:
            return False
    return True


# ----------------------------------------------------------------------------------------------
# a check run: counters, violations, evidence
# ----------------------------------------------------------------------------------------------
class Check:
    def __init__(self, pid, level="model_checking", tier=None):
        self.pid = pid
        self.level = level
        self.tier = tier or os.environ.get("VERIF_TIER", "quick")
        if self.tier not in ("quick", "thorough"):
            self.tier = "quick"
        self.t0 = time.time()
        self.states = 0
        self.transitions = 0
        self.traces = 0
        self.evaluations = 0
        self.distinct = set()
        self.samples = []
        self.violations = []   # (sig, description, replay-object)
        self.known_hits = {}
        self.extra = {}
        self.assumptions = []
        self.rule = ""
        self.tlc_runs = []
        self.exhaustive = False
        self.known = load_known(pid)

    # -- bookkeeping -----------------------------------------------------------------------------
    def add_tlc(self, r, name=None):
        self.states += r.distinct
        self.transitions += r.generated
        self.tlc_runs.append({"run": name or "", "generated": r.generated, "distinct": r.distinct, "depth": r.depth,
                              "wall_s": round(r.wall, 2)})

    def count(self, key, nontrivial=True, n=1):
        self.evaluations += n
        if nontrivial:
            self.distinct.add(key if isinstance(key, (str, int, tuple)) else json.dumps(key, sort_keys=True))

    def sample(self, obj, cap=6):
        if len(self.samples) < cap:
            self.samples.append(obj)

    def violation(self, sig, desc, replay=None):
        """sig: dict identifying the failing case for known-findings matching"""
        for kf in self.known:
            if kf.get("status") == "known" and _match(sig, kf.get("match", {})):
                k = kf.get("id", json.dumps(kf.get("match")))
                if k not in self.known_hits:
                    self.known_hits[k] = [kf, 0, desc]
                self.known_hits[k][1] += 1
                return False
        self.violations.append((sig, desc, replay))
        return True

    def model_violation(self, r, what):
        """TLC found a counterexample in a model-checking run"""
        self.violation({"kind": "model", "what": what}, "%s: %s" % (what, r.violation),
                       {"kind": "tlc", "cmd": r.cmd, "trace": tlc_trace_states(r.out)[:60]})

    # -- finish ----------------------------------------------------------------------------------
    def finish(self):
        os.makedirs(EVID, exist_ok=True)
        wall = time.time() - self.t0
        cov = {
            "states": self.states, "transitions": self.transitions,
            "traces_validated_against_impl": self.traces,
            "evaluations": self.evaluations, "distinct_nontrivial": len(self.distinct),
            "rule": self.rule, "samples": self.samples[:8] or ["(none)"], "exhaustive": self.exhaustive,
            "tlc_runs": self.tlc_runs,
        }
        cov.update(self.extra)
        ev = {"property_id": self.pid, "tier": self.tier, "seed": seed(), "level": self.level, "coverage": cov,
              "assumptions": self.assumptions, "wall_s": round(wall, 2), "violations": len(self.violations),
              "known_findings_hit": [{"id": k, "count": v[1]} for k, v in self.known_hits.items()]}
        with open(os.path.join(EVID, self.pid + ".json"), "w") as f:
            json.dump(ev, f, indent=1, default=str)
        for k, (kf, n, desc) in self.known_hits.items():
            print("KNOWN-FINDING: property=%s %s (%d cases; e.g. %s)" % (self.pid, kf.get("description", k), n, " ".join(desc[:160].split())))
        if self.violations:
            rdir = os.path.join(BUILD, "replay")
            os.makedirs(rdir, exist_ok=True)
            path = os.path.join(rdir, "%s_%d.json" % (self.pid, int(time.time())))
            with open(path, "w") as f:
                json.dump({"property": self.pid, "violations": [
                    {"sig": s, "desc": d, "replay": rp} for s, d, rp in self.violations[:50]]}, f, indent=1, default=str)
            for s, d, rp in self.violations[:10]:
                log("  violation: %s :: %s" % (json.dumps(s, default=str)[:300], d[:600]))
            log("  (%d violations in total)" % len(self.violations))
            print("VIOLATION property=%s replay=%s" % (self.pid, path))
            sys.stdout.flush()
            return 1
        print("OK property=%s tier=%s states=%d cases=%d traces=%d wall=%.1fs" % (
            self.pid, self.tier, self.states, self.evaluations, self.traces, wall))
        return 0


def judge_results(chk, cases, results, sigf, allowed_outcomes=None, keyf=None, harness=None, nontrivial=None):
    """standard judgement of replayed cases: result ok==True passes; anything else is a violation unless
    the case says the outcome class is allowed (spec-side decision)."""
    nviol = 0
    for c, r in zip(cases, results):
        key = keyf(c) if keyf else json.dumps(c, sort_keys=True)
        chk.count(key, nontrivial(c) if nontrivial else True)
        oc = r.get("outcome")
        if r.get("ok") is True:
            continue
        if r.get("skip"):
            chk.extra["skipped"] = chk.extra.get("skipped", 0) + 1
            continue
        allow = allowed_outcomes(c) if allowed_outcomes else ()
        if oc and oc in allow:
            continue
        sig = sigf(c, r)
        desc = r.get("why") or ("outcome " + str(oc) + ": " + (r.get("stderr") or "")[-400:])
        if chk.violation(sig, desc, {"kind": "case", "harness": harness, "case": c, "result": r}):
            nviol += 1
    return nviol
