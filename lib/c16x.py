"""C16 extension (C16x): boundary / facet assembly, error computers, function-integral jobs, filter assemblers and the common
operators the registered C16 check does not use.

  spec/AsmXMesh.tla       meshes given explicitly (tensor grids of boxes, triangle / Kuhn-tetrahedron splittings, the two-cell and
                          parallelogram meshes of C16) with re-numbered / re-oriented variants; facets as vertex sets; exact facet
                          integrals, outer-normal fluxes and domain moments (integer arithmetic, square roots of integers kept symbolic)
  spec/AssemblyTrace.tla  the selection machine of Assembly::TraceAssembler (add_facet / add_mesh_part / compile /
                          compile_all_facets / clear) explored by TLC, and for every compiled list the exact values of everything
                          the assembler integrates (direction G)
  spec/AssemblyErr.tla    exact H0/H1/H2 errors and function integrals, the constrained dofs / values of the unit, slip and mean
                          filter assemblers, the block structure of the remaining common operators (direction G)
  harness/c16x_*.cpp      (common/vasm16x.hpp, vasm16x_dom.hpp) execute the real classes on the mesh of the case and compare;
                          c16x_info.cpp: the result objects (ScalarErrorInfo, FunctionCellIntegralInfo) as values

run_ext(chk) is the whole extension; checks/C16x.py calls nothing else, so the registered check can call it as well.
"""
import json, os, time
import concurrent.futures as cf
import vlib

SHAPES = {("hypercube", 2): "q2", ("simplex", 2): "t2", ("hypercube", 3): "h3", ("simplex", 3): "s3"}
# (name, shape, dim, tier, weight for balancing the TLC runs)
MESHES = [("q11", "hypercube", 2, 0, 1), ("q22a", "hypercube", 2, 0, 3), ("q32", "hypercube", 2, 1, 5), ("twoquad", "hypercube", 2, 0, 2),
          ("para", "hypercube", 2, 0, 3), ("t11", "simplex", 2, 0, 1), ("t22a", "simplex", 2, 0, 4), ("twotria", "simplex", 2, 0, 1),
          ("h111", "hypercube", 3, 0, 2), ("h211a", "hypercube", 3, 0, 4), ("h222a", "hypercube", 3, 1, 12),
          ("s111", "simplex", 3, 0, 4), ("s211a", "simplex", 3, 1, 8), ("hfrust", "hypercube", 3, 0, 5)]
DOM_KINDS = ["err", "verr", "unit", "slip", "mean", "bop", "lb", "info"]
MAXOPS = (4, 6)     # length bound of the histories of the selection machine (quick, thorough)


def _cfg(name, text):
    with open(os.path.join(vlib.SPEC, name), "w") as f:
        f.write(text)
    return name


def _rm(name):
    try:
        os.remove(os.path.join(vlib.SPEC, name))
    except OSError:
        pass


def _groups(tier, n):
    """split the meshes of the tier into n groups of about equal weight (one TLC process per group and module)"""
    ms = sorted([m for m in MESHES if m[3] <= tier], key=lambda m: -m[4])
    groups = [[] for _ in range(n)]
    load = [0] * n
    for m in ms:
        k = load.index(min(load))
        groups[k].append(m[0]); load[k] += m[4]
    return [g for g in groups if g]


def generate(chk, tier):
    """TLC enumerates the cases (both modules, a few processes side by side); returns the list of cases"""
    t = 1 if tier == "thorough" else 0
    nvar = 6 if t else 3
    jobs = []
    for k, g in enumerate(_groups(t, 3)):
        sel = "{" + ", ".join('"%s"' % x for x in g) + "}"
        name = "gen_c16x_trace_%d_%d.cfg" % (os.getpid(), k)
        _cfg(name, "SPECIFICATION Spec\nCONSTANTS Tier = %d\n MeshSel = %s\n NVariants = %d\n MaxOps = %d\n DegSlack = %d\n CanonLen = %d\n"
                   "INVARIANTS MeshLaws CompLaw NormalLaw Emit\nVIEW View\nCHECK_DEADLOCK FALSE\n" % (t, sel, nvar, MAXOPS[t], 1 if t else 0, 3 if t else 2))
        jobs.append(("AssemblyTrace", name, "trace " + " ".join(g)))
    for k, g in enumerate(_groups(t, 2)):
        sel = "{" + ", ".join('"%s"' % x for x in g) + "}"
        name = "gen_c16x_err_%d_%d.cfg" % (os.getpid(), k)
        _cfg(name, "SPECIFICATION Spec\nCONSTANTS Tier = %d\n MeshSel = %s\n NVariants = %d\n Kinds = {%s}\n"
                   "INVARIANTS MomLaw StrainLaw Emit\nCHECK_DEADLOCK FALSE\n" % (t, sel, nvar, ", ".join('"%s"' % x for x in DOM_KINDS)))
        jobs.append(("AssemblyErr", name, "domain " + " ".join(g)))
    cases = []
    try:
        with cf.ThreadPoolExecutor(max_workers=4) as ex:
            futs = [(ex.submit(vlib.tlc, mod, cfg, timeout=1500, xmx="3g", light=True), mod, cfg, what) for mod, cfg, what in jobs]
            for fu, mod, cfg, what in futs:
                r = fu.result()
                chk.add_tlc(r, "%s (%s)" % (mod, what))
                if r.violation:
                    chk.model_violation(r, "%s law (%s)" % (mod, what))
                cases += r.printed
    finally:
        for _, cfg, _ in jobs:
            _rm(cfg)
    return cases


def case_id(c, k):
    m = c["mesh"]
    base = "%s_v%d_%s" % (m["name"], c["variant"], c["kind"])
    if c["kind"] in ("sel", "trace"):
        h = "".join({"part": "P" + o.get("name", "")[-1:], "facet": "F", "compile": "C", "all": "A%d%d" % (o.get("i", 0), o.get("o", 0)), "clear": "X"}[o["op"]] for o in c["hist"])
        return "%s_%s_%s_%s_%d" % (base, h, c.get("test", ""), c.get("trial", ""), c.get("deg", 0))
    return "%s_%s_%d" % (base, c.get("space", ""), k)


def sig_of(c, r):
    """signature of a failing case for the known-findings table"""
    what = r.get("what") or ""
    s = {"kind": c["kind"], "what": what.split(":")[0] if what else str(r.get("outcome", "mismatch")), "detail": what,
         "shape": c["mesh"]["shape"], "dim": c["mesh"]["dim"], "mesh": c["mesh"]["name"], "variant": c["variant"],
         "space": c.get("space") or c.get("test") or "", "trial": c.get("trial") or "", "outcome": r.get("outcome", "mismatch")}
    if c["kind"] in ("sel", "trace"):
        s["cleared"] = bool(any(o["op"] == "clear" for o in c["hist"]))
        # operations recorded before a clear() in the history: the mask the assembler had when it was cleared
        s["masked_before_clear"] = bool(any(o["op"] in ("part", "facet") for o in c["hist"][:next((i for i, o in enumerate(c["hist"]) if o["op"] == "clear"), 0)]))
    if c["kind"] == "info":
        s["cls"] = c["cls"]; s["how"] = c["how"]
    if c["kind"] == "bop":
        s["op"] = "%s%d" % (c["op"]["name"], c["op"]["nsc"])
        s["row"] = c["row"]
    return s


def harness_names():
    return ["c16x_" + s for s in SHAPES.values()] + ["c16x_d" + s for s in SHAPES.values()] + ["c16x_info"]


def run_ext(chk):
    tier = chk.tier
    t0 = time.time()
    names = harness_names()
    paths = dict(zip(names, vlib.build(names, jobs=4)))
    t1 = time.time()
    cases = generate(chk, tier)
    if not cases:
        raise vlib.MachineryError("the specification generated no cases")
    t2 = time.time()
    for k, c in enumerate(cases):
        c["id"] = case_id(c, k)
    perbin = {}
    for c in cases:
        key = (c["mesh"]["shape"], c["mesh"]["dim"])
        if key not in SHAPES:
            raise vlib.MachineryError("no harness for %s" % (key,))
        b = "c16x_info" if c["kind"] == "info" else ("c16x_" if c["kind"] in ("sel", "trace") else "c16x_d") + SHAPES[key]
        perbin.setdefault(b, []).append(c)
    margin = 0.0
    kinds = {}
    with cf.ThreadPoolExecutor(max_workers=4) as ex:
        futs = {b: ex.submit(vlib.run_cases, paths[b], cs, 120, 3) for b, cs in perbin.items()}
        for b, cs in perbin.items():
            res = futs[b].result()
            for c, r in zip(cs, res):
                if r.get("ok") is True:
                    margin = max(margin, r.get("margin", 0.0))
                kinds[c["kind"]] = kinds.get(c["kind"], 0) + 1
            slim = [{k: v for k, v in c.items()} for c in cs]
            vlib.judge_results(chk, slim, res, sig_of, keyf=lambda c: c["id"], harness=b)
    chk.traces += len(cases)
    chk.extra["c16x_cases_by_kind"] = kinds
    chk.extra["c16x_max_rounding_margin"] = margin
    chk.extra["c16x_meshes"] = sorted(set(c["mesh"]["name"] for c in cases))
    chk.extra["c16x_variants"] = sorted(set(c["variant"] for c in cases))
    chk.extra["c16x_wall_s"] = {"build": round(t1 - t0, 1), "tlc": round(t2 - t1, 1), "harness": round(time.time() - t2, 1)}
    summ = {}
    for sg, _, _ in chk.violations:
        k = "%s|%s|%s" % (sg.get("kind"), sg.get("detail"), sg.get("space"))
        summ[k] = summ.get(k, 0) + 1
    chk.extra["c16x_violation_summary"] = summ
    for c in cases[:2]:
        chk.sample({"id": c["id"], "kind": c["kind"], "mesh": c["mesh"]["name"], "hist": c.get("hist"), "sel": c.get("sel"), "len": c.get("len")})
    chk.exhaustive = True
    rule = ("C16x: TLC enumerates (spec/AssemblyTrace.tla) every history of at most %d operations of the TraceAssembler selection machine "
            "(two overlapping boundary parts, a boundary facet, an inner facet, compile, the four compile_all_facets, clear) on every mesh "
            "of spec/AsmXMesh.tla in its variants -- one witness history per distinct machine state -- and, for the compiled lists reached "
            "by at most two (thorough: three) operations, every space pair x every monomial pair of total degree <= 4 with the exact integrals; and "
            "(spec/AssemblyErr.tla) every mesh x space x analytic / discrete polynomial pair with the exact H0/H1/H2 errors and function "
            "integrals, every mesh part x space x boundary function of the filter assemblers, every blocked operator with its block structure; "
            "one evaluation = one case executed on the real classes; distinct = case id (mesh, variant, kind, history / job)"
            % MAXOPS[1 if tier == "thorough" else 0])
    chk.rule = (chk.rule + "  ||  " + rule) if chk.rule else rule
    chk.assumptions += [
        "C16x: predicted values are exact (rationals, square roots of integers symbolic); the harness evaluates them in long double and "
        "compares within tol = 4096*eps*mag, mag = predicted measure x sup-norms of the integrated polynomials on the bounding box x 4 "
        "(squared norms: the spec's integral of the polynomial with absolute coefficients plus the cancellation bound of the finite element "
        "evaluation, see harness/common/vasm16x_dom.hpp: err_tol)",
        "C16x: the interpolant of a monomial is formed by the harness from point values at entity barycentres in the dof numbering of the "
        "specification's signature table (vertices, edges, faces, cells), as in C16",
        "C16x: DomainAssembler runs the function-integral jobs with 0 worker threads (threading is C17)"]
