#!/usr/bin/env python3
"""Regenerates the generated tables of DESIGN.md section 0 (between <!-- GEN:x --> markers) from the machine-readable
files: MANIFEST.json, evidence/*.json, known_findings*.json, seeded/*/meta.json, build/baseline_status.txt."""
import glob, json, os, re
V = os.path.dirname(os.path.dirname(os.path.abspath(__file__)))


def prop_table():
    m = json.load(open(os.path.join(V, "MANIFEST.json")))
    titles = {json.loads(l)["id"]: json.loads(l)["title"] for l in open(os.path.join(V, "properties.jsonl"))}
    eng = {e["name"]: e["path"] for e in m.get("engines", [])}
    rows = ["| Prop | Status | Spec / harness | Last committed evidence (tier: TLC states / cases / traces) |", "|---|---|---|---|"]
    claimed = {c["property_id"]: c for c in m["checks"]}
    na = {x["property_id"]: x["reason"] for x in m.get("not_applicable", [])}
    for pid in sorted(titles):
        if pid in claimed:
            c = claimed[pid]
            ev = ""
            p = os.path.join(V, "evidence", pid + ".json")
            if os.path.exists(p):
                e = json.load(open(p))
                cv = e["coverage"]
                ev = "%s: %s / %s / %s" % (e["tier"], cv.get("states"), cv.get("evaluations"), cv.get("traces_validated_against_impl"))
            rows.append("| %s %s | claimed (%s) | %s | %s |" % (pid, titles[pid], c["level_claimed"]["category"], eng.get(c.get("engine", ""), ""), ev))
        else:
            rows.append("| %s %s | not claimed | | %s |" % (pid, titles[pid], na.get(pid, "")))
    return "\n".join(rows)


def findings_table():
    items = []
    for f in [os.path.join(V, "known_findings.json")] + sorted(glob.glob(os.path.join(V, "known_findings.d", "*.json"))):
        for x in json.load(open(f)).get("findings", []):
            items.append(x)
    rows = ["| Prop | Id | Handling | What fails |", "|---|---|---|---|"]
    for x in sorted(items, key=lambda x: (x["property"], x["status"], x["id"])):
        d = x["description"]
        d = re.sub(r"^fixed: property=\S+ \S+ ", "", d)
        h = ("`fix:` commit %s" % x.get("commit", "")) if x["status"] == "fixed" else "known finding (recorded, not repaired)"
        rows.append("| %s | %s | %s | %s |" % (x["property"], x["id"], h, d.replace("|", "\\|")[:420]))
    return "\n".join(rows)


def seeded_table():
    rows = ["| Seeded change | Property | Needs | Detected by (quick tier) |", "|---|---|---|---|"]
    n = 0
    for f in sorted(glob.glob(os.path.join(V, "seeded", "*", "meta.json"))):
        x = json.load(open(f))
        n += 1
        rows.append("| %s | %s | %s | %s |" % (os.path.basename(os.path.dirname(f)), x.get("property"), str(x.get("needs", "")).replace("|", "/")[:260],
                                          x.get("detected_by", "?")))
    if n == 0:
        return "(none integrated yet)"
    return "\n".join(rows)


def baseline_text():
    p = os.path.join(V, "baseline_status.txt")
    return open(p).read().strip() if os.path.exists(p) else "(not run yet after the latest /repo commits)"


def main():
    p = os.path.join(V, "DESIGN.md")
    s = open(p).read()
    for key, fn in (("PROPERTY_TABLE", prop_table), ("FINDINGS_TABLE", findings_table), ("SEEDED_TABLE", seeded_table), ("BASELINE_TEXT", baseline_text)):
        beg, end = "<!-- GEN:%s -->" % key, "<!-- /GEN:%s -->" % key
        if beg not in s:
            s = s.replace("\n" + key + "\n", "\n%s\n%s\n%s\n" % (beg, key, end), 1)
        i, j = s.index(beg) + len(beg), s.index(end)
        s = s[:i] + "\n" + fn() + "\n" + s[j:]
    open(p, "w").write(s)


if __name__ == "__main__":
    main()
