"""C05 extension: the persistence layers below and above the container streams.

  pack    spec/PersistPack.tla (byte images of integer / IEEE values, swap, narrowing of representable values, sizes
          0/1/odd; calls outside the domain must be reported; type tables) -> harness/c05x_pack.cpp
  dist    spec/PersistDistFmt.tla + spec/PersistDist.tla (DistFileIO: combined / ordered / sequence / common files as a
          machine over an abstract file system, N = 1 serial build, N = 1..4 MPI ranks; write-read layouts and free
          histories with re-used objects; files planted by the environment: other process count, truncated, damaged)
          -> harness/c05x_dist.cpp (std and mpi variant)
  iofile  spec/Persist.tla (the registered generator) replayed through the file NAME overloads write_out/read_from(mode, filename) of
          DenseVector, DenseVectorBlocked, SparseVector, SparseMatrixCSR (sample) -> harness/c05x_ckpt.cpp
  ckfile  spec/PersistCkptFile.tla (CheckpointControl::save/load through files, extension handling, fresh control
          object, fresh process, Global::Vector / Global::Matrix wrappers) -> harness/c05x_ckpt.cpp (std and mpi variant)

run_ext(chk) runs everything and can be called from another check (the registered C05).
"""
import json, os, re, shutil, tempfile, time
import concurrent.futures as cf
import vlib

# ranks yield when idle: several shards of np processes run side by side on a shared machine (see lib/c13x.py)
MPIRUN = ["mpirun", "--allow-run-as-root", "--oversubscribe", "--bind-to", "none", "--mca", "mpi_yield_when_idle", "1", "-np"]
# a read of an EMPTY text file aborts today (known finding C05x-empty-text-file); every abort costs a process restart
# (about a second under mpirun), so the histories containing such a read are sampled per configuration
MAX_EMPTY_TEXT = 2


def _cfg(name, text):
    with open(os.path.join(vlib.SPEC, name), "w") as f:
        f.write(text)
    return name


def _rm(name):
    try:
        os.remove(os.path.join(vlib.SPEC, name))
    except OSError:
        pass


def _set(xs):
    return "{" + ", ".join(str(x) for x in xs) + "}"


def _strs(xs):
    return "{" + ", ".join('"%s"' % x for x in xs) + "}"


def _bools(xs):
    return "{" + ", ".join("TRUE" if x else "FALSE" for x in xs) + "}"


# ----------------------------------------------------------------------------------------------------------------
# signatures, keys
# ----------------------------------------------------------------------------------------------------------------
def _assert_of(r):
    st = r.get("stderr") or ""
    m = re.search(r"Expression: ([^\n]*)\nFunction\.*: ([^\n]*)", st)
    if m:
        return m.group(1).strip()[:80], m.group(2).strip()[:40]
    m = re.search(r"FATAL ERROR: ([^\n]*)\n\s*\nFunction: ([^\n]*)", st)
    if m:
        return m.group(1).strip()[:80], m.group(2).strip()[:40]
    return "", ""


def empty_text_read(c):
    """some rank reads a text file of length 0 (sequence file or common file)"""
    return any(s["op"] in ("rs", "rm") and s.get("kind") == "txt" and any(len(e) == 0 for e in s["exp"]) for s in c["steps"])


def sig(c, r):
    why = r.get("why") or ""
    oc = r.get("outcome", "mismatch")
    ex, fn = _assert_of(r)
    if c["part"] == "pack":
        m = re.search(r"/(\w+)", why)
        s = {"part": "pack", "kind": c["kind"], "what": c.get("what") or (m.group(1) if m else ""), "outcome": oc}
        for k in ("cls", "sw", "pw", "dw", "swap", "count", "pcode"):
            if k in c:
                s[k] = c[k]
        return s
    if c["part"] == "dist":
        m = re.search(r"step (\d+) (\w+)(/[\w/]+)?", why)
        what = (m.group(2) + (m.group(3) or "")) if m else ""
        if "reject:" in why:
            what = "rc/reject"
        s = {"part": "dist", "nr": c["nr"], "variant": c.get("variant", ""), "ops": " ".join(x["op"] for x in c["steps"]), "what": what,
             "failing_step": int(m.group(1)) if m else 0, "exp_empty": why.endswith("expected [0:]"), "empty_text_read": empty_text_read(c),
             "reject_why": next((x.get("why", "") for x in c["steps"] if x.get("expect") == "reject"), ""),
             "assert": ex, "function": fn, "outcome": "abort" if oc.startswith("exit") else oc}
        return s
    if c["part"] == "io":
        return {"part": "iofile", "kind": c["kind"], "mode": c["mode"], "m": c["m"], "n": c["n"], "cdt": c["cdt"],
                "stage": "read" if "/read" in why else ("write" if "/write" in why else "other"), "outcome": oc}
    m = re.search(r"(?:f64/u64|f32/u32)/([\w ]+)", why)
    return {"part": "ckfile", "nr": c["nr"], "variant": c.get("variant", ""), "cdt": c["cdt"], "wrap": c["wrap"], "fname": c["fname"]["arg"],
            "nobj": len(c["ids"]), "phase": c.get("phase", 1), "rejop": c.get("rejop", ""), "what": m.group(1).strip() if m else ("precond" if "precond" in why else ""),
            "assert": ex, "function": fn, "outcome": "abort" if oc.startswith("exit") else oc}


def key(c):
    if c["part"] == "pack":
        return json.dumps(["pack", c["kind"], c.get("cls"), c.get("sw"), c.get("pw"), c.get("dw"), c.get("swap"), c.get("pcode"), c.get("what"), c.get("vals")])
    if c["part"] == "dist":
        return json.dumps(["dist", c["nr"], c.get("variant"), [[s[k] for k in sorted(s) if k not in ("bytes", "files", "com", "buf", "raw", "exp")] for s in c["steps"]]])
    if c["part"] == "io":
        return json.dumps(["iofile", c["kind"], c["m"], c["n"], c["rep"], bool(c.get("alloc")), c["mode"], c["cdt"]])
    return json.dumps(["ckfile", c["nr"], c.get("variant"), c["cdt"], c["wrap"], c["fname"]["arg"], c["ids"], c["restore"], c.get("phase", 1), c.get("rejop", ""),
                       [[o["c"]["kind"], o["c"]["m"]] for o in c["ranks"][0]["objs"]]])


def nontrivial(c):
    if c["part"] == "pack":
        return c["kind"] != "codec" or c["count"] > 0
    if c["part"] == "dist":
        return any(any(len(d) > 0 for d in s.get("data", [])) or len(s.get("bytes", [])) > 0 for s in c["steps"])
    if c["part"] == "io":
        return len(c["arrays"]["el"]) > 0
    return True


def _is_reject(c):
    if c["part"] == "pack":
        return c["kind"] == "reject"
    if c["part"] == "dist":
        return c["steps"][-1].get("expect") == "reject"
    return c.get("expect") == "reject"


def judge(chk, cases, res, harness):
    """Cases that the specification declares OUTSIDE the domain of the property (a combined file of another process count, a
    truncated / extended / damaged file, a pack type outside the class of the data, an unsupported checkpoint file name) are
    replayed to see what the implementation does, but C05 makes no statement about them (it is a round-trip property, not a
    rejection property): FEAT reports most of them by aborting with its FATAL ERROR banner; whatever happens is only COUNTED
    (extra: out_of_domain_reported / out_of_domain_not_reported), never judged."""
    out = []
    for c, r in zip(cases, res):
        if _is_reject(c):
            rep = r.get("ok") is None and (r.get("outcome") == "abort" or str(r.get("outcome", "")).startswith("exit")) \
                and "FATAL ERROR" in (r.get("stderr") or "")
            k = "out_of_domain_reported" if rep else "out_of_domain_not_reported"
            chk.extra[k] = chk.extra.get(k, 0) + 1
            out.append({"ok": True, "rejected": rep})
        else:
            out.append(r)
    vlib.judge_results(chk, cases, out, sig, keyf=key, harness=harness, nontrivial=nontrivial)
    return out


def _replay(binary, cases, nr, variant, env, tmo=30, shards=None):
    wrapper = (MPIRUN + [str(nr)]) if variant == "mpi" else None
    if variant == "mpi":
        shards = shards or max(1, min(3, 9 // nr))
    try:
        return vlib.run_cases(binary, cases, tmo=tmo, shards=shards, env=env, wrapper=wrapper, max_abnormal=60 if variant != "mpi" else 20)
    except vlib.MachineryError as e:
        if variant != "mpi":
            raise
        # an mpirun that fails to start on the loaded machine (ORTE out of resource) is not a statement about the property: one retry, one job
        vlib.log("[c05x] replay failed to start (%s); retrying once" % str(e).splitlines()[0][:200])
        time.sleep(2)
        return vlib.run_cases(binary, cases, tmo=tmo, shards=1, env=env, wrapper=wrapper, max_abnormal=20)


# ----------------------------------------------------------------------------------------------------------------
# Pack
# ----------------------------------------------------------------------------------------------------------------
PACK_INV = "RoundTrip SizeLaw Injective SwapInvol SignExtend Emit"


def pack_plan(thorough):
    # (class, array lengths, stride of the palette windows)
    if thorough:
        return [("I", [0, 1, 2, 3, 5], 1), ("U", [0, 1, 2, 3, 5], 1), ("F", [0, 1, 2, 3, 5], 1), ("misc", [1], 1)]
    return [("I", [0, 1, 3], 2), ("U", [0, 1, 3], 2), ("F", [0, 1, 3], 1), ("misc", [1], 1)]


def gen_pack(cls, counts, stride):
    name = "gen_PersistPack_%s_%d.cfg" % (cls, os.getpid())
    _cfg(name, "SPECIFICATION Spec\nCONSTANTS Cls = \"%s\" Counts = %s Stride = %d\nINVARIANTS %s\nCHECK_DEADLOCK FALSE\n" % (cls, _set(counts), stride, PACK_INV))
    try:
        return vlib.tlc("PersistPack", name, timeout=1500, xmx="3g")
    finally:
        _rm(name)


def run_pack(chk, binary, ex):
    thorough = chk.tier == "thorough"
    gens = [(ex.submit(gen_pack, *p), p) for p in pack_plan(thorough)]
    cases = []
    for f, p in gens:
        r = f.result()
        chk.add_tlc(r, "PersistPack %s counts=%s stride=%d" % (p[0], p[1], p[2]))
        if r.violation:
            chk.model_violation(r, "PersistPack laws (%s)" % (p[0],))
        cases.extend(r.printed)
    if not cases:
        raise vlib.MachineryError("PersistPack generated no cases")
    t0 = time.time()
    res = vlib.run_cases(binary, cases, tmo=20, max_abnormal=80)
    judge(chk, cases, res, "c05x_pack")
    vlib.log("[c05x] pack: %d cases replayed in %.1fs" % (len(cases), time.time() - t0))
    cod = [c for c in cases if c["kind"] == "codec"]
    chk.extra["pack_codec_cases"] = len(cod)
    chk.extra["pack_reject_cases"] = sum(1 for c in cases if c["kind"] == "reject")
    chk.extra["pack_type_triples"] = len(set((c["cls"], c["sw"], c["pw"], c["dw"], c["swap"]) for c in cod))
    chk.extra["pack_buffer_bytes_compared"] = sum(len(c["buf"]) for c in cod)
    for c in [x for x in cod if x["count"] == 3 and x["cls"] == "F" and x["pw"] != x["sw"]][:1] + [x for x in cod if x["count"] == 3 and x["cls"] == "I" and x["swap"] and x["pw"] == 2][:1]:
        chk.sample({k: c[k] for k in ("kind", "cls", "sw", "pw", "dw", "swap", "vals", "buf")})
    return len(cases)


# ----------------------------------------------------------------------------------------------------------------
# DistFileIO
# ----------------------------------------------------------------------------------------------------------------
DIST_INV = "RoundTrip LayoutOK RejectsMismatch NamesDistinct Emit"
FAMS = {"comb": ["wc", "rc"], "ord": ["wo", "ro"], "seq": ["ws", "rs"], "common": ["plantr", "wo", "rm"], "env": ["plantc", "plantd", "rc"]}


def dist_cfg(n, steps, shape, fam, files, lensvals, lensmode, clens, roots, bcasts, pres, truncs, pats):
    return ("SPECIFICATION Spec\nCONSTANTS N = %d MaxSteps = %d Shape = \"%s\" Fams = %s Files = %s LensVals = %s LensMode = \"%s\" CLens = %s Roots = %s "
            "Bcasts = %s Pres = %s Truncs = %s PatIdx = %s\nINVARIANTS %s\nCHECK_DEADLOCK FALSE\n"
            % (n, steps, shape, _strs(FAMS[fam]), _strs(files), _set(lensvals), lensmode, _set(clens), _set(roots), _bools(bcasts), _bools(pres), _bools(truncs),
               _set(pats), DIST_INV))


def dist_plan(n, thorough, variant="serial"):
    """configurations for N processes: (label, cfg text).  'wr' = one write (or planted file) + one read with broad
    parameters (layouts); 'free' = every history of MaxSteps calls over few parameters (re-use of files and objects)"""
    roots = sorted({0, n - 1})
    both = [True, False]
    allv = n <= 2 or (thorough and n == 3)
    lv, lm = ([0, 1, 3], "all") if allv else ([0], "few")
    plan = [("layout comb", dist_cfg(n, 2, "wr", "comb", ["A"], lv, lm, [0, 5], roots, both, both, [True], [1])),
            ("layout env", dist_cfg(n, 2, "wr", "env", ["A"], [0], "few", [5], [n - 1], [True], [False], [True], [1]))]
    if n <= 2 or thorough:
        plan += [("layout ord", dist_cfg(n, 2, "wr", "ord", ["A"], lv, lm, [0], [0], [True], [False], both, [1])),
                 ("layout seq", dist_cfg(n, 2, "wr", "seq", ["A"], lv if n <= 2 else [0], lm if n <= 2 else "few", [0], [0], [True], both, both if n <= 2 else [True], [1, 2] if n <= 2 else [3])),
                 ("layout common", dist_cfg(n, 2, "wr", "common", ["A"], [0], "few", [0], roots, [True], both, [True], [1]))]
    depth = 4 if (thorough and n <= 2) else 3
    if n <= 3 or thorough:
        plan += [("history comb", dist_cfg(n, depth, "free", "comb", ["A", "B"], [0], "hist", [0, 5] if (thorough and (depth == 3 or variant == "serial")) else [5], [n - 1], [True], [False], [True], [1]))]
    if n <= 2 or thorough:
        plan += [("history ord", dist_cfg(n, depth, "free", "ord", ["A"], [0], "hist", [0], [0], [True], [False], both, [1]))]
    # (the sequence functions share _write_file/_read_file between the builds: their histories run in the serial build, under MPI only in the thorough tier)
    if variant == "serial" or thorough:
        plan += [("history seq", dist_cfg(n, 3, "free", "seq", ["A"], [0], "hist", [0], [0], [True], [False], both if thorough else [True], [1]))]
    return plan


def gen_dist(n, label, text):
    name = "gen_PersistDist_%d_%s_%d.cfg" % (n, label.replace(" ", "_"), os.getpid())
    _cfg(name, text)
    try:
        return vlib.tlc("PersistDist", name, timeout=1500, xmx="2g", light=True)
    finally:
        _rm(name)


def _sample_empty_text(cases):
    keep, n = [], 0
    for c in cases:
        if empty_text_read(c):
            n += 1
            if n > MAX_EMPTY_TEXT:
                continue
        keep.append(c)
    return keep, max(0, n - MAX_EMPTY_TEXT)


def run_dist(chk, binaries, ex, scratch, ranks):
    """binaries = {"serial": path, "mpi": path}; ranks = list of (variant, N)"""
    thorough = chk.tier == "thorough"
    gens = []
    for variant, n in ranks:
        for label, text in dist_plan(n, thorough, variant):
            gens.append((ex.submit(gen_dist, n, label, text), variant, n, label))
    by = {}
    dropped = 0
    total = 0
    # the generator runs were submitted in the order of `ranks`: the replay of one rank count overlaps with the generation for the next
    for variant, n in ranks:
        cases = by.setdefault((variant, n), [])
        for f, v2, n2, label in gens:
            if (v2, n2) != (variant, n):
                continue
            r = f.result()
            chk.add_tlc(r, "PersistDist N=%d %s (%s)" % (n, label, variant))
            if r.violation:
                chk.model_violation(r, "PersistDist invariants (N=%d %s)" % (n, label))
            cs, d = _sample_empty_text(r.printed)
            dropped += d
            for c in cs:
                c["variant"] = variant
                c["cfg"] = label
            cases.extend(cs)
        if not cases:
            raise vlib.MachineryError("PersistDist generated no cases for N=%d" % n)
        t0 = time.time()
        res = _replay(binaries[variant], cases, n, "mpi" if variant == "mpi" else "std", {"C05X_DIR": scratch})
        judge(chk, cases, res, "c05x_dist")
        vlib.log("[c05x] dist: %d histories on %d %s rank(s) replayed in %.1fs" % (len(cases), n, variant, time.time() - t0))
        total += len(cases)
        chk.extra["dist_histories_%s_%d" % (variant, n)] = len(cases)
        if n == 3 or (n == 2 and not any(v == "mpi" and k == 3 for v, k in ranks)):
            for c in [x for x in cases if x["cfg"] == "layout comb" and all(len(d) > 0 for d in x["steps"][0]["data"])][:1]:
                chk.sample({"nr": n, "variant": variant, "steps": [{k: s[k] for k in s if k in ("op", "file", "root", "bcast", "pre", "data", "bytes", "buf")} for s in c["steps"]]})
    allc = [c for cs in by.values() for c in cs]
    chk.extra["dist_calls"] = sum(len(c["steps"]) for c in allc)
    chk.extra["dist_files_compared_bytewise"] = sum(1 for c in allc for s in c["steps"] if s["op"] in ("wc", "wo")) + sum(len(s["files"]) for c in allc for s in c["steps"] if s["op"] == "ws")
    chk.extra["dist_reject_histories"] = sum(1 for c in allc if _is_reject(c))
    chk.extra["dist_empty_text_histories_not_replayed"] = dropped
    return total


# ----------------------------------------------------------------------------------------------------------------
# checkpoints through files
# ----------------------------------------------------------------------------------------------------------------
CK_INV = "RestoredRight FileOrdered FileComplete FileLayout RestoredRightAll FileSizeLaw NameLaw EmitF"


def ck_plan(variant, n, thorough):
    # (MinObj, MaxObj, CDT = CIT, file names, wraps)
    if variant == "serial":
        plan = [(1, 2, 8, [1], [True, False]), (2, 2, 8, [2, 3, 4, 5, 6, 7], [False]), (2, 2, 4, [3], [False])]
        if thorough:
            plan += [(3, 3, 8, [1], [False]), (1, 1, 4, [1, 4], [True])]
        return plan
    if n == 2:
        return [(2, 2, 8, [1, 4], [True])] + ([(1, 3, 8, [3], [False]), (2, 2, 4, [1], [False])] if thorough else [])
    if n == 3:
        return [(2, 2, 8, [3], [False])] + ([(2, 2, 4, [2, 5], [True])] if thorough else [])
    return [(2, 2, 8, [1], [False])]


def gen_ck(n, mino, maxo, cdt, fnames, wraps):
    name = "gen_PersistCkptFile_%d_%d_%d_%d_%s_%d.cfg" % (n, mino, maxo, cdt, "".join(map(str, fnames)), os.getpid())
    _cfg(name, "SPECIFICATION SpecF\nCONSTANTS MinObj = %d MaxObj = %d CDT = %d CIT = %d NR = %d FNameIdx = %s Wraps = %s\nINVARIANTS %s\nCHECK_DEADLOCK FALSE\n"
         % (mino, maxo, cdt, cdt, n, _set(fnames), _bools(wraps), CK_INV))
    try:
        return vlib.tlc("PersistCkptFile", name, timeout=1500, xmx="3g")
    finally:
        _rm(name)


def run_ckfile(chk, binaries, ex, scratch, ranks):
    thorough = chk.tier == "thorough"
    gens = []
    for variant, n in ranks:
        for p in ck_plan(variant, n, thorough):
            gens.append((ex.submit(gen_ck, n, *p), variant, n, p))
    by = {}
    for f, variant, n, p in gens:
        r = f.result()
        chk.add_tlc(r, "PersistCkptFile N=%d objs=%d..%d dt=%d names=%s wraps=%s (%s)" % ((n,) + p + (variant,)))
        if r.violation:
            chk.model_violation(r, "PersistCkptFile invariants (N=%d %s)" % (n, p))
        for c in r.printed:
            c["variant"] = variant
            if c["expect"] == "reject":         # both calls must report an invalid file name
                for op in ("save", "load"):
                    d = dict(c)
                    d["rejop"] = op
                    by.setdefault((variant, n), []).append(d)
            else:
                by.setdefault((variant, n), []).append(c)
    total = 0
    for (variant, n), cases in sorted(by.items()):
        keep = tempfile.mkdtemp(prefix="keep_", dir=scratch)
        for k, c in enumerate(cases):
            c["key"] = "k%d" % k
        env = {"C05X_DIR": scratch, "C05X_KEEP": keep}
        t0 = time.time()
        res = _replay(binaries[variant], cases, n, "mpi" if variant == "mpi" else "std", env)
        pre = [(c, r) for c, r in zip(cases, res) if "precond:" in (r.get("why") or "")]
        if pre:
            raise vlib.MachineryError("binding defect: the real container state is not the state the specification assumes: %s" % pre[0][1].get("why"))
        res = judge(chk, cases, res, "c05x_ckpt")
        # a fresh process loads every file that was written and verified
        p2 = [dict(c, phase=2) for c, r in zip(cases, res) if c["expect"] == "ok" and r.get("ok") is True]
        if p2:
            res2 = _replay(binaries[variant], p2, n, "mpi" if variant == "mpi" else "std", env)
            judge(chk, p2, res2, "c05x_ckpt")
        shutil.rmtree(keep, ignore_errors=True)
        vlib.log("[c05x] ckfile: %d behaviours (+%d loads in a fresh process) on %d %s rank(s) replayed in %.1fs" % (len(cases), len(p2), n, variant, time.time() - t0))
        total += len(cases) + len(p2)
        chk.extra["ckfile_behaviours_%s_%d" % (variant, n)] = len(cases)
        chk.extra["ckfile_fresh_process_loads_%s_%d" % (variant, n)] = len(p2)
        if variant == "mpi" and n == 2:
            for c in [x for x in cases if x["expect"] == "ok"][:1]:
                chk.sample({"nr": n, "fname": c["fname"]["arg"], "ids": c["ids"], "restore": c["restore"], "hdr": c["hdr"], "total": c["total"],
                            "sections": [[rk["size"], [(o["id"], o["c"]["kind"]) for o in rk["objs"]]] for rk in c["ranks"]]})
    return total


# ----------------------------------------------------------------------------------------------------------------
# the file NAME overloads of the containers (sample; generator: the registered spec/Persist.tla)
# ----------------------------------------------------------------------------------------------------------------
def iofile_plan(thorough):
    # (kind, MaxM, MaxN, BH, BW, palette) as in checks/C05.py
    # palettes 3 / 5: every assignment {keep, +0, -0} to the stored entries (stored zeros stay stored), 5: symmetric CSR incl. "mtxsym"
    plan = [("dv", 3, 1, 1, 1, 1), ("dvb", 2, 1, 2, 1, 1), ("sv", 3, 1, 1, 1, 3), ("csr", 2, 2, 1, 1, 1), ("csr", 2, 2, 1, 1, 5)]
    if thorough:
        plan += [("csr", 2, 3, 1, 1, 2), ("dv", 4, 1, 1, 1, 2), ("sv", 4, 1, 1, 1, 2), ("csr", 2, 2, 1, 1, 3), ("dv", 3, 1, 1, 1, 3), ("dvb", 1, 1, 2, 1, 3)]
    return plan


def gen_iofile(kind, maxm, maxn, bh, bw, pal):
    name = "gen_Persist_x%s_%d_%d_%d_%d.cfg" % (kind, maxm, maxn, pal, os.getpid())
    _cfg(name, "SPECIFICATION Spec\nCONSTANTS Kind = \"%s\" MaxM = %d MaxN = %d BH = %d BW = %d Pal = %d\nINVARIANTS RoundTrip LayoutOK StoredWritten PatternKept Emit\nCHECK_DEADLOCK FALSE\n"
         % (kind, maxm, maxn, bh, bw, pal))
    try:
        return vlib.tlc("Persist", name, timeout=1500, xmx="3g")
    finally:
        _rm(name)


def run_iofile(chk, binary, ex, scratch):
    gens = [(ex.submit(gen_iofile, *p), p) for p in iofile_plan(chk.tier == "thorough")]
    cases = []
    for f, p in gens:
        r = f.result()
        chk.add_tlc(r, "Persist (file name overloads) %s %dx%d b%dx%d pal%d" % p)
        if r.violation:
            chk.model_violation(r, "Persist invariants (%s)" % (p,))
        for c in r.printed:
            if c["mode"] == "ser":          # serialize<DT2, IT2>() has no file name overload
                continue
            c["nr"] = 1
            c["variant"] = "serial"
            cases.append(c)
    if not cases:
        raise vlib.MachineryError("Persist generated no cases for the file name overloads")
    t0 = time.time()
    res = _replay(binary, cases, 1, "std", {"C05X_DIR": scratch})
    pre = [(c, r) for c, r in zip(cases, res) if "precond:" in (r.get("why") or "")]
    if pre:
        raise vlib.MachineryError("binding defect: the real container state is not the state the specification assumes: %s" % pre[0][1].get("why"))
    judge(chk, cases, res, "c05x_ckpt")
    vlib.log("[c05x] iofile: %d write_out/read_from(mode, filename) behaviours replayed in %.1fs" % (len(cases), time.time() - t0))
    chk.extra["iofile_behaviours"] = len(cases)
    chk.extra["iofile_kinds_x_modes"] = sorted(set("%s/%s" % (c["kind"], c["mode"]) for c in cases))
    chk.extra["iofile_text_behaviours_with_stored_zeros"] = sum(1 for c in cases if c["file"]["fmt"] == "text" and sum(c.get("zeros", [0, 0])) > 0)
    return len(cases)


# ----------------------------------------------------------------------------------------------------------------
def plan_ranks(thorough):
    return [("serial", 1), ("mpi", 1), ("mpi", 2), ("mpi", 3), ("mpi", 4)] if thorough else [("serial", 1), ("mpi", 2), ("mpi", 3), ("mpi", 4)]


def run_ext(chk):
    """build the three replayers (serial and MPI), generate with TLC, replay; returns the number of replayed cases"""
    thorough = chk.tier == "thorough"
    pack, dist_s, ck_s = vlib.build(["c05x_pack", "c05x_dist", "c05x_ckpt"], jobs=4)
    dist_m, ck_m = vlib.build(["c05x_dist", "c05x_ckpt"], variant="mpi", jobs=4)
    scratch = tempfile.mkdtemp(prefix="c05x_", dir=vlib.BUILD)
    ranks = plan_ranks(thorough)
    ckranks = [r for r in ranks if r != ("mpi", 1) and (thorough or r != ("mpi", 4))]
    try:
        # TLC generation in two small pools (the many short PersistDist runs must not queue behind the longer ones), one replay thread per part
        with cf.ThreadPoolExecutor(max_workers=4) as ex, cf.ThreadPoolExecutor(max_workers=3) as ex2, cf.ThreadPoolExecutor(max_workers=4) as parts:
            futs = [parts.submit(run_pack, chk, pack, ex2),
                    parts.submit(run_iofile, chk, ck_s, ex2, scratch),
                    parts.submit(run_dist, chk, {"serial": dist_s, "mpi": dist_m}, ex, scratch, ranks),
                    parts.submit(run_ckfile, chk, {"serial": ck_s, "mpi": ck_m}, ex2, scratch, ckranks)]
            total = sum(f.result() for f in futs)
    finally:
        shutil.rmtree(scratch, ignore_errors=True)
    return total


RULE = ("spec/PersistPack.tla: every (machine type, pack type, machine type) triple within a class (I8..I64, U8..U64, F32/F64) x swap flag x array "
        "length 0/1/(2)/3/(5) x every window of the palette values representable in all three types (integers incl. min/max of every width, "
        "floats incl. signed zero, subnormals, extremes, infinities); the packed buffer is compared BYTE BY BYTE with the images the "
        "specification computes (two's complement, IEEE 754 fields), guard bytes, return values, estimate_size; calls outside the domain must abort.  "
        "spec/PersistDist.tla on N = 1 (serial build) and N = 1..4 MPI ranks: 'layout' = one write_combined / write_ordered / write_sequence "
        "(binary and text) or a file planted by the environment, then one read with every root / bcast flag / re-used non-empty objects, all payload "
        "length vectors over {0,1,3} (N <= 2(3)) or 5 vectors incl. all-empty and unequal (larger N); 'history' = EVERY sequence of 3 (4) calls over "
        "two files, truncate flag, payload vectors (empty, alternating, increasing); after every writing call the file on disk is compared byte by "
        "byte with the predicted bytes (header words, size table, offsets), after every reading call every rank compares its own bytes; combined "
        "files of another process count, truncated, extended, with destroyed magic must be reported.  spec/PersistCkptFile.tla: checkpoints of 1..2(3) "
        "of 7 palette objects per rank (rank r holds the palette shifted by r), identifier maps, registration and restore orders of PersistCkpt.tla "
        "through save/load(filename) with 3 valid and 4 invalid file names, fresh control object, fresh process, re-save; optionally via "
        "Global::Vector/Matrix.  spec/Persist.tla (small bounds) through write_out/read_from(mode, FILE NAME) of dv, dvb, sv, csr in every binary and text mode (sv and symmetric csr with every assignment {value, +0, -0} to the stored entries, csr also in the symmetric MatrixMarket variant).  non-trivial = non-empty payload; distinct = distinct call parameters / histories")
ASSUMPTIONS = ["zlib / zfp / half / quad precision are compiled out of the baseline build: their pack types are only checked to be rejected",
               "floating point NaNs and narrowing of values that are NOT representable in the target type are not explored (the property is conditional on representability)",
               "payload bytes are generated by a fixed formula of (step, rank, position); sizes stay below 2^31 (TLC integers), so the upper 4 bytes of every u64 word are 0",
               "read_ordered is only asked for pieces that lie inside the file; text streams are fresh objects (re-use is explored for std::vector<char> and BinaryStream)",
               "histories that read an EMPTY text file abort today (known finding) and are sampled (at most %d per configuration), see dist_empty_text_histories_not_replayed" % MAX_EMPTY_TEXT,
               "MPI runs use Open MPI's ompio on a local file system with up to 4 ranks on one node",
               "CheckpointControl file names are given with a directory prefix, so the 'empty name' assertion of save/load cannot be reached",
               "Global::Vector / Global::Matrix are used without gates (checkpointing does not touch them)"]
