#!/usr/bin/env python3
"""Regenerates /verif/MANIFEST.json from the table below (one entry per claimed property)."""
import json, os
VERIF = os.path.dirname(os.path.dirname(os.path.abspath(__file__)))
IDS = [json.loads(l)["id"] for l in open(os.path.join(VERIF, "properties.jsonl"))]

_E = json.load(open(os.path.join(VERIF, "lib", "manifest_entries.json")))
CHECKS = _E["checks"]
ENGINES = _E["engines"]

PENDING_REASON = "check not built yet (work in progress, see DESIGN.md section 11)"
NOT_APPLICABLE = {}

def main():
    checks = []
    for pid in IDS:
        if pid not in CHECKS:
            continue
        c = CHECKS[pid]
        checks.append({
            "property_id": pid,
            "quick_cmd": "bin/check %s --tier quick" % pid,
            "thorough_cmd": "bin/check %s --tier thorough" % pid,
            "evidence_file": "/verif/evidence/%s.json" % pid,
            "replay_cmd_template": "bin/check %s --replay {path}" % pid,
            "engine": c.get("engine", ""),
            "level_claimed": {"category": c["category"], "text": c["text"], "design_ref": c["design_ref"]},
            "level_note": c["note"],
            "technique": c["technique"],
        })
    hooks_commits = []
    hp = os.path.join(VERIF, "hooks_commits.txt")
    if os.path.exists(hp):
        hooks_commits = [l.split()[0] for l in open(hp) if l.strip() and not l.startswith("#")]
    m = {
        "version": 1,
        "setup_cmd": "make -C /verif/harness -j16 lib VARIANT=std && make -C /verif/harness -j16 lib VARIANT=asan && make -C /verif/harness -j16 lib VARIANT=mpi",
        "hooks": {
            "guard": "FEAT3_VERIF_HOOKS",
            "enable": "harnesses are compiled by /verif/harness/Makefile straight from /repo's working tree with -DFEAT3_VERIF_HOOKS "
                      "(own feat_config.hpp under /verif/build/<variant>/include); the baseline build in /repo/_build never defines it",
            "baseline_off_cmd": "cmake --build /repo/_build -j16 && ctest --test-dir /repo/_build -j8 --timeout 900",
            "source_commits": hooks_commits,
            "add_only": True,
        },
        "engines": ENGINES,
        "checks": checks,
        "notes": "bin/check exits 2 (never 1) on machinery errors. Known findings: /verif/known_findings.json and /verif/known_findings.d/<ID>.json (both read by every check; never written at run time). See DESIGN.md section 0.",
        "not_applicable": [{"property_id": i, "reason": NOT_APPLICABLE.get(i, PENDING_REASON)} for i in IDS if i not in CHECKS],
    }
    with open(os.path.join(VERIF, "MANIFEST.json"), "w") as f:
        json.dump(m, f, indent=1)

if __name__ == "__main__":
    main()
