#!/usr/bin/env python3
"""Regenerates /verif/MANIFEST.json from the table below (one entry per claimed property)."""
import json, os
VERIF = os.path.dirname(os.path.dirname(os.path.abspath(__file__)))
IDS = [json.loads(l)["id"] for l in open(os.path.join(VERIF, "properties.jsonl"))]

CHECKS = {
 "C01": dict(
   category="model_checking", design_ref="DESIGN.md 6/C01",
   text="TLC enumerates every state of spec/MatVec.tla (all shapes up to 3x3 / 2x2 blocks, all sparsity patterns, band offset sets, "
        "CSCR row lists, all apply/apply_transposed/axpy calls, alpha in {0,1,-1,2,-1/2,-5/2}, r aliasing y, blocked-vector variants); "
        "every post-state, with the result predicted from Abs(rep) and the dense definition, is replayed on the real container for "
        "float/double x uint32/uint64 and compared exactly, including that operands and matrix arrays are unchanged.",
   note="exact-arithmetic domain only (small integers, dyadic alpha; alpha=-5/2 within a stated rounding bound); containers are built through "
        "their raw-array constructors; trusted: TLC, spec/Storage.tla abstraction functions, harness/c01_matvec.cpp",
   technique="TLA+ spec + TLC exhaustive generation of post-states replayed into the implementation (model-based testing)",
   engine="lafem"),
 "C17": dict(
   category="model_checking", design_ref="DESIGN.md 6/C17",
   text="(M) spec/ThreadAsm.tla - master/worker fence protocol of DomainAssembler (layered, colored, no-scatter, master-run and failure paths, "
        "repeated jobs) - is model checked by TLC over all interleavings for 2-4 workers: NoAdjacentScatter, CombineExclusive, EachCellOnce, "
        "deadlock freedom and termination under weak fairness; spec/WorkDist.tla (transcription of _build_thread_layers) is checked against its "
        "contract for every layer-size vector. (G) the real _build_thread_layers is driven with every enumerated layer structure and compared "
        "with the transcription. (V) ~500 (quick) runs of the real threads over the TLC-enumerated configuration space (mesh x cell subset x "
        "strategy x requested workers 0..cells+2 x scatter/combine x repeated jobs x injected task failure), under seeded schedule perturbation, "
        "are logged through the FEAT3_VERIF_HOOKS fence/worker hooks and validated event by event by TLC against Trace_ThreadAsm.tla with the "
        "real mesh adjacency; results are compared with the serial ones; abort/hang/exception outcomes are violations.",
   note="all interleavings only in the model (small instances); real schedules are sampled. Event stamps come from one atomic counter, fence "
        "events are stamped while the fence mutex is held. Physical data races additionally observed by ThreadSanitizer in the thorough tier. "
        "Trusted: TLC, the hooks (add-only), harness/c17_threads.cpp",
   technique="TLA+ protocol model checked by TLC + trace validation of recorded thread executions against the spec",
   engine="threads"),
 "C09": dict(
   category="model_checking", design_ref="DESIGN.md 6/C09",
   text="spec/MGCycle.tla holds the documented V/F/W cycles declaratively (W in ruler order) plus the textbook recursion; spec/MGCycleOp.tla, a "
        "statement-level transcription of _apply_cycle_v/_f/_w with the _counters array, is model checked by TLC for equivalence with the "
        "declarative cycles for every (top,coarse) sub-range of up to 7 (thorough 9) levels and all left-over counter contents. TLC-generated "
        "histories (cycle x smoother presence x coarse solver x sub-range x adaptive mode x repeated applications / set_cycle / set_levels) "
        "with the call log and the Z_32003 correction predicted by the spec are replayed exactly into the unmodified Solver::MultiGrid through "
        "duck-typed mock level types. Recorded runs of a real LAFEM Q1 Poisson hierarchy (levels 2..6/7) are validated by TLC: event grammar "
        "of the Statistics expression log and the level-independent rate bound.",
   note="cycle structure, linear map and adaptive step lengths exact and exhaustive within the bounds; convergence rate is a numeric projection "
        "(max per-cycle residual ratio) judged by the spec (rate < 1/2 and <= rate(level 2)+0.15); serial hierarchies, Jacobi smoothing, 2D only",
   technique="TLA+ spec model checked (transcription == declarative cycle) + TLC-generated behaviours replayed into the real MultiGrid over a finite field + trace validation of real runs",
   engine="multigrid"),
 "C20": dict(
   category="model_checking", design_ref="DESIGN.md 6/C20",
   text="spec/Lifetime.tla models a pool of container slots and the MemoryPool chunk table; every action is one public lifetime call written as "
        "the MemoryPool calls it performs (ctor in every shape incl. size-0 arrays, clone in all 5 modes within/across data and index types, "
        "convert, move, move-ctor, ranged slice, layout sharing, clear, destroy, overwrite). TLC checks RefCount, NoLeak, NoDangling, EmptyAtEnd "
        "on all histories to depth 3 (thorough 4) over 3 slots and seeded random histories of depth 9-14, and every history is replayed on real "
        "containers in the ASan/UBSan build: reference counters (hook H1), aliasing classes, allocation sizes, contents and live chunk count "
        "are compared with the predicted world after every step, and the pool must be empty after destroying everything.",
   note="heap safety inside an operation is observed by ASan/UBSan during replay, not proved; DenseVector and SparseMatrixCSR families stand for "
        "all containers (they share Container's lifetime code); the owner-outlives-slice obligation is an enabling condition of the spec",
   technique="TLA+ state machine of reference-counted arrays model checked by TLC + exhaustive/simulated histories replayed into the implementation under ASan",
   engine="lifetime"),
}

ENGINES = [
 {"name": "lafem", "path": "spec/MatVec.tla spec/Storage.tla spec/IntLinAlg.tla harness/c01_matvec.cpp checks/C01.py",
  "serves_properties": ["C01"], "kind_free_text": "TLA+ module + TLC generator + C++ replayer"},
 {"name": "threads", "path": "spec/ThreadAsm.tla spec/Trace_ThreadAsm.tla spec/WorkDist.tla spec/MC_ThreadAsm.tla spec/MC_WorkDist.tla "
                             "spec/ThreadCfg.tla harness/c17_threads.cpp lib/c17_mc.py checks/C17.py",
  "serves_properties": ["C17"], "kind_free_text": "TLA+ protocol model (TLC model checking) + trace validation of hook-recorded executions"},
 {"name": "multigrid", "path": "spec/MGCycle.tla spec/MGCycleOp.tla spec/MGCycleGen.tla spec/MGCycleRate.tla harness/c09_mgmock.cpp harness/c09_mgreal.cpp checks/C09.py",
  "serves_properties": ["C09"], "kind_free_text": "TLA+ cycle spec + TLC model checking + mock-algebra replay + trace validation"},
 {"name": "lifetime", "path": "spec/Lifetime.tla harness/c20_lifetime.cpp checks/C20.py",
  "serves_properties": ["C20"], "kind_free_text": "TLA+ reference-count state machine + ASan replay"},
]

PENDING_REASON = "check not built yet (work in progress, see DESIGN.md section 11)"
NOT_APPLICABLE = {}

def main():
    checks = []
    for pid in IDS:
        if pid not in CHECKS:
            continue
        c = CHECKS[pid]
        checks.append({
            "property_id": pid,
            "quick_cmd": "bin/check %s --tier quick" % pid,
            "thorough_cmd": "bin/check %s --tier thorough" % pid,
            "evidence_file": "/verif/evidence/%s.json" % pid,
            "replay_cmd_template": "bin/check %s --replay {path}" % pid,
            "engine": c.get("engine", ""),
            "level_claimed": {"category": c["category"], "text": c["text"], "design_ref": c["design_ref"]},
            "level_note": c["note"],
            "technique": c["technique"],
        })
    hooks_commits = []
    hp = os.path.join(VERIF, "hooks_commits.txt")
    if os.path.exists(hp):
        hooks_commits = [l.split()[0] for l in open(hp) if l.strip() and not l.startswith("#")]
    m = {
        "version": 1,
        "setup_cmd": "make -C /verif/harness -j16 lib VARIANT=std",
        "hooks": {
            "guard": "FEAT3_VERIF_HOOKS",
            "enable": "harnesses are compiled by /verif/harness/Makefile straight from /repo's working tree with -DFEAT3_VERIF_HOOKS "
                      "(own feat_config.hpp under /verif/build/<variant>/include); the baseline build in /repo/_build never defines it",
            "baseline_off_cmd": "cmake --build /repo/_build -j16 && ctest --test-dir /repo/_build -j8 --timeout 900",
            "source_commits": hooks_commits,
            "add_only": True,
        },
        "engines": ENGINES,
        "checks": checks,
        "notes": "bin/check exits 2 (never 1) on machinery errors. Known findings: /verif/known_findings.json. See DESIGN.md.",
        "not_applicable": [{"property_id": i, "reason": NOT_APPLICABLE.get(i, PENDING_REASON)} for i in IDS if i not in CHECKS],
    }
    with open(os.path.join(VERIF, "MANIFEST.json"), "w") as f:
        json.dump(m, f, indent=1)

if __name__ == "__main__":
    main()
