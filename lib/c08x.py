"""C08 extension: the saddle-point and domain-decomposition preconditioners among the anchor files of C08.

  uzawa     spec/PrecondUzawa.tla  -> harness/c08x_uzawa.cpp     Solver::UzawaPrecond, all four UzawaTypes, UnitFilter on the velocity,
                                                                 None/Mean/UnitFilter on the pressure, mock and real inner solvers, auto_init_s,
                                                                 failing inner solver, life-cycle histories with value updates
  vanka     spec/PrecondVanka.tla  -> harness/c08x_vanka.cpp     Solver::Vanka, all eight VankaTypes, omega, iterations, CSR / BCSR / PowerDiag /
                                                                 PowerFull layouts, unit filters, life-cycle history, VankaFactorError
  amavanka  spec/PrecondVanka.tla  -> harness/c08x_amavanka.cpp  Solver::AmaVanka (BCSR saddle point, deduced macros, omega, steps, skip_singular):
                                                                 assembled matrix entry-wise + apply
            the mock-flavour cases also -> harness/c08x_uzawa_global.cpp  the Global::Matrix / Global::Filter specialisation of UzawaPrecond
                                                                 (MPI build, one process)
  schwarz   spec/PrecondSchwarz.tla -> harness/c08x_schwarz.cpp  Solver::SchwarzPrecond on 1..3 (thorough: 4) MPI ranks, every patch decomposition
spec/DyadicLA.tla holds the exact dyadic linear algebra incl. THE inverse of the local matrices (law M X = X M = I checked by TLC)
and the exact-domain test for Math::invert_matrix.  All expected values are computed by TLC; the replayers compare with ==.

`run_ext(chk)` does everything (build, generation, replay, judgement, evidence counters) so that it can be called from the
registered check of C08.
"""
import json, os, re, shutil, time
import concurrent.futures as cf
import vlib

STD = {"uzawa": "c08x_uzawa", "vanka": "c08x_vanka", "amavanka": "c08x_amavanka"}
MPI = {"schwarz": "c08x_schwarz", "uzawa_global": "c08x_uzawa_global"}
MODULE = {"uzawa": "PrecondUzawa", "vanka": "PrecondVanka", "amavanka": "PrecondVanka", "schwarz": "PrecondSchwarz"}
MPIRUN = ["mpirun", "--allow-run-as-root", "--oversubscribe", "--bind-to", "none", "--mca", "mpi_yield_when_idle", "1", "-np"]
UZ_INV = "Linearity FilterLaw BlockLaw FullIsSaddleInverse LifeOK Emit"
VK_INV = "InverseLaws GaussSeidelLaw DiagLocalLaw WholeSystemLaw Linearity ResultsExact FilterLaw MeanFilterLaw AmaIsBlockFullAdd Emit"
SW_INV = "AverageLaw UnsharedLaw Emit"
ALLT = ["diagonal", "lower", "upper", "full"]
ALLK = ["ndm", "nfm", "bdm", "bfm", "nda", "nfa", "bda", "bfa"]
TLC_POOL = 5


def st(x):
    return "{" + ", ".join(('"%s"' % v) if isinstance(v, str) else ("TRUE" if v is True else "FALSE" if v is False else str(v)) for v in x) + "}"


def cfg_uzawa(sizes, types, flavs, filts, autos=(True,), fails=("none",), pals=(1,), nz=(0, 99), mode="canon", maxhist=0):
    return ("SPECIFICATION Spec\nCONSTANTS Sizes = %s Types = %s Flavs = %s FiltSel = %s Autos = %s Fails = %s Pals = %s MinNz = %d MaxNz = %d "
            "Mode = \"%s\" MaxHist = %d\nINVARIANTS %s\nCHECK_DEADLOCK FALSE\n"
            % (st(sizes), st(types), st(flavs), st(filts), st(autos), st(fails), st(pals), nz[0], nz[1], mode, maxhist, UZ_INV))


def cfg_vanka(layouts, nvs, nps, kinds, oms, iters, filts, pals=(1,), apat="all", nz=(0, 99), zdp=False, maclens=()):
    return ("SPECIFICATION Spec\nCONSTANTS Layouts = %s NVs = %s NPs = %s Kinds = %s Oms = %s Iters = %s FiltSel = %s Pals = %s APat = \"%s\" "
            "MinNz = %d MaxNz = %d ZDP = %s MacLens = %s\nINVARIANTS %s\nCHECK_DEADLOCK FALSE\n"
            % (st(layouts), st(nvs), st(nps), st(kinds), st(oms), st(iters), st(filts), st(pals), apat, nz[0], nz[1], "TRUE" if zdp else "FALSE",
               st(maclens), VK_INV))


def cfg_schwarz(nr, nd, flavs, failrs, igns, filts):
    return ("SPECIFICATION Spec\nCONSTANTS NR = %d ND = %d Flavs = %s FailRs = %s Igns = %s Filts = %s\nINVARIANTS %s\nCHECK_DEADLOCK FALSE\n"
            % (nr, nd, st(flavs), st(failrs), st(igns), st(filts), SW_INV))


def jobs(tier):
    """list of (part, name, cfg text, weight); heavy jobs first"""
    j = []
    F5 = ["none", "v", "mean", "unit", "vmean"]
    if tier == "thorough":
        # Uzawa: every pattern pair of B and D for n, m <= 2 with every type, filter, auto_init_s; n = 3 windows; all flavours
        for t in ALLT:
            j.append(("uzawa", "uz 22 mock %s" % t, cfg_uzawa([22], [t], ["mock"], ["none", "vmean", "unit"], (True, False)), 7))
            j.append(("uzawa", "uz small mock %s" % t, cfg_uzawa([11, 21, 12], [t], ["mock"], F5, (True, False), pals=(1, 2)), 3))
        j.append(("uzawa", "uz 22 feat", cfg_uzawa([22], ALLT, ["feat"], ["none", "vmean", "mean"], nz=(0, 5)), 8))
        j.append(("uzawa", "uz small feat", cfg_uzawa([11, 21, 12], ALLT, ["feat"], F5, pals=(1, 2, 3)), 6))
        j.append(("uzawa", "uz inv/schur", cfg_uzawa([11, 21, 12, 22], ALLT, ["inv", "schur"], ["none"], pals=(1, 2)), 8))
        j.append(("uzawa", "uz 31", cfg_uzawa([31], ALLT, ["mock", "feat", "schur"], ["none", "vmean"]), 5))
        j.append(("uzawa", "uz 32", cfg_uzawa([32], ALLT, ["mock", "feat"], ["none", "vmean"], nz=(3, 3)), 8))
        j.append(("uzawa", "uz fail", cfg_uzawa([11, 21, 22], ALLT, ["mock"], ["none"], (True, False), ("A", "S"), nz=(0, 4)), 3))
        j.append(("uzawa", "uz hist auto", cfg_uzawa([21], ["lower", "full"], ["mock"], ["none"], (True,), nz=(4, 4), mode="hist", maxhist=6), 2))
        j.append(("uzawa", "uz hist manual", cfg_uzawa([11], ["upper", "full"], ["mock"], ["none"], (False,), nz=(2, 2), mode="hist", maxhist=6), 3))
        # Vanka: all eight types on all four layouts; n = 2: every pattern of B, D up to 5 entries with every node coupling of A,
        # denser patterns with filters; n = 3 windows; nodal full on one pressure dof; additive with full coverage
        for lay in ("csr", "bcsr", "pdiag", "pfull"):
            j.append(("vanka", "vk %s n2 a" % lay, cfg_vanka([lay], [2], [1, 2], ALLK, [3], [1, 2], ["none"], nz=(0, 5)), 10))
            j.append(("vanka", "vk %s n2 b" % lay, cfg_vanka([lay], [2], [2], ALLK, [2], [2], ["vp", "vm", "pm"], apat="diag", nz=(6, 8), pals=(1, 2, 3)), 4))
            j.append(("vanka", "vk %s n3" % lay, cfg_vanka([lay], [3], [2], ALLK, [2], [2], ["none", "p"], apat="diag", nz=((5, 5) if lay in ("csr", "bcsr") else (4, 4))), 9))
        j.append(("vanka", "vk n1", cfg_vanka(["csr", "bcsr", "pfull"], [1], [1, 2], ALLK, [1, 2, 3], [1, 2, 3], ["none", "vp"], pals=(1, 2, 3)), 3))
        j.append(("vanka", "vk nodal m1", cfg_vanka(["csr", "bcsr", "pdiag", "pfull"], [2, 3], [1], ["nfm", "nfa", "ndm", "nda"], [1, 2], [1, 2], ["none", "v"], pals=(1, 2, 3), apat="diag"), 6))
        j.append(("vanka", "vk nodal m1 coupled", cfg_vanka(["csr", "pfull"], [3], [1], ["nfm", "nfa"], [3], [2], ["none"], pals=(1, 2), apat="coupled", nz=(3, 6)), 6))
        j.append(("vanka", "vk additive", cfg_vanka(["csr", "bcsr", "pdiag", "pfull"], [2], [2], ["nda", "nfa", "bda", "bfa"], [1, 2], [1, 3], ["none", "pm"], pals=(1, 2), apat="diag", nz=(5, 8)), 7))
        j.append(("amavanka", "ama n<=2", cfg_vanka(["bcsr"], [1, 2], [1, 2], ["ama", "amas"], [1, 2, 3], [1, 2, 3], ["none", "vp", "v", "m", "pm"], pals=(1, 2, 3)), 8))
        # user-pushed macros: BCSR saddle-point matrix and the whole system as one CSR matrix
        j.append(("amavanka", "ama pushed bcsr m1", cfg_vanka(["bcsr"], [2], [1], ["amap", "amaps"], [3], [1, 2], ["none", "v"], pals=(1, 2), apat="diag", nz=(2, 4), maclens=(2, 3)), 9))
        j.append(("amavanka", "ama pushed bcsr 4 macros", cfg_vanka(["bcsr"], [2], [1], ["amaps"], [2], [2], ["none"], apat="diag", nz=(3, 4), maclens=(4,)), 9))
        j.append(("amavanka", "ama pushed bcsr m2", cfg_vanka(["bcsr"], [2], [2], ["amap", "amaps"], [2], [2], ["none", "pm"], apat="diag", nz=(7, 8), maclens=(2,)), 9))
        j.append(("amavanka", "ama pushed csr m1", cfg_vanka(["csr"], [2], [1], ["amap", "amaps"], [1, 2], [1, 2], ["none", "p"], apat="diag", nz=(2, 4), maclens=(2, 3)), 9))
        j.append(("amavanka", "ama pushed csr n3", cfg_vanka(["csr"], [3], [1], ["amap", "amaps"], [2], [2], ["none"], apat="diag", nz=(5, 6), maclens=(2,)), 9))
        j.append(("amavanka", "ama pushed csr m2", cfg_vanka(["csr"], [2], [2], ["amap", "amaps"], [3], [2], ["none", "pm"], apat="diag", nz=(7, 8), maclens=(2,)), 9))
        j.append(("amavanka", "ama n2 coupled", cfg_vanka(["bcsr"], [2], [2], ["ama", "amas"], [3], [2], ["none"], pals=(1, 2, 3), apat="coupled", nz=(4, 8)), 5))
        j.append(("amavanka", "ama n3", cfg_vanka(["bcsr"], [3], [2], ["ama", "amas"], [1, 3], [1, 2], ["none", "p"], apat="diag", nz=(5, 5)), 9))
        # regular local Schur complements with a zero diagonal entry (known finding C08x-invert-matrix-diagonal-pivoting)
        j.append(("vanka", "vk zero diagonal pivot", cfg_vanka(["csr", "bcsr"], [2], [2], ["bfm", "bdm", "bfa"], [1], [1], ["none"], pals=(1, 2, 3), apat="diag", nz=(4, 8), zdp=True), 2))
        for nr, nd in ((1, 3), (2, 3), (3, 3), (4, 2), (2, 4)):
            j.append(("schwarz", "sw nr=%d nd=%d" % (nr, nd), cfg_schwarz(nr, nd, ["mock", "jacobi"], sorted({99, 0, nr - 1}), (True, False), (0, 1)), 2))
    else:
        j.append(("uzawa", "uz small mock auto", cfg_uzawa([11, 21, 12], ALLT, ["mock"], ["none", "vmean", "unit"]), 4))
        j.append(("uzawa", "uz small mock manual", cfg_uzawa([21, 12], ALLT, ["mock"], ["v", "mean"], (False,)), 3))
        j.append(("uzawa", "uz 22 mock", cfg_uzawa([22], ALLT, ["mock"], ["none"], nz=(4, 4)), 3))
        j.append(("uzawa", "uz feat", cfg_uzawa([21, 12, 22], ALLT, ["feat"], ["none", "vmean"], nz=(3, 3)), 4))
        j.append(("uzawa", "uz inv/schur", cfg_uzawa([11, 21, 12, 22], ALLT, ["inv", "schur"], ["none"], nz=(0, 3)), 4))
        j.append(("uzawa", "uz fail", cfg_uzawa([21], ["upper", "full"], ["mock"], ["none"], (True, False), ("A", "S"), nz=(3, 4)), 1))
        j.append(("uzawa", "uz hist auto", cfg_uzawa([11], ["full"], ["mock"], ["none"], (True,), nz=(2, 2), mode="hist", maxhist=5), 1))
        j.append(("uzawa", "uz hist manual", cfg_uzawa([11], ["lower"], ["mock"], ["none"], (False,), nz=(2, 2), mode="hist", maxhist=5), 2))
        # every VankaType on two layouts at least (thorough: on all four)
        # (filters: "m" / "vm" / "pm" = mean filter on the pressure, alone / with a unit-filtered velocity node / chained behind a unit filter)
        j.append(("vanka", "vk csr", cfg_vanka(["csr"], [2], [2], ["ndm", "nfm", "bda", "bfa"], [3], [2], ["m"], pals=(1, 2), apat="coupled", nz=(4, 5)), 6))
        j.append(("vanka", "vk pdiag", cfg_vanka(["pdiag"], [2], [1, 2], ["nda", "nfa", "bdm", "bfm"], [1], [2], ["none"], apat="diag", nz=(3, 5)), 5))
        j.append(("vanka", "vk bcsr", cfg_vanka(["bcsr"], [2], [1, 2], ALLK, [2], [2], ["vp"], apat="diag", nz=(3, 4)), 5))
        j.append(("vanka", "vk pfull", cfg_vanka(["pfull"], [2], [2], ALLK, [3], [1], ["vm"], apat="diag", nz=(4, 5)), 4))
        j.append(("vanka", "vk nodal m1", cfg_vanka(["csr", "pfull"], [2, 3], [1], ["nfm", "nfa", "nda"], [2], [2], ["none"], pals=(1, 2), apat="diag"), 4))
        j.append(("vanka", "vk csr n3", cfg_vanka(["csr"], [3], [2], ["bfm", "nda"], [1], [1], ["pm"], apat="diag", nz=(5, 5)), 6))
        j.append(("vanka", "vk additive", cfg_vanka(["csr", "pdiag"], [2], [2], ["nda", "nfa", "bda", "bfa"], [2], [2], ["none"], apat="diag", nz=(5, 6)), 5))
        j.append(("amavanka", "ama", cfg_vanka(["bcsr"], [1, 2], [1, 2], ["ama", "amas"], [3], [1, 2], ["none", "vp", "vm"], pals=(1, 2, 3), nz=(0, 8)), 6))
        # user-pushed macros (every sequence of 3 different macros covering all dofs): singular macros before / between / after regular
        # ones whose local matrices have structurally empty entries; BCSR saddle-point matrix and the whole system as one CSR matrix
        j.append(("amavanka", "ama pushed bcsr", cfg_vanka(["bcsr"], [2], [1], ["amap", "amaps"], [3], [2], ["none"], apat="diag", nz=(2, 4), maclens=(3,)), 6))
        j.append(("amavanka", "ama pushed csr", cfg_vanka(["csr"], [2], [1], ["amap", "amaps"], [2], [2], ["none"], apat="diag", nz=(2, 4), maclens=(3,)), 4))
        j.append(("amavanka", "ama pushed csr mean", cfg_vanka(["csr"], [2], [2], ["amaps"], [1], [2], ["pm"], apat="diag", nz=(7, 8), maclens=(2,)), 4))
        j.append(("schwarz", "sw nr=1", cfg_schwarz(1, 3, ["mock", "jacobi"], [99, 0], (True, False), (0, 1)), 1))
        j.append(("schwarz", "sw nr=2", cfg_schwarz(2, 3, ["mock", "jacobi"], [99, 1], (True, False), (0, 1)), 1))
        j.append(("schwarz", "sw nr=3", cfg_schwarz(3, 3, ["mock", "jacobi"], [99, 2], (False,), (0, 1)), 2))
    j.sort(key=lambda x: -x[3])
    return j


# ---- signatures ---------------------------------------------------------------------------------------------------------
def sig(c, r):
    part = c.get("_part", "")
    clause = r.get("clause", "outcome_" + str(r.get("outcome", "error")))
    s = {"part": part, "clause": clause, "outcome": r.get("outcome", "mismatch")}
    if part == "uzawa_global":
        why = r.get("why") or ""
        m = re.match(r"rank \d+: (\S+)", why)
        s.update({"typ": c["typ"], "fp": c["fp"], "auto": c["auto"], "fail": c["fail"], "clause": m.group(1) if m else clause})
    elif part == "uzawa":
        s.update({"typ": c["typ"], "flav": c["flav"], "fp": c["fp"], "auto": c["auto"], "fail": c["fail"], "stale": bool(r.get("stale", False))})
    elif part in ("vanka", "amavanka"):
        s.update({"lay": c["lay"], "kind": c["kind"], "additive": c["kind"] in ("nda", "nfa", "bda", "bfa"),
                  "uncovered": any(x == 0 for x in c["count"]), "filtered": c["fsel"] != "none", "zdp": bool(c.get("zdp", False))})
    elif part == "schwarz":
        why = r.get("why") or ""
        m = re.match(r"rank \d+: (\S+)", why)
        s.update({"nr": c["nr"], "flav": c["flav"], "clause": m.group(1) if m else clause})
    m = re.search(r"ASSERTION FAILED: ([^\n]*)", r.get("stderr") or "")
    if m:
        s["assert"] = m.group(1).strip()[:100]
    return s


def key(c):
    part = c.get("_part", "")
    if part in ("uzawa", "uzawa_global"):
        return json.dumps(["uz", c["n"], c["m"], c["typ"], c["flav"], c["fsel"], c["auto"], c["fail"], c["patB"], c["patD"], c["B1"], [s["op"] for s in c["steps"]]])
    if part in ("vanka", "amavanka"):
        return json.dumps(["vk", c["lay"], c["n"], c["m"], c["kind"], c["om"], c["iters"], c["fsel"], c["patA"], c["patB"], c["patD"], c["M1"]])
    return json.dumps(["sw", c["nr"], c["flav"], c["failr"], c["ign"], c["filt"], c["dofs"]], sort_keys=True)


def nontrivial(c):
    part = c.get("_part", "")
    if part in ("uzawa", "uzawa_global"):
        return sum(map(sum, c["patB"])) > 0 and sum(map(sum, c["patD"])) > 0
    if part in ("vanka", "amavanka"):
        return len(c["blocks"]) >= 1 and any(len(b["idx"]) >= 2 for b in c["blocks"])
    return c["nr"] >= 2 and any(x >= 2 for v in c["count"].values() for x in v)


# ---- generation + replay ----------------------------------------------------------------------------------------------------
def _one(part, name, text, k):
    fn = "gen_c08x_%d_%d.cfg" % (os.getpid(), k)
    with open(os.path.join(vlib.SPEC, fn), "w") as f:
        f.write(text)
    try:
        return vlib.tlc(MODULE[part], fn, timeout=3000, xmx="3g", tag="c08x_%d" % k)
    finally:
        try:
            os.remove(os.path.join(vlib.SPEC, fn))
        except OSError:
            pass


def _replay(chk, part, bins, cases):
    if not cases:
        return
    if part == "schwarz":
        bynr = {}
        for c in cases:
            bynr.setdefault(c["nr"], []).append(c)
        for nr in sorted(bynr):
            sub = bynr[nr]
            try:
                res = vlib.run_cases(bins[part], sub, tmo=30, max_abnormal=6, shards=max(1, min(2, 6 // nr)), wrapper=MPIRUN + [str(nr)])
            except vlib.MachineryError as e:
                # an mpirun that fails to start on the loaded machine is not a statement about the property: one retry, one job
                vlib.log("[c08x] mpi replay failed to start (%s); retrying once" % str(e).splitlines()[0][:200])
                res = vlib.run_cases(bins[part], sub, tmo=30, max_abnormal=6, shards=1, wrapper=MPIRUN + [str(nr)])
            vlib.judge_results(chk, sub, res, sig, keyf=key, harness=MPI[part], nontrivial=nontrivial)
    else:
        res = vlib.run_cases(bins[part], cases, tmo=30, shards=min(4, vlib.NCPU))
        vlib.judge_results(chk, cases, res, sig, keyf=key, harness=STD[part], nontrivial=nontrivial)
        if part == "uzawa":
            # the same predictions hold for the Global::Matrix specialisation on one process
            sub = []
            for c in cases:
                if c["flav"] != "feat":
                    d = dict(c)
                    d["nr"] = 1
                    d["_part"] = "uzawa_global"
                    sub.append(d)
            if sub:
                try:
                    res = vlib.run_cases(bins["uzawa_global"], sub, tmo=30, max_abnormal=6, shards=2, wrapper=MPIRUN + ["1"])
                except vlib.MachineryError as e:
                    # as for schwarz: an mpirun that dies outside a case on the loaded machine is retried once, in one job
                    vlib.log("[c08x] mpi replay (uzawa_global) failed outside a case (%s); retrying once" % str(e).splitlines()[0][:200])
                    res = vlib.run_cases(bins["uzawa_global"], sub, tmo=30, max_abnormal=6, shards=1, wrapper=MPIRUN + ["1"])
                vlib.judge_results(chk, sub, res, sig, keyf=lambda c: "g" + key(c), harness=MPI["uzawa_global"], nontrivial=nontrivial)
                chk.extra["cases_uzawa_global"] = chk.extra.get("cases_uzawa_global", 0) + len(sub)


def run_ext(chk):
    t0 = time.time()
    if shutil.which("mpirun") is None or shutil.which("mpicxx") is None:
        raise vlib.MachineryError("MPI toolchain (mpicxx/mpirun) not available")
    bins = dict(zip(STD, vlib.build(list(STD.values()), jobs=4)))
    bins.update(dict(zip(MPI, vlib.build(list(MPI.values()), variant="mpi", jobs=4))))
    t1 = time.time()
    plan = jobs(chk.tier)
    only = [x for x in os.environ.get("C08X_ONLY", "").split(",") if x]      # development aid: restrict to some parts (uzawa,vanka,amavanka,schwarz)
    if only:
        plan = [x for x in plan if x[0] in only]
    percase = {p: 0 for p in MODULE}
    allc = {p: [] for p in MODULE}
    treplay = 0.0
    with cf.ThreadPoolExecutor(max_workers=TLC_POOL) as ex:
        futs = {ex.submit(_one, part, name, text, k): (part, name) for k, (part, name, text, _) in enumerate(plan)}
        for f in cf.as_completed(futs):
            part, name = futs[f]
            r = f.result()
            chk.add_tlc(r, name)
            if r.violation:
                chk.model_violation(r, "%s.tla law (%s)" % (MODULE[part], name))
            for c in r.printed:
                c["_part"] = part
                c["_job"] = name
            tr = time.time()
            _replay(chk, part, bins, r.printed)
            treplay += time.time() - tr
            percase[part] += len(r.printed)
            allc[part].extend(r.printed)
    for part in MODULE:
        if percase[part] == 0 and (not only or part in only):
            raise vlib.MachineryError("generator produced no cases for part " + part)
    chk.extra.setdefault("phase_wall_s", {}).update({"c08x_build": round(t1 - t0, 1), "c08x_tlc_and_replay": round(time.time() - t1, 1),
                                                     "c08x_replay_only": round(treplay, 1)})
    chk.traces += sum(percase.values())
    for part in MODULE:
        chk.extra["cases_" + part] = percase[part]
    uz, vk, am, sw = allc["uzawa"], allc["vanka"], allc["amavanka"], allc["schwarz"]

    def hist(cs, f):
        h = {}
        for c in cs:
            h[f(c)] = h.get(f(c), 0) + 1
        return dict(sorted(h.items()))
    chk.extra["uzawa"] = {"per_type": hist(uz, lambda c: c["typ"]), "per_flavour": hist(uz, lambda c: c["flav"]),
                          "per_pressure_filter": hist(uz, lambda c: c["fp"]), "auto_init_s_false": sum(1 for c in uz if not c["auto"]),
                          "failing_inner_solver": sum(1 for c in uz if c["fail"] != "none"),
                          "B_not_transpose_pattern_of_D": sum(1 for c in uz if c["patB"] != [list(x) for x in zip(*c["patD"])]),
                          "with_empty_row_in_B_or_D": sum(1 for c in uz if any(sum(r) == 0 for r in c["patB"]) or any(sum(r) == 0 for r in c["patD"])),
                          "apply_calls_compared": sum(len(c["tests"]) for c in uz for s in c["steps"] if s["op"] == "AP"),
                          "stale_applies": sum(1 for c in uz for s in c["steps"] if s["op"] == "AP" and s["exp"] and len(s["exp"][0]) > 1),
                          "distinct_histories": len({tuple(s["op"] for s in c["steps"]) for c in uz})}
    chk.extra["vanka"] = {"per_kind": hist(vk, lambda c: c["kind"]), "per_layout": hist(vk, lambda c: c["lay"]),
                          "factor_error_expected": sum(1 for c in vk if c["throws"]),
                          "with_dof_in_no_block": sum(1 for c in vk if any(x == 0 for x in c["count"])),
                          "with_dof_in_two_blocks": sum(1 for c in vk if any(x >= 2 for x in c["count"])),
                          "A_couples_different_nodes": sum(1 for c in vk if sum(map(sum, c["patA"])) > c["n"]),
                          "max_local_system": max([len(b["idx"]) for c in vk for b in c["blocks"]] or [0]),
                          "mean_filter_on_pressure": sum(1 for c in vk if c.get("mp")),
                          "apply_calls_compared": sum(len(c["tests"]) for c in vk for s in c["steps"] if s["op"] == "AP")}
    def sing_then_reg(c):        # a skipped (singular) macro that is followed by a regular one
        mk = c["mask1"]
        return any(mk[a] == 0 and 1 in mk[a + 1:] for a in range(len(mk)))
    chk.extra["amavanka"] = {"per_kind": hist(am, lambda c: c["kind"]), "per_layout": hist(am, lambda c: c["lay"]),
                             "with_skipped_singular_macro": sum(1 for c in am if c["kind"] in ("amas", "amaps") and 0 in c["mask1"]),
                             "pushed_macros": sum(1 for c in am if c.get("pushed")),
                             "singular_macro_followed_by_regular_macro": sum(1 for c in am if c["kind"] in ("amas", "amaps") and sing_then_reg(c)),
                             "several_singular_macros": sum(1 for c in am if c["kind"] in ("amas", "amaps") and c["mask1"].count(0) >= 2),
                             "mean_filter": sum(1 for c in am if c.get("mp")),
                             "matrix_entries_compared": sum(2 * len(c["ama1"]) ** 2 for c in am),
                             "apply_calls_compared": sum(len(c["tests"]) for c in am for s in c["steps"] if s["op"] == "AP")}
    chk.extra["schwarz"] = {"per_ranks": hist(sw, lambda c: c["nr"]), "per_flavour": hist(sw, lambda c: c["flav"]),
                            "failing_local_solver": sum(1 for c in sw if c["failr"] != 99), "status_must_abort": sum(1 for c in sw if c["aborts"]),
                            "with_dof_shared_by_3": sum(1 for c in sw if not c["exact"])}
    chk.exhaustive = True
    rule = ("C08 extension: every initial state of spec/PrecondUzawa.tla (all pattern pairs of B (n x m) and D (m x n) within the size / entry-count "
            "bounds of the tier, B and D with independent values, UzawaType, inner-solver flavour, filter selection, auto_init_s, failing inner solver) "
            "with the canonical life-cycle history (or every history of bounded length), of spec/PrecondVanka.tla (all node patterns of A, B, D within "
            "the bounds x layout x VankaType / AmaVanka (deduced macros, or every sequence of MacLens different user-pushed macros covering all dofs) x omega x "
            "iterations x filters (unit / mean / chains), restricted by TLC to the exact domain of Math::invert_matrix) "
            "with its sweep (one TLC action per block step) and of spec/PrecondSchwarz.tla (every decomposition of ND dofs over NR ranks x local "
            "solver x failing rank x ignore_status x filter); each apply on unit vectors, a generic vector g and 2g - e1; "
            "non-trivial = B and D both have entries (Uzawa), a local system of dimension >= 2 (Vanka), a dof shared by two ranks (Schwarz)")
    chk.rule = (chk.rule + " || " + rule) if chk.rule else rule
    for part, cs in allc.items():
        for c in cs[len(cs) // 2: len(cs) // 2 + 1]:
            chk.sample({k: c[k] for k in ("_part", "n", "m", "typ", "flav", "fsel", "auto", "lay", "kind", "om", "iters", "patB", "patD", "blocks", "nr", "dofs") if k in c})
    chk.assumptions += [
        "C08x: exact dyadic domain - Uzawa: inner solvers are dyadic linear maps (mock) / Jacobi with power-of-two diagonal / exact inverses with "
        "power-of-two pivots; Vanka/AmaVanka: only systems whose local matrices are inverted by Math::invert_matrix with power-of-two pivots (in "
        "its own pivot order), power-of-two main diagonal of A for the diag variants, block counts in {0,1,2,4}; Schwarz: == where a dof is shared "
        "by 1, 2 or 4 ranks, 4 eps relative otherwise",
        "C08x: Vanka/AmaVanka histories apply only after init_numeric (no apply between a value update and the next init_numeric); full variants "
        "and AmaVanka without skip_singular are generated with regular local systems only; singular local systems only where evidently singular "
        "(zero row/column): diag variants must throw VankaFactorError, AmaVanka with skip_singular must skip the macro",
        "C08x: Vanka needs at least one stored entry in D (and in B for block variants / BCSR); AmaVanka needs every dof in a macro (XASSERT)",
        "C08x: UzawaPrecond for LAFEM containers and - mock inner solvers, one process - its Global::Matrix specialisation; SchwarzPrecond with Global::Filter<UnitFilter>; "
        "AmaVanka on SaddlePointMatrix<BCSR> (deduced and user-pushed macros) and on the whole saddle-point system stored as one SparseMatrixCSR "
        "(pushed macros; pressure-pressure block structurally empty); no TupleMatrix, no VoxelAmaVanka; pushed macros on the BCSR layout need a stored "
        "entry in B and in D and one macro that couples a velocity node with a pressure dof (SparseMatrixBCSR::val() of an empty block is outside the API)",
        "C08x: filters of Vanka / AmaVanka: unit filter on a velocity node, on the pressure the chain UnitFilter ; MeanFilter with non-proportional primal (1,1,..) "
        "and dual (3,-1,2) vector (m >= 2); Uzawa: MeanFilter (1,..) / (1,3,4) on the pressure; Schwarz: unit filters only"]
    return sum(percase.values())


def replay(obj):
    bins = dict(zip(STD, vlib.build(list(STD.values()), jobs=4)))
    bins.update(dict(zip(MPI, vlib.build(list(MPI.values()), variant="mpi", jobs=4))))
    bad = 0
    for v in obj["violations"]:
        rp = v["replay"]
        if not rp or rp.get("kind") != "case":
            continue
        c = rp["case"]
        part = c.get("_part")
        if part in MPI:
            r, = vlib.run_cases(bins[part], [c], tmo=30, shards=1, wrapper=MPIRUN + [str(c["nr"])])
        else:
            r, = vlib.run_cases(bins[part], [c], tmo=30, shards=1)
        print(json.dumps({"case": sig(c, r), "result": r})[:1000])
        if r.get("ok") is not True:
            bad += 1
    return 1 if bad else 0
