"""C18: histories of transfer assemblies within one process (spec/TransferHist.tla, spec/TransferHistCheck.tla).

TLC enumerates the histories (sequences of 1-3 steps; a step = transfer assembly for (element, cubature rule, order of the three
routines) on a small affine mesh, or a direct request of a refined cubature rule).  Every history is executed by ONE fresh process of
the harness (vlib.run_cases with a single shard), the singleton histories are the fresh-process observations.  TLC judges
  * Transfer!OrderIndependent: the digest of every step of every history equals the digest of the same step in a fresh process,
  * Transfer!RefinedRule{Sizes,Points,Weights} for every distinct observation of a "rule" step,
and the caller hands every distinct observation of an "xfer" step to TransferCheck!Verdict (the prolongation recomputed by TLC).
"""
import json, os, time, zlib
import concurrent.futures as cf
import vlib, vmeshlib

BOUND_PROJ = ("lagrange3", "bernstein2")


def generate(chk, tier):
    """-> list of {"cls":..., "steps":[...]} (both families)"""
    jobs = []
    for fam in ("simplex", "hypercube"):
        cfg = "gen_c18_%d_hist_%s.cfg" % (os.getpid(), fam)
        with open(os.path.join(vlib.SPEC, cfg), "w") as f:
            f.write("SPECIFICATION Spec\nCONSTANTS Family = \"%s\" Deep = %s\nINVARIANTS StepsEnabled LastCollides Emit\nCHECK_DEADLOCK FALSE\n"
                    % (fam, "TRUE" if tier == "thorough" else "FALSE"))
        jobs.append((cfg, fam))
    out = []
    try:
        with cf.ThreadPoolExecutor(max_workers=2) as ex:
            futs = [(ex.submit(vlib.tlc, "TransferHist", j[0], timeout=2400, xmx="3g"), j) for j in jobs]
            for fu, (cfg, fam) in futs:
                r = fu.result()
                chk.add_tlc(r, "TransferHist %s" % fam)
                if r.violation:
                    chk.model_violation(r, "TransferHist invariant (%s)" % fam)
                    continue
                out += r.printed
    finally:
        for j in jobs:
            try:
                os.remove(os.path.join(vlib.SPEC, j[0]))
            except OSError:
                pass
    return out


def step_key(s):
    return json.dumps(s, sort_keys=True, separators=(",", ":"))


def make_case(step, cid, out, table, refmesh):
    fam, dim = step["fam"], step["dim"]
    key = step_key(step)
    if step["kind"] == "rule":
        return {"id": cid, "kind": "rule", "fam": fam, "dim": dim, "cub": step["cub"], "base": step["base"], "route": step["route"],
                "src": refmesh[(fam, dim)], "out": out}
    t = table.get((fam, dim, step["el"]))
    if t is None or not ((t["nodal"] and t["pscale"] > 0) or (t["nested"] and step["el"] in BOUND_PROJ)):
        raise vlib.MachineryError("TransferHist enumerates an element family the harness does not bind: %s %s%d" % (step["el"], fam, dim))
    # the same seed for the same step wherever it occurs: the observations are compared bit by bit
    return {"id": cid, "kind": "xfer", "fam": fam, "dim": dim, "el": step["el"], "src": {"fac": "unitcube", "level": 0}, "srcname": "hist:unitcube0",
            "perm": "none", "ps": t["pscale"] if t["nodal"] else 0, "nested": bool(t["nested"]), "xnested": 0, "xcub": "",
            "seed": vlib.seed() * 7919 + (zlib.crc32(key.encode()) % 100003), "cub": step["cub"], "maxcells": 600, "mk": 0,
            "order": step["order"], "trunc": 1, "out": out}


def execute(hists, bins, gdir, table, meshes, workers=12):
    """run every history in its own process; returns list of (history, cases, results)"""
    tab = {(t["fam"], t["dim"], t["el"]): t for t in table}
    refmesh = {}
    for m in meshes:
        if m["mode"] == "single" and (m["fam"], m["dim"]) not in refmesh:
            refmesh[(m["fam"], m["dim"])] = {"raw": dict(m["src"]["raw"], route="factory")}
    jobs = []
    for i, h in enumerate(hists):
        cases = [make_case(s, "h%d_%d" % (i, k), os.path.join(gdir, "h%d_%d.json" % (i, k)), tab, refmesh) for k, s in enumerate(h["steps"])]
        fam = h["steps"][0]["fam"]
        if any(s["fam"] != fam for s in h["steps"]):
            raise vlib.MachineryError("a history mixes the shape families (one harness binary per family)")
        jobs.append((h, cases, bins[0] if fam == "simplex" else bins[1]))

    def one(job):
        h, cases, binary = job
        # fewer than 50 cases -> vlib.run_cases uses exactly one harness process for the whole list, in order
        return vlib.run_cases(binary, cases, tmo=240, shards=1)
    t0 = time.time()
    with cf.ThreadPoolExecutor(max_workers=workers) as ex:
        results = list(ex.map(one, jobs))
    print("[hist] %d histories (%d steps) executed, one process each, %.1fs" % (len(jobs), sum(len(j[1]) for j in jobs), time.time() - t0), flush=True)
    return [(h, cases, res) for (h, cases, _), res in zip(jobs, results)]


def load_rule_dump(path):
    with open(path) as f:
        d = json.loads(f.readline())
    d["par"] = vmeshlib.parents(d["levels"][0], d["levels"][1], d["fam"], d["dim"])
    return d


def judge(chk, runs, tier):
    """-> (xfer_reps, info): xfer_reps = list of (case, result) of the distinct observations of transfer steps, to be judged by
    TransferCheck!Verdict by the caller; violations of OrderIndependent / RefinedRule* are reported here"""
    fresh = {}
    for h, cases, res in runs:
        if len(h["steps"]) == 1:
            fresh[step_key(h["steps"][0])] = (cases[0], res[0])
    records, reps, seen = [], [], set()
    nbad = 0
    hist_by_id = {}
    for hi, (h, cases, res) in enumerate(runs):
        steps = []
        broken = False
        for s, c, r in zip(h["steps"], cases, res):
            if r.get("ok") is not True or "dig" not in r:
                desc = r.get("why") or ("outcome %s: %s" % (r.get("outcome"), (r.get("stderr") or "")[-600:]))
                slim = {k: c[k] for k in c if k != "out"}
                chk.violation({"kind": "history", "fam": s["fam"], "dim": s["dim"], "el": s["el"], "cub": s["cub"], "step": s["kind"], "cls": h["cls"],
                               "pred": "harness:" + str(r.get("outcome", "bad"))},
                              "history %s (%s), step %s %s %s: %s" % (c["id"], h["cls"], s["kind"], s["el"], s["cub"], desc),
                              {"kind": "case", "harness": "c18_transfer", "history": [x for x in h["steps"]], "case": slim, "result": r})
                broken = True
                nbad += 1
                continue
            key = step_key(s)
            fr = fresh.get(key)
            if fr is None:
                raise vlib.MachineryError("no fresh-process run enumerated for step " + key)
            if fr[1].get("ok") is not True or "dig" not in fr[1]:
                broken = True      # reported with the singleton history
                continue
            steps.append({"obs": r["dig"], "fresh": fr[1]["dig"]})
            okey = (key, tuple(r["dig"]))
            if okey not in seen:
                seen.add(okey)
                reps.append((s, c, r))
        if not broken and len(h["steps"]) >= 1:
            hid = "H%d" % hi
            hist_by_id[hid] = (h, cases, res)
            records.append({"id": hid, "kind": "hist", "steps": steps})
    # distinct observations of rule steps -> Transfer!RefinedRule*
    rule_by_id = {}
    for s, c, r in reps:
        if s["kind"] == "rule":
            d = load_rule_dump(c["out"])
            records.append(d)
            rule_by_id[d["id"]] = (s, c, r)
    verdicts = vmeshlib.run_tlc_batches(chk, "TransferHistCheck", "C18_HBATCH", records, "c18h", max_procs=4,
                                        weight=lambda d: 30 if d["kind"] == "hist" else 200 + 8 * len(d.get("rp", [])), timeout=2400) if records else {}
    ndep = 0
    for rec in records:
        v = verdicts.get(rec["id"])
        if v is None:
            raise vlib.MachineryError("no verdict for " + rec["id"])
        for p in v["fails"]:
            if p.startswith("MACHINERY"):
                raise vlib.MachineryError("%s: %s" % (rec["id"], p))
        if rec["kind"] == "hist":
            h, cases, res = hist_by_id[rec["id"]]
            chk.count("hist|" + json.dumps(h["steps"], sort_keys=True), len(h["steps"]) >= 2)
            for p in v["fails"]:
                ndep += 1
                dep = v["info"]["dependent"]
                k = dep[0] - 1 if dep else 0
                s = h["steps"][k]
                prev = h["steps"][k - 1] if k > 0 else None
                chk.violation({"kind": "history", "fam": s["fam"], "dim": s["dim"], "el": s["el"], "cub": s["cub"], "step": s["kind"], "cls": h["cls"], "pred": p},
                              "history %s (%s): step %d (%s %s %s%d cub=%s order=%s) differs from the same step in a fresh process%s: %s does not hold"
                              % (rec["id"], h["cls"], k + 1, s["kind"], s["el"], s["fam"], s["dim"], s["cub"], s["order"],
                                 (" after %s %s cub=%s" % (prev["kind"], prev["el"], prev["cub"])) if prev else "", p),
                              {"kind": "case", "harness": "c18_transfer", "history": h["steps"], "cases": [{k2: c[k2] for k2 in c if k2 != "out"} for c in cases],
                               "results": res, "verdict": v})
        else:
            s, c, r = rule_by_id[rec["id"]]
            for p in v["fails"]:
                chk.violation({"kind": "rule", "fam": s["fam"], "dim": s["dim"], "cub": s["cub"], "route": s["route"], "pred": p},
                              "%s: refined rule %s (%s%d, route %s): %s does not hold" % (rec["id"], s["cub"], s["fam"], s["dim"], s["route"], p),
                              {"kind": "case", "harness": "c18_transfer", "case": {k2: c[k2] for k2 in c if k2 != "out"}, "verdict": v})
    info = {"histories": sum(1 for h, _, _ in runs if len(h["steps"]) >= 2), "fresh_steps": len(fresh), "distinct_observations": len(reps),
            "rule_observations": len(rule_by_id), "history_dependent": ndep, "failed_steps": nbad,
            "by_class": {}}
    for h, _, _ in runs:
        info["by_class"][h["cls"]] = info["by_class"].get(h["cls"], 0) + 1
    return [(s, c, r) for s, c, r in reps if s["kind"] == "xfer"], info
