"""C20 extension: container lifetimes over all LAFEM container families.

spec/LifetimeX.tla (generalisation of spec/Lifetime.tla: dv, dvb, sv, csr, bcsr, cscr, banded, dm, tv + SparseLayout objects,
conversions between families, SparseVector capacity policy, Runtime::finalize outcome class) -> harness/c20x_lifetime.cpp
in the ASan/UBSan build.  `run_ext(chk)` is the whole extension; checks/C20x.py calls it stand-alone.
"""
import json, os, zlib
import concurrent.futures as cf
import vlib

INV = ("INVARIANTS RefCount NoLeak NoDangling EmptyAtEnd NullNeverCounted TypeOK LayoutOK Emit\n"
       "PROPERTIES Frame ConstSource\nCHECK_DEADLOCK FALSE\n")
ALLM = ("shallow", "layout", "weak", "deep", "allocate")
HARNESS = "c20x_lifetime"
SHARING_OPS = ("clone", "convert", "convertx", "move", "movector", "range", "fromlayout", "takelayout", "assignlayout", "movelayout", "push")


def _set(xs, quote=True):
    return "{" + ",".join(('"%s"' % x) if quote else str(x) for x in xs) + "}"


def cfg(name, slots, fams, depth, ops=("all",), tys=(1, 2, 3), modes=ALLM, vars_=("all",), emit=True):
    fn = "gen_LifetimeX_%s_%d.cfg" % (name, os.getpid())
    with open(os.path.join(vlib.SPEC, fn), "w") as f:
        f.write("SPECIFICATION Spec\nCONSTANTS Slots = %s Fams = %s Depth = %d EmitOn = %s Ops = %s Tys = %s CModes = %s Vars = %s\n%s" % (
            _set(slots, False), _set(fams), depth, "TRUE" if emit else "FALSE", _set(ops), _set(tys, False), _set(modes), _set(vars_), INV))
    return fn


def plan(thorough):
    """(name, cfg keyword arguments, tlc keyword arguments)"""
    S2, S3, S4 = (1, 2), (1, 2, 3), (1, 2, 3, 4)
    if not thorough:
        return [
            ("sim", dict(slots=S3, fams=("dv", "dvb", "sv", "csr", "bcsr", "cscr", "banded", "dm", "tv"), depth=9),
             dict(simulate=60, depth=10, tseed=vlib.seed())),
            # dense vectors, blocked <-> plain conversion (aliasing), ranged (foreign) slices
            ("vec3", dict(slots=S2, fams=("dv", "dvb"), depth=3, tys=(1, 3), vars_=("n4", "n0", "b2", "b0")), {}),
            ("vecx4", dict(slots=S3, fams=("dv", "dvb"), depth=4, tys=(1,), vars_=("n4", "b2"), modes=("shallow",),
                           ops=("create", "convertx", "range", "move", "destroy")), {}),
            ("vecty2", dict(slots=S2, fams=("dv", "dvb"), depth=2), {}),
            # sparse vector: capacity policy, appending to shared arrays
            ("sv3", dict(slots=S2, fams=("sv",), depth=3, tys=(1, 2)), {}),
            ("svpush5", dict(slots=S2, fams=("sv",), depth=5, tys=(1,), modes=("shallow",), ops=("create", "push", "clone", "destroy")), {}),
            # tuple vector: every call recurses into both sub-vectors
            ("tv3", dict(slots=S2, fams=("tv",), depth=3, tys=(1, 2)), {}),
            # csr / bcsr and the layout objects they share
            ("mat2", dict(slots=S2, fams=("csr", "bcsr"), depth=2), {}),
            ("lay4", dict(slots=S3, fams=("csr", "bcsr"), depth=4, tys=(1,), vars_=("full", "bare"), ops=("create", "layout", "destroy")), {}),
            ("bcsr3", dict(slots=S2, fams=("bcsr",), depth=3, tys=(1, 3), vars_=("full", "nz0", "bare")), {}),
            # conversions between matrix families
            ("matx3", dict(slots=S2, fams=("csr", "banded", "cscr", "bcsr"), depth=3, tys=(1, 2), modes=("weak",),
                           vars_=("full", "band", "o2", "bare"), ops=("create", "convertx", "clone", "destroy", "poke")), {}),
            ("xchain4", dict(slots=S3, fams=("csr", "banded", "bcsr", "cscr"), depth=4, tys=(1,), vars_=("full", "o2"), ops=("create", "convertx")), {}),
            ("fam2", dict(slots=S2, fams=("cscr", "banded", "dm"), depth=2), {}),
        ]
    return [
        ("sim", dict(slots=S4, fams=("dv", "dvb", "sv", "csr", "bcsr", "cscr", "banded", "dm", "tv"), depth=14),
         dict(simulate=150, depth=15, tseed=vlib.seed())),
        ("simvec", dict(slots=S4, fams=("dv", "dvb", "sv", "tv"), depth=16), dict(simulate=150, depth=17, tseed=vlib.seed() + 1)),
        ("simmat", dict(slots=S4, fams=("csr", "bcsr", "cscr", "banded"), depth=12), dict(simulate=150, depth=13, tseed=vlib.seed() + 2)),
        ("vec3", dict(slots=S3, fams=("dv", "dvb"), depth=3, tys=(1, 3), vars_=("n4", "n0", "b2", "b0")), {}),
        ("vec4", dict(slots=S2, fams=("dv", "dvb"), depth=4, tys=(1,), vars_=("n4", "n0", "b2")), {}),
        ("vecx5", dict(slots=S3, fams=("dv", "dvb"), depth=5, tys=(1,), vars_=("n4", "b2"), modes=("shallow",),
                       ops=("create", "convertx", "range", "move", "destroy")), {}),
        ("vecty3", dict(slots=S2, fams=("dv", "dvb"), depth=3), {}),
        ("sv4", dict(slots=S2, fams=("sv",), depth=4, tys=(1, 2)), {}),
        ("sv3", dict(slots=S3, fams=("sv",), depth=3), {}),
        ("svpush6", dict(slots=S2, fams=("sv",), depth=6, tys=(1,), modes=("shallow",), ops=("create", "push", "clone", "destroy")), {}),
        ("svpush6b", dict(slots=S2, fams=("sv",), depth=6, tys=(1,), vars_=("f",), modes=("shallow", "weak"), ops=("create", "push", "clone", "poke")), {}),
        ("tv4", dict(slots=S2, fams=("tv",), depth=4, tys=(1, 2)), {}),
        ("tv3", dict(slots=S3, fams=("tv",), depth=3), {}),
        ("mat3", dict(slots=S2, fams=("csr", "bcsr"), depth=3), {}),
        ("lay5", dict(slots=S3, fams=("csr", "bcsr"), depth=5, tys=(1,), vars_=("full",), ops=("create", "layout", "destroy")), {}),
        ("lay6", dict(slots=S3, fams=("bcsr",), depth=6, tys=(1,), vars_=("full",), ops=("create", "layout", "destroy")), {}),
        ("bcsr4", dict(slots=S2, fams=("bcsr",), depth=4, tys=(1,), vars_=("full", "nz0", "bare")), {}),
        ("matx4", dict(slots=S2, fams=("csr", "banded", "cscr", "bcsr"), depth=4, tys=(1,), modes=("weak",),
                       vars_=("full", "band", "o2", "bare"), ops=("create", "convertx", "clone", "destroy", "poke", "move")), {}),
        ("matx3", dict(slots=S2, fams=("csr", "banded", "cscr", "bcsr"), depth=3), {}),
        ("xchain5", dict(slots=S3, fams=("csr", "banded", "bcsr", "cscr"), depth=5, tys=(1,), vars_=("full", "o2"), ops=("create", "convertx")), {}),
        ("fam3", dict(slots=S2, fams=("cscr", "banded", "dm"), depth=3), {}),
        # pure model checking: all nine families in one pool (no behaviours emitted)
        ("mcall3", dict(slots=S2, fams=("dv", "dvb", "sv", "csr", "bcsr", "cscr", "banded", "dm", "tv"), depth=3, tys=(1, 2), emit=False), {}),
    ]


def sig(c, r):
    st = c["steps"]
    k = r.get("step") or len(st)
    last = st[min(k, len(st)) - 1] if st else {"op": "", "args": {}}
    err = r.get("stderr") or ""
    why = r.get("why") or ""
    a = last.get("args", {})
    fam = a.get("fam", "")
    if not fam and st:
        # family of the slot the failing step writes
        try:
            t = a.get("dst", a.get("s"))
            fam = last["world"]["slots"][t - 1][1]
        except Exception:
            fam = ""
    what = "mismatch"
    if "std::out_of_range" in why or "St12out_of_range" in why:
        what = "out_of_range"
    elif r.get("op") == "finalize":
        what = "finalize"
    elif r.get("op") == "end":
        what = "leak_at_end"
    elif r.get("outcome") == "sanitizer":
        what = "sanitizer"
    elif r.get("outcome") in ("abort", "signal11"):
        what = "abort"
    return {"what": what, "last_op": r.get("op") or last.get("op", ""), "fam": fam, "outcome": r.get("outcome", "mismatch"),
            "empty_source": bool(a.get("empty")), "shell_target": bool(a.get("dshell"))}


def key_of(c):
    return json.dumps([[s["op"], s["args"]] for s in c["steps"]], sort_keys=True)


def _tlc_run(nm, fn, tk):
    r = vlib.tlc("LifetimeX", fn, workers=(1 if tk else 2), timeout=3000, xmx="3g", tag="LifetimeX_" + nm, **tk)
    if not r.violation:
        r.out = ""       # (hundreds of megabytes of printed behaviours; r.printed has them parsed)
    return r


def run_ext(chk, binary=None):
    """generate the behaviours of spec/LifetimeX.tla for the tier and replay them run by run (the behaviours of a run are
    dropped after their replay: memory stays bounded by the largest run); counts go to chk"""
    if binary is None:
        binary, = vlib.build([HARNESS], variant="asan")
    thorough = chk.tier == "thorough"
    jobs = plan(thorough)
    # Runtime::finalize in a forked child (5 ms under ASan): for one history in FIN_LEAK that ends with live chunks and one in
    # FIN_CLEAN that ends with an empty pool (projection: which cases pay for a fork; the expected class is in the case)
    fin_leak, fin_clean = (128, 16) if thorough else (48, 8)
    per_run, ops, fams, fin = {}, {}, {}, {"clean": 0, "leak": 0}
    seen, samples, total = set(), [], 0
    names = []
    try:
        with cf.ThreadPoolExecutor(max_workers=4) as ex:
            futs = {}
            for nm, ck, tk in jobs:
                fn = cfg(nm, **ck)
                names.append(fn)
                futs[ex.submit(_tlc_run, nm, fn, tk)] = nm
            for f in cf.as_completed(futs):
                nm = futs[f]
                r = f.result()
                chk.add_tlc(r, "x_" + nm)
                if r.violation:
                    chk.model_violation(r, "LifetimeX.tla invariant / action property (%s)" % nm)
                cases = []
                for c in r.printed:
                    k = key_of(c)
                    h = zlib.crc32(k.encode())
                    hk = (h, len(k))
                    if hk in seen and nm != "sim":
                        continue       # the focused runs overlap: distinct histories only
                    seen.add(hk)
                    c["dofin"] = (h >> 8) % (fin_clean if c["fin"] == "clean" else fin_leak) == 0
                    cases.append(c)
                r.printed = None
                per_run[nm] = len(cases)
                if not cases:
                    continue
                res = vlib.run_cases(binary, cases, tmo=40, max_abnormal=400)
                vlib.judge_results(chk, cases, res, sig, keyf=key_of, harness=HARNESS,
                                   nontrivial=lambda c: any(s["op"] in SHARING_OPS for s in c["steps"]))
                for c in cases:
                    for s in c["steps"]:
                        ops[s["op"]] = ops.get(s["op"], 0) + 1
                        if s["op"] == "create":
                            fams[s["args"]["fam"]] = fams.get(s["args"]["fam"], 0) + 1
                    if c["dofin"]:
                        fin[c["fin"]] += 1
                total += len(cases)
                samples.append([[s["op"], s["args"]] for s in cases[len(cases) // 2]["steps"]])
    finally:
        for fn in names:
            try:
                os.remove(os.path.join(vlib.SPEC, fn))
            except OSError:
                pass
    if not total:
        raise vlib.MachineryError("no behaviours generated from LifetimeX.tla")
    chk.traces += total
    chk.extra["x_histories_per_run"] = per_run
    chk.extra["x_steps_per_operation"] = ops
    chk.extra["x_creations_per_family"] = fams
    chk.extra["x_finalize_children"] = fin
    return samples


RULE = ("all histories of spec/LifetimeX.tla up to the stated depth over 2-3 container slots, per family group (dv+dvb with blocked<->plain "
        "conversion and ranged slices; sv with its capacity policy; tv; csr+bcsr with shared SparseLayout objects; csr/banded/cscr/bcsr "
        "conversions; cscr, banded, dm on their own): create in every variant incl. size-0 arrays and array-less containers, clone in all 5 "
        "modes within and across data/index types, convert, conversion between families, move, move-ctor, ranged slice, layout sharing, "
        "append, clear, destroy in every order, overwrite; plus seeded random histories over all nine families; each replayed on real "
        "containers in the ASan/UBSan build with reference counters, aliasing classes, sizes, allocated sizes, contents and live chunk "
        "count compared after every step, the pool empty at the end, and Runtime::finalize in a forked child for a sample of the "
        "histories (both outcome classes); non-trivial = contains a sharing/moving/appending operation; distinct = distinct history")
ASSUMPTIONS = ["heap safety inside an operation is observed by ASan/UBSan on the replayed histories, not proved",
               "the owner of a ranged (foreign memory) slice outlives it - an API obligation the specification makes an enabling condition",
               "conversion between families from a ranged slice, from an Allocate-mode clone (unwritten index arrays) and from matrices with "
               "rows without entries (known finding of C02) is outside the enabling conditions"]
