"""C20, large counts and parallel shutdown.

  bulk  spec/LifetimeBulk.tla (the chunk table of spec/LifetimeX.tla with sharing relatives kept as a COUNT: CloneMany(n) /
        ReleaseMany(m) / TakeOne / Destroy / Clear / Poke with n in {255, 256, 65535, 65536, 65537, 70000}; DenseVectors of
        2^31+32 and 2^32+32 bytes) -> harness/c20_bulk.cpp (ASan/UBSan build; a group is a std::vector of n real containers)
  fin   spec/LifetimeFin.tla (one MemoryPool per rank, one lifetime script per rank, Runtime::finalize on every rank: the job
        is clean iff the pool of EVERY rank is empty) -> harness/c20_mpifin.cpp, one `mpirun -np NR` job per case (mpi build)
`run_bulk(chk)` / `run_fin(chk)` are called by checks/C20.py; counts go to chk.
"""
import json, os, random, re, subprocess, tempfile, zlib
import concurrent.futures as cf
import vlib

BULK_HARNESS = "c20_bulk"
FIN_HARNESS = "c20_mpifin"
EDGE = (255, 256, 65535, 65536, 65537, 70000)
ALLKINDS = ("shallow", "convert", "wrap", "weak", "layout", "deep", "fromlayout", "takelayout")
SHARING = ("shallow", "convert", "wrap", "weak", "layout", "fromlayout", "takelayout")
BULK_INV = "INVARIANTS RefCount NoLeak NoDangling EmptyAtEnd NullNeverCounted TypeOK BulkLaw KeepsLast Emit\nCHECK_DEADLOCK FALSE\n"
MPIRUN = ["mpirun", "--allow-run-as-root", "--oversubscribe", "--bind-to", "none", "--mca", "mpi_yield_when_idle", "1", "--tag-output", "-np"]
LEAKMSG = "MemoryPool still contains memory chunks"


def _set(xs, quote=True):
    return "{" + ",".join(('"%s"' % x) if quote else str(x) for x in xs) + "}"


def _rm(fn):
    try:
        os.remove(os.path.join(vlib.SPEC, fn))
    except OSError:
        pass


# ---- bulk ------------------------------------------------------------------------------------------------------------
def bulk_cfg(name, depth, vars_, kinds, counts, ops=("all",), relmode="basic", ends=("back",), groups=2, emit=True):
    fn = "gen_LifetimeBulk_%s_%d.cfg" % (name, os.getpid())
    with open(os.path.join(vlib.SPEC, fn), "w") as f:
        f.write("SPECIFICATION Spec\nCONSTANTS Depth = %d EmitOn = %s Ops = %s Vars = %s Kinds = %s Counts = %s RelMode = \"%s\" MaxGroups = %d Ends = %s\n%s" % (
            depth, "TRUE" if emit else "FALSE", _set(ops), _set(vars_), _set(kinds), _set(counts, False), relmode, groups, _set(ends), BULK_INV))
    return fn


def bulk_plan(thorough):
    """(name, cfg keyword arguments, replay options: tmo = time-out per case, shards = largest number of parallel replay
    processes, variant = build of the harness, asan_sample = number of cases replayed once more in the ASan build)"""
    small = ("n3", "n0", "full", "nz0")
    core = ("create", "clonemany", "releasemany", "takeone", "destroy")
    edgekinds = ("shallow", "convert", "wrap", "weak", "fromlayout", "takelayout")
    hugekinds = ("shallow", "convert", "wrap", "layout")
    if not thorough:
        return [
            # the bulk machinery itself on small counts: every kind, both families, both ends of the vector
            ("small3", dict(depth=3, vars_=small, kinds=ALLKINDS, counts=(1, 2, 3), ends=("back", "front")), dict(tmo=60)),
            ("small4", dict(depth=4, vars_=("n3", "full"), kinds=("shallow", "convert", "weak", "takelayout"), counts=(2,), ends=("front",)), dict(tmo=60)),
            # counter widths: 8 / 16 bit boundaries and beyond, every sharing kind, followed by every continuation
            ("edge3", dict(depth=3, vars_=("n3", "full"), kinds=edgekinds, counts=EDGE, ops=core + ("poke",), groups=1), dict(tmo=300)),
            # arrays of 2^31+32 and 2^32+32 bytes (plain build: ASan pays about 1 CPU second of shadow memory work per 4 GiB array,
            # so only a sample is repeated under it)
            ("huge4", dict(depth=4, vars_=("h31", "h32"), kinds=hugekinds, counts=(1, 2), ops=core + ("poke", "pokeg"), groups=1),
             dict(tmo=120, shards=4, variant="std", asan_sample=10)),
        ]
    return [
        ("small4", dict(depth=4, vars_=small, kinds=ALLKINDS, counts=(1, 3), ends=("back", "front")), dict(tmo=60)),
        ("small5", dict(depth=5, vars_=("n3", "full"), kinds=("shallow", "convert", "weak", "takelayout"), counts=(2,), ends=("front",),
                        ops=core + ("clear", "pokeg")), dict(tmo=60)),
        ("edge3", dict(depth=3, vars_=("n3", "full", "nz0"), kinds=ALLKINDS, counts=EDGE + (131073,), ops=core + ("poke", "pokeg", "clear"),
                       ends=("back", "front"), groups=1), dict(tmo=600)),
        # two groups on one chunk (the counter passes a boundary with the second group), release down to every boundary
        ("edge4", dict(depth=4, vars_=("n3", "full"), kinds=("shallow", "fromlayout", "takelayout"), counts=(255, 65536, 65537),
                       ops=("create", "clonemany", "releasemany", "destroy"), relmode="full"), dict(tmo=600)),
        ("huge4", dict(depth=4, vars_=("h31", "h32"), kinds=hugekinds, counts=(1, 2), ops=core + ("poke", "pokeg", "clear")),
         dict(tmo=120, shards=4, variant="std", asan_sample=60)),
    ]


def bulk_key(c):
    return json.dumps([[s["op"], s["args"]] for s in c["steps"]], sort_keys=True)


def bulk_sig(c, r):
    st = c["steps"]
    k = r.get("step") or len(st)
    last = st[min(k, len(st)) - 1] if st else {"op": "", "args": {}}
    big = max([s["args"].get("n", 0) for s in st] + [0])
    what = "mismatch"
    if r.get("op") == "end":
        what = "leak_at_end"
    elif r.get("outcome") == "sanitizer":
        what = "sanitizer"
    elif r.get("outcome") in ("abort", "signal11"):
        what = "abort"
    return {"what": what, "part": "bulk", "last_op": r.get("op") or last.get("op", ""), "outcome": r.get("outcome", "mismatch"),
            "largest_group": big, "vars": sorted({s["args"]["var"] for s in st if s["op"] == "create"})}


def _bulk_tlc(nm, fn):
    r = vlib.tlc("LifetimeBulk", fn, workers=2, timeout=3000, xmx="3g", tag="LifetimeBulk_" + nm)
    if not r.violation:
        r.out = ""
    return r


def run_bulk(chk):
    jobs = bulk_plan(chk.tier == "thorough")
    bins = {}
    for v in sorted({ro.get("variant", "asan") for _, _, ro in jobs} | {"asan"}):
        bins[v], = vlib.build([BULK_HARNESS], variant=v)
    per_run, kinds, largest, samples, total = {}, {}, {}, [], 0
    seen, names = set(), []
    rnd = random.Random(vlib.seed())
    try:
        # (at most two TLC runs and their parsed behaviours in flight: memory stays bounded by the two largest runs)
        with cf.ThreadPoolExecutor(max_workers=2) as ex:
            futs = {}
            for nm, ck, ro in jobs:
                fn = bulk_cfg(nm, **ck)
                names.append(fn)
                futs[ex.submit(_bulk_tlc, nm, fn)] = (nm, ro)
            for f in cf.as_completed(futs):
                nm, ro = futs.pop(f)
                r = f.result()
                chk.add_tlc(r, "bulk_" + nm)
                if r.violation:
                    chk.model_violation(r, "LifetimeBulk.tla invariant (%s)" % nm)
                cases = []
                for c in r.printed:
                    k = bulk_key(c)
                    hk = (zlib.crc32(k.encode()), len(k))
                    if hk in seen:
                        continue
                    seen.add(hk)
                    c["rootsfirst"] = bool(hk[0] & 1)      # projection: the order of the final clean-up (both are legal)
                    cases.append(c)
                r.printed = None
                per_run[nm] = len(cases)
                if not cases:
                    continue
                cases.sort(key=bulk_key)
                rnd.shuffle(cases)                          # spread the expensive histories over the replay processes
                variant = ro.get("variant", "asan")
                batches = [(variant, cases)]
                if variant != "asan" and ro.get("asan_sample"):
                    batches.append(("asan", cases[:ro["asan_sample"]]))
                for v, cs in batches:
                    res = vlib.run_cases(bins[v], cs, tmo=ro.get("tmo", 60), max_abnormal=200, shards=ro.get("shards"))
                    vlib.judge_results(chk, cs, res, bulk_sig, keyf=bulk_key, harness=BULK_HARNESS + ":" + v,
                                       nontrivial=lambda c: any(s["op"] == "clonemany" for s in c["steps"]))
                for c in cases:
                    for s in c["steps"]:
                        if s["op"] == "clonemany":
                            kinds[s["args"]["kind"]] = kinds.get(s["args"]["kind"], 0) + 1
                            n = s["args"]["n"]
                            if n >= 255:
                                largest[str(n)] = largest.get(str(n), 0) + 1
                total += len(cases)
                pick = [c for c in cases if any(s["op"] == "clonemany" for s in c["steps"])] or cases
                samples.append([[s["op"], s["args"]] for s in sorted(pick, key=bulk_key)[len(pick) // 2]["steps"]])
    finally:
        for fn in names:
            _rm(fn)
    if not total:
        raise vlib.MachineryError("no behaviours generated from LifetimeBulk.tla")
    chk.traces += total
    chk.extra["bulk_histories_per_run"] = per_run
    chk.extra["bulk_groups_per_kind"] = kinds
    chk.extra["bulk_groups_per_count"] = largest
    return samples


# ---- Runtime::finalize under MPI ---------------------------------------------------------------------------------------
def fin_plan(thorough):
    """(ranks, longest script, operations, jobs per set of leaking ranks)"""
    allops = ("createv", "createm", "share", "weak", "drop", "dropfirst")
    if not thorough:
        return [(2, 3, allops, 2), (3, 2, allops, 1)]
    return [(2, 3, allops, 8), (3, 2, allops, 4), (4, 1, ("createv", "createm"), 2)]


def fin_gen(nr, maxops, ops):
    fn = "gen_LifetimeFin_%d_%d_%d.cfg" % (nr, maxops, os.getpid())
    with open(os.path.join(vlib.SPEC, fn), "w") as f:
        f.write("SPECIFICATION Spec\nCONSTANTS NR = %d MaxOps = %d OpsOn = %s EmitOn = TRUE\n"
                "INVARIANTS RefCount NoLeak NoDangling FinLaw Emit\nCHECK_DEADLOCK FALSE\n" % (nr, maxops, _set(ops)))
    try:
        r = vlib.tlc("LifetimeFin", fn, workers=1, timeout=1500, xmx="2g", tag="LifetimeFin_%d_%d" % (nr, maxops))
    finally:
        _rm(fn)
    if not r.violation:
        r.out = ""
    return r


def fin_select(cases, per_set, rnd):
    """projection: which of the enumerated cases pay for an mpirun job - `per_set` per set of leaking ranks, and among them
    first those in which the ranks differ most (longest scripts)"""
    strata = {}
    for c in cases:
        strata.setdefault(json.dumps(c["leaking"]), []).append(c)
    out = []
    for k in sorted(strata):
        cs = strata[k]
        rnd.shuffle(cs)
        cs.sort(key=lambda c: -sum(len(r["ops"]) for r in c["ranks"]))
        half = (per_set + 1) // 2
        out.extend(cs[:half])                      # rich scripts
        rest = cs[half:]
        rnd.shuffle(rest)
        out.extend(rest[:per_set - half])          # any scripts
    return out


_REP = re.compile(r"C20FIN rank (\d+) chunks (\d+) held (\[.*\])\s*$")
_RET = re.compile(r"C20FIN rank (\d+) finalize returned (-?\d+)")
_TAG = re.compile(r"^\[\d+,(\d+)\]<std(?:out|err)>:(.*)$")


def fin_job(binary, c, tmo=240):
    """one mpirun job; returns the observation {rc, reports, returned, leaksaid, machinery, text}"""
    fd, path = tempfile.mkstemp(prefix="c20fin_", suffix=".json", dir=vlib.BUILD)
    with os.fdopen(fd, "w") as f:
        json.dump({"nr": c["nr"], "ranks": [{"ops": r["ops"]} for r in c["ranks"]]}, f)
    try:
        try:
            p = subprocess.run(MPIRUN + [str(c["nr"]), binary, path], stdout=subprocess.PIPE, stderr=subprocess.STDOUT, text=True,
                               errors="replace", timeout=tmo)
            rc, text = p.returncode, p.stdout
        except subprocess.TimeoutExpired as e:
            rc, text = "timeout", (e.stdout or b"").decode(errors="replace") if isinstance(e.stdout, bytes) else (e.stdout or "")
    finally:
        try:
            os.remove(path)
        except OSError:
            pass
    obs = {"rc": rc, "reports": {}, "returned": {}, "leaksaid": [], "machinery": "C20FIN-MACHINERY" in text, "text": text[-3000:]}
    for line in text.splitlines():
        m = _TAG.match(line)
        rank, body = (int(m.group(1)), m.group(2)) if m else (None, line)
        m = _REP.search(body)
        if m:
            obs["reports"][int(m.group(1))] = {"chunks": int(m.group(2)), "held": json.loads(m.group(3))}
        m = _RET.search(body)
        if m:
            obs["returned"][int(m.group(1))] = int(m.group(2))
        if LEAKMSG in body:
            obs["leaksaid"].append(rank)
    return obs


def fin_judge(c, o):
    """"" or the disagreement between the job and the prediction of spec/LifetimeFin.tla"""
    nr = c["nr"]
    leaking = [k for k in range(nr) if c["leaking"][k]]
    for k in range(nr):
        rep = o["reports"].get(k)
        if rep is None:
            return "rank %d did not report its pool (job status %s)" % (k, o["rc"])
        exp = c["ranks"][k]
        if rep["chunks"] != exp["chunks"]:
            return "rank %d: %d live chunks after its script, expected %d" % (k, rep["chunks"], exp["chunks"])
        if rep["held"] != [list(h) for h in exp["held"]]:
            return "rank %d: reference counters %s expected %s" % (k, rep["held"], exp["held"])
    # a rank whose pool is not empty never passes MemoryPool::finalize
    for k, v in o["returned"].items():
        if k in leaking:
            return "rank %d still holds %d chunk(s) but Runtime::finalize returned %d on it" % (k, c["ranks"][k]["chunks"], v)
        if v != 0:
            return "rank %d has an empty pool but Runtime::finalize returned %d" % (k, v)
    for k in o["leaksaid"]:
        if k is not None and k not in leaking:
            return "rank %d has an empty pool but reported leftover chunks" % k
    if c["job"] == "clean":
        if o["rc"] != 0:
            return "no rank holds a chunk but the job ended with status %s" % o["rc"]
        if o["leaksaid"]:
            return "no rank holds a chunk but leftover chunks were reported"
        if sorted(o["returned"]) != list(range(nr)):
            return "no rank holds a chunk but only ranks %s returned from Runtime::finalize" % sorted(o["returned"])
        return ""
    if o["rc"] == 0:
        return "rank(s) %s still hold chunks at shutdown but the job ended with status 0 (%s)" % (
            leaking, "no report of leftover chunks" if not o["leaksaid"] else "after a report")
    if o["rc"] == "timeout":
        return "rank(s) %s still hold chunks at shutdown and the job did not end" % leaking
    if not o["leaksaid"]:
        return "rank(s) %s still hold chunks at shutdown, the job ended with status %s but nobody reported leftover chunks" % (leaking, o["rc"])
    return ""


def fin_run_one(binary, c):
    o = fin_job(binary, c)
    why = fin_judge(c, o)
    if why and (o["machinery"] or not o["reports"] or o["rc"] == "timeout"):
        # nothing ran / mpirun could not start its processes on the loaded machine / time-out: once more, alone
        o = fin_job(binary, c, tmo=600)
        why = fin_judge(c, o)
        if why and (o["machinery"] or not o["reports"]):
            raise vlib.MachineryError("mpirun job of %s did not run: %s" % (FIN_HARNESS, o["text"][-1500:]))
    return why, o


def fin_sig(c, o):
    return {"what": "mpi_finalize", "part": "fin", "nr": c["nr"], "leaking": [k for k in range(c["nr"]) if c["leaking"][k]],
            "outcome": "status_%s" % o["rc"]}


def fin_key(c):
    return json.dumps(["fin", c["nr"], [r["ops"] for r in c["ranks"]]])


def fin_collect(tier):
    """everything of the `fin` part that does not touch the Check object (may run in a thread next to the other parts):
    build, TLC enumeration, selection, the mpirun jobs.  Returns what fin_account needs."""
    binary, = vlib.build([FIN_HARNESS], variant="mpi")
    rnd = random.Random(vlib.seed())
    jobs, runs, enumerated = [], [], 0
    for nr, maxops, ops, per_set in fin_plan(tier == "thorough"):
        r = fin_gen(nr, maxops, ops)
        runs.append((r, "fin_nr%d_ops%d" % (nr, maxops), nr))
        enumerated += len(r.printed)
        jobs.extend(fin_select(r.printed, per_set, rnd))
        r.printed = None
    if not jobs:
        raise vlib.MachineryError("no cases generated from LifetimeFin.tla")
    with cf.ThreadPoolExecutor(max_workers=5) as ex:
        results = list(ex.map(lambda c: fin_run_one(binary, c), jobs))
    return {"runs": runs, "jobs": jobs, "results": results, "enumerated": enumerated}


def fin_account(chk, d):
    for r, nm, nr in d["runs"]:
        chk.add_tlc(r, nm)
        if r.violation:
            chk.model_violation(r, "LifetimeFin.tla invariant (nr=%d)" % nr)
    by_set = {}
    for c, (why, o) in zip(d["jobs"], d["results"]):
        chk.count(fin_key(c), any(c["leaking"]) or any(r["ops"] for r in c["ranks"]))
        k = "nr%d:leak on %s" % (c["nr"], [i for i in range(c["nr"]) if c["leaking"][i]] or "nobody")
        by_set[k] = by_set.get(k, 0) + 1
        if why:
            chk.violation(fin_sig(c, o), "Runtime::finalize under mpirun -np %d, scripts %s: %s" % (c["nr"], [r["ops"] for r in c["ranks"]], why),
                          {"kind": "mpijob", "harness": FIN_HARNESS, "case": c, "observed": o})
    jobs = d["jobs"]
    chk.traces += len(jobs)
    chk.extra["fin_cases_enumerated"] = d["enumerated"]
    chk.extra["fin_mpi_jobs_per_leaking_set"] = by_set
    mid = jobs[len(jobs) // 2]
    return [{"nr": mid["nr"], "scripts": [r["ops"] for r in mid["ranks"]], "job": mid["job"]}]


def run_fin(chk):
    return fin_account(chk, fin_collect(chk.tier))


def replay_cases(cases):
    """bin/check --replay support: cases = replay objects of this module; returns the number that still disagree"""
    bad = 0
    for rp in cases:
        c = rp["case"]
        if rp.get("kind") == "mpijob":
            binary, = vlib.build([FIN_HARNESS], variant="mpi")
            why, o = fin_run_one(binary, c)
            print(json.dumps({"nr": c["nr"], "scripts": [r["ops"] for r in c["ranks"]], "expected_job": c["job"], "status": o["rc"],
                              "disagreement": why or None})[:1500])
            bad += 1 if why else 0
        else:
            v = (rp.get("harness") or "").partition(":")[2] or "asan"
            binary, = vlib.build([BULK_HARNESS], variant=v)
            r = vlib.run_cases(binary, [c], tmo=600, shards=1)[0]
            print(json.dumps({"ops": [[s["op"], s["args"]] for s in c["steps"]], "result": r})[:1500])
            bad += 0 if r.get("ok") is True else 1
    return bad


def merge(chk, sub):
    """add what a part recorded in its own Check object (it ran in a thread next to the other parts) to the check's object"""
    chk.states += sub.states
    chk.transitions += sub.transitions
    chk.traces += sub.traces
    chk.evaluations += sub.evaluations
    chk.distinct |= sub.distinct
    chk.tlc_runs.extend(sub.tlc_runs)
    chk.violations.extend(sub.violations)
    for k, v in sub.known_hits.items():
        if k in chk.known_hits:
            chk.known_hits[k][1] += v[1]
        else:
            chk.known_hits[k] = v
    for k, v in sub.extra.items():
        chk.extra[k] = (chk.extra.get(k, 0) + v) if k == "skipped" else v


RULE = ("Large counts: all histories of spec/LifetimeBulk.tla up to depth 3-4 (thorough 4-5) in which n sharing relatives of one container "
        "are made at once (shallow clones, same-type converts, DenseVector(size, pointer) wrappers, weak / layout / deep clones, "
        "matrices on the layout, SparseLayout objects; n in {1,2,3} for every kind and n in {255, 256, 65535, 65536, 65537, 70000} for "
        "the sharing kinds), m of them are destroyed again (from either end of the std::vector; m in {1, n-1, n}), one is moved out, the "
        "original is destroyed / cleared / overwritten; DenseVectors of 2^31+32 and 2^32+32 bytes with 1-2 relatives (touched at "
        "their ends only); each replayed on real containers (ASan/UBSan build) with the reference counter of every chunk, aliasing and "
        "contents of every member, number of live chunks and allocated_memory() compared after every step.  Parallel shutdown: every "
        "combination of per-rank lifetime scripts (spec/LifetimeFin.tla, 2-3 ranks, thorough 2-4) is enumerated; for every SET of "
        "leaking ranks a sample of them is run as a real `mpirun -np N` job that ends in Runtime::finalize on every rank: per-rank pool "
        "reports, who passes finalize, the leak report and the exit status of the job are compared with the prediction")
ASSUMPTIONS = ["more than 2^31-1 simultaneous owners of one array and arrays of more than 2^31-1 elements are out of reach (TLC integers, memory); "
               "the largest explored are 131073 owners (quick: 70001) and one array of 2^32+32 bytes",
               "of the enumerated combinations of per-rank scripts only a seeded sample per set of leaking ranks is run as an MPI job"]
