"""C10 glue: seeded re-orientation of the own topology of a mesh part (input construction only).

The admissible re-numberings of an edge / a 2D face (RefCell!Aut) and the local edge table of a 2D face are printed by the
specification (spec/RefCellSanity.tla: aut, etab); this file only applies them with a seeded random choice.  Whether the
refined part still sits on its parent entities is decided by spec/MeshTopo.tla (PartTopologyOK, PartFollows).
"""


def orient_topo_part(part, aut, etab, rng):
    """part = {"name", "ents": [[vertex tuple of the parent entity, in the parent's order] per dimension], "topo": True, ...}
    -> the same part with an explicit own topology "tidx" in which every edge / 2D face is re-numbered by a random symmetry;
    None if the part is not closed (an edge or vertex of one of its entities is missing) or contains 3D entities."""
    ents = part["ents"]
    if len(ents) > 3 and ents[3]:
        return None
    if any(len(t) != 1 for t in ents[0]):
        return None
    vidx = {t[0]: i for i, t in enumerate(ents[0])}
    if len(vidx) != len(ents[0]):
        return None
    i10, i20, i21 = [], [], []
    eidx = {}
    for i, t in enumerate(ents[1] if len(ents) > 1 else []):
        s = aut[0][rng.randrange(len(aut[0]))]
        g = [t[s[k]] for k in range(len(t))]
        if any(v not in vidx for v in g) or frozenset(g) in eidx:
            return None
        eidx[frozenset(g)] = i
        i10.append([vidx[v] for v in g])
    for t in (ents[2] if len(ents) > 2 else []):
        s = aut[1][rng.randrange(len(aut[1]))]
        g = [t[s[k]] for k in range(len(t))]
        if any(v not in vidx for v in g):
            return None
        row = []
        for a, b in etab:
            e = eidx.get(frozenset((g[a], g[b])))
            if e is None:
                return None
            row.append(e)
        i20.append([vidx[v] for v in g])
        i21.append(row)
    q = dict(part)
    q["deduce"] = "none"
    q["topo"] = True
    q["tidx"] = {"i10": i10, "i20": i20, "i21": i21}
    return q
