"""Glue shared by checks/C15.py and checks/C18.py (picklable helpers for process pools).  Nothing in here decides a
property: the origin certificate attached by `finish_transfer_case` is checked by the specification."""
import json
import vmeshlib


def finish_transfer_case(path):
    """read a dump written by harness/c18_transfer.cpp, attach the origin certificate of the refinement"""
    with open(path) as f:
        d = json.loads(f.readline())
    d["par"] = vmeshlib.parents(d["levels"][0], d["levels"][1], d["fam"], d["dim"])
    return d


def transfer_weight(d):
    nl = len(d["gf"][0]) if d["gf"] else 1
    return len(d["gf"]) * nl * nl + 40 * d["ngf"] + 2000


def finish_element_case(path):
    """read a dump written by harness/c15_element.cpp; flag whether TLC can evaluate the cell volumes in 32-bit integers"""
    with open(path) as f:
        d = json.loads(f.readline())
    d["geo"] = bool(d["dyadic"]) and vmeshlib.geo_exact(d)
    return d
