"""C13, mirror-assembly route: the dof mirrors the CONTROL LAYER assembles for gates, muxers and base splitters.

harness/c13_mirrorasm.cpp creates the real Control::Domain::PartiDomainControl for a configuration on N MPI ranks (structured quadrilateral /
hexahedral or triangulated base mesh, --level arguments, prescribed owner map or a shipped partitioner), calls Control::Asm::asm_gate /
asm_muxer / asm_splitter for every finite element family on every virtual level exactly as the applications do, and dumps meshes, halos,
patch mesh parts, the assembled mirrors and the results of the real collective operations on an interpolated affine function.  This module
builds the configurations (owner maps enumerated by TLC: spec/PartitionGen.tla), concatenates the rank dumps into one case per configuration
and lets TLC judge the predicates of spec/MirrorAsm.tla (spec/MirrorAsmCheck.tla).

Nothing in here decides the property: it builds configurations, runs the harness and forwards TLC's verdicts.
"""
import json, os, random, time
import vlib

MPIRUN = ["mpirun", "--allow-run-as-root", "--oversubscribe", "--bind-to", "none", "--mca", "mpi_yield_when_idle", "1", "-np"]

CUBE_ELS = ["lagrange1", "lagrange2", "lagrange3", "discontinuous0", "discontinuous1", "crorav", "bernstein2"]
SIMP_ELS = ["lagrange1", "lagrange2", "lagrange3", "discontinuous0", "discontinuous1", "crorav"]
NAIVE = ("--parti-type", "naive")
TWOLVL = ("--parti-type", "2level")


def lv(*counts, top=0):
    """--level arguments for the layer process counts `counts` (finest first); the control layer raises the levels as far as it has to"""
    return ["%d:%d" % (top, counts[0])] + ["0:%d" % n for n in counts[1:]] + ["0"]


def tri_raw(nx, ny):
    """triangulation of the grid 0..nx x 0..ny: every unit square is cut into two triangles, the diagonal alternates"""
    X = [[i, j] for j in range(ny + 1) for i in range(nx + 1)]
    v = lambda i, j: i + (nx + 1) * j
    cells = []
    for j in range(ny):
        for i in range(nx):
            a, b, c, d = v(i, j), v(i + 1, j), v(i, j + 1), v(i + 1, j + 1)
            if (i + j) % 2 == 0:
                cells += [[a, b, d], [a, d, c]]
            else:
                cells += [[a, b, c], [b, d, c]]
    return {"X": X, "cs": 0, "cells": cells, "route": "factory"}


def cfg(nr, shape, grid, levels, owner=None, mode=None, args=(), keep_base=False, multi=True, els=None, tuples=(), tag=""):
    nx, ny, nz = (list(grid) + [1, 1])[:3]
    dim = 3 if shape == "hexa" else 2
    fam = "simplex" if shape == "tria" else "hypercube"
    c = {"nr": nr, "dim": dim, "fam": fam, "nx": nx, "ny": ny, "nz": nz, "levels": list(levels), "args": list(args), "multi": multi,
         "mode": mode or ("explicit" if owner is not None else "types"), "keep_base": keep_base,
         "els": list(els or (SIMP_ELS if fam == "simplex" else CUBE_ELS)), "tuples": list(tuples)}
    if owner is not None:
        c["owner"] = list(owner)
    if shape == "tria":
        c["raw"] = tri_raw(nx, ny)
    c["label"] = "%s%s %s np=%d levels=%s %s%s%s" % (tag, shape, "x".join(str(g) for g in (nx, ny, nz)[:dim]), nr, " ".join(levels), c["mode"],
                                                    (" " + " ".join(args)) if args else "", " keep_base" if keep_base else "") + (
                                                        (" tuples=" + "+".join(tuples)) if tuples else "")
    return c


def owner_from_ranks(ranks, ncells):
    o = [0] * ncells
    for r, cells in enumerate(ranks):
        for c in cells:
            o[c] = r
    return o


def enumerate_assignments(chk):
    """all assignments of 4 grid squares to 2..4 ranks (one per set partition; every labelling for 4 ranks: the labels decide which patches
    become siblings in a layered hierarchy) - enumerated by TLC (spec/PartitionGen.tla)"""
    out = {}
    for canon in (True, False):
        name = "gen_c13mir_parti_%d_%d.cfg" % (1 if canon else 0, os.getpid())
        with open(os.path.join(vlib.SPEC, name), "w") as f:
            f.write("SPECIFICATION Spec\nCONSTANTS NCells = 4 Canon = %s\nINVARIANTS Emit IsPartition\nCHECK_DEADLOCK FALSE\n" % ("TRUE" if canon else "FALSE"))
        try:
            r = vlib.tlc("PartitionGen", name, workers=1, timeout=600, light=True)
        finally:
            try:
                os.remove(os.path.join(vlib.SPEC, name))
            except OSError:
                pass
        chk.add_tlc(r, "PartitionGen (4 squares, canonical=%s)" % canon)
        if r.violation:
            chk.model_violation(r, "PartitionGen")
        out[canon] = sorted([p["ranks"] for p in r.printed], key=lambda x: json.dumps(x))
    return out


def configurations(tier, rng, asg):
    thorough = tier == "thorough"
    out = []
    canon = [a for a in asg[True] if len(a) >= 2]                 # 7 + 6 + 1 set partitions of the four squares into 2, 3, 4 patches
    lab4 = [a for a in asg[False] if len(a) == 4]                  # the 24 labellings of four one-square patches
    # ---- single layer, base splitter: gates on every level + patch mirrors on the base-mesh levels ------------------------------------
    pick = canon if thorough else [a for k, a in enumerate(canon) if k % 3 == 0]
    for k, a in enumerate(pick):
        o = owner_from_ranks(a, 4)
        # tuple spaces: the 2-component system objects everywhere, the 3-component ones with a base splitter on one configuration per
        # process count (build_splitter_tuple with three components: known finding C13-splitter-tuple3)
        tup = ("t2", "t3") if k in (0, 1, len(pick) - 1) else ("t2",)
        out.append(cfg(len(a), "quad", (2, 2), ["2", "0"] if (thorough or k % 2 == 0) else ["1", "0"], owner=o, keep_base=True, tuples=tup, tag="enum:"))
    pick = canon if thorough else [a for k, a in enumerate(canon) if k % 5 == 1]
    for a in pick:
        out.append(cfg(len(a), "tria", (2, 2), ["1", "0"], owner=owner_from_ranks(a, 4), keep_base=True, tag="enum:"))
    pick = canon if thorough else [a for k, a in enumerate(canon) if k % 7 == 2]
    for a in pick:
        out.append(cfg(len(a), "hexa", (2, 2, 1), ["1", "0"], owner=owner_from_ranks(a, 4), keep_base=True, tag="enum:"))
    # ---- layered hierarchies 4 -> 2 -> 1 and 4 -> 1 on the four squares: which patches are siblings is decided by the labelling ---------
    pick = lab4 if thorough else [a for k, a in enumerate(lab4) if k in (0, 9, 14)]
    for k, a in enumerate(pick):
        o = owner_from_ranks(a, 4)
        out.append(cfg(4, "quad", (2, 2), lv(4, 2, 1), owner=o, tuples=("t2", "t3"), tag="enum:"))
        if thorough or k == 1:
            out.append(cfg(4, "tria", (2, 2), lv(4, 2, 1), owner=o, tag="enum:"))
        if thorough and k % 4 == 0:
            out.append(cfg(4, "hexa", (2, 2, 1), lv(4, 2, 1), owner=o, tag="enum:"))
            out.append(cfg(4, "quad", (2, 2), lv(4, 1, top=1), owner=o, keep_base=True, tuples=("t2",), tag="enum:"))
    if not thorough:
        out.append(cfg(4, "hexa", (2, 2, 1), lv(4, 2, 1), owner=[0, 1, 2, 3], els=["lagrange2", "lagrange3", "crorav", "discontinuous1"], tag="enum:"))
        out.append(cfg(4, "quad", (2, 2), lv(4, 1, top=1), owner=[0, 2, 1, 3], keep_base=True, tuples=("t2",), tag="enum:"))
    # ---- 4x4 squares, sampled owner maps (seeded): patches of unequal size, ragged interfaces, disconnected patches -----------------------
    def rand_owner(nc, nr):
        o = list(range(nr)) + [rng.randrange(nr) for _ in range(nc - nr)]
        rng.shuffle(o)
        return o
    for rep in range(4 if thorough else 1):
        out.append(cfg(4, "quad", (4, 4), lv(4, 2, 1), owner=rand_owner(16, 4), els=["lagrange1", "lagrange2", "lagrange3", "crorav"], tag="rand:"))
        out.append(cfg(3, "quad", (4, 4), ["1", "0"], owner=rand_owner(16, 3), keep_base=True, els=["lagrange2", "discontinuous1", "bernstein2"], tag="rand:"))
        if thorough:
            out.append(cfg(6, "quad", (3, 2), lv(6, 3, 1), owner=rand_owner(6, 6), tuples=("t2", "t3"), tag="rand:"))
            out.append(cfg(6, "tria", (3, 2), lv(6, 2, 1), owner=rand_owner(6, 6), tag="rand:"))
            out.append(cfg(8, "quad", (4, 2), lv(8, 4, 2, 1), owner=rand_owner(8, 8), els=["lagrange2", "lagrange3", "crorav"], tag="rand:"))
            out.append(cfg(8, "hexa", (2, 2, 2), lv(8, 2, 1), owner=rand_owner(8, 8), els=["lagrange2", "lagrange3", "crorav"], tag="rand:"))
            out.append(cfg(5, "tria", (4, 4), ["1", "0"], owner=rand_owner(16, 5), keep_base=True, tag="rand:"))
    # ---- the shipped partitioners through the command line ---------------------------------------------------------------------------------
    out.append(cfg(4, "quad", (4, 4), lv(4, 2, 1), args=NAIVE, els=["lagrange2", "lagrange3"]))
    out.append(cfg(2, "quad", (2, 2), ["2", "0"], keep_base=True, els=["lagrange2", "crorav"]))
    if thorough:
        out.append(cfg(4, "quad", (2, 2), lv(4, 2, 1, top=3), args=TWOLVL, els=["lagrange2"]))
        out.append(cfg(8, "quad", (4, 2), lv(8, 2, 1), args=TWOLVL, els=["lagrange2", "lagrange3"]))
        out.append(cfg(6, "quad", (6, 1), lv(6, 2, 1), args=NAIVE))
        out.append(cfg(3, "quad", (3, 3), ["2", "1"], args=NAIVE, keep_base=True))
        out.append(cfg(4, "hexa", (2, 2, 2), ["1", "0"], args=NAIVE, keep_base=True))
    return out


def merge(c):
    """concatenate the rank dumps of one configuration into one case for TLC"""
    ranks = []
    for r in range(c["nr"]):
        with open(c["out"] + ".r%d" % r) as f:
            ranks.append(json.loads(f.readline()))
    want = []
    for s in c["levels"]:
        a = s.split(":")
        want.append({"lvl": int(a[0]), "np": int(a[1]) if len(a) > 1 else -1})
    rec = {"id": c["id"], "nr": c["nr"], "dim": c["dim"], "fam": c["fam"], "grid": [c["nx"], c["ny"], c["nz"]], "want": want,
           "multi": c["multi"], "keep_base": c["keep_base"], "els": c["els"], "tuples": c["tuples"], "K": ranks[0]["K"], "ranks": ranks}
    path = c["out"] + ".json"
    with open(path, "w") as f:
        f.write(json.dumps(rec, separators=(",", ":")) + "\n")
    ndof = sum(len(v.get("sync0", [])) + sum(len(m) for m in v.get("gate", {}).get("mir", [])) + 20
               for rk in ranks for e in rk["els"] for v in e["virt"])
    ncell = sum(lvl["mesh"]["n"][-1] for rk in ranks for la in rk["layers"] for lvl in la["levels"])
    for r in range(c["nr"]):
        os.remove(c["out"] + ".r%d" % r)
    return path, ncell * len(c["els"]) + ndof, ranks[0]["chosen"]


def judge(chk, items, gdir, nproc):
    """TLC evaluates spec/MirrorAsmCheck.tla on the merged dumps: the cases are spread over `nproc` batches of similar weight (longest first),
    one TLC process per batch (threads only: this runs next to the other parts of the check)"""
    import concurrent.futures as cf
    nb = max(1, min(nproc, len(items)))
    batches = [[] for _ in range(nb)]
    load = [0] * nb
    for it in sorted(items, key=lambda x: -x["weight"]):
        k = load.index(min(load))
        batches[k].append(it)
        load[k] += it["weight"] + 1500
    paths = []
    for k, b in enumerate(batches):
        path = os.path.join(gdir, "c13mir_batch_%d_%d.ndjson" % (os.getpid(), k))
        with open(path, "w") as out:
            for it in b:
                with open(it["path"]) as f:
                    out.write(f.readline().rstrip("\n") + "\n")
        paths.append(path)
    verdicts = {}
    try:
        with cf.ThreadPoolExecutor(max_workers=nb) as ex:
            futs = [ex.submit(vlib.tlc, "MirrorAsmCheck", "MirrorAsmCheck.cfg", env={"C13_MIRROR": paths[k]}, timeout=3000, xmx="2g",
                              tag="c13mir_%d" % k) for k in range(nb)]
            for k, fu in enumerate(futs):
                r = fu.result()
                chk.add_tlc(r, "MirrorAsmCheck batch %d (%d configurations)" % (k, len(batches[k])))
                if r.violation:
                    raise vlib.MachineryError("TLC reported an error while evaluating mirror-assembly batch %d: %s\n%s" % (k, r.violation, r.out[-1500:]))
                if len(r.printed) != len(batches[k]):
                    raise vlib.MachineryError("TLC evaluated %d of %d configurations of mirror-assembly batch %d" % (len(r.printed), len(batches[k]), k))
                for v in r.printed:
                    verdicts[v["id"]] = v
    finally:
        for p in paths:
            try:
                os.remove(p)
            except OSError:
                pass
    return verdicts


def sig(c, pred, el, vi):
    return {"kind": "mirrorasm", "mode": c["mode"], "nr": c["nr"], "shape": c["fam"] + str(c["dim"]), "pred": pred, "el": el,
            "layers": len(c["levels"]) - 1, "keep_base": c["keep_base"]}


def run_mirror(chk):
    t0 = time.time()
    binary, = vlib.build(["c13_mirrorasm"], variant="mpi")
    rng = random.Random(vlib.seed() * 7919 + 13)
    gdir = os.path.join(vlib.BUILD, "gen", chk.pid, "c13mir")
    os.makedirs(gdir, exist_ok=True)
    asg = enumerate_assignments(chk)
    # the deeper configuration set (every owner map, 6..8 ranks, 2x2x2 hexahedra) has not been run yet on the overloaded machine: until it has
    # been (C13_MIRROR_THOROUGH=1 bin/check C13 --tier thorough), the thorough tier judges the quick set as well
    deep = chk.tier == "thorough" and os.environ.get("C13_MIRROR_THOROUGH", "") == "1"
    cases = configurations("thorough" if deep else "quick", rng, asg)
    for k, c in enumerate(cases):
        c["id"] = "ma%d" % k
        c["out"] = os.path.join(gdir, c["id"])
    results = {}
    for nr in sorted({c["nr"] for c in cases}):
        grp = [c for c in cases if c["nr"] == nr]
        shards = max(1, min(len(grp) // 4 + 1, 8 // nr))
        try:
            res = vlib.run_cases(binary, grp, tmo=60, shards=shards, wrapper=MPIRUN + [str(nr)], max_abnormal=6)
        except vlib.MachineryError as e:
            # an mpirun job that fails to start on the loaded machine is not a statement about the property: one retry in a single job
            vlib.log("[c13mir] run on %d ranks failed outside a case (%s); retrying once" % (nr, str(e).splitlines()[0][:200]))
            res = vlib.run_cases(binary, grp, tmo=60, shards=1, wrapper=MPIRUN + [str(nr)], max_abnormal=6)
        for c, rr in zip(grp, res):
            results[c["id"]] = rr
    good, items, chosen = [], [], {}
    for c in cases:
        rr = results[c["id"]]
        slim = {k: c[k] for k in c if k not in ("out", "raw")}
        chk.count("mirrorasm:" + c["label"] + json.dumps(c.get("owner", [])), c["nr"] >= 2)
        if rr.get("ok") is True:
            try:
                path, weight, ch = merge(c)
            except (OSError, ValueError) as e:
                chk.violation(sig(c, "harness:nodump", "", -1), "%s (%s): a rank did not write its dump: %s" % (c["id"], c["label"], e),
                              {"kind": "case", "harness": "c13_mirrorasm", "np": c["nr"], "case": slim})
                continue
            good.append(c)
            chosen[c["id"]] = ch
            items.append({"id": c["id"], "path": path, "weight": weight})
            continue
        desc = rr.get("why") or ("outcome %s: %s" % (rr.get("outcome"), (rr.get("stderr") or "")[-700:]))
        chk.violation(sig(c, "harness:" + str(rr.get("outcome", "bad")), "", -1), "%s (%s): %s" % (c["id"], c["label"], desc),
                      {"kind": "case", "harness": "c13_mirrorasm", "np": c["nr"], "case": slim, "result": rr})
    vlib.log("[c13mir] %d configurations run on MPI ranks %.1fs" % (len(cases), time.time() - t0))
    verdicts = judge(chk, items, gdir, nproc=6 if chk.tier == "thorough" else 4)
    tot = {"gate": 0, "gate_multidim": 0, "child": 0, "child_multidim": 0, "patch": 0, "values": 0}
    for c in good:
        v = verdicts.get(c["id"])
        if v is None:
            raise vlib.MachineryError("no verdict for " + c["id"])
        for k in tot:
            tot[k] += v["info"][k]
        slim = {k: c[k] for k in c if k not in ("out", "raw")}
        seen = set()
        for fl in v["fails"]:
            key = (fl["p"], fl["el"])
            if key in seen:
                continue
            seen.add(key)
            chk.violation(sig(c, fl["p"], fl["el"], fl["vi"]),
                          "%s (%s; chosen levels %s): %s does not hold for %s (world rank %d, virtual level %d)" % (
                              c["id"], c["label"], chosen[c["id"]], fl["p"], fl["el"] or "-", fl["w"], fl["vi"]),
                          {"kind": "case", "harness": "c13_mirrorasm", "np": c["nr"], "case": slim, "fails": v["fails"][:20]})
        try:
            os.remove(c["out"] + ".json")
        except OSError:
            pass
    chk.extra["mirrorasm_configurations"] = len(cases)
    chk.extra["mirrorasm_process_counts"] = sorted({c["nr"] for c in cases})
    chk.extra["mirrorasm_gate_mirrors_judged"] = tot["gate"]
    chk.extra["mirrorasm_gate_mirrors_with_dofs_of_several_dimensions"] = tot["gate_multidim"]
    chk.extra["mirrorasm_muxer_child_mirrors_judged"] = tot["child"]
    chk.extra["mirrorasm_muxer_child_mirrors_with_dofs_of_several_dimensions"] = tot["child_multidim"]
    chk.extra["mirrorasm_splitter_patch_mirrors_judged"] = tot["patch"]
    chk.extra["mirrorasm_values_of_collective_operations_compared"] = tot["values"]
    for c in good[:1] + [c for c in good if len(c["levels"]) > 2][:1]:
        chk.sample({"id": c["id"], "mirrorasm": c["label"], "owner": c.get("owner"), "chosen": chosen[c["id"]], "verdict": verdicts[c["id"]]})
    vlib.log("[c13mir] mirror assembly: %d configurations judged in %.1fs" % (len(good), time.time() - t0))
    return len(cases)
