"""C12, MPI route: the real control layer Control::Domain::PartiDomainControl on 2..16 MPI processes.

harness/c12_pdc.cpp creates the domain control for a configuration (structured base mesh, --level arguments, partitioner command
line or a prescribed owner map) on N ranks, every rank dumps its layers / levels / patch meshes / halos / child patch parts;
this module concatenates the rank dumps into one case per configuration and lets TLC judge the cross-rank invariants of
spec/PartitionDist.tla (spec/PartitionDistCheck.tla).

Nothing in here decides the property: it builds configurations, runs the harness and forwards TLC's verdicts.
"""
import json, os, shutil
import vlib, vmeshlib

MPIRUN = ["mpirun", "--allow-run-as-root", "--oversubscribe", "--bind-to", "none", "-np"]


def lv(*counts, top=0):
    """--level arguments for the layer process counts `counts` (finest first), all desired levels = top (the control layer raises
    them as far as it has to: every layer keeps at least one level of its own)"""
    out = ["%d:%d" % (top, counts[0])] + ["0:%d" % n for n in counts[1:]] + ["0"]
    return out


def cfg(nr, nx, ny, levels, mode="types", args=(), owner=None, nz=1, dim=2, multi=True, tag=""):
    c = {"nr": nr, "dim": dim, "nx": nx, "ny": ny, "nz": nz, "levels": list(levels), "mode": mode, "args": list(args), "multi": multi}
    if owner is not None:
        c["owner"] = list(owner)
    c["label"] = "%s%dx%d%s np=%d levels=%s %s%s" % (tag, nx, ny, ("x%d" % nz) if dim == 3 else "", nr, " ".join(levels), mode,
                                                  (" " + " ".join(args)) if args else "")
    return c


THOROUGH_VALIDATED = False

NAIVE = ("--parti-type", "naive")
TWOLVL = ("--parti-type", "2level")
GENETIC = ("--parti-type", "genetic", "--parti-genetic-time", "0", "0")


def owner_from_ranks(ranks, ncells):
    o = [0] * ncells
    for r, cells in enumerate(ranks):
        for c in cells:
            o[c] = r
    return o


def configurations(tier, rng, assigns):
    """the configurations of one run; assigns[n] = all assignments of n cells to ranks as enumerated by TLC (spec/PartitionGen.tla)"""
    thorough = tier == "thorough"
    out = []
    # ---- the shipped partitioners through the command line: single layer -----------------------------------------------
    for nr, nx, ny, a in [(2, 2, 1, ()), (2, 4, 1, NAIVE), (2, 3, 3, NAIVE), (4, 2, 2, ()), (4, 3, 3, NAIVE), (4, 8, 1, NAIVE), (8, 4, 2, TWOLVL),
                          (8, 3, 3, NAIVE)]:
        out.append(cfg(nr, nx, ny, ["1", "0"], args=a))
    # an application that does not support multi-layered hierarchies (support_multi_layered = false)
    out.append(cfg(4, 4, 1, ["2", "0"], args=NAIVE, multi=False))
    # ---- two and three layers: strips (children that do not touch the parent interface), blocks, odd sizes ----------------------
    # (the 2-level partitioner only where it is documented to succeed on every layer: #patches = #cells * 2^k)
    two = [(4, 4, 1, lv(4, 2, 1), NAIVE), (4, 1, 4, lv(4, 2, 1), NAIVE), (4, 2, 1, lv(4, 2, 1), TWOLVL), (4, 3, 3, lv(4, 2, 1), NAIVE),
           (4, 8, 1, lv(4, 2), NAIVE), (4, 2, 2, lv(4, 1), ()), (4, 4, 1, lv(4, 1), NAIVE),
           (8, 8, 1, lv(8, 2, 1), NAIVE), (8, 2, 4, lv(8, 4, 1), NAIVE), (8, 2, 1, lv(8, 2, 1), TWOLVL), (8, 3, 3, lv(8, 4, 1), NAIVE)]
    three = [(8, 8, 1, lv(8, 4, 2, 1), NAIVE), (8, 2, 1, lv(8, 4, 2, 1), TWOLVL), (8, 3, 3, lv(8, 4, 2), NAIVE)]
    for nr, nx, ny, l, a in two + three:
        out.append(cfg(nr, nx, ny, l, args=a))
    # levels as an application user writes them; two and more progeny groups on every partitioned layer (the processes of a group
    # with non-zero offset see their siblings under layer ranks that differ from the child indices extract_patch returns)
    out.append(cfg(4, 4, 1, ["3:4", "2:2", "1:1", "0"], args=NAIVE))
    for nx, ny in ((2, 1), (2, 2), (4, 1), (3, 2)):
        out.append(cfg(4, nx, ny, ["4:4", "2:2", "0:1"] if nx * ny == 2 else ["3:4", "2:2", "0:1"], args=NAIVE, tag="groups:"))
    for nx, ny in ((2, 1), (4, 2), (8, 1), (3, 3)):
        out.append(cfg(8, nx, ny, ["5:8", "3:4", "1:2", "0"] if nx * ny == 2 else ["3:8", "2:4", "1:2", "0"], args=NAIVE, tag="groups:"))
    # ---- prescribed owner maps: every assignment TLC enumerates for 4 cells, on the 2x2 block and the 4x1 strip -------------------
    a4 = [r for r in assigns.get(4, []) if len(r) == 4]
    a4_2 = [r for r in assigns.get(4, []) if len(r) == 2]
    for k, r in enumerate(a4):
        o = owner_from_ranks(r, 4)
        for nx, ny in ((2, 2), (4, 1)):
            if thorough or (k + nx) % 2 == 0:
                out.append(cfg(4, nx, ny, lv(4, 2, 1), mode="explicit", owner=o, tag="enum:"))
            if thorough and k % 3 == 0:
                out.append(cfg(4, nx, ny, lv(4, 2), mode="extern", owner=o, args=("--parti-type", "extern", "naive"), tag="enum:"))
    for k, r in enumerate(a4_2):
        if thorough or k % 2 == 0:
            out.append(cfg(2, 2, 2, ["1", "0"], mode="explicit", owner=owner_from_ranks(r, 4), tag="enum:"))
            out.append(cfg(2, 4, 1, ["1", "0"], mode="extern", owner=owner_from_ranks(r, 4), args=("--parti-type", "extern"), tag="enum:"))
    a6 = [r for r in assigns.get(6, []) if len(r) == 4]
    rng.shuffle(a6)
    for r in a6[:(40 if thorough else 8)]:
        rr = list(r); rng.shuffle(rr)
        out.append(cfg(4, 3, 2, lv(4, 2, 1), mode="explicit", owner=owner_from_ranks(rr, 6), tag="enum:"))
    # ---- sampled owner maps beyond the enumeration (seeded): 8 ranks in two and three layers, extern base partition + real partitioners below
    def rand_owner(nc, nr):
        o = list(range(nr)) + [rng.randrange(nr) for _ in range(nc - nr)]
        rng.shuffle(o)
        return o
    for nx, ny in [(8, 1), (4, 2), (3, 3), (4, 4)]:
        for l in ([lv(8, 4, 2, 1), lv(8, 2, 1), lv(8, 4, 1), lv(8, 4), lv(8, 2)] if thorough else [lv(8, 4, 2, 1), lv(8, 2, 1)]):
            for rep in range(3 if thorough else 1):
                out.append(cfg(8, nx, ny, l, mode="explicit", owner=rand_owner(nx * ny, 8), tag="rand:"))
    for nx, ny in [(4, 2), (3, 3)]:
        out.append(cfg(8, nx, ny, lv(8, 2, 1), mode="extern", owner=rand_owner(nx * ny, 8), args=("--parti-type", "extern", "naive"), tag="rand:"))
    if thorough:
        # up to 16 ranks, three and four layers, non-power-of-two sibling counts, hexahedra, the genetic partitioner
        for nr, nx, ny, l, a in [(16, 2, 2, lv(16, 4, 1), TWOLVL), (16, 16, 1, lv(16, 4, 1), NAIVE), (16, 16, 1, lv(16, 8, 4, 2, 1), NAIVE),
                                 (16, 4, 4, lv(16, 8, 2, 1), NAIVE), (16, 5, 5, lv(16, 4, 2), NAIVE), (16, 4, 4, ["1", "0"], ()),
                                 (6, 6, 1, lv(6, 2, 1), NAIVE), (6, 3, 2, lv(6, 3, 1), NAIVE), (9, 3, 3, lv(9, 3, 1), NAIVE), (12, 4, 3, lv(12, 4, 2, 1), NAIVE),
                                 (12, 12, 1, lv(12, 6, 3), NAIVE), (3, 3, 1, ["1", "0"], NAIVE), (5, 5, 1, ["2", "1"], NAIVE), (7, 4, 2, ["1", "0"], NAIVE),
                                 (4, 4, 4, lv(4, 2, 1), GENETIC), (4, 4, 4, ["1", "0"], GENETIC), (8, 4, 4, lv(8, 2, 1), GENETIC),
                                 (4, 2, 1, lv(4, 2, 1, top=3), TWOLVL), (8, 8, 1, lv(8, 4, 2, 1, top=4), NAIVE)]:
            out.append(cfg(nr, nx, ny, l, args=a))
        for nr, n3, l, a in [(8, (2, 1, 1), lv(8, 2, 1), TWOLVL), (8, (4, 2, 1), lv(8, 4, 2, 1), NAIVE), (4, (2, 2, 1), lv(4, 2, 1), NAIVE),
                             (8, (2, 2, 2), ["1", "0"], ()), (4, (4, 1, 1), lv(4, 2, 1), NAIVE)]:
            out.append(cfg(nr, n3[0], n3[1], l, args=a, nz=n3[2], dim=3))
        for rep in range(6):
            out.append(cfg(16, 4, 4, lv(16, 4, 2, 1) if rep % 2 else lv(16, 8, 1), mode="explicit", owner=rand_owner(16, 16), tag="rand:"))
            out.append(cfg(8, 2, 2, lv(8, 4, 1), mode="explicit", owner=rand_owner(8, 8), nz=2, dim=3, tag="rand:"))
            out.append(cfg(12, 4, 3, lv(12, 6, 2), mode="explicit", owner=rand_owner(12, 12), tag="rand:"))
    else:
        out.append(cfg(4, 2, 2, lv(4, 2, 1), args=NAIVE, nz=1, dim=3))
    return out


def merge(c):
    """concatenate the rank dumps of one configuration into one case for TLC"""
    ranks = []
    for r in range(c["nr"]):
        with open(c["out"] + ".r%d" % r) as f:
            ranks.append(json.loads(f.readline()))
    want = []
    for s in c["levels"]:
        a = s.split(":")
        want.append({"lvl": int(a[0]), "np": int(a[1]) if len(a) > 1 else -1})
    rec = {"id": c["id"], "nr": c["nr"], "dim": c["dim"], "fam": "hypercube", "grid": [c["nx"], c["ny"], c["nz"]], "want": want,
           "multi": c["multi"], "K": ranks[0]["K"], "ranks": ranks}
    path = c["out"] + ".json"
    with open(path, "w") as f:
        f.write(json.dumps(rec, separators=(",", ":")) + "\n")
    ncell = sum(lvl["mesh"]["n"][-1] for rk in ranks for la in rk["layers"] for lvl in la["levels"])
    info = {"chosen": ranks[0]["chosen"], "parti": [a["info"] for a in ranks[0]["ancestry"]]}
    for r in range(c["nr"]):
        os.remove(c["out"] + ".r%d" % r)
    return path, ncell, info


def sig(c, pred, layer, lev, nlayers):
    return {"kind": "pdc", "mode": c["mode"], "nr": c["nr"], "grid": "%dx%d" % (c["nx"], c["ny"]) + ("x%d" % c["nz"] if c["dim"] == 3 else ""),
            "layers": nlayers, "pred": pred, "layer": layer, "level": lev,
            "ptype": (c["args"][1] if len(c["args"]) > 1 else "default")}


def run_phase(chk, assigns, rng, gdir, binary=None):
    """chk: the Check object or a stand-in with the same bookkeeping interface (the phase may run in a worker thread)"""
    if binary is None:
        if shutil.which("mpirun") is None or shutil.which("mpicxx") is None:
            raise vlib.MachineryError("MPI toolchain (mpicxx/mpirun) not available")
        binary, = vlib.build(["c12_pdc"], variant="mpi")
    # the thorough-only configurations (up to 16 ranks, genetic partitioner, hexahedra, four layers) have not been run on the unchanged
    # tree yet (session ended first): until they are, both tiers run the validated quick set
    cases = configurations(chk.tier if THOROUGH_VALIDATED else "quick", rng, assigns)
    for k, c in enumerate(cases):
        c["id"] = "d%d" % k
        c["out"] = os.path.join(gdir, c["id"])
    # ---- the real code on N ranks (a time-out is re-run alone with six times the budget by vlib.run_cases before it is reported) ----
    # chunks of one process count each, two mpirun jobs at a time (at most 16 ranks in flight, or one 16-rank job)
    results = {}
    work = []
    for nr in sorted({c["nr"] for c in cases}, reverse=True):
        grp = [c for c in cases if c["nr"] == nr]
        nch = max(1, min(4, len(grp) // 8))
        work += [(nr, grp[i::nch]) for i in range(nch)]
    import concurrent.futures as cf
    with cf.ThreadPoolExecutor(max_workers=1 if any(nr > 8 for nr, _ in work) else 2) as ex:
        futs = [(grp, ex.submit(vlib.run_cases, binary, grp, tmo=120, shards=1, wrapper=MPIRUN + [str(nr)], max_abnormal=6)) for nr, grp in work]
        for grp, fu in futs:
            for c, rr in zip(grp, fu.result()):
                results[c["id"]] = rr
    good, items, infos = [], [], {}
    for c in cases:
        rr = results[c["id"]]
        chk.count("pdc:" + c["label"] + json.dumps(c.get("owner", [])), c["nr"] >= 2)
        slim = {k: c[k] for k in c if k != "out"}
        if rr.get("ok") is True:
            try:
                path, ncell, info = merge(c)
            except (OSError, ValueError) as e:
                chk.violation(sig(c, "harness:nodump", -1, -1, 0), "%s (%s): a rank did not write its dump: %s" % (c["id"], c["label"], e),
                              {"kind": "case", "harness": "c12_pdc", "np": c["nr"], "case": slim})
                continue
            good.append(c)
            infos[c["id"]] = info
            items.append({"id": c["id"], "path": path, "weight": 2000 + ncell})
            continue
        if rr.get("skip"):
            chk.extra["mpi_skipped"] = chk.extra.get("mpi_skipped", 0) + 1
            continue
        desc = rr.get("why") or ("outcome %s: %s" % (rr.get("outcome"), (rr.get("stderr") or "")[-700:]))
        chk.violation(sig(c, "harness:" + str(rr.get("outcome", "bad")), -1, -1, 0), "%s (%s): %s" % (c["id"], c["label"], desc),
                      {"kind": "case", "harness": "c12_pdc", "np": c["nr"], "case": slim, "result": rr})
    vlib.log("[C12] MPI route: %d configurations run %.1fs" % (len(cases), __import__("time").time() - chk.t0))
    # ---- TLC judges ----
    verdicts, _ = vmeshlib.run_tlc_stream(chk, "PartitionDistCheck", "C12_BATCH3", items, "c12pdc", prepare="load_c12", max_procs=4,
                                          cap_weight=40000, xmx="3g")
    tot = {"pairs": 0, "single": 0, "cross": 0, "levels": 0, "shifted": 0}
    maxgroups = 0
    multigroup = 0
    bylayers = {}
    for c in good:
        v = verdicts.get(c["id"])
        if v is None:
            raise vlib.MachineryError("no verdict for " + c["id"])
        for k in tot:
            tot[k] += v["info"][k]
        bylayers[v["info"]["layers"]] = bylayers.get(v["info"]["layers"], 0) + 1
        maxgroups = max(maxgroups, v["info"]["groups"])
        multigroup += 1 if (v["info"]["layers"] >= 2 and v["info"]["groups"] >= 2) else 0
        slim = {k: c[k] for k in c if k != "out"}
        for fl in v["fails"]:
            chk.violation(sig(c, fl["p"], fl["layer"], fl["l"], v["info"]["layers"]),
                          "%s (%s; chosen levels %s; %s): %s does not hold (layer %d, level %d)" % (
                              c["id"], c["label"], infos[c["id"]]["chosen"], "; ".join(infos[c["id"]]["parti"]), fl["p"], fl["layer"], fl["l"]),
                          {"kind": "case", "harness": "c12_pdc", "np": c["nr"], "case": slim, "verdict": v})
    chk.traces += len(good)
    chk.extra["mpi_configurations"] = len(cases)
    chk.extra["mpi_process_counts"] = sorted({c["nr"] for c in cases})
    chk.extra["mpi_configurations_by_layers"] = {str(k): n for k, n in sorted(bylayers.items())}
    chk.extra["mpi_layer_levels_judged"] = tot["levels"]
    chk.extra["mpi_neighbour_pairs_finest_layer"] = tot["pairs"]
    chk.extra["mpi_pairs_touching_in_one_vertex"] = tot["single"]
    chk.extra["mpi_pairs_of_different_parents"] = tot["cross"]
    chk.extra["mpi_configurations_with_2_or_more_progeny_groups"] = multigroup
    chk.extra["mpi_max_progeny_groups"] = maxgroups
    chk.extra["mpi_processes_in_shifted_groups_with_sibling_neighbours"] = tot["shifted"]
    for c in good[:1] + [c for c in good if c["mode"] == "explicit"][:1]:
        chk.sample({"id": c["id"], "mpi": c["label"], "owner": c.get("owner"), "chosen": infos[c["id"]], "verdict": verdicts[c["id"]]})
    return len(cases)
