"""C12, decompositions into MANY small patches: which meshes, which generator families of spec/PartitionGenMany.tla are
enumerated for them, how the enumerated configurations are sampled per tier, and the TLC judging of the (compact)
dumps by spec/PartitionManyCheck.tla.

Nothing in here decides the property: the assignments are the `rank_of` tables printed by TLC (grouped into the
cells-of-rank lists the harness wants), the verdicts are the rows printed by PartitionManyCheck.tla.
"""
import json, os
import concurrent.futures as cf
import vlib

# name, family, dim, source, (NX, NY, NZ, Per) of the generator grid, constants of PartitionGenMany, prerefine,
# joint refinements (quick, thorough), in the quick tier?
#   structured meshes: lexicographic numbering (StructUnitCubeFactory; simplices = ShapeConvertFactory of the boxes)
#   "pre" meshes: a shipped coarse mesh refined k times BEFORE the partitioning: 2-level numbering (children of cell 0,
#   children of cell 1, ...; edges/faces numbered by the dimension of their parent) - only the cell-number generators
#   file meshes with >= 190 cells: unstructured numbering, with their mesh parts (split into the many patches)
_G_ALL = '{"shear","stair","tile","chunk","hash","voronoi","mixed"}'
_G_NUM = '{"chunk","hash"}'


def meshes(meshdir, cells_of):
    """cells_of: {file name: number of cells of the shipped mesh} (read from the files by the check)"""
    S = []

    def struct(name, fam, dim, nx, ny, nz, per, consts, nref, quick=True, gens=_G_ALL):
        S.append({"name": name, "fam": fam, "dim": dim, "src": {"fac": "struct", "nx": nx, "ny": ny, "nz": nz}, "grid": (nx, ny, nz if dim == 3 else 1, per),
                  "consts": "Gens = %s %s" % (gens, consts), "pre": 0, "nref": nref, "quick": quick, "fileparts": 0})

    def pre(name, fam, dim, fname, k, consts, nref, quick=False):
        if fname not in cells_of:
            return
        coarse = cells_of[fname]
        fac = {("hypercube", 2): 4, ("hypercube", 3): 8, ("simplex", 2): 4, ("simplex", 3): 12}[(fam, dim)]   # children per cell
        S.append({"name": name, "fam": fam, "dim": dim, "src": {"file": os.path.join(meshdir, fname)}, "grid": (coarse * fac ** k, 1, 1, 1),
                  "consts": "Gens = %s %s" % (_G_NUM, consts), "pre": k, "nref": nref, "quick": quick, "fileparts": 1})

    struct("many:quad16x16", "hypercube", 2, 16, 16, 1, 1, "BlkX = {2, 4} BlkY = {1, 2} BlkZ = {1} Shears = {0, 1, 3} Tiles = {1, 2} RankCounts = {64, 100}", (2, 2))
    struct("many:quad24x24", "hypercube", 2, 24, 24, 1, 1, "BlkX = {2, 4} BlkY = {1, 2} BlkZ = {1} Shears = {0, 1, 5} Tiles = {1, 2} RankCounts = {144, 96}", (1, 2))
    struct("many:hexa6x6x6", "hypercube", 3, 6, 6, 6, 1, "BlkX = {2, 3} BlkY = {1} BlkZ = {1} Shears = {0, 1, 2} Tiles = {1, 3, 4} RankCounts = {100, 72}", (1, 1))
    struct("many:tria8x8", "simplex", 2, 8, 8, 1, 4, "BlkX = {4, 6} BlkY = {1, 2} BlkZ = {1} Shears = {0, 1, 3} Tiles = {1, 2} RankCounts = {64, 100}", (1, 2))
    struct("many:tetra2x2x2", "simplex", 3, 2, 2, 2, 24, "BlkX = {2, 3, 4} BlkY = {1} BlkZ = {1} Shears = {0, 1, 5} Tiles = {1, 3} RankCounts = {64, 96}", (1, 1))
    struct("many:quad40x6", "hypercube", 2, 40, 6, 1, 1, "BlkX = {2, 3} BlkY = {1, 2} BlkZ = {1} Shears = {0, 1, 7} Tiles = {1, 2} RankCounts = {80, 120}", (1, 2), quick=False)
    struct("many:hexa8x4x4", "hypercube", 3, 8, 4, 4, 1, "BlkX = {2} BlkY = {1, 2} BlkZ = {1} Shears = {0, 1, 3} Tiles = {3, 4} RankCounts = {64}", (1, 2), quick=False)
    struct("many:tetra3x2x2", "simplex", 3, 3, 2, 2, 24, "BlkX = {3, 4} BlkY = {1} BlkZ = {1} Shears = {0, 1, 7} Tiles = {1, 3} RankCounts = {96}", (1, 1), quick=False)
    pre("many:unit-square-quad^4", "hypercube", 2, "unit-square-quad.xml", 4, "BlkX = {1} BlkY = {1} BlkZ = {1} Shears = {0} Tiles = {1} RankCounts = {64, 51, 85}", (1, 2), quick=True)
    pre("many:unit-cube-tetra^2", "simplex", 3, "unit-cube-tetra.xml", 2, "BlkX = {1} BlkY = {1} BlkZ = {1} Shears = {0} Tiles = {1} RankCounts = {96, 144}", (0, 1), quick=True)
    pre("many:unit_circle_tria_6^3", "simplex", 2, "unit_circle_tria_6.xml", 3, "BlkX = {1} BlkY = {1} BlkZ = {1} Shears = {0} Tiles = {1} RankCounts = {96, 64, 55}", (1, 2))
    pre("many:l-shape-quad^3", "hypercube", 2, "l-shape-quad.xml", 3, "BlkX = {1} BlkY = {1} BlkZ = {1} Shears = {0} Tiles = {1} RankCounts = {48, 64, 37}", (1, 2))
    pre("many:unit-cube-hexa^3", "hypercube", 3, "unit-cube-hexa.xml", 3, "BlkX = {1} BlkY = {1} BlkZ = {1} Shears = {0} Tiles = {1} RankCounts = {128, 100}", (1, 1))
    pre("many:flowbench_c3d_03_hexa_256", "hypercube", 3, "flowbench_c3d_03_hexa_256.xml", 0, "BlkX = {1} BlkY = {1} BlkZ = {1} Shears = {0} Tiles = {1} RankCounts = {64, 85}", (1, 1))
    pre("many:flowbench_c2d_01_quad_32^2", "hypercube", 2, "flowbench_c2d_01_quad_32.xml", 2, "BlkX = {1} BlkY = {1} BlkZ = {1} Shears = {0} Tiles = {1} RankCounts = {128, 100}", (1, 1))
    pre("many:heat-v77-tria^2", "simplex", 2, "heat-v77-tria.xml", 2, "BlkX = {1} BlkY = {1} BlkZ = {1} Shears = {0} Tiles = {1} RankCounts = {128, 100}", (1, 1))
    return S


def gen_cfg(m, seed):
    nx, ny, nz, per = m["grid"]
    return ("SPECIFICATION Spec\nCONSTANTS NX = %d NY = %d NZ = %d Per = %d Seed = %d\n%s\nINVARIANTS IsPartition Emit\nCHECK_DEADLOCK FALSE\n"
            % (nx, ny, nz, per, seed % 30000, m["consts"]))


def ranks_of(p):
    """the cells of every rank in ascending order (the printed table is cell -> rank)"""
    rk = [[] for _ in range(p["nranks"])]
    for c, r in enumerate(p["rank_of"]):
        rk[r].append(c)
    return rk


def select(m, printed, tier, rng):
    """which of the enumerated configurations are run: thorough = up to 24 per structured mesh (16 block / run / random ones, 8 tile patterns), 8 per refined or file mesh,
    quick = three per quick mesh: one sheared/staircase block partition, one tile pattern, one of the others - all seeded"""
    small = [p for p in printed if 32 * p["maxpatch"] < p["ncells"]]
    byg = {}
    for p in printed:
        byg.setdefault(p["gen"]["g"], []).append(p)
    out = []
    if tier == "thorough":
        tiles = byg.get("tile", [])
        rest = [p for p in printed if p["gen"]["g"] != "tile"]
        rng.shuffle(tiles); rng.shuffle(rest)
        out = rest[:16] + tiles[:8]
        if not byg.get("tile"):
            out = rest[:8]
    elif m["quick"]:
        sheared = [p for p in small if p["gen"]["g"] in ("shear", "stair") and (p["gen"].get("s1", 0) or p["gen"].get("s2", 0) or p["gen"]["g"] == "stair")]
        tiles = [p for p in small if p["gen"]["g"] == "tile"]
        others = [p for p in printed if p["gen"]["g"] in ("chunk", "hash", "voronoi", "mixed")]
        for pool in (sheared, tiles, others):
            if pool:
                out.append(pool[rng.randrange(len(pool))])
        if not sheared and not tiles and len(others) > 1:      # cell-number generators only: take a second one
            q = others[rng.randrange(len(others))]
            if q is not out[0]:
                out.append(q)
    return out


def judge(items, tag, max_procs=3, target_bytes=2500000, timeout=1800):
    """items = [{"id", "path", "wantlevels"}]: the dumps are concatenated into batch files (the requested number of levels is
    spliced in front of each line) and judged by PartitionManyCheck.tla, one TLC process per batch.
    returns ({id: verdict row}, [(TlcResult, name)])"""
    gdir = os.path.join(vlib.BUILD, "gen", "C12m_%d" % os.getpid())
    os.makedirs(gdir, exist_ok=True)
    items = sorted(items, key=lambda it: -os.path.getsize(it["path"]))
    batches, cur, w = [], [], 0
    for it in items:
        sz = os.path.getsize(it["path"])
        if cur and w + sz > target_bytes:
            batches.append(cur); cur, w = [], 0
        cur.append(it); w += sz
    if cur:
        batches.append(cur)
    paths = []
    for k, b in enumerate(batches):
        p = os.path.join(gdir, "%s_%d.ndjson" % (tag, k))
        with open(p, "w") as f:
            for it in b:
                with open(it["path"]) as g:
                    line = g.readline().rstrip("\n")
                if not line.startswith("{"):
                    raise vlib.MachineryError("dump of %s is not a JSON object" % it["id"])
                f.write('{"wantlevels":%d,' % it["wantlevels"] + line[1:] + "\n")
        paths.append(p)
    verdicts, runs = {}, []

    def one(k):
        return vlib.tlc("PartitionManyCheck", "PartitionManyCheck.cfg", env={"C12_BATCH": paths[k]}, timeout=timeout, xmx="3g",
                        tag="%s_%d" % (tag, k))
    try:
        with cf.ThreadPoolExecutor(max_workers=max_procs) as ex:
            for k, r in enumerate(ex.map(one, range(len(batches)))):
                runs.append((r, "PartitionManyCheck batch %d (%d cases)" % (k, len(batches[k]))))
                if r.violation:
                    raise vlib.MachineryError("TLC reported an error while evaluating many-patch batch %d: %s\n%s" % (k, r.violation, r.out[-1500:]))
                for v in r.printed:
                    verdicts[v["id"]] = v
                if len(r.printed) != len(batches[k]):
                    raise vlib.MachineryError("TLC evaluated %d of %d cases of many-patch batch %d" % (len(r.printed), len(batches[k]), k))
    finally:
        for p in paths:
            try:
                os.remove(p)
            except OSError:
                pass
        try:
            os.rmdir(gdir)
        except OSError:
            pass
    return verdicts, runs
