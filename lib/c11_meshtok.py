"""Independent tokenizer of the FEAT mesh file format (C11, direction V).

Shares nothing with kernel/util/xml_scanner.cpp: a line based reading of doxy_in/mesh_format.dox.  Used to
 * compare a shipped mesh file with the text FEAT writes after parsing it (structure exact, reals to the
   printed precision), and to check the written text against the counting rules of the format;
 * locate the counted blocks / size and dim attributes / index tokens of a shipped file for structured mutations.
"""
import re

ATTR_RE = re.compile(r'\s*([A-Za-z][A-Za-z0-9]*)\s*=\s*"([^"]*)"')


class Elem:
    def __init__(self, name, attrs, line):
        self.name, self.attrs, self.line = name, attrs, line
        self.children, self.content = [], []     # content: (line number, text)
        self.end = None

    def attr(self, k, d=None):
        for a, v in self.attrs:
            if a == k:
                return v
        return d

    def kids(self, name):
        return [c for c in self.children if c.name == name]


def parse_markup(s, ln):
    body = s[1:-1].strip()
    term = body.startswith("/")
    closed = body.endswith("/")
    body = body.strip("/").strip()
    m = re.match(r"([A-Za-z][A-Za-z0-9]*)", body)
    if not m:
        raise ValueError("line %d: bad markup" % ln)
    name, rest, attrs = m.group(1), body[m.end():], []
    while rest.strip():
        am = ATTR_RE.match(rest)
        if not am:
            raise ValueError("line %d: bad attribute list" % ln)
        attrs.append((am.group(1), am.group(2).strip()))
        rest = rest[am.end():]
    return name, attrs, term, closed


def tokenize(text):
    """returns the root element; ValueError if the text is not well formed"""
    root, stack = None, []
    for ln, raw in enumerate(text.split("\n"), 1):
        s = raw.strip()
        if not s:
            continue
        if s.startswith("<!--"):
            continue
        if s.startswith("<") and s.endswith(">"):
            name, attrs, term, closed = parse_markup(s, ln)
            if term:
                if not stack or stack[-1].name != name:
                    raise ValueError("line %d: unbalanced terminator" % ln)
                stack.pop().end = ln
                if not stack:
                    return root
                continue
            e = Elem(name, attrs, ln)
            if stack:
                stack[-1].children.append(e)
            elif root is None:
                root = e
            else:
                raise ValueError("line %d: second root" % ln)
            if closed:
                e.end = ln
                if not stack:
                    return root
            else:
                stack.append(e)
        else:
            if not stack:
                raise ValueError("line %d: content outside root" % ln)
            stack[-1].content.append((ln, s))
    raise ValueError("unexpected end of file")


def ints(s):
    return [int(t) for t in s.split()]


def floats(s):
    return [float(t) for t in s.split()]


def shape_info(typestr):
    t = typestr.split(":")
    fam, sd, wd = t[1], int(t[2]), int(t[3])
    nidx = {("hypercube", 1): 2, ("hypercube", 2): 4, ("hypercube", 3): 8, ("simplex", 1): 2, ("simplex", 2): 3, ("simplex", 3): 4}
    return fam, sd, wd, nidx


def chart_canon(e):
    """nested tuples: numbers as floats wherever a token is numeric"""
    def tok(s):
        out = []
        for t in s.split():
            try:
                out.append(float(t))
            except ValueError:
                out.append(t)
        return out
    # a zero origin / offset / angles vector of an Extrude chart is its default and is not written
    attrs = sorted((a, tuple(tok(v))) for a, v in e.attrs
                   if not (e.name == "Extrude" and a in ("origin", "offset", "angles") and all(x == 0.0 for x in tok(v))))
    return (e.name, attrs, [tuple(tok(t)) for _, t in e.content], [chart_canon(c) for c in e.children])


def canon(roots, check_counts=False):
    """canonical content of one or several mesh files (several roots = multi-file set, merged)"""
    doc = {"type": None, "mesh": None, "charts": {}, "parts": {}, "ptns": []}
    for root in roots:
        if root.name != "FeatMeshFile":
            raise ValueError("root markup")
        for c in root.children:
            if c.name == "Info":
                continue
            elif c.name == "Chart":
                doc["charts"][c.attr("name")] = [chart_canon(k) for k in c.children]
            elif c.name == "Mesh":
                fam, sd, wd, nidx = shape_info(c.attr("type"))
                doc["type"] = c.attr("type")
                size = ints(c.attr("size"))
                vb = c.kids("Vertices")[0]
                verts = [floats(t) for _, t in vb.content]
                topo = {int(t.attr("dim")): [ints(x) for _, x in t.content] for t in c.kids("Topology")}
                if check_counts:
                    if len(size) != sd + 1 or len(verts) != size[0] or any(len(v) != wd for v in verts):
                        raise ValueError("mesh vertex counts")
                    for d in range(1, sd + 1):
                        if len(topo[d]) != size[d] or any(len(r) != nidx[(fam, d)] or min(r) < 0 or max(r) >= size[0] for r in topo[d]):
                            raise ValueError("mesh topology counts dim %d" % d)
                doc["mesh"] = {"size": size, "verts": verts, "topo": topo, "dim": sd}
            elif c.name == "MeshPart":
                size = ints(c.attr("size"))
                p = {"chart": c.attr("chart", ""), "topology": c.attr("topology"), "parent": c.attr("parent"), "size": size,
                     "map": {int(m.attr("dim")): [int(x) for _, x in m.content] for m in c.kids("Mapping")},
                     "topo": {int(t.attr("dim")): [ints(x) for _, x in t.content] for t in c.kids("Topology")},
                     "attrs": {a.attr("name"): (int(a.attr("dim")), [floats(x) for _, x in a.content]) for a in c.kids("Attribute")}}
                if check_counts:
                    for d, m in p["map"].items():
                        if len(m) != size[d]:
                            raise ValueError("part %s mapping count dim %d" % (c.attr("name"), d))
                    for d, t in p["topo"].items():
                        if len(t) != size[d] or any(min(r) < 0 or max(r) >= size[0] for r in t):
                            raise ValueError("part %s topology dim %d" % (c.attr("name"), d))
                    for nm, (d, vals) in p["attrs"].items():
                        if len(vals) != size[0] or any(len(v) != d for v in vals):
                            raise ValueError("part %s attribute %s" % (c.attr("name"), nm))
                doc["parts"][c.attr("name")] = p
            elif c.name == "Partition":
                size = ints(c.attr("size"))
                patches = {}
                for pt in c.kids("Patch"):
                    el = sorted(set(int(x) for _, x in pt.content))
                    if check_counts and (len(el) != int(pt.attr("size")) or (el and (el[0] < 0 or el[-1] >= size[1]))):
                        raise ValueError("patch counts")
                    patches[int(pt.attr("rank"))] = el
                doc["ptns"].append({"name": c.attr("name", ""), "prio": int(c.attr("priority", "0")), "level": int(c.attr("level", "0")),
                                    "size": size, "patches": [patches.get(r, []) for r in range(size[0])]})
            else:
                raise ValueError("unknown markup " + c.name)
    return doc


def close(a, b, rel=1.0e-5):
    return a == b or abs(a - b) <= rel * max(abs(a), abs(b))


def deep_close(a, b):
    if isinstance(a, float) or isinstance(b, float):
        return isinstance(a, (int, float)) and isinstance(b, (int, float)) and close(float(a), float(b))
    if isinstance(a, (list, tuple)):
        return isinstance(b, (list, tuple)) and len(a) == len(b) and all(deep_close(x, y) for x, y in zip(a, b))
    return a == b


def pad(size, n):
    return list(size) + [0] * (n - len(size))


def compare(orig, out):
    """first difference between the canonical content of the shipped file(s) and of the text FEAT wrote, or None"""
    if (orig["mesh"] is None) != (out["mesh"] is None):
        return "root mesh presence"
    dim = None
    if orig["mesh"] is not None:
        a, b = orig["mesh"], out["mesh"]
        dim = a["dim"]
        if orig["type"] != out["type"] or a["size"] != b["size"]:
            return "mesh type/size"
        if a["topo"] != b["topo"]:
            return "mesh topology"
        if not deep_close(a["verts"], b["verts"]):
            return "vertex coordinates"
    if sorted(orig["charts"]) != sorted(out["charts"]):
        return "chart names"
    if sorted(orig["parts"]) != sorted(out["parts"]):
        return "mesh part names"
    for nm, a in orig["parts"].items():
        b = out["parts"][nm]
        n = max(len(a["size"]), len(b["size"]))
        if a["chart"] != b["chart"] or b["parent"] != "root" or pad(a["size"], n) != pad(b["size"], n):
            return "part %s header" % nm
        if {d: m for d, m in a["map"].items() if m} != {d: m for d, m in b["map"].items() if m}:
            return "part %s mapping" % nm
        if a["topology"] == "none":
            if b["topology"] != "none" or b["topo"]:
                return "part %s topology kind" % nm
        else:
            if b["topology"] != "full":
                return "part %s topology kind" % nm
            if a["topology"] == "full" and {d: t for d, t in a["topo"].items() if t} != {d: t for d, t in b["topo"].items() if t}:
                return "part %s topology" % nm
        if sorted(a["attrs"]) != sorted(b["attrs"]):
            return "part %s attribute names" % nm
        for an, (d, vals) in a["attrs"].items():
            if b["attrs"][an][0] != d or not deep_close(vals, b["attrs"][an][1]):
                return "part %s attribute %s" % (nm, an)
    if len(orig["ptns"]) != len(out["ptns"]):
        return "number of partitions"
    for a, b in zip(orig["ptns"], out["ptns"]):
        if a != b:
            return "partition %s" % a["name"]
    return None


def chart_diff(orig, out):
    """charts are re-formatted by their own write functions: compare them numerically"""
    for nm, a in orig["charts"].items():
        if not deep_close(a, out["charts"][nm]):
            return nm
    return None


# ---- structured mutation sites of a shipped file -------------------------------------------------------------------
def mutation_sites(text):
    """list of (kind, op, line number, replacement text) single-line edits that violate a declared count,
    a dimension or an index range of the file; every one of them has to be rejected by the reader"""
    root = tokenize(text)
    lines = text.split("\n")
    sites = []

    def set_attr(ln, key, val):
        return re.sub(r'(\b%s\s*=\s*")[^"]*(")' % key, lambda m: m.group(1) + val + m.group(2), lines[ln - 1], count=1)

    def counted(block, kind):
        for ln, _ in block.content:
            sites.append((kind + "_delete_line", "del", ln, ""))
            sites.append((kind + "_duplicate_line", "dup", ln, ""))

    for c in root.children:
        if c.name == "Mesh":
            fam, sd, wd, nidx = shape_info(c.attr("type"))
            size = ints(c.attr("size"))
            for j in range(len(size)):
                for dl in (1, -1):
                    if size[j] + dl >= 0:
                        s2 = list(size); s2[j] += dl
                        sites.append(("mesh_count", "rep", c.line, set_attr(c.line, "size", " ".join(map(str, s2)))))
            for b in c.children:
                counted(b, "mesh_" + b.name.lower())
                if b.name == "Topology":
                    d = int(b.attr("dim"))
                    for d2 in range(0, sd + 2):
                        if d2 != d:
                            sites.append(("mesh_topology_dim", "rep", b.line, set_attr(b.line, "dim", str(d2))))
                    for ln, t in b.content:
                        tk = t.split()
                        for pos in (0, len(tk) - 1):
                            for bad in (str(size[0]), "-1"):
                                t2 = list(tk); t2[pos] = bad
                                sites.append(("mesh_vertex_index", "rep", ln, " ".join(t2)))
        elif c.name == "MeshPart":
            size = ints(c.attr("size"))
            for j in range(len(size)):
                for dl in (1, -1):
                    if size[j] + dl >= 0:
                        s2 = list(size); s2[j] += dl
                        sites.append(("part_count", "rep", c.line, set_attr(c.line, "size", " ".join(map(str, s2)))))
            for b in c.children:
                counted(b, "part_" + b.name.lower())
                if b.name == "Topology":
                    for ln, t in b.content:
                        tk = t.split()
                        t2 = list(tk); t2[-1] = str(size[0])
                        sites.append(("part_vertex_index", "rep", ln, " ".join(t2)))
                if b.name == "Attribute":
                    d = int(b.attr("dim"))
                    sites.append(("attribute_dim", "rep", b.line, set_attr(b.line, "dim", str(d + 1))))
        elif c.name == "Partition":
            size = ints(c.attr("size"))
            for b in c.kids("Patch"):
                counted(b, "patch")
                n = int(b.attr("size"))
                for dl in (1, -1):
                    if n + dl >= 0:
                        sites.append(("patch_count", "rep", b.line, set_attr(b.line, "size", str(n + dl))))
                for ln, t in b.content:
                    sites.append(("patch_index", "rep", ln, str(size[1])))
        elif c.name == "Chart":
            for k in c.children:
                stack = [k]
                while stack:
                    e = stack.pop()
                    stack.extend(e.children)
                    if e.content and e.name in ("Points", "Params", "Vertices", "Triangles"):
                        counted(e, "chart_" + e.name.lower())
    return sites
