"""C06, global part: Global::Filter / Global::MeanFilter on 1..n MPI processes whose patches share dofs.

spec/Gen_FilterGlobal.tla (EXTENDS C13's Gen_Synch: every decomposition rank -> set of dofs, local renumberings) predicts for every
global filter (Global::MeanFilter with the gate's frequencies, Global::Filter<UnitFilter>, FilterChain<UnitFilter, Global::MeanFilter>
and the reverse order) and every operation rhs/sol/def/cor the local vectors after the first and the second call as restrictions of
what Filters!Apply gives on the undecomposed vector; invariants: zero weighted global mean with every dof counted once (GConstraint,
GOnce), untouched complement, idempotence, exactness.  harness/c06_gfilter.cpp (MPI variant) replays each case on real ranks through
every life-cycle route (as built, returning clones, clone / convert / move INTO an object with previous content, the Global::Filter
wrapper on Global::Vector).
"""
import json, os, re, time
import vlib

# mpi_yield_when_idle: several shards of np processes run side by side on a shared machine (see lib/c13x.py)
MPIRUN = ["mpirun", "--allow-run-as-root", "--oversubscribe", "--bind-to", "none", "--mca", "mpi_yield_when_idle", "1", "-np"]

LCS_ALL = ["none", "clone_deep", "clone_weak", "clone_shallow", "clone_into", "clone_into_weak", "convert_into", "convert_other_into",
           "move_assign", "wrap", "wrap_clone", "wrap_clone_into", "wrap_convert_into"]
ALLK = '{"gmean", "gunit", "gchain_um", "gchain_mu"}'
INVS = "GFilterOK GExact GConstraint GComplement GIdempotent GOnce GRestrict LawRenum GEmit"


def plan(thorough):
    # (ranks, global dofs, largest local renumbering kind, filter kinds, unit filters over all index sets, palette)
    if thorough:
        return [(1, 3, 2, ALLK, True, 1), (1, 4, 0, ALLK, True, 2), (2, 3, 2, ALLK, True, 2), (2, 4, 0, '{"gmean", "gchain_um", "gchain_mu"}', False, 1),
                (3, 3, 0, '{"gmean", "gchain_um"}', False, 1), (3, 2, 1, ALLK, True, 2), (4, 2, 1, '{"gmean", "gchain_mu"}', False, 1),
                (5, 2, 0, '{"gmean", "gchain_mu"}', False, 1), (6, 2, 0, '{"gmean"}', False, 2)]
    return [(1, 3, 0, ALLK, True, 1), (2, 3, 1, ALLK, False, 2), (3, 2, 0, '{"gmean", "gchain_um", "gchain_mu"}', False, 1), (4, 2, 0, '{"gmean"}', False, 2)]


def gen(nr, nd, renk, kinds, uall, pal):
    name = "gen_FilterGlobal_%d_%d_%d_%d_%d_%d.cfg" % (nr, nd, renk, len(kinds), pal, os.getpid())
    with open(os.path.join(vlib.SPEC, name), "w") as f:
        f.write("SPECIFICATION FSpec\nCONSTANTS NR = %d ND = %d RENK = %d GKinds = %s GUAll = %s GPal = %d GLCs = {%s}\nINVARIANTS %s\nCHECK_DEADLOCK FALSE\n"
                % (nr, nd, renk, kinds, "TRUE" if uall else "FALSE", pal, ", ".join('"%s"' % x for x in LCS_ALL), INVS))
    try:
        return vlib.tlc("Gen_FilterGlobal", name, workers=1, timeout=1500, xmx="3g")
    finally:
        try:
            os.remove(os.path.join(vlib.SPEC, name))
        except OSError:
            pass


def fkind(f):
    if "fs" in f:
        return "chain(" + ",".join(x["kind"] for x in f["fs"]) + ")"
    return f["kind"]


def shared(c):
    return any(x >= 2 for v in c["count"].values() for x in v)


def sig(c, r):
    why = r.get("why") or ""
    m = re.search(r"/(\w+)/m[01]", why)
    s = {"part": "global", "nr": c["nr"], "filter": fkind(c["f"]), "shared": shared(c), "outcome": r.get("outcome", "mismatch"),
         "route": m.group(1) if m else ""}
    m = re.search(r"ASSERTION FAILED: ([^\n]*)", r.get("stderr") or "")
    if m:
        s["assert"] = m.group(1).strip()[:100]
    return s


def key(c):
    return json.dumps(["global", c["nr"], c["dofs"], c["f"]], sort_keys=True)


def nontrivial(c):
    # more than one process, a dof shared between patches, and the first call changes the vector
    return c["nr"] >= 2 and shared(c) and any(c["v1"][o] != c["x0"] for o in c["v1"])


def run(chk, binary, ex):
    """generation in the pool `ex`, replay per number of ranks; returns the number of replayed cases"""
    thorough = chk.tier == "thorough"
    gens = [(ex.submit(gen, *p), p) for p in plan(thorough)]
    bynr = {}
    for f, p in gens:
        r = f.result()
        chk.add_tlc(r, "Gen_FilterGlobal nr=%d nd=%d renk=%d kinds=%s uall=%s pal=%d" % p)
        if r.violation:
            chk.model_violation(r, "Gen_FilterGlobal invariant (%s)" % (p,))
        bynr.setdefault(p[0], []).extend(r.printed)
    total = nshared = 0
    for nr in sorted(bynr):
        cases, seen = [], set()
        for c in bynr[nr]:
            k = key(c)
            if k not in seen:
                seen.add(k)
                cases.append(c)
        if not cases:
            raise vlib.MachineryError("Gen_FilterGlobal produced no case for %d ranks" % nr)
        if not thorough:
            # quick tier: every case goes through "none" and three of the other routes (rotating, so that every route meets every
            # filter kind on many decompositions); the thorough tier takes every case through every route
            for i, c in enumerate(cases):
                c["lcs"] = ["none"] + LCS_ALL[1:][i % 4::4]
        t0 = time.time()
        shards = max(1, min(3, 9 // nr))
        try:
            res = vlib.run_cases(binary, cases, tmo=30, max_abnormal=6, shards=shards, wrapper=MPIRUN + [str(nr)])
        except vlib.MachineryError as e:
            # an mpirun that fails to start on the loaded machine is not a statement about the property: one retry, one job
            vlib.log("[c06_global] replay failed to start (%s); retrying once" % str(e).splitlines()[0][:200])
            res = vlib.run_cases(binary, cases, tmo=30, max_abnormal=6, shards=1, wrapper=MPIRUN + [str(nr)])
        vlib.judge_results(chk, cases, res, sig, harness="c06_gfilter", keyf=key, nontrivial=nontrivial)
        vlib.log("[c06_global] %d global filter cases on %d ranks replayed in %.1fs" % (len(cases), nr, time.time() - t0))
        total += len(cases)
        nshared += sum(1 for c in cases if nontrivial(c))
        if nr == 2:
            sh = [c for c in cases if nontrivial(c) and c["f"]["kind"] == "mean"]
            if sh:
                c = sh[len(sh) // 2]
                chk.sample({k: c[k] for k in ("part", "nr", "dofs", "count", "f", "loc", "den", "x0", "v1", "v2")})
    chk.extra["global_filter_cases"] = total
    chk.extra["global_filter_cases_with_shared_dofs"] = nshared
    chk.extra["global_filter_routes_per_case"] = len(LCS_ALL) if thorough else 4
    return total
