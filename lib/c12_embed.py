"""C12, meshes whose world dimension exceeds the shape dimension (surface meshes in 3D, edge meshes in 2D / 3D).

spec/PartitionGenEmbed.tla enumerates the base meshes (closed surfaces of the reference cells, the octahedron, lifted quadrilateral /
triangle grids, closed polygons, polylines), spec/PartitionGen.tla the cell -> rank assignments; harness/c12_embed.cpp runs
extract_patch for every rank + joint refinement on ConformalMesh<Shape_, wdim_> and dumps in the format of harness/c12_parti.cpp;
spec/PartitionCheck.tla judges (PatchIsSubmesh compares ALL world coordinates of every patch vertex with the base vertex it maps to).

Nothing in here decides the property: it selects configurations per tier and builds the case records.
"""
import os

GEN_CFG = ("SPECIFICATION Spec\nINVARIANTS Embedded TrailingVaries DistinctPoints CellsOK Conforming Manifold Emit\n"
           "CHECK_DEADLOCK FALSE\n")


def _full_in_quick(m):
    """meshes whose assignments are all run in the quick tier (the others: every 6th, offset by the mesh number)"""
    n = m["name"]
    if n.startswith("surf-") or n.startswith("loop-"):
        return True
    if n.startswith("grid-"):
        return n.endswith("-roof")                  # the non-planar lift
    if n.startswith("line-"):
        return m["ncells"] <= 5 or n == "line-6-3d-flip"
    return False


def cases(meshes, assigns, tier, rng, gdir):
    """meshes = what PartitionGenEmbed printed; assigns[n] = the assignments of n cells PartitionGen printed"""
    thorough = tier == "thorough"
    out = []

    def add(m, ranks, nref, pre=0):
        cid = "e%d" % len(out)
        out.append({"id": cid, "srcname": "embed:" + m["name"], "fam": m["fam"], "dim": m["dim"], "wdim": m["wdim"], "src": m["src"],
                    "parti": {"kind": "explicit", "ranks": ranks}, "nref": nref, "prerefine": pre, "bndpart": 1, "embed": 1,
                    "out": os.path.join(gdir, cid + ".json")})

    def rand_ranks(nc, nmax):
        n = rng.randint(2, min(nmax, nc))
        asg = list(range(n)) + [rng.randrange(n) for _ in range(nc - n)]
        rng.shuffle(asg)
        ranks = [[c for c in range(nc) if asg[c] == r] for r in range(n)]
        if rng.random() < 0.5:
            for rk in ranks:
                rng.shuffle(rk)                      # cells of a rank in arbitrary order
        return ranks

    nchild = {("hypercube", 1): 2, ("hypercube", 2): 4, ("simplex", 2): 4}
    for i, m in enumerate(sorted(meshes, key=lambda q: q["name"])):
        nc = m["ncells"]
        deep = 2 if (m["dim"] == 1 or thorough) else 1
        if nc in assigns and nc <= 6:
            # thorough enumerates every LABELLING for 5 and 6 cells (4683 for 6 cells): all of them for two meshes, every 8th for the rest
            full = _full_in_quick(m) if not thorough else (nc <= 4 or m["name"] in ("surf-hypercube", "line-6-3d-flip"))
            stride = 8 if thorough else 6
            for k, a in enumerate(assigns[nc]):
                if full or (k + i) % stride == 0:
                    add(m, a, 2 if (deep == 2 or (k + i) % 5 == 0) else 1)
        else:
            for k in range(30 if thorough else 4):
                add(m, rand_ranks(nc, 8), 2 if (k % 2 == 0 and nc <= 16) else 1)
        # assignments of the cells of the once refined mesh (2-level numbering), seeded
        if m["closed"] or nc <= 3:
            for k in range(8 if thorough else 2):
                add(m, rand_ranks(nc * nchild[(m["fam"], m["dim"])], 8), 1, pre=1)
    return out
