"""generates the small-constant model-checking instances of spec/ThreadAsm.tla"""
import os

def tla_seq(xs):
    return "<<" + ", ".join(str(x) for x in xs) + ">>"

def tla_set(xs):
    return "{" + ", ".join(str(x) for x in xs) + "}"

def write_instance(spec_dir, name, strategy, W, scatter, combine, layer_sizes=(), tls=(), color_sizes=(), mayfail=(), jobs=1,
                   liveness=True, nfences=None):
    mod = "gen_MCTA_" + name
    with open(os.path.join(spec_dir, mod + ".tla"), "w") as f:
        f.write("---- MODULE %s ----\nEXTENDS MC_ThreadAsm\nLS == %s\nTLS == %s\nCS == %s\nMF == %s\n====\n" % (
            mod, tla_seq(layer_sizes), tla_seq(tls), tla_seq(color_sizes), tla_set(mayfail)))
    with open(os.path.join(spec_dir, mod + ".cfg"), "w") as f:
        f.write("SPECIFICATION %s\nCONSTANTS\n  Strategy = \"%s\"\n  W = %d\n  NFences = %d\n  NeedScatter = %s\n  NeedCombine = %s\n  Jobs = %d\n"
                "  LayerSizes <- LS\n  TLs <- TLS\n  ColorSizes <- CS\n  MayFail <- MF\n"
                "  LayerElems <- MCLayerElems\n  ThreadLayers <- MCThreadLayers\n  ColorElems <- MCColorElems\n"
                "  NumElems <- MCNumElems\n  AdjPairs <- MCAdjPairs\n"
                "INVARIANTS NoAdjacentScatter CombineExclusive EachCellOnce NeverTwice JoinedAtEnd ConfigOK\n%s" % (
                    "FairSpec" if liveness else "Spec", strategy, W, (nfences or W + 2), "TRUE" if scatter else "FALSE", "TRUE" if combine else "FALSE", jobs,
                    "PROPERTY Terminates\n" if liveness else ""))
    return mod

INSTANCES_QUICK = [
    dict(name="lay2", strategy="layered", W=2, scatter=True, combine=True, layer_sizes=(1, 2, 1, 2), tls=(0, 2, 4), jobs=2),
    dict(name="lay3", strategy="layered", W=3, scatter=True, combine=True, layer_sizes=(2, 1, 1, 2, 1, 1), tls=(0, 2, 4, 6)),
    dict(name="lay3f", strategy="layered", W=3, scatter=True, combine=False, layer_sizes=(1, 1, 1, 1, 1, 1, 1), tls=(0, 2, 5, 7), mayfail=(2,)),
    dict(name="nosc", strategy="layered", W=3, scatter=False, combine=True, layer_sizes=(2, 1, 2, 2), tls=(0, 2, 4, 4), mayfail=(1,), jobs=2),
    dict(name="col2", strategy="colored", W=2, scatter=True, combine=True, color_sizes=(2, 1, 3), jobs=2),
    dict(name="col3", strategy="colored", W=3, scatter=True, combine=False, color_sizes=(3, 2)),
    dict(name="master", strategy="layered", W=0, nfences=3, scatter=True, combine=True, layer_sizes=(1, 2), tls=(), mayfail=(0,), jobs=2),
    dict(name="colnosc", strategy="colored", W=2, scatter=False, combine=True, color_sizes=(2, 1), jobs=2),
    dict(name="col3f", strategy="colored", W=3, scatter=True, combine=True, color_sizes=(2, 3), mayfail=(1, 3)),
]
INSTANCES_THOROUGH = INSTANCES_QUICK + [
    dict(name="lay4", strategy="layered", W=4, scatter=True, combine=True, layer_sizes=(1, 1, 1, 1, 1, 1, 1, 1, 1), tls=(0, 2, 4, 6, 9)),
    dict(name="lay3x", strategy="layered", W=3, scatter=True, combine=True, layer_sizes=(2, 2, 2, 2, 2, 2, 2), tls=(0, 3, 5, 7), mayfail=(1, 3), jobs=2),
    dict(name="col4", strategy="colored", W=4, scatter=True, combine=True, color_sizes=(4, 3, 1), mayfail=(2,)),
    dict(name="col3j", strategy="colored", W=3, scatter=True, combine=True, color_sizes=(1, 4, 2), jobs=2),
]
