"""C05: persisted containers and checkpoints read back equal
(spec/PersistFmt.tla + Persist.tla + PersistCkpt.tla + PersistStream.tla + PersistCkptLife.tla, harness/c05_persist.cpp)"""
import os, json
import vlib
import c05x

LEVEL = "model_checking"

IO_INV = "RoundTrip LayoutOK StoredWritten PatternKept Emit"
CK_INV = "RestoredRight FileOrdered FileComplete FileLayout Emit"
ST_INV = "ReadRight LoadRight SizeOK NoOverlap ClearedIsNew WriteAfterClear Emit"
LF_INV = "RestoredRight OffsExact InputIsLast LayoutOK GivenOverlap Emit"
LF_ALL = ("add", "remove", "assign", "save", "load", "clear", "restore", "restadd")
LF_IO = ("save", "load", "clear", "restore", "restadd")          # the calls around the loaded input


def io_cfg(kind, maxm, maxn, bh, bw, pal):
    return ("SPECIFICATION Spec\nCONSTANTS Kind = \"%s\" MaxM = %d MaxN = %d BH = %d BW = %d Pal = %d\n"
            "INVARIANTS %s\nCHECK_DEADLOCK FALSE\n" % (kind, maxm, maxn, bh, bw, pal, IO_INV))


def ck_cfg(mino, maxo, cdt, cit):
    return ("SPECIFICATION Spec\nCONSTANTS MinObj = %d MaxObj = %d CDT = %d CIT = %d\n"
            "INVARIANTS %s\nCHECK_DEADLOCK FALSE\n" % (mino, maxo, cdt, cit, CK_INV))


def st_cfg(steps, cdt, cit):
    return ("SPECIFICATION Spec\nCONSTANTS MaxSteps = %d CDT = %d CIT = %d\n"
            "INVARIANTS %s\nCHECK_DEADLOCK FALSE\n" % (steps, cdt, cit, ST_INV))


def lf_cfg(steps, ops, nadd, empty, cdt, cit):
    return ("SPECIFICATION Spec\nCONSTANTS MaxSteps = %d CDT = %d CIT = %d NAdd = %d AllowEmpty = %s\n  Ops = {%s}\n"
            "INVARIANTS %s\nCHECK_DEADLOCK FALSE\n" % (steps, cdt, cit, nadd, "TRUE" if empty else "FALSE", ", ".join('"%s"' % o for o in ops), LF_INV))


def lf_configs(tier):
    """histories over ONE long-lived CheckpointControl object (spec/PersistCkptLife.tla): (steps, alphabet, NAdd, AllowEmpty, cdt, cit)"""
    if tier == "thorough":
        return [(5, LF_ALL, 1, False, 8, 8), (7, LF_IO, 1, False, 8, 8), (4, LF_ALL, 2, True, 4, 4)]
    return [(4, LF_ALL, 1, False, 8, 8), (5, LF_IO, 1, False, 8, 8), (3, LF_ALL, 2, True, 4, 4)]


def st_configs(tier):
    """histories over one reused BinaryStream (spec/PersistStream.tla)"""
    if tier == "thorough":
        return [(6, 8, 8), (5, 4, 4)]
    return [(5, 8, 8), (4, 4, 4)]


# palettes (spec/Persist.tla): 1, 2 fixed values; 3 = EVERY assignment {palette value, +0, -0} to the stored entries (a stored zero
# is a stored entry: text modes must list it, the pattern read back is the same; binary modes keep the sign of the zero);
# 4 = as 3 without -0; 5 = square CSR with symmetric pattern / values and every symmetric assignment, adds the symmetric
# MatrixMarket variant "mtxsym"; 6 = as 5 without the assignments
ZERO_QUICK = [("dv", 4, 1, 1, 1, 3), ("dvb", 2, 1, 2, 1, 3), ("sv", 3, 1, 1, 1, 3), ("svb", 2, 1, 2, 1, 3), ("dm", 2, 2, 1, 1, 3),
              ("csr", 2, 2, 1, 1, 3), ("csr", 2, 2, 1, 1, 5), ("bcsr", 2, 1, 2, 2, 3), ("bcsr", 1, 2, 2, 3, 3), ("cscr", 2, 2, 1, 1, 3), ("banded", 2, 2, 1, 1, 3)]
ZERO_THOROUGH = [("dv", 5, 1, 1, 1, 3), ("dvb", 2, 1, 2, 1, 3), ("dvb", 1, 1, 3, 1, 3), ("sv", 4, 1, 1, 1, 3), ("svb", 2, 1, 2, 1, 3), ("dm", 2, 2, 1, 1, 3),
                 ("dm", 2, 3, 1, 1, 4), ("csr", 2, 2, 1, 1, 3), ("csr", 2, 3, 1, 1, 4), ("csr", 2, 2, 1, 1, 5), ("csr", 3, 3, 1, 1, 6),
                 ("bcsr", 2, 2, 2, 2, 3), ("bcsr", 1, 2, 2, 3, 3), ("cscr", 2, 2, 1, 1, 3), ("banded", 2, 2, 1, 1, 3), ("banded", 2, 3, 1, 1, 4)]


def io_configs(tier):
    if tier == "thorough":
        return [("dv", 6, 1, 1, 1, 1), ("dv", 4, 1, 1, 1, 2), ("dvb", 4, 1, 2, 1, 1), ("dvb", 3, 1, 3, 1, 2), ("sv", 5, 1, 1, 1, 1), ("sv", 4, 1, 1, 1, 2),
                ("svb", 4, 1, 2, 1, 1), ("dm", 3, 4, 1, 1, 1), ("dm", 4, 3, 1, 1, 2), ("csr", 3, 3, 1, 1, 1), ("csr", 2, 4, 1, 1, 2), ("csr", 4, 2, 1, 1, 1),
                ("bcsr", 2, 3, 2, 2, 1), ("bcsr", 3, 2, 2, 3, 2), ("cscr", 3, 2, 1, 1, 1), ("cscr", 2, 3, 1, 1, 2), ("banded", 3, 3, 1, 1, 1), ("banded", 2, 4, 1, 1, 2),
                ("banded", 4, 2, 1, 1, 1)] + ZERO_THOROUGH
    return [("dv", 4, 1, 1, 1, 1), ("dvb", 3, 1, 2, 1, 1), ("dvb", 2, 1, 3, 1, 2), ("sv", 4, 1, 1, 1, 1), ("svb", 3, 1, 2, 1, 2),
            ("dm", 3, 3, 1, 1, 1), ("csr", 3, 2, 1, 1, 1), ("csr", 2, 3, 1, 1, 2), ("bcsr", 2, 2, 2, 2, 1), ("bcsr", 2, 2, 2, 3, 2),
            ("cscr", 2, 2, 1, 1, 1), ("cscr", 3, 2, 1, 1, 2), ("banded", 3, 3, 1, 1, 1), ("banded", 2, 3, 1, 1, 2)] + ZERO_QUICK


def ck_configs(tier):
    if tier == "thorough":
        return [(1, 3, 8, 8), (1, 3, 4, 4), (4, 4, 8, 8), (4, 4, 4, 4)]
    return [(1, 3, 8, 8), (1, 2, 4, 4)]


def generate(chk, tier):
    import concurrent.futures as cf
    jobs = []
    # the long generators first (the pool runs 8 at a time)
    for k, a in enumerate(st_configs(tier)):
        name = "gen_PersistStream_%d_%d.cfg" % (os.getpid(), k)
        with open(os.path.join(vlib.SPEC, name), "w") as f:
            f.write(st_cfg(*a))
        jobs.append(("PersistStream", name, "stream steps%d dt%d it%d" % a))
    for k, a in enumerate(lf_configs(tier)):
        name = "gen_PersistCkptLife_%d_%d.cfg" % (os.getpid(), k)
        with open(os.path.join(vlib.SPEC, name), "w") as f:
            f.write(lf_cfg(*a))
        jobs.append(("PersistCkptLife", name, "life steps%d ops=%s nadd%d empty%d dt%d it%d" % (a[0], "all" if a[1] == LF_ALL else "+".join(a[1]), a[2], a[3], a[4], a[5])))
    for k, a in enumerate(io_configs(tier)):
        name = "gen_Persist_%d_%d.cfg" % (os.getpid(), k)
        with open(os.path.join(vlib.SPEC, name), "w") as f:
            f.write(io_cfg(*a))
        jobs.append(("Persist", name, "io %s %dx%d b%dx%d pal%d" % a))
    for k, a in enumerate(ck_configs(tier)):
        name = "gen_PersistCkpt_%d_%d.cfg" % (os.getpid(), k)
        with open(os.path.join(vlib.SPEC, name), "w") as f:
            f.write(ck_cfg(*a))
        jobs.append(("PersistCkpt", name, "ckpt objs%d..%d dt%d it%d" % a))
    cases = []
    pool = {}
    try:
        with cf.ThreadPoolExecutor(max_workers=min(len(jobs), 8)) as ex:
            futs = {ex.submit(vlib.tlc, mod, cfg, timeout=1700, xmx="3g"): k for k, (mod, cfg, nm) in enumerate(jobs)}
            done = {}
            for f in cf.as_completed(futs):
                # results are taken as they arrive (the raw TLC output of a large generator run is several 100 MB: dropped at once)
                r = f.result()
                if r.violation:
                    chk.model_violation(r, "Persist invariant (%s)" % jobs[futs[f]][2])
                done[futs[f]] = (r, intern_static(r.printed, pool))
                r.printed = None
                r.out = ""
            for k in range(len(jobs)):              # deterministic order: the order of the job list
                chk.add_tlc(done[k][0], jobs[k][2])
                cases.extend(done[k][1])
            done.clear()
    finally:
        for _, cfg, _ in jobs:
            try:
                os.remove(os.path.join(vlib.SPEC, cfg))
            except OSError:
                pass
    return cases


def intern_static(cs, pool):
    """the histories of one generator run repeat their static part (object palette with byte layouts, given checkpoints) in every
    case: share ONE parsed copy between the cases (memory of the thorough tier: several 100000 histories)"""
    for c in cs:
        if c.get("part") in ("life", "stream"):
            for k in ("palette", "ckpts", "given", "ids"):
                if k in c:
                    key = (k, json.dumps(c[k], sort_keys=True))
                    c[k] = pool.setdefault(key, c[k])
    return cs


def has_empty_row(c):
    rp = c["rep"].get("rp")
    if rp is None or c["kind"] not in ("csr", "bcsr"):
        return False
    return any(rp[i] == rp[i + 1] for i in range(len(rp) - 1))


def life_ops(c):
    return [(o["op"], o["i"], o["o"], o["s"], bool(o["add"])) for o in c["ops"]]


def sig(c, r):
    if c["part"] == "life":
        why = r.get("why") or ""
        step = why.split("/step ")[1].split(":")[0].split(" ")[1] if "/step " in why else ""
        # loads a checkpoint that was saved with NO registered object (narrow class of the finding C05-ckpt-load-empty-stream)
        empty = any(o["op"] == "load" and o["res"] == 1 for o in c["ops"])
        return {"part": "life", "failing_op": step, "loads_empty_checkpoint": empty and "[load-empty-checkpoint]" in why,
                "steps": len(c["ops"]), "cdt": c["cdt"], "outcome": r.get("outcome", "mismatch")}
    if c["part"] == "stream":
        why = r.get("why") or ""
        step = why.split("/step ")[1].split(":")[0] if "/step " in why else ""
        return {"part": "stream", "ops": " ".join(o["op"] for o in c["ops"]), "failing_step": step, "cdt": c["cdt"], "outcome": r.get("outcome", "mismatch")}
    if c["part"] == "ckpt":
        return {"part": "ckpt", "nobj": len(c["objs"]), "kinds": sorted(set(o["c"]["kind"] for o in c["objs"])), "cdt": c["cdt"],
                "outcome": r.get("outcome", "mismatch")}
    nnz = len(c["rep"].get("ci", c["rep"].get("idx", c["rep"].get("va", []))))
    why = r.get("why") or ""
    return {"part": "io", "kind": c["kind"], "mode": c["mode"], "m": c["m"], "n": c["n"], "nnz": nnz, "empty_row": has_empty_row(c),
            "stored_zeros": sum(c.get("zeros", [0, 0])) > 0, "stored_negative_zeros": c.get("zeros", [0, 0])[1] > 0,
            "no_arrays": len(c["arrays"]["el"]) == 0, "alloc": bool(c.get("alloc")), "stage": "read" if "/read" in why else ("write" if "/write" in why else "other"),
            "outcome": r.get("outcome", "mismatch")}


def key(c):
    if c["part"] == "life":
        return json.dumps(["lf", c["cdt"], life_ops(c)])
    if c["part"] == "stream":
        return json.dumps(["st", c["cdt"], [(o["op"], o["arg"]) for o in c["ops"]]])
    if c["part"] == "ckpt":
        return json.dumps(["ck", c["cdt"], [(o["id"], o["c"]["kind"], o["c"]["m"]) for o in c["objs"]], [x["id"] for x in c["restore"]]])
    return json.dumps(["io", c["kind"], c["bh"], c["bw"], c["m"], c["n"], c["rep"], bool(c.get("alloc")), c["mode"], c["cdt"], c["cit"], c["sdt"], c["sit"]])


def nontrivial(c):
    if c["part"] == "life":
        # input is loaded at least twice into the one control object, or a checkpoint written by it is loaded back
        loads = [o for o in c["ops"] if o["op"] == "load"]
        return len(loads) >= 2 or any(o["s"] == 4 for o in loads)
    if c["part"] == "stream":
        ops = [o["op"] for o in c["ops"]]
        # the stream is reused after a clear, or a container / checkpoint is written over existing bytes after a seek
        over = any(o["op"] in ("write", "save") and k > 0 and o["off"] < c["ops"][k - 1]["size"] for k, o in enumerate(c["ops"]))
        return over or ("clear" in ops and ops.index("clear") < len(ops) - 1)
    if c["part"] == "ckpt":
        return len(c["objs"]) >= 2
    return len(c["arrays"]["el"]) > 0


def run(chk):
    binary, = vlib.build(["c05_persist"])
    cases = generate(chk, chk.tier)
    if not cases:
        raise vlib.MachineryError("generator produced no cases")
    res = vlib.run_cases(binary, cases, tmo=20)
    pre = [(c, r) for c, r in zip(cases, res) if r.get("precond")]
    if pre:
        c, r = pre[0]
        raise vlib.MachineryError("binding defect: %d cases where the real container state is not the state the specification assumes, e.g. %s: %s"
                                  % (len(pre), json.dumps(sig(c, r)), r.get("why")))
    vlib.judge_results(chk, cases, res, sig, keyf=key, harness="c05_persist", nontrivial=nontrivial)
    # extension (lib/c05x.py): FEAT::Pack byte images, DistFileIO (serial + 1..4 MPI ranks), CheckpointControl through files,
    # file-name overloads of the containers
    next_ = c05x.run_ext(chk)
    chk.traces = len(cases) + next_
    chk.exhaustive = True
    nio = sum(1 for c in cases if c["part"] == "io")
    chk.extra["io_behaviours"] = nio
    nst = sum(1 for c in cases if c["part"] == "stream")
    nlf = sum(1 for c in cases if c["part"] == "life")
    chk.extra["checkpoint_behaviours"] = len(cases) - nio - nst - nlf
    chk.extra["checkpoint_life_histories"] = nlf
    chk.extra["checkpoint_life_calls"] = sum(len(c["ops"]) for c in cases if c["part"] == "life")
    chk.extra["checkpoint_life_reloads"] = sum(1 for c in cases if c["part"] == "life" and nontrivial(c))
    chk.extra["stream_reuse_histories"] = nst
    chk.extra["stream_reuse_calls"] = sum(len(c["ops"]) for c in cases if c["part"] == "stream")
    chk.extra["binary_streams_parsed"] = sum(1 for c in cases if c["part"] == "io" and c["file"]["fmt"] == "bin") + sum(len(c["entries"]) for c in cases if c["part"] == "ckpt")
    chk.extra["text_streams_parsed"] = sum(1 for c in cases if c["part"] == "io" and c["file"]["fmt"] == "text")
    chk.extra["kinds_x_modes"] = sorted(set("%s/%s" % (c["kind"], c["mode"]) for c in cases if c["part"] == "io"))
    # non-vacuity of the stored-zero palettes: behaviours whose container holds a stored (+/-)0, per kind/mode
    zc = {}
    for c in cases:
        if c["part"] == "io" and sum(c.get("zeros", [0, 0])) > 0:
            k = "%s/%s" % (c["kind"], c["mode"])
            zc[k] = zc.get(k, 0) + 1
    chk.extra["behaviours_with_stored_zeros"] = zc
    chk.extra["text_behaviours_with_stored_zeros"] = sum(v for k, v in zc.items() if k.split("/")[1] in ("mtx", "mtxsym", "exp"))
    chk.extra["behaviours_with_stored_negative_zero"] = sum(1 for c in cases if c["part"] == "io" and c.get("zeros", [0, 0])[1] > 0)
    need = [k for k in chk.extra["kinds_x_modes"] if zc.get(k, 0) == 0]
    if need:
        raise vlib.MachineryError("stored-zero palettes are vacuous for %s" % need)
    chk.rule = ("every behaviour of spec/Persist.tla: container kind (DenseVector, DenseVectorBlocked, SparseVector, SparseVectorBlocked, DenseMatrix, "
                "CSR, BCSR, CSCR, Banded) x all shapes up to the bound (length 0, empty rows, no entries) x all sparsity patterns / index sets x every "
                "file mode of the kind (text modes, native binary, fm_binary, serialize<DT2,IT2> for DT2 in {float,double}, IT2 in {u32,u64}) x container "
                "types (double,u64),(float,u32); additionally per kind EVERY assignment {palette value, +0, -0} to the stored entries (BCSR: per stored "
                "block) at smaller bounds - a stored zero is a stored entry: the text modes must list it (invariants StoredWritten, PatternKept), "
                "used_elements()/indices/row_ptr/col_ind read back are compared as raw arrays, binary modes keep the sign bit of a zero - and square CSR "
                "matrices with symmetric pattern / values also through the symmetric MatrixMarket variant write_out(fm_mtx, ., true); "
                "Write then Read; every produced stream is parsed independently and compared with the predicted "
                "layout (length, header words, array offsets / token sequence), the container read back with the predicted state.  "
                "spec/PersistCkpt.tla: every subset of a 6 object palette (1..3(4) objects), every registration order, 3 identifier assignments with "
                "identifiers that are prefixes of each other, every restore order.  spec/PersistStream.tla: every history of 5 (thorough 6) calls "
                "write / seekg(0) / read / clear / checkpoint save / checkpoint load on ONE reused BinaryStream object (3 containers, 2 checkpoint "
                "object sets), size, position and segment bytes compared after every call.  spec/PersistCkptLife.tla: every history of 4-5 "
                "(thorough 5-7) calls add_object / remove_object / assignment to a registered object / save / load / clear_input / "
                "restore_object(add false|true) on ONE long-lived CheckpointControl object over three given checkpoints with overlapping "
                "identifier sets (common identifier at a different resp. the same offset, different object in each) and the checkpoint "
                "it saved itself; after every call (and, on a second control object, only after the last call) the complete state is "
                "observed: identifier list, bytes of a save, restore_object of EVERY identifier (the object of the LAST loaded "
                "checkpoint, or refused in a forked child), refusal of a second load; non-trivial = container with at least one array resp. >=2 objects; "
                "distinct = distinct (container, mode, types) resp. (registration sequence, restore sequence).  Extension: " + c05x.RULE)
    for c in [x for x in cases if x["part"] == "io"][::max(1, nio // 3)][:3] + [x for x in cases if x["part"] == "ckpt"][-1:]:
        if c["part"] in ("stream", "life"):
            continue
        if c["part"] == "io":
            chk.sample({k: c[k] for k in ("kind", "m", "n", "rep", "mode", "cdt", "sdt", "sit", "file")})
        else:
            chk.sample({"objs": [(o["id"], o["c"]["kind"]) for o in c["objs"]], "restore": [x["id"] for x in c["restore"]], "total": c["total"],
                        "entries": [(e["id"], e["len"]) for e in c["entries"]]})
    for c in [x for x in cases if x["part"] == "stream"][-1:]:
        chk.sample({"stream_history": [(o["op"], o["arg"], o["size"], o["pos"]) for o in c["ops"]]}, cap=7)
    for c in [x for x in cases if x["part"] == "life" and nontrivial(x)][-1:]:
        chk.sample({"checkpoint_life_history": [(o["op"], o["i"], o["s"], o["add"], "restorable", o["rst"]) for o in c["ops"]]}, cap=8)
    chk.assumptions = ["values are dyadic (numerators over 4) plus +0 / -0: general decimal rounding of the text formats is not explored (DESIGN.md sec. 7 residue)",
                       "zlib/zfp compression modes are compiled out of the baseline build and out of scope",
                       "container round trips go through std::stringstream / std::vector<char> / BinaryStream; the file-name overloads are sampled",
                       "BCSR has no MatrixMarket reader: its MatrixMarket output is read back through the CSR reader",
                       "SparseVectorBlocked, CSCR and Banded support binary modes only (no text mode exists in the code); a text round trip is "
                       "compared by value, so the SIGN of a stored zero is demanded for the binary modes only",
                       "containers are built through the raw-array constructors (canonical sorted arrays, allocated == used for sparse vectors)",
                       "CheckpointControl life histories: calls outside the documented preconditions (restore of an identifier the loaded input does not "
                       "contain, load while input is loaded, add of a registered / remove of an unregistered identifier) must be REFUSED by XASSERT; "
                       "they are observed in forked child processes and never continue a history; set_config (compression) is out of scope"] + list(c05x.ASSUMPTIONS)


def replay(obj):
    ext = [v for v in obj["violations"] if v.get("replay") and str(v["replay"].get("harness", "")).startswith("c05x")]
    if ext:
        import importlib.util
        sp = importlib.util.spec_from_file_location("check_C05x", os.path.join(vlib.VERIF, "checks", "C05x.py"))
        m = importlib.util.module_from_spec(sp); sp.loader.exec_module(m)
        return m.replay({"violations": ext})
    binary, = vlib.build(["c05_persist"])
    cases = [v["replay"]["case"] for v in obj["violations"] if v["replay"] and v["replay"].get("kind") == "case"]
    res = vlib.run_cases(binary, cases, tmo=20, shards=1)
    bad = 0
    for c, r in zip(cases, res):
        print(json.dumps({"case": sig(c, r), "result": r})[:1000])
        if r.get("ok") is not True:
            bad += 1
    return 1 if bad else 0
