"""C20x: extension of C20 to all LAFEM container families (spec/LifetimeX.tla, harness/c20x_lifetime.cpp, ASan+UBSan build).
Stand-alone runner of lib/c20x.py; to be merged into checks/C20.py by calling c20x.run_ext(chk)."""
import json
import vlib
import c20x

LEVEL = "model_checking"


def run(chk):
    samples = c20x.run_ext(chk)
    chk.exhaustive = True
    chk.rule = c20x.RULE
    for smp in samples:
        chk.sample(smp)
    chk.assumptions = list(c20x.ASSUMPTIONS)


def replay(obj):
    binary, = vlib.build([c20x.HARNESS], variant="asan")
    cases = [v["replay"]["case"] for v in obj["violations"] if v["replay"] and v["replay"].get("kind") == "case"]
    res = vlib.run_cases(binary, cases, tmo=40, shards=1)
    bad = 0
    for c, r in zip(cases, res):
        print(json.dumps({"ops": [[s["op"], s["args"]] for s in c["steps"]], "fin": c.get("fin"), "result": r})[:1500])
        bad += 0 if r.get("ok") is True else 1
    return 1 if bad else 0
