"""C09: multigrid performs the documented V/F/W cycle and converges level-independently.

spec/MGCycle.tla      events, declarative V/F/W (ruler order) + reference recursion, call expansion, Z_p denotation
spec/MGCycleOp.tla    (M) operational transcription of _apply_cycle_v/_f/_w with _counters == declarative cycle
spec/MGCycleGen.tla   (G) histories with predicted call logs and corrections -> harness/c09_mgmock.cpp
                      (the REAL MultiGridHierarchy/MultiGrid over mock Z_p algebra, exact comparison)
spec/MGCycleRate.tla  (V) runs of the real MultiGrid on a LAFEM Q1 Poisson hierarchy (harness/c09_mgreal.cpp):
                      expression-log grammar, documented call sequence, rate(L) < 1/2, rate(L) <= rate(2) + 0.15
spec/MGCycleXfer.tla  (V) the same hierarchy converted to other data/index types (LAFEM::Transfer::convert) and wrapped in
                      Global::Matrix/Vector/Filter/Transfer (with/without coarse muxer), or with cloned / moved transfer
                      objects - harness/c09_mgxfer.cpp: same correction as the plain LAFEM hierarchy, documented call
                      sequence, transfer operations agree
spec/MGCycleXferGen.tla (G) life-cycle histories of the transfer objects (build, then clone in every mode / convert /
                      move / compile / accessor operations) for LAFEM::Transfer and Global::Transfer (without / with coarse
                      muxer) over Z_p data with three different matrices P, R, T: slots, prol / rest / trunc and the
                      multigrid correction through the resulting objects as predicted by TLC (Apply of MGCycle.tla with the
                      ORIGINAL operators) - harness/c09_mgxlife.cpp (real LAFEM / Global objects, exact integer arithmetic)
spec/MGCycleLayers.tla (G) multigrid over PROCESS LAYERS (MPI): finest level on all ranks, coarser levels on the parents of
                      groups of ranks (>= 2 parents with overlapping patches), Global::Transfer over a Global::Muxer with ghost
                      processes, type-0 local matrices that sum up to the Z_p operators: correction and calls on every rank =
                      the single-process cycle (Apply of MGCycle.tla) - harness/c09_mglayers.cpp (mpirun -np 4 / 6 / 8)
"""
import os, json, re, shutil, threading
import concurrent.futures as cf
import vlib

LEVEL = "model_checking"
CYC = "VFW"
ADAPT = ["fixed", "min-energy", "min-defect"]


def _set(xs):
    return "{" + ", ".join(('"%s"' % x) if isinstance(x, str) else str(x) for x in xs) + "}"


def gen_cfg(seed, Ns, sub, cycles, adapts, maxwl, family, bases, depth, succs, lin):
    return ("SPECIFICATION Spec\nCONSTANTS Seed = %d Ns = %s SubRanges = %s Cycles = %s Adapts = %s MaxWL = %d Family = \"%s\" "
            "Bases = %s Depth = %d Succs = %s LinMaxL = %d\n"
            "INVARIANTS StepLengthsAreMinimisers Linear CallCounts Emit\nCHECK_DEADLOCK FALSE\n" % (
                seed, _set(Ns), "TRUE" if sub else "FALSE", _set(cycles), _set(adapts), maxwl, family, _set(bases), depth,
                _set(succs), lin))


def gen_jobs(tier, seed):
    """list of (name, cfg text).  Every job is one TLC process."""
    jobs = []
    allb = list(range(8))
    if tier == "quick":
        # uniform presence, 7 levels, every sub-range, histories of two applications
        for c in (0, 1, 2):
            for ads in ((0,), (1,), (2,)) if c == 2 else ((0,), (1, 2)):
                jobs.append(("uni7 %s %s" % (CYC[c], "+".join(ADAPT[a] for a in ads)),
                             gen_cfg(seed, [7], True, [c], ads, 5, "uniform", allb, 2, ["again", "cycle", "levels"], 0)))
        # one level with the complementary combination
        for c in (0, 1, 2):
            for bs in ([0, 3, 5, 6], [1, 2, 4, 7]):
                jobs.append(("onediff7 %s bases %s" % (CYC[c], bs), gen_cfg(seed, [7], True, [c], (0, 1, 2), 5, "onediff", bs, 1, ["again"], 0)))
        # hierarchies of 1..6 levels, full range through the constructor defaults, everything changed before the 2nd application
        jobs.append(("N1-6 full", gen_cfg(seed, [1, 2, 3, 4, 5, 6], False, (0, 1, 2), (0, 1, 2), 5, "uniform", allb, 2, ["all"], 0)))
        # W-cycle with 6 levels above the coarse level (64 coarse solves)
        jobs.append(("W L=6", gen_cfg(seed, [7], False, [2], (0, 1, 2), 6, "uniform", [3, 7], 1, ["again"], 0)))
        # linearity law of the denotation
        jobs.append(("linear", gen_cfg(seed, [4], True, (0, 1, 2), [0], 3, "uniform", allb, 1, ["again"], 4)))
    else:
        for sd in (seed, seed + 1, seed + 2):
            for c in (0, 1, 2):
                for a in (0, 1, 2):
                    jobs.append(("s%d uni7 %s %s" % (sd, CYC[c], ADAPT[a]),
                                 gen_cfg(sd, [7], True, [c], [a], 6, "uniform", allb, 2, ["again", "cycle", "levels", "adapt", "all"], 0)))
            for c in (0, 1, 2):
                for a in (0, 1, 2):
                    jobs.append(("s%d onediff7 %s %s" % (sd, CYC[c], ADAPT[a]),
                                 gen_cfg(sd, [7], True, [c], [a], 5, "onediff", allb, 2, ["again", "all"], 0)))
            for c in (0, 1, 2):
                jobs.append(("s%d N1-6 %s" % (sd, CYC[c]), gen_cfg(sd, [1, 2, 3, 4, 5, 6], True, [c], (0, 1, 2), 5, "uniform", allb, 2,
                                                                    ["again", "cycle", "levels", "adapt", "all"], 0)))
            jobs.append(("s%d linear" % sd, gen_cfg(sd, [5, 7], True, (0, 1, 2), [0], 4, "uniform", allb, 1, ["again"], 5)))
    return jobs


def generate(chk, tier):
    gdir = os.path.join(vlib.BUILD, "gen", "C09")
    os.makedirs(gdir, exist_ok=True)
    jobs = gen_jobs(tier, vlib.seed())
    files = []
    for k, (nm, txt) in enumerate(jobs):
        fn = "gen_MGCycleGen_%d_%d.cfg" % (os.getpid(), k)
        with open(os.path.join(vlib.SPEC, fn), "w") as f:
            f.write(txt)
        files.append(fn)
    cases, data, degenerate = [], {}, 0
    try:
        with cf.ThreadPoolExecutor(max_workers=6) as ex:
            futs = [(ex.submit(vlib.tlc, "MGCycleGen", fn, timeout=2400, xmx="2g", tag="C09gen%d" % k), nm)
                    for k, (fn, (nm, _)) in enumerate(zip(files, jobs))]
            for f, nm in futs:
                r = f.result()
                chk.add_tlc(r, "gen " + nm)
                if r.violation:
                    chk.model_violation(r, "MGCycleGen.tla invariant (%s)" % nm)
                for c in r.printed:
                    kind = c.get("kind")
                    if kind == "data":
                        data[c["seed"]] = c
                    elif kind == "degenerate":
                        degenerate += 1
                    else:
                        c["job"] = nm
                        cases.append(c)
    finally:
        for fn in files:
            try:
                os.remove(os.path.join(vlib.SPEC, fn))
            except OSError:
                pass
    return cases, list(data.values()), degenerate


def key(c):
    return json.dumps([c["seed"], c["N"], c["pre"], c["post"], c["peak"], c["cs"], c["k"],
                       [[a["how"], a["cyc"], a["top"], a["crs"], a["crsarg"], a["adapt"]] for a in c["apps"]]])


def sig(c, r):
    if c.get("kind") == "data":
        return {"kind": "data", "outcome": r.get("outcome", "mismatch")}
    k = r.get("app")
    a = c["apps"][k] if isinstance(k, int) and k < len(c["apps"]) else c["apps"][-1]
    return {"kind": "mock", "what": r.get("what", "other"), "cycle": CYC[a["cyc"]], "adapt": ADAPT[a["adapt"]], "how": a["how"],
            "L": a["crs"] - a["top"], "family": "uniform" if c["k"] < 0 else "onediff", "share": c["share"],
            "outcome": r.get("outcome", "mismatch")}


def real_cases(tier):
    if tier == "quick":
        runs = [{"cyc": c, "adapt": 0, "peak": p} for c in (0, 1, 2) for p in (True, False)]
        runs += [{"cyc": c, "adapt": 1, "peak": True} for c in (0, 1, 2)] + [{"cyc": 0, "adapt": 2, "peak": True}]
        return [{"lmax": l, "lmin": 1, "steps": 2, "iters": 8, "seed": vlib.seed(), "runs": runs} for l in (2, 3, 4, 5, 6)]
    runs = [{"cyc": c, "adapt": a, "peak": p} for c in (0, 1, 2) for a in (0, 1, 2) for p in (True, False)]
    return [{"lmax": l, "lmin": 1, "steps": s, "iters": 10, "seed": vlib.seed() + s, "runs": runs} for s in (1, 2, 3) for l in (2, 3, 4, 5, 6, 7)]


def validate_real(chk, binary):
    cases = real_cases(chk.tier)
    res = vlib.run_cases(binary, cases, tmo=300)
    runs = []
    for c, r in zip(cases, res):
        if r.get("ok") is not True:
            chk.violation({"kind": "real", "what": "run", "lmax": c["lmax"], "outcome": r.get("outcome", "mismatch")},
                          r.get("why") or ("outcome %s: %s" % (r.get("outcome"), (r.get("stderr") or "")[-400:])),
                          {"kind": "case", "harness": "c09_mgreal", "case": c, "result": r})
            continue
        runs += r["runs"]
    if not runs:
        return
    gdir = os.path.join(vlib.BUILD, "gen", "C09")
    os.makedirs(gdir, exist_ok=True)
    path = os.path.join(gdir, "rate_trace_%d.ndjson" % os.getpid())
    with open(path, "w") as f:
        for x in runs:
            f.write(json.dumps({k: x[k] for k in ("lmax", "nlev", "cyc", "adapt", "peak", "steps", "finite", "ratios_pm", "calls", "shape")}) + "\n")
    r = vlib.tlc("MGCycleRate", "MGCycleRate.cfg", env={"TRACE": path}, timeout=600, want_printed=False)
    chk.add_tlc(r, "rate trace validation")
    chk.traces += len(runs)
    if r.violation:
        inv = re.findall(r"Invariant (\w+) is violated", r.violation)
        st = vlib.tlc_trace_states(r.out)
        kk = None
        if st:
            m = re.search(r"k = (\d+)", st[-1])
            kk = int(m.group(1)) if m else None
        if kk is None and "initial state" in r.violation:
            kk = 1
        x = runs[kk - 1] if kk and kk <= len(runs) else {}
        chk.violation({"kind": "real", "what": inv[0] if inv else "trace", "cycle": CYC[x.get("cyc", 0)] if x else "?",
                       "adapt": ADAPT[x.get("adapt", 0)] if x else "?", "lmax": x.get("lmax")},
                      "run %s rejected by spec/MGCycleRate.tla: %s; run = %s" % (kk, r.violation, json.dumps(x)[:500]),
                      {"kind": "tlc", "cmd": r.cmd, "trace_file": path, "run": x})
    else:
        os.remove(path)
    tab = {}
    for x in runs:
        tab.setdefault("%s/%s/%s/steps%d" % (CYC[x["cyc"]], ADAPT[x["adapt"]], "peak" if x["peak"] else "nopeak", x["steps"]), {})[x["lmax"]] = max(x["ratios_pm"]) / 1000.0
    chk.extra["rates_by_mesh_level"] = tab
    worst = max((max(v.values()) for k, v in tab.items() if "min-defect" not in k), default=None)
    chk.extra["worst_rate_fixed_or_minenergy"] = worst
    chk.extra["rate_margin_to_half"] = None if worst is None else round(0.5 - worst, 3)


def xfer_cases(tier):
    runs = [{"cyc": c, "adapt": 0, "peak": True} for c in (0, 1, 2)] + [{"cyc": 1, "adapt": 0, "peak": False}, {"cyc": 0, "adapt": 1, "peak": True},
                                                                          {"cyc": 2, "adapt": 2, "peak": False}]
    if tier == "quick":
        return [{"lmax": l, "lmin": 1, "steps": 2, "seed": vlib.seed(), "runs": runs} for l in (2, 3, 4, 5)]
    runs = [{"cyc": c, "adapt": a, "peak": p} for c in (0, 1, 2) for a in (0, 1, 2) for p in (True, False)]
    return [{"lmax": l, "lmin": 1, "steps": s, "seed": vlib.seed() + s, "runs": runs} for s in (1, 2) for l in (2, 3, 4, 5, 6, 7)]


def validate_xfer(chk, binary):
    """converted LAFEM hierarchies and Global:: hierarchies vs the plain LAFEM hierarchy, judged by spec/MGCycleXfer.tla"""
    cases = xfer_cases(chk.tier)
    res = vlib.run_cases(binary, cases, tmo=300)
    runs = []
    for c, r in zip(cases, res):
        if r.get("ok") is not True:
            chk.violation({"kind": "xfer", "what": "run", "lmax": c["lmax"], "outcome": r.get("outcome", "mismatch")},
                          r.get("why") or ("outcome %s: %s" % (r.get("outcome"), (r.get("stderr") or "")[-400:])),
                          {"kind": "case", "harness": "c09_mgxfer", "case": c, "result": r})
            continue
        runs += r["runs"]
    if not runs:
        return
    gdir = os.path.join(vlib.BUILD, "gen", "C09")
    os.makedirs(gdir, exist_ok=True)
    path = os.path.join(gdir, "xfer_trace_%d.ndjson" % os.getpid())
    with open(path, "w") as f:
        for x in runs:
            f.write(json.dumps(x) + "\n")
    r = vlib.tlc("MGCycleXfer", "MGCycleXfer.cfg", env={"TRACE": path}, timeout=600, want_printed=False)
    chk.add_tlc(r, "transfer variant trace validation")
    chk.traces += len(runs)
    if r.violation:
        inv = re.findall(r"Invariant (\w+) is violated", r.violation)
        st = vlib.tlc_trace_states(r.out)
        kk = None
        if st:
            m = re.search(r"k = (\d+)", st[-1])
            kk = int(m.group(1)) if m else None
        if kk is None and "initial state" in r.violation:
            kk = 1
        x = runs[kk - 1] if kk and kk <= len(runs) else {}
        chk.violation({"kind": "xfer", "what": inv[0] if inv else "trace", "variant": x.get("variant"), "cycle": CYC[x.get("cyc", 0)] if x else "?",
                       "adapt": ADAPT[x.get("adapt", 0)] if x else "?", "lmax": x.get("lmax")},
                      "run %s rejected by spec/MGCycleXfer.tla: %s; run = %s" % (kk, r.violation, json.dumps({k: v for k, v in x.items() if k not in ("calls", "ref_calls")})[:500]),
                      {"kind": "tlc", "cmd": r.cmd, "trace_file": path, "run": x})
    else:
        os.remove(path)
    dev = {}
    for x in runs:
        dev[x["variant"]] = max(dev.get(x["variant"], 0), x["dev"])
    chk.extra["transfer_variant_max_deviation_in_eps"] = dev
    chk.extra["transfer_variant_runs"] = len(runs)


def tlc_jobs(module, jobs, tag):
    """run the TLC jobs [(name, cfg text, ...)] of `module`; returns [(job, TlcResult)] (pure: called from a side thread)"""
    files = []
    for k, job in enumerate(jobs):
        fn = "gen_%s_%d_%d.cfg" % (module, os.getpid(), k)
        with open(os.path.join(vlib.SPEC, fn), "w") as f:
            f.write(job[-1])
        files.append(fn)
    try:
        with cf.ThreadPoolExecutor(max_workers=3) as ex:
            futs = [ex.submit(vlib.tlc, module, fn, timeout=2400, xmx="2g", tag="%s%d" % (tag, k)) for k, fn in enumerate(files)]
            return [(job, f.result()) for job, f in zip(jobs, futs)]
    finally:
        for fn in files:
            try:
                os.remove(os.path.join(vlib.SPEC, fn))
            except OSError:
                pass


LIFE_OPS = ["clone-default", "clone-shallow", "clone-weak", "clone-deep", "clone-layout", "convert", "convert-index", "convert-float",
            "convert-self", "move-ctor", "move-assign", "move-self", "compile", "swap-rt", "fill"]
LIFE_KINDS = ["lafem", "global", "global-muxer"]


def life_jobs(tier, seed):
    """(name, cfg text) of the TLC runs of spec/MGCycleXferGen.tla"""
    def cfg(sd, kinds, nlev, depth):
        return ("SPECIFICATION Spec\nCONSTANTS Seed = %d Kinds = %s NLev = %d Depth = %d OpSet = %s\nINVARIANTS SlotLaw Emit\nCHECK_DEADLOCK FALSE\n"
                % (sd, _set(kinds), nlev, depth, _set(LIFE_OPS)))
    if tier == "quick":
        return [("life N4 depth2", cfg(seed, LIFE_KINDS, 4, 2))]
    jobs = [("life %s N4 depth3" % k, cfg(seed, [k], 4, 3)) for k in LIFE_KINDS]
    jobs += [("life N%d depth2 seed+%d" % (n, q), cfg(seed + q, LIFE_KINDS, n, 2)) for q, n in ((1, 2), (2, 3), (3, 5), (4, 6))]
    return jobs


def life_sig(c, r):
    ops = c.get("ops") or []
    return {"kind": "xlife", "what": r.get("what", "other"), "transfer": c.get("kind"), "build": c.get("build"),
            "lastop": ops[-1] if ops else "-", "outcome": r.get("outcome", "mismatch")}


def validate_life(chk, binary, gen):
    """(G) life-cycle histories of the transfer objects, expected values from spec/MGCycleXferGen.tla (gen = TLC results)"""
    cases = []
    for (nm, _), r in gen:
        chk.add_tlc(r, "gen " + nm)
        if r.violation:
            chk.model_violation(r, "MGCycleXferGen.tla invariant (%s)" % nm)
        data = [c for c in r.printed if c.get("kind") == "data"]
        if len(data) != 1:
            raise vlib.MachineryError("MGCycleXferGen (%s): expected one data record, got %d" % (nm, len(data)))
        for c in r.printed:
            if c.get("kind") != "data":
                c["data"] = data[0]
                c["job"] = nm
                cases.append(c)
    if not cases:
        raise vlib.MachineryError("MGCycleXferGen produced no cases")
    # the enumeration is what the module says it is: every kind, every operation, objects that restrict with T after an exchange
    seen_ops = set(o for c in cases for o in c["ops"])
    if seen_ops != set(LIFE_OPS) or set(c["kind"] for c in cases) != set(LIFE_KINDS) or not any(c["slots"]["r"] == "T" for c in cases):
        raise vlib.MachineryError("MGCycleXferGen: enumeration incomplete (operations %s)" % sorted(seen_ops))
    res = vlib.run_cases(binary, cases, tmo=60)
    for c, x in zip(cases, res):
        if x.get("ok") is False and str(x.get("why", "")).startswith("machinery:"):
            raise vlib.MachineryError("c09_mgxlife: %s (case %s %s %s)" % (x.get("why"), c["kind"], c["build"], c["ops"]))
    vlib.judge_results(chk, cases, res, life_sig, keyf=lambda c: json.dumps(["xlife", c["seed"], c["kind"], c["N"], c["build"], c["ops"]]),
                       harness="c09_mgxlife", nontrivial=lambda c: len(c["ops"]) >= 1)
    chk.traces += len(cases)
    chk.extra["transfer_lifecycle_histories"] = len(cases)
    chk.extra["transfer_lifecycle_histories_with_multigrid"] = sum(1 for c in cases if c["apps"])
    chk.extra["transfer_lifecycle_multigrid_applications"] = sum(len(c["apps"]) for c in cases)
    chk.extra["transfer_lifecycle_by_kind"] = {k: sum(1 for c in cases if c["kind"] == k) for k in LIFE_KINDS}
    c = cases[len(cases) // 2]
    chk.sample({"transfer": c["kind"], "build": c["build"], "ops": c["ops"], "slots": c["slots"], "direct": c["direct"][:1],
                "apps": [{"cycle": CYC[a["cyc"]], "peak": a["peak"], "calls": a["calls"][:16], "cor": a["cor"]} for a in c["apps"][:2]]})


MPIRUN = ["mpirun", "--allow-run-as-root", "--oversubscribe", "--bind-to", "none", "--mca", "mpi_yield_when_idle", "1", "-np"]


def layer_jobs(tier, seed):
    """(name, nr, cfg text) of the TLC runs of spec/MGCycleLayers.tla"""
    def cfg(sd, nr, fsels, psels, ming, maxg):
        return ("SPECIFICATION Spec\nCONSTANTS Seed = %d NR = %d FSELS = %s PSELS = %s CSELS = {0, 1} MING = %d MAXG = %d\n"
                "INVARIANTS LawSplit Emit\nCHECK_DEADLOCK FALSE\n" % (sd, nr, _set(fsels), _set(psels), ming, maxg))
    if tier == "quick":
        return [("layers nr4", 4, cfg(seed, 4, [0, 1, 2, 3], [0, 1, 2], 1, 3))]
    return [("layers nr4 seed+%d" % q, 4, cfg(seed + q, 4, [0, 1, 2, 3], [0, 1, 2], 1, 4)) for q in (0, 1, 2)] + \
           [("layers nr6", 6, cfg(seed + 3, 6, [3], [0, 1, 2], 2, 3)), ("layers nr8", 8, cfg(seed + 4, 8, [0, 3], [0, 1, 2], 2, 4))]


def layer_sig(c, r):
    why = str(r.get("why") or "")
    what = "other"
    for k, w in (("correction", "cor"), ("calls", "calls"), ("non-integral", "inexact"), ("status", "status"), ("harness:", "harness")):
        if k in why:
            what = w
            break
    return {"kind": "layers", "what": what, "nr": c.get("nr"), "nparents": c.get("nparents"), "fsel": c.get("fsel"), "psel": c.get("psel"),
            "csel": c.get("csel"), "outcome": r.get("outcome", "mismatch")}


def run_layer_cases(binary, cases, nr):
    try:
        return vlib.run_cases(binary, cases, tmo=30, max_abnormal=6, shards=max(1, min(3, 8 // nr)), wrapper=MPIRUN + [str(nr)])
    except vlib.MachineryError:
        # an mpirun job that fails to start on the loaded machine is not a statement about the property: one retry in a single job
        return vlib.run_cases(binary, cases, tmo=60, max_abnormal=6, shards=1, wrapper=MPIRUN + [str(nr)])


def validate_layers(chk, binary, gen):
    """(G) V/F/W cycles over a layered MPI hierarchy, expected values from spec/MGCycleLayers.tla (gen = TLC results)"""
    groups = []
    for (nm, nr, _), r in gen:
        chk.add_tlc(r, "gen " + nm)
        if r.violation:
            chk.model_violation(r, "MGCycleLayers.tla invariant (%s)" % nm)
        cs = [c for c in r.printed if c.get("kind") == "layers"]
        for c in cs:
            c["job"] = nm
        groups.append((nr, cs))
    allc = [c for _, cs in groups for c in cs]
    # the enumeration contains what the part is for: >= 2 parents whose coarse patches overlap, ghosts, proper sub-patches
    if not any(c["nparents"] >= 2 and c["psel"] == 0 for c in allc) or not any(c["fsel"] != 0 for c in allc):
        raise vlib.MachineryError("MGCycleLayers: enumeration incomplete")
    for nr, cs in groups:
        res = run_layer_cases(binary, cs, nr)
        for c, x in zip(cs, res):
            if x.get("ok") is False and "harness:" in str(x.get("why", "")):
                raise vlib.MachineryError("c09_mglayers: %s" % x.get("why"))
        vlib.judge_results(chk, cs, res, layer_sig,
                           keyf=lambda c: json.dumps(["layers", c["seed"], c["nr"], c["grp"], c["fsel"], c["psel"], c["csel"]]),
                           harness="c09_mglayers", nontrivial=lambda c: c["nparents"] >= 2)
    chk.traces += len(allc)
    chk.extra["layered_configurations"] = len(allc)
    chk.extra["layered_configurations_by_parents"] = {str(k): sum(1 for c in allc if c["nparents"] == k) for k in sorted(set(c["nparents"] for c in allc))}
    chk.extra["layered_multigrid_applications"] = sum(len(c["apps"]) for c in allc)
    c = allc[len(allc) // 2]
    chk.sample({"layers": {"nr": c["nr"], "grp": c["grp"], "fine patches": c["lev"][0]["dofs"], "level-1 patches": c["lev"][1]["dofs"],
                           "child patches": c["cdofs"]},
                "apps": [{"cycle": CYC[a["cyc"]], "peak": a["peak"], "calls": a["calls"], "cor": a["cor"]} for a in c["apps"][:2]]})


def run(chk):
    tier = chk.tier
    bins = {}
    err = []

    def do_build():
        try:
            bins["mock"], bins["real"], bins["xfer"], bins["xlife"] = vlib.build(["c09_mgmock", "c09_mgreal", "c09_mgxfer", "c09_mgxlife"], jobs=4)
        except Exception as e:  # reported below, in the main thread
            err.append(e)
    bt = threading.Thread(target=do_build)
    bt.start()
    if shutil.which("mpirun") is None or shutil.which("mpicxx") is None:
        raise vlib.MachineryError("MPI toolchain (mpicxx/mpirun) not available")

    def do_build_mpi():
        try:
            bins["layers"], = vlib.build(["c09_mglayers"], variant="mpi", jobs=4)
        except Exception as e:
            err.append(e)
    bt2 = threading.Thread(target=do_build_mpi)
    bt2.start()
    # the two small generators run beside the big one
    side = cf.ThreadPoolExecutor(max_workers=2)
    gen_life = side.submit(tlc_jobs, "MGCycleXferGen", life_jobs(tier, vlib.seed()), "C09life")
    gen_layers = side.submit(tlc_jobs, "MGCycleLayers", layer_jobs(tier, vlib.seed()), "C09lay")

    # (M) transcription of the code's loops == documented cycle
    r = vlib.tlc("MGCycleOp", "MGCycleOp_%s.cfg" % tier, workers=2 if tier == "quick" else 4, timeout=2400, want_printed=False)
    chk.add_tlc(r, "transcription vs declarative cycle")
    if r.violation:
        chk.model_violation(r, "MGCycleOp.tla: transcription of _apply_cycle_* differs from the documented cycle")

    # (G) histories with predicted results
    cases, data, degenerate = generate(chk, tier)
    bt.join()
    bt2.join()
    if err:
        raise err[0]
    if not cases or not data:
        raise vlib.MachineryError("generator produced no cases / no data record")
    allc = data + cases
    res = vlib.run_cases(bins["mock"], allc, tmo=60)
    # a disagreement about the level data is a machinery problem, not a finding about FEAT
    for c, x in zip(data, res[:len(data)]):
        if x.get("ok") is not True:
            raise vlib.MachineryError("replayer's level data generator differs from the specification's: %s" % json.dumps(x)[:600])
    vlib.judge_results(chk, cases, res[len(data):], sig, keyf=key, harness="c09_mgmock",
                       nontrivial=lambda c: any(a["crs"] > a["top"] for a in c["apps"]))
    napps = sum(len(c["apps"]) for c in cases)
    chk.traces += len(cases)
    chk.extra["applications_replayed"] = napps
    chk.extra["degenerate_configurations_skipped"] = degenerate
    chk.extra["max_calls_in_one_application"] = max(len(a["calls"]) for c in cases for a in c["apps"])
    chk.extra["applications_by_cycle"] = {CYC[k]: sum(1 for c in cases for a in c["apps"] if a["cyc"] == k) for k in range(3)}
    chk.extra["applications_by_adapt"] = {ADAPT[k]: sum(1 for c in cases for a in c["apps"] if a["adapt"] == k) for k in range(3)}
    chk.extra["max_L_by_cycle"] = {CYC[k]: max([a["crs"] - a["top"] for c in cases for a in c["apps"] if a["cyc"] == k] or [0]) for k in range(3)}

    # (V) real LAFEM hierarchy
    validate_real(chk, bins["real"])
    validate_xfer(chk, bins["xfer"])
    # (G) life-cycle of the transfer objects
    validate_life(chk, bins["xlife"], gen_life.result())
    # (G) multigrid over process layers (MPI)
    validate_layers(chk, bins["layers"], gen_layers.result())
    side.shutdown()

    chk.exhaustive = True
    chk.rule = ("(M) every cycle x sub-range top..crs of %d levels x left-over _counters contents; (G) every history of spec/MGCycleGen.tla "
                "within the tier's constants: hierarchy of N levels, smoother/coarse-solver presence uniform (8 combinations x coarse solver y/n) or one "
                "level complementary, first application = any cycle x sub-range x adaptive mode (W up to L=%d), then again / set_cycle / set_levels / "
                "set_adapt_cgc / all; each replayed on the real MultiGrid over Z_32003 mocks with poisoned level vectors, call log and correction compared "
                "exactly; non-trivial = at least one application with L >= 1; distinct = distinct (seed, hierarchy, application configurations); "
                "(V) every recorded run of the LAFEM hierarchy validated by TLC against spec/MGCycleRate.tla, every (variant, run) of the converted / "
                "Global:: / cloned hierarchies against spec/MGCycleXfer.tla; (G, transfer life-cycle) every history of spec/MGCycleXferGen.tla: "
                "{LAFEM::Transfer, Global::Transfer, Global::Transfer with coarse muxer} x build {3 matrices, 2 matrices, default} x up to %d operations out "
                "of clone (default / shallow / weak / deep / layout+copy), convert (same type / via other index type / via float / self), move "
                "construction / assignment / self-assignment, compile, accessor fill / exchange - slots, prol / rest / trunc and V/F/W corrections "
                "through the resulting objects compared exactly with TLC's values; (G, process layers) every configuration of spec/MGCycleLayers.tla: "
                "groupings of the ranks into consecutive groups x fine / parent / child patch families with power-of-two multiplicities and "
                "complete coverage, V / F / W (with and without peak smoothers) through Global::Transfer + Muxer with ghosts, correction and calls "
                "of every rank compared exactly with the single-process cycle" % (7 if tier == "quick" else 9, 6, 2 if tier == "quick" else 3))
    for c in cases[len(cases) // 3: len(cases) // 3 + 2]:
        chk.sample({"N": c["N"], "pre/post/peak/cs": [c["pre"], c["post"], c["peak"], c["cs"]], "k": c["k"],
                    "apps": [{"how": a["how"], "cycle": CYC[a["cyc"]], "top": a["top"], "crs": a["crs"], "adapt": ADAPT[a["adapt"]],
                              "calls": a["calls"][:24], "cor": a["cor"]} for a in c["apps"]]})
    chk.assumptions = [
        "serial hierarchy: size_physical == size_virtual, no ghost transfer (rest_send/prol_recv paths of parallel runs are not explored)",
        "mock smoothers / coarse solvers are linear maps that return filtered corrections (S = filter_cor o S') and always report success; "
        "filters are rank-one projection pairs v - <v,p>d (defects) / v - <v,d>p (corrections): mean-filter-like with generic p # d on "
        "levels 0 and 4 (filter_def # filter_cor), unit-filter-like (p = d = unit vector) on levels 2 and 6, none on odd levels; defects are "
        "filtered (first application) or arbitrary (second application)",
        "level data over Z_32003 is generic (hash-generated), not SPD: the exact part checks the algebraic identity of the map, positivity "
        "plays no role in it; configurations whose adaptive denominator is 0 mod p are skipped (counted)",
        "Global:: layer in the mock / floating / life-cycle parts on ONE process (null gates; coarse muxer absent or with this process as "
        "child and parent over a size-1 sibling communicator); genuinely distributed hierarchies (gates, ghost muxers, rest_send / prol_recv) "
        "are explored by the process-layer part only: 3 levels (3 / 2 / 3 unknowns), one layer change between levels 0 and 1, levels 1 and 2 "
        "on the parents, mock smoothers / filters that act on the gathered global vector; every dof is held by 1, 2, 4 or 8 ranks "
        "(Global::Matrix::apply divides by the multiplicity: other multiplicities are not exact in floating point); local numbering "
        "ascending (renumbered / non-monotone mirrors are C13's subject); fixed coarse grid correction",
        "transfer life-cycle part: dense 3x2 / 2x3 transfer matrices with residues of Z_32003 as entries (sparsity patterns of FE transfer "
        "matrices only in the floating variants 'clone' / 'global-clone'); clone modes Layout / Allocate carry no values by definition (Layout is "
        "followed by a value copy, Allocate is not used); aliasing between a shallow clone and its source (later modification of the source) "
        "is a container property (C02 / C20), not explored here; fixed coarse grid correction only (adaptive step lengths are not Z_p-exact "
        "in floating point)",
        "floating part: Q1 Poisson on the unit square, Jacobi(0.8) smoothing, mesh levels 2..%d; rate abstraction = max per-cycle residual "
        "ratio in permille (floor); the rate bounds are stated for fixed / min-energy coarse grid correction only" % (6 if tier == "quick" else 7),
    ]


def replay(obj):
    mock, real, xfer, xlife = vlib.build(["c09_mgmock", "c09_mgreal", "c09_mgxfer", "c09_mgxlife"], jobs=4)
    bad = 0
    redo_real = False
    redo_xfer = False
    for v in obj["violations"]:
        rp = v.get("replay") or {}
        if rp.get("kind") == "tlc" and (v.get("sig") or {}).get("kind") == "real":
            redo_real = True      # a recorded run was rejected by MGCycleRate.tla: record and validate the runs again (below)
            continue
        if rp.get("kind") == "tlc" and (v.get("sig") or {}).get("kind") == "xfer":
            redo_xfer = True
            continue
        if rp.get("kind") != "case":
            print(json.dumps({"sig": v["sig"], "desc": v["desc"][:400]}))
            bad += 1
            continue
        if rp.get("harness") == "c09_mglayers":
            lay, = vlib.build(["c09_mglayers"], variant="mpi", jobs=4)
            r = run_layer_cases(lay, [rp["case"]], rp["case"]["nr"])[0]
        else:
            b = {"c09_mgmock": mock, "c09_mgxfer": xfer, "c09_mgxlife": xlife}.get(rp.get("harness"), real)
            r = vlib.run_cases(b, [rp["case"]], tmo=300, shards=1)[0]
        print(json.dumps({"sig": v["sig"], "result": r})[:1200])
        if r.get("ok") is not True:
            bad += 1
    if redo_real:
        chk = vlib.Check("C09", tier=os.environ.get("VERIF_TIER", "quick"))
        validate_real(chk, real)
        for s_, d, _ in chk.violations:
            print(json.dumps({"sig": s_, "desc": d[:600]}))
        print(json.dumps({"rates_by_mesh_level": chk.extra.get("rates_by_mesh_level")}))
        bad += len(chk.violations)
    if redo_xfer:
        chk = vlib.Check("C09", tier=os.environ.get("VERIF_TIER", "quick"))
        validate_xfer(chk, xfer)
        for s_, d, _ in chk.violations:
            print(json.dumps({"sig": s_, "desc": d[:600]}))
        bad += len(chk.violations)
    return 1 if bad else 0
