"""C01: matrix-vector products in every storage format (spec/MatVec.tla, harness/c01_matvec.cpp)"""
import os, json
import vlib

LEVEL = "model_checking"


def cfg_text(fmt, maxm, maxn, bh=1, bw=1, pal=1, maxnnz=99):
    return ("SPECIFICATION Spec\nCONSTANTS Fmt = \"%s\" MaxM = %d MaxN = %d BH = %d BW = %d Palette = %d MaxNnz = %d\n"
            "INVARIANTS RepValid TransposeConsistent AlphaZero Emit\nCHECK_DEADLOCK FALSE\n" % (fmt, maxm, maxn, bh, bw, pal, maxnnz))


def configs(tier):
    if tier == "thorough":
        return [("csr", 4, 4, 1, 1, 1, 7), ("csr", 3, 3, 1, 1, 2, 99), ("cscr", 3, 3, 1, 1, 1, 99), ("dense", 3, 3, 1, 1, 1, 99),
                ("dense", 4, 4, 1, 1, 2, 6), ("banded", 4, 4, 1, 1, 1, 99), ("banded", 3, 5, 1, 1, 2, 99),
                ("bcsr", 2, 2, 2, 2, 1, 99), ("bcsr", 2, 2, 2, 3, 1, 99), ("bcsr", 2, 2, 3, 2, 1, 99), ("bcsr", 3, 3, 1, 1, 1, 99),
                ("bcsr", 3, 2, 2, 3, 2, 99), ("cscr", 4, 3, 1, 1, 2, 5)]
    return [("csr", 3, 3, 1, 1, 1, 99), ("csr", 2, 3, 1, 1, 2, 99), ("cscr", 3, 2, 1, 1, 1, 99), ("cscr", 2, 3, 1, 1, 1, 99),
            ("dense", 3, 3, 1, 1, 1, 4), ("dense", 2, 2, 1, 1, 2, 99), ("banded", 3, 3, 1, 1, 1, 99), ("banded", 2, 4, 1, 1, 1, 99),
            ("banded", 4, 2, 1, 1, 1, 99),
            ("bcsr", 2, 2, 2, 2, 1, 99), ("bcsr", 2, 2, 2, 3, 1, 99), ("bcsr", 2, 2, 3, 2, 1, 99), ("bcsr", 2, 2, 1, 1, 1, 99)]


def generate(chk, tier):
    import concurrent.futures as cf
    gdir = os.path.join(vlib.BUILD, "gen", "C01")
    os.makedirs(gdir, exist_ok=True)
    jobs = []
    for k, (fmt, mm, nn, bh, bw, pal, mx) in enumerate(configs(tier)):
        name = "MatVec_gen_%d.cfg" % k
        with open(os.path.join(vlib.SPEC, "gen_" + name), "w") as f:
            f.write(cfg_text(fmt, mm, nn, bh, bw, pal, mx))
        jobs.append(("gen_" + name, "%s %dx%d b%dx%d pal%d" % (fmt, mm, nn, bh, bw, pal)))
    cases = []
    with cf.ThreadPoolExecutor(max_workers=min(len(jobs), vlib.NCPU)) as ex:
        futs = [(ex.submit(vlib.tlc, "MatVec", cfg, timeout=1500, xmx="3g"), nm) for cfg, nm in jobs]
        for f, nm in futs:
            r = f.result()
            chk.add_tlc(r, nm)
            if r.violation:
                chk.model_violation(r, "MatVec.tla invariant (%s)" % nm)
            cases.extend(r.printed)
    for cfg, _ in jobs:
        try:
            os.remove(os.path.join(vlib.SPEC, cfg))
        except OSError:
            pass
    return cases


META_KINDS = ["saddle", "tuple22", "tdiag2", "tdiag3", "pdiag2", "pfull22", "prow2", "pcol2"]


def generate_meta(chk):
    import concurrent.futures as cf
    jobs = []
    for k in META_KINDS:
        name = "gen_MetaMatVec_%s_%d.cfg" % (k, os.getpid())
        with open(os.path.join(vlib.SPEC, name), "w") as f:
            f.write('SPECIFICATION Spec\nCONSTANT Kind = "%s"\nINVARIANTS LeavesValid Placement Emit\nCHECK_DEADLOCK FALSE\n' % k)
        jobs.append((name, k))
    cases = []
    with cf.ThreadPoolExecutor(max_workers=8) as ex:
        futs = [(ex.submit(vlib.tlc, "MetaMatVec", cfg, timeout=1500, xmx="3g"), k, cfg) for cfg, k in jobs]
        for f, k, cfg in futs:
            r = f.result()
            chk.add_tlc(r, "meta " + k)
            if r.violation:
                chk.model_violation(r, "MetaMatVec.tla invariant (%s)" % k)
            cases.extend(r.printed)
            try:
                os.remove(os.path.join(vlib.SPEC, cfg))
            except OSError:
                pass
    return cases


def sig_meta(c, r):
    return {"fmt": "meta:" + c["kind"], "op": c["op"], "m": c["m"], "n": c["n"], "outcome": r.get("outcome", "mismatch"),
            "variant": ("flat" if "/flat" in (r.get("why") or "") else "meta")}


def sig(c, r):
    nnz = len(c["rep"].get("ci", c["rep"].get("va", [])))
    return {"fmt": c["fmt"], "op": c["op"], "m": c["m"], "n": c["n"], "nnz": nnz, "empty_dim": c["m"] == 0 or c["n"] == 0, "outcome": r.get("outcome", "mismatch")}


def key(c):
    return json.dumps([c["fmt"], c["bh"], c["bw"], c["m"], c["n"], c["rep"], c["op"], c["an"], c["ad"], c["alias"], c["bs"]])


def run(chk):
    binary, mbinary = vlib.build(["c01_matvec", "c01_metamat"])
    mcases = generate_meta(chk)
    mres = vlib.run_cases(mbinary, mcases, tmo=20)
    vlib.judge_results(chk, mcases, mres, sig_meta, harness="c01_metamat",
                       keyf=lambda c: json.dumps([c["kind"], c["leaves"], c["op"], c["an"], c["ad"], c["alias"]]))
    chk.extra["meta_matrix_cases"] = len(mcases)
    if mcases:
        c = mcases[len(mcases) // 3]
        chk.sample({k: c[k] for k in ("kind", "leaves", "op", "an", "ad", "alias", "x", "y", "exp")})
    cases = generate(chk, chk.tier)
    if not cases:
        raise vlib.MachineryError("generator produced no cases")
    res = vlib.run_cases(binary, cases, tmo=20)
    vlib.judge_results(chk, cases, res, sig, keyf=key, harness="c01_matvec",
                       nontrivial=lambda c: c["m"] > 0 and c["n"] > 0)
    chk.traces = len(cases) + len(mcases)
    chk.exhaustive = True
    chk.rule = ("every post-state of spec/MatVec.tla: all shapes 0..M x 0..N, all sparsity patterns / offset sets / CSCR row "
                "lists, all calls (apply, apply_transposed, axpy variants with alpha in {0,1,-1,2,-5/2}, r aliasing y, blocked-vector "
                "variants), each replayed for float/double x uint32/uint64; plus every post-state of spec/MetaMatVec.tla (SaddlePoint, Tuple, PowerDiag/Full/Row/Col "
                "compositions over CSR leaves with palette patterns, meta-vector and flat DenseVector overloads); non-trivial = non-empty shape; distinct = distinct "
                "(format, block shape, rep, call)")
    for c in cases[len(cases) // 2: len(cases) // 2 + 3]:
        chk.sample({k: c[k] for k in ("fmt", "m", "n", "rep", "op", "an", "ad", "alias", "x", "y", "exp")})
    chk.assumptions = ["inputs are restricted to the exact domain (small integers, dyadic alpha): rounding behaviour on general reals is not explored",
                       "the container built through the raw-array constructor is what applications build through assembly"]


def replay(obj):
    binary, = vlib.build(["c01_matvec"])
    cases = [v["replay"]["case"] for v in obj["violations"] if v["replay"] and v["replay"].get("kind") == "case"]
    res = vlib.run_cases(binary, cases, tmo=20, shards=1)
    bad = 0
    for c, r in zip(cases, res):
        print(json.dumps({"case": sig(c, r), "result": r})[:1000])
        if r.get("ok") is not True:
            bad += 1
    return 1 if bad else 0
