"""C08: preconditioners apply exactly their defining linear operator (spec/Precond.tla, harness/c08_precond.cpp).

TLC enumerates matrices (all sparsity patterns containing the diagonal, dyadic value palettes with power-of-two
diagonals), preconditioner kinds and parameters, filters and life-cycle histories; the exact dyadic definitions of
spec/Precond.tla predict the result of every apply(); the replayer compares the real classes with ==.  TLC also
checks the sanity laws of the definitions themselves (defining relations of Jacobi/SOR/SSOR, LU = A on the level-p
pattern, complete fill => A^-1, linearity) on every generated input.
"""
import os, json
import concurrent.futures as cf
import vlib

LEVEL = "model_checking"
ALL = ["jacobi", "sor", "ssor", "poly", "ilu", "scale", "diagonal", "matrix"]
INV = "SorRelation SsorRelation JacobiRelation IluLaws Linearity LifeOK Emit"


def cfg_text(ns, kinds, pals, minoff, maxoff, filters, mode="canon", maxhist=0):
    def st(x):
        return "{" + ", ".join(('"%s"' % v) if isinstance(v, str) else str(v) for v in x) + "}"
    return ("SPECIFICATION Spec\nCONSTANTS NS = %s Kinds = %s Pals = %s MinOff = %d MaxOff = %d Filters = %d Mode = \"%s\" MaxHist = %d\n"
            "INVARIANTS %s\nCHECK_DEADLOCK FALSE\n" % (st(ns), st(kinds), st(pals), minoff, maxoff, filters, mode, maxhist, INV))


def jobs_for(tier):
    j = []
    # n = 2, 3: every pattern, three value palettes, every kind and parameter, with and without filtered dofs
    for k in ALL:
        if k in ("poly", "ssor", "sor", "ilu"):
            for pl in ((1, 2, 3) if tier == "thorough" or k == "ilu" else (1, 2)):      # the expensive kinds are sharded over the value palette
                j.append(("n<=3 %s pal%d" % (k, pl), cfg_text([2, 3], [k], [pl], 0, 99, 1)))
        else:
            j.append(("n<=3 %s" % k, cfg_text([2, 3], [k], [1, 2, 3], 0, 99, 1)))
    j.append(("n=1", cfg_text([1], ALL, [1, 2], 0, 0, 0)))
    if tier == "thorough":
        # n = 4: every pattern for the substitution-based kinds, sharded over the number of off-diagonal entries
        for lo, hi in ((0, 4), (5, 5), (6, 6), (7, 7), (8, 12)):
            j.append(("n=4 tri %d..%d" % (lo, hi), cfg_text([4], ["sor", "ssor", "ilu"], [1], lo, hi, 0)))
        j.append(("n=4 ilu pal2", cfg_text([4], ["ilu"], [2], 0, 5, 0)))
        j.append(("n=4 other", cfg_text([4], ["jacobi", "poly", "scale", "diagonal", "matrix"], [1], 0, 4, 1)))
        j.append(("histories n=2", cfg_text([2], ALL, [1, 2], 0, 2, 0, "hist", 6)))
        j.append(("histories n=3", cfg_text([3], ["sor", "ssor", "ilu", "poly", "jacobi"], [1], 3, 3, 0, "hist", 5)))
    else:
        j.append(("n=4 tri 0..3", cfg_text([4], ["sor", "ssor", "ilu"], [1], 0, 3, 0)))
        j.append(("n=4 ilu 4", cfg_text([4], ["ilu"], [2], 4, 4, 0)))
        j.append(("histories n=2", cfg_text([2], ALL, [1], 1, 2, 0, "hist", 5)))
    return j


def generate(chk):
    names = []
    for k, (name, text) in enumerate(jobs_for(chk.tier)):
        fn = "gen_c08_%d_%d.cfg" % (os.getpid(), k)
        with open(os.path.join(vlib.SPEC, fn), "w") as f:
            f.write(text)
        names.append((name, fn))
    cases = []
    try:
        with cf.ThreadPoolExecutor(max_workers=6) as ex:
            futs = [(name, ex.submit(vlib.tlc, "Precond", fn, timeout=2400, xmx="3g", tag="c08_%d" % k)) for k, (name, fn) in enumerate(names)]
            for name, f in futs:
                r = f.result()
                chk.add_tlc(r, name)
                if r.violation:
                    chk.model_violation(r, "Precond.tla law (%s)" % name)
                for c in r.printed:
                    c["_job"] = name
                cases.extend(r.printed)
    finally:
        for _, fn in names:
            try:
                os.remove(os.path.join(vlib.SPEC, fn))
            except OSError:
                pass
    return cases


def sig(c, r):
    return {"kind": c["kind"], "n": c["n"], "clause": r.get("clause", "outcome_" + str(r.get("outcome", "error"))), "stale": bool(r.get("stale", False)),
            "p": c["p"], "filtered": len(c["F"]) > 0, "outcome": r.get("outcome", "mismatch")}


def key(c):
    return json.dumps([c["n"], c["kind"], c["w"], c["m"], c["p"], c["F"], c["pat"], c["A1"], [s["op"] for s in c["steps"]]])


def run(chk):
    binary, = vlib.build(["c08_precond"])
    cases = generate(chk)
    if not cases:
        raise vlib.MachineryError("generator produced no cases")
    res = vlib.run_cases(binary, cases, tmo=30)
    vlib.judge_results(chk, cases, res, sig, keyf=key, harness="c08_precond",
                       nontrivial=lambda c: c["n"] >= 2 and sum(sum(row) for row in c["pat"]) > c["n"])
    chk.traces = len(cases)
    hist = {}
    napply = 0
    for c in cases:
        hist[c["kind"]] = hist.get(c["kind"], 0) + 1
        napply += sum(len(s["exp"]) for s in c["steps"] if s["op"] == "AP")
    chk.extra["cases_per_kind"] = hist
    chk.extra["apply_calls_compared"] = napply
    chk.extra["ilu_cases_with_fill"] = sum(1 for c in cases if c["kind"] == "ilu" and c["ilu1"]["pat"] != c["pat"])
    chk.exhaustive = True
    chk.rule = ("every initial state of spec/Precond.tla within the bounds (all sparsity patterns containing the diagonal for n <= 3, "
                "bounded/sharded for n = 4; value palettes; omega in {1/2,1,3/2}; ILU fill levels 0..3; polynomial order 1..3; filtered dofs) "
                "that lies in the exact dyadic domain, each with the canonical life-cycle history init_symbolic, init_numeric, apply, "
                "update values, apply (stale), init_numeric, apply, done_numeric, update, init_numeric, apply, done_numeric, done_symbolic "
                "(or every history of bounded length), each apply on n+2 test vectors; non-trivial = n >= 2 with off-diagonal entries")
    for c in cases[len(cases) // 2: len(cases) // 2 + 2]:
        chk.sample({k: c[k] for k in ("n", "kind", "w", "p", "m", "pat", "A1")})
    chk.assumptions = ["matrices are restricted to the exact dyadic domain: power-of-two diagonals (ILU: power-of-two pivots); inputs whose "
                       "factorisation leaves it are not generated",
                       "scalar SparseMatrixCSR<double> with UnitFilter only; blocked (BCSR) variants and Schwarz/Uzawa/Vanka are not covered",
                       "between a value update and the next init_numeric the result is unspecified: old-operator, new-operator and (Polynomial) "
                       "cached-diagonal/live-matrix results are all accepted"]


def replay(obj):
    binary, = vlib.build(["c08_precond"])
    cases = [v["replay"]["case"] for v in obj["violations"] if v["replay"] and v["replay"].get("kind") == "case"]
    res = vlib.run_cases(binary, cases, tmo=30, shards=1)
    bad = 0
    for c, r in zip(cases, res):
        print(json.dumps({"case": sig(c, r), "result": r})[:1000])
        if r.get("ok") is not True:
            bad += 1
    return 1 if bad else 0
