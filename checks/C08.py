"""C08: preconditioners apply exactly their defining linear operator.

Three parts, one TLC-generated case stream each, replayed on the real classes with exact comparison:
  scalar   spec/Precond.tla     -> harness/c08_precond.cpp      SparseMatrixCSR<double>, FilterChain<UnitFilter, MeanFilter, UnitFilter>
  blocked  spec/PrecondBlk.tla  -> harness/c08_precond_blk.cpp  SparseMatrixBCSR<double,Index,BS,BS> / DenseVectorBlocked /
                                                                FilterChain<UnitFilterBlocked, MeanFilterBlocked, UnitFilterBlocked>, BS = 2, 3
  ilusym   spec/IluSym.tla      -> harness/c08_ilusym.cpp       ILU(p) level-of-fill patterns on n = 5..10 (ILUCoreSymbolic)

TLC enumerates matrices (all sparsity patterns containing the diagonal, dyadic value palettes with power-of-two
diagonals resp. diagonal blocks of determinant +-2^k, non-symmetric and non-commuting blocks included), preconditioner
kinds and parameters, filters (none, unit filters, mean filters with non-proportional primal / dual vectors - for which
the correction filter differs from the defect filter - and chains unit ; mean ; unit) and life-cycle histories; the exact
dyadic definitions of the specifications predict the result of every apply(); the replayers compare the real classes with ==.  TLC also checks the sanity laws of the
definitions themselves (defining relations of Jacobi/SOR/SSOR, block inverse, LU = A on the level-p pattern, complete
fill => A^-1, linearity, blocked definitions with BS = 1 == scalar definitions, level recurrence == fill-path
characterisation) on every generated input.
"""
import os, json, hashlib
import concurrent.futures as cf
import vlib
import c08x

LEVEL = "model_checking"
ALL = ["jacobi", "sor", "ssor", "poly", "ilu", "scale", "diagonal", "matrix"]
INV = "SorRelation SsorRelation JacobiRelation IluLaws Linearity FilterLaw MeanFilterLaw LifeOK Emit"
BLAWS = "BInvLaw BJacobiRelation BSorRelation BSsorRelation SsorTableLaw BIluLaws BLinearity ScalarConsistency BFilterLaw BLifeOK"
HARNESS = {"scalar": "c08_precond", "blocked": "c08_precond_blk", "ilusym": "c08_ilusym"}


def st(x):
    return "{" + ", ".join(('"%s"' % v) if isinstance(v, str) else str(v) for v in x) + "}"


def cfg_text(ns, kinds, pals, minoff, maxoff, filters, mode="canon", maxhist=0):
    return ("SPECIFICATION Spec\nCONSTANTS NS = %s Kinds = %s Pals = %s MinOff = %d MaxOff = %d Filters = %d Mode = \"%s\" MaxHist = %d\n"
            "INVARIANTS %s\nCHECK_DEADLOCK FALSE\n" % (st(ns), st(kinds), st(pals), minoff, maxoff, filters, mode, maxhist, INV))


def cfg_blk(bs, ns, kinds, pals, minoff, maxoff, filters, mode="canon", maxhist=0, emit=True):
    return ("SPECIFICATION BSpec\nCONSTANTS NS = %s Kinds = %s Pals = %s MinOff = %d MaxOff = %d Filters = %d Mode = \"%s\" MaxHist = %d BS = %d\n"
            "INVARIANTS %s%s\nCHECK_DEADLOCK FALSE\n" % (st(ns), st(kinds), st(pals), minoff, maxoff, filters, mode, maxhist, bs, BLAWS,
                                                         " BEmit" if emit else ""))


def cfg_sym(ns, seeds, dens, pmax, crafted):
    return ("SPECIFICATION Spec\nCONSTANTS NS = %s Seeds = %s Dens = %s PMax = %d VSeed = %d Crafted = %s\n"
            "INVARIANTS FillPathLaw Monotone Emit\nCHECK_DEADLOCK FALSE\n" % (st(ns), st(seeds), st(dens), pmax, vlib.seed() % 1000,
                                                                              "TRUE" if crafted else "FALSE"))


def jobs_scalar(tier):
    j = []
    # filters (last argument of cfg_text): 0 none, 1 none + unit filters, 2 none + unit + mean filters and chains, 3 only mean filters and chains
    if tier == "thorough":
        # n = 2, 3: every pattern, three value palettes, every kind and parameter, every filter of the family
        for k in ALL:
            if k in ("poly", "ssor", "sor", "ilu"):
                for pl in (1, 2, 3):              # the expensive kinds are sharded over the value palette
                    j.append(("n<=3 %s pal%d" % (k, pl), cfg_text([2, 3], [k], [pl], 0, 99, 2)))
            else:
                j.append(("n<=3 %s" % k, cfg_text([2, 3], [k], [1, 2, 3], 0, 99, 2)))
        j.append(("n=1", cfg_text([1], ALL, [1, 2], 0, 0, 0)))
        # n = 4: every pattern for the substitution-based kinds, sharded over the number of off-diagonal entries
        for lo, hi in ((0, 4), (5, 5), (6, 6), (7, 7), (8, 12)):
            j.append(("n=4 tri %d..%d" % (lo, hi), cfg_text([4], ["sor", "ssor", "ilu"], [1], lo, hi, 0)))
        j.append(("n=4 ilu pal2", cfg_text([4], ["ilu"], [2], 0, 5, 0)))
        j.append(("n=4 other", cfg_text([4], ["jacobi", "poly", "scale", "diagonal", "matrix"], [1], 0, 4, 1)))
        j.append(("n=4 mean filters", cfg_text([4], ["jacobi", "sor", "ssor", "ilu", "scale", "diagonal", "matrix"], [2], 3, 3, 3)))
        j.append(("histories n=2", cfg_text([2], ALL, [1, 2], 0, 2, 0, "hist", 6)))
        j.append(("histories n=3", cfg_text([3], ["sor", "ssor", "ilu", "poly", "jacobi"], [1], 3, 3, 0, "hist", 5)))
        j.append(("histories n=2 mean filter", cfg_text([2], ["jacobi", "ssor", "poly", "matrix"], [1], 2, 2, 3, "hist", 5)))
    else:
        # n = 2, 3: every pattern with no / unit filters (the expensive kinds on one or two palettes)
        for k in ("sor", "ssor"):
            for pl in (1, 2):
                j.append(("n<=3 %s pal%d" % (k, pl), cfg_text([2, 3], [k], [pl], 0, 99, 1)))
        j.append(("n<=3 poly pal1", cfg_text([2, 3], ["poly"], [1], 0, 99, 1)))
        j.append(("n<=3 poly pal2", cfg_text([2, 3], ["poly"], [2], 0, 99, 0)))
        j.append(("n<=3 ilu", cfg_text([2, 3], ["ilu"], [1, 2, 3], 0, 99, 1)))
        j.append(("n<=3 jacobi", cfg_text([2, 3], ["jacobi"], [1, 2, 3], 0, 99, 1)))
        j.append(("n<=3 scale", cfg_text([2, 3], ["scale"], [1, 2, 3], 0, 99, 1)))
        j.append(("n<=3 diagonal matrix", cfg_text([2, 3], ["diagonal", "matrix"], [1, 2, 3], 0, 99, 1)))
        j.append(("n=1", cfg_text([1], ALL, [1, 2], 0, 0, 0)))
        # EVERY kind with mean filters (correction filter # defect filter) and chains unit ; mean ; unit
        j.append(("n<=3 mean filters a", cfg_text([2, 3], ["sor", "ssor", "ilu", "poly"], [1], 0, 2, 3)))
        j.append(("n<=3 mean filters b", cfg_text([2, 3], ["jacobi", "scale", "diagonal", "matrix"], [1], 0, 2, 3)))
        # n = 4 (the thorough tier takes every pattern)
        j.append(("n=4 tri 0..2", cfg_text([4], ["sor", "ssor", "ilu"], [1], 0, 2, 0)))
        j.append(("n=4 ilu 3", cfg_text([4], ["ilu"], [1], 3, 3, 0)))
        j.append(("n=4 ilu 4", cfg_text([4], ["ilu"], [2], 4, 4, 0)))
        j.append(("histories n=2", cfg_text([2], ALL, [1], 1, 2, 0, "hist", 5)))
    return [("scalar", "Precond", n, t) for n, t in j]


POINTWISE = ["jacobi", "scale", "diagonal", "matrix"]
BLOCKSUB = ["sor", "ssor", "ilu"]


def jobs_blocked(tier):
    j = []
    if tier == "thorough":
        for bs in (2, 3):
            for k in BLOCKSUB:                     # every block pattern, every palette, unit filters
                for pl in (1, 2, 3):
                    j.append(("blk%d n<=3 %s pal%d" % (bs, k, pl), cfg_blk(bs, [1, 2, 3], [k], [pl], 0, 99, 1)))
            for pl in (1, 2, 3):
                j.append(("blk%d n<=3 pointwise pal%d" % (bs, pl), cfg_blk(bs, [1, 2, 3], POINTWISE, [pl], 0, 99, 1)))
                j.append(("blk%d n<=3 poly pal%d" % (bs, pl), cfg_blk(bs, [2, 3], ["poly"], [pl], 0, 99, 1)))
                # blocked mean filters (one vector pair per component) and chains, every kind
                j.append(("blk%d n<=3 mean filters pal%d" % (bs, pl), cfg_blk(bs, [2, 3], ALL, [pl], 0, 2 if bs == 2 else 1, 3)))
            j.append(("blk%d histories n=2" % bs, cfg_blk(bs, [2], ALL, [1, 2], 0, 2, 0, "hist", 6)))
            j.append(("blk%d histories n=3" % bs, cfg_blk(bs, [3], ["sor", "ssor", "ilu", "poly", "jacobi"], [3], 3, 3, 0, "hist", 5)))
        j.append(("blk1 == scalar", cfg_blk(1, [1, 2, 3], ALL, [1, 2, 3], 0, 99, 1, emit=False)))
        j.append(("blk1 == scalar, mean filters", cfg_blk(1, [2, 3], ALL, [1, 2], 0, 3, 3, emit=False)))
    else:
        # block size 2: every block pattern for the block-substitution kinds; block size 3: n = 2 complete, n = 3 sharded
        j.append(("blk2 n<=3 ssor pal1", cfg_blk(2, [2, 3], ["ssor"], [1], 0, 99, 1)))
        j.append(("blk2 n<=3 ssor pal2,3", cfg_blk(2, [2, 3], ["ssor"], [2, 3], 0, 99, 0)))
        for k in ("ilu", "sor"):
            j.append(("blk2 n<=3 %s" % k, cfg_blk(2, [2, 3], [k], [1, 2, 3], 0, 99, 1)))
        j.append(("blk3 n=3 sor", cfg_blk(3, [3], ["sor"], [1, 2], 0, 4, 0)))
        j.append(("blk3 n=3 ssor", cfg_blk(3, [3], ["ssor"], [1, 2], 0, 3, 0)))
        j.append(("blk3 n=3 ilu", cfg_blk(3, [3], ["ilu"], [1, 2], 0, 4, 0)))
        j.append(("blk3 n<=2", cfg_blk(3, [1, 2], ALL, [1, 2, 3], 0, 99, 1)))
        j.append(("blk3 n=3 pointwise", cfg_blk(3, [3], POINTWISE, [2], 3, 3, 1)))
        j.append(("blk3 n=3 poly", cfg_blk(3, [3], ["poly"], [2], 2, 2, 0)))
        j.append(("blk2 n<=3 pointwise", cfg_blk(2, [2, 3], POINTWISE, [1, 3], 0, 3, 1)))
        j.append(("blk2 n<=3 poly", cfg_blk(2, [2, 3], ["poly"], [1], 0, 2, 1)))
        # blocked mean filters (MeanFilterBlocked: one primal / dual vector pair per component) and chains, EVERY kind
        j.append(("blk2 mean filters", cfg_blk(2, [2, 3], ALL, [2], 1, 2, 3)))
        j.append(("blk3 mean filters", cfg_blk(3, [2], ALL, [3], 1, 2, 3)))
        j.append(("blk2 histories n=2", cfg_blk(2, [2], ALL, [1], 1, 2, 0, "hist", 5)))
        j.append(("blk1 == scalar", cfg_blk(1, [2, 3], ALL, [1], 0, 2, 0, emit=False)))
    return [("blocked", "PrecondBlk", n, t) for n, t in j]


def jobs_ilusym(tier):
    j = []
    if tier == "thorough":
        for n in (5, 6, 7, 8, 9, 10):
            j.append(("ilusym n=%d" % n, cfg_sym([n], list(range(1, 301)), [10, 15, 20, 30, 40], 4, True)))
    else:
        j.append(("ilusym n=5..8", cfg_sym([5, 6, 7, 8], list(range(1, 41)), [20, 30], 4, True)))
        j.append(("ilusym n=9,10", cfg_sym([9, 10], list(range(1, 41)), [20, 30], 4, True)))
    return [("ilusym", "IluSym", n, t) for n, t in j]


def generate(chk, consume=None):
    """one pool for all parts; the long jobs are submitted first.  With `consume`, the cases of every TLC run are handed over (replayed,
    judged, counted) as soon as the run completes and are dropped afterwards: memory stays bounded by the largest run (the thorough tier
    held 59 GB of cases before and was OOM-killed)."""
    sc = jobs_scalar(chk.tier)
    heavy = [x for x in sc if "n=4" in x[2] or "poly" in x[2] or "mean" in x[2]]
    jobs = heavy + jobs_blocked(chk.tier) + [x for x in sc if x not in heavy] + jobs_ilusym(chk.tier)
    names = []
    for k, (part, module, name, text) in enumerate(jobs):
        fn = "gen_c08_%d_%d.cfg" % (os.getpid(), k)
        with open(os.path.join(vlib.SPEC, fn), "w") as f:
            f.write(text)
        names.append((part, module, name, fn))
    cases = []
    try:
        with cf.ThreadPoolExecutor(max_workers=6) as ex:
            # at most six runs are running or finished-but-not-yet-replayed at any time, and they are consumed in the order in
            # which they COMPLETE (finished runs waiting for the replayer would keep millions of cases in memory)
            todo = list(enumerate(names))
            by_fut = {}

            def completed():
                while todo or by_fut:
                    while todo and len(by_fut) < 6:
                        k, (part, module, name, fn) = todo.pop(0)
                        by_fut[ex.submit(vlib.tlc, module, fn, timeout=2400, xmx="3g", tag="c08_%d" % k)] = (part, name)
                    done, _ = cf.wait(list(by_fut), return_when=cf.FIRST_COMPLETED)
                    for f in done:
                        yield by_fut.pop(f) + (f,)

            for part, name, f in completed():
                r = f.result()
                chk.add_tlc(r, name)
                if r.violation:
                    chk.model_violation(r, "%s law (%s)" % ({"scalar": "Precond.tla", "blocked": "PrecondBlk.tla", "ilusym": "IluSym.tla"}[part], name))
                for c in r.printed:
                    c["_job"] = name
                    c["_part"] = part
                if consume is not None:
                    consume(part, r.printed)
                    r.printed = None
                else:
                    cases.extend(r.printed)
    finally:
        for _, _, _, fn in names:
            try:
                os.remove(os.path.join(vlib.SPEC, fn))
            except OSError:
                pass
    return cases


def dyad(v):
    return "%d/%d" % (v[0], 1 << v[1]) if v[1] > 0 else str(v[0])


def sig(c, r):
    part = c.get("_part", "scalar")
    clause = r.get("clause", "outcome_" + str(r.get("outcome", "error")))
    if part == "ilusym":
        return {"part": part, "kind": "ilusym", "n": c["n"], "clause": clause, "p": r.get("p", -1), "src": c["src"]["kind"],
                "outcome": r.get("outcome", "mismatch")}
    s = {"kind": c["kind"], "n": c["n"], "clause": clause, "stale": bool(r.get("stale", False)),
         "p": c["p"], "filtered": len(c["F"]) + len(c["F2"]) > 0, "mean_filter": c["mk"] != 0, "outcome": r.get("outcome", "mismatch")}
    if part == "blocked":
        s.update({"part": part, "bs": c["bs"], "omega": dyad(c["w"]), "noncommuting": bool(any(c["noncomm"]))})
    return s


def key(c):
    # a 16 hex digit digest of the identifying fields (millions of full keys cost gigabytes in the thorough tier)
    return hashlib.blake2b(_key(c).encode(), digest_size=8).hexdigest()


def _key(c):
    part = c.get("_part", "scalar")
    if part == "ilusym":
        return json.dumps(["ilusym", c["n"], c["pat"]])
    return json.dumps([c.get("bs", 0), c["n"], c["kind"], c["w"], c["m"], c["p"], c["F"], c["mk"], c["F2"], c["pat"], c["A1"], [s["op"] for s in c["steps"]]])


def nontrivial(c):
    if c.get("_part") == "ilusym":
        return c["exps"][-1] != c["pat"]          # some fill occurs
    return c["n"] >= 2 and sum(sum(row) for row in c["pat"]) > c["n"]


def run(chk):
    import time
    t0 = time.time()
    bins = dict(zip(HARNESS, vlib.build(list(HARNESS.values()))))
    t1 = time.time()
    st = {"n": 0, "per_part": {}, "hist": {}, "mean": {}, "chain": 0, "napply": 0, "ilufill": 0,
          "blk_ilu": {"cases": 0, "with_fill": 0, "multiplier_does_not_commute_with_pivot_inverse": 0, "pivot_block_modified_by_elimination": 0},
          "sym": {"patterns": 0, "pattern_level_pairs": 0, "pairs_with_rediscovery_at_lower_level": 0,
                  "pairs_where_ignoring_the_rediscovery_changes_the_pattern": 0, "patterns_with_rediscovery": 0, "patterns_sensitive_to_rediscovery": 0},
          "samples": {}}

    def consume(part, sub):
        if not sub:
            return
        res = vlib.run_cases(bins[part], sub, tmo=30)
        vlib.judge_results(chk, sub, res, sig, keyf=key, harness=HARNESS[part], nontrivial=nontrivial)
        st["n"] += len(sub)
        st["per_part"][part] = st["per_part"].get(part, 0) + len(sub)
        if part not in st["samples"]:
            st["samples"][part] = sub[len(sub) // 2: len(sub) // 2 + 2]
        for c in sub:
            if part == "ilusym":
                y = st["sym"]
                y["patterns"] += 1; y["pattern_level_pairs"] += len(c["exps"])
                y["pairs_with_rediscovery_at_lower_level"] += sum(1 for x in c["redisc"] if x)
                y["pairs_where_ignoring_the_rediscovery_changes_the_pattern"] += sum(1 for x in c["sens"] if x)
                y["patterns_with_rediscovery"] += 1 if any(c["redisc"]) else 0
                y["patterns_sensitive_to_rediscovery"] += 1 if any(c["sens"]) else 0
                continue
            k = c["kind"] if part == "scalar" else "%s/bs%d" % (c["kind"], c["bs"])
            st["hist"][k] = st["hist"].get(k, 0) + 1
            st["napply"] += sum(len(c["tests"]) for x in c["steps"] if x["op"] == "AP")
            if c["mk"] != 0:
                st["mean"][k] = st["mean"].get(k, 0) + 1
                if c["F"] or c["F2"]:
                    st["chain"] += 1
            if part == "scalar" and c["kind"] == "ilu" and c["ilu1"]["pat"] != c["pat"]:
                st["ilufill"] += 1
            if part == "blocked" and c["kind"] == "ilu":
                y = st["blk_ilu"]
                y["cases"] += 1
                y["with_fill"] += 1 if c["ilupat"] != c["pat"] else 0
                y["multiplier_does_not_commute_with_pivot_inverse"] += 1 if any(c["noncomm"]) else 0
                y["pivot_block_modified_by_elimination"] += 1 if c["pivmod"] else 0

    generate(chk, consume)
    t2 = time.time()
    chk.extra["phase_wall_s"] = {"build": round(t1 - t0, 1), "tlc_and_replay": round(t2 - t1, 1)}
    for part in HARNESS:
        if not st["per_part"].get(part):
            raise vlib.MachineryError("generator produced no cases for part " + part)
        chk.extra["cases_" + part] = st["per_part"][part]
    chk.traces = st["n"]
    chk.extra["cases_per_kind"] = st["hist"]
    chk.extra["cases_with_mean_filter_per_kind"] = st["mean"]
    chk.extra["cases_with_filter_chain"] = st["chain"]
    chk.extra["apply_calls_compared"] = st["napply"]
    chk.extra["ilu_cases_with_fill"] = st["ilufill"]
    chk.extra["blocked_ilu"] = st["blk_ilu"]
    chk.extra["ilusym"] = st["sym"]
    cases_by_part = st["samples"]
    chk.exhaustive = True
    chk.rule = ("every initial state of spec/Precond.tla (scalar) and spec/PrecondBlk.tla (block sizes 2 and 3) within the bounds (all sparsity "
                "patterns containing the diagonal for n <= 3 scalars resp. blocks, bounded/sharded for n = 4 and for 3x3 blocks in the quick tier; "
                "value palettes; omega in {1/2,1,3/2}; ILU fill levels; polynomial order 1..3; filters: none, unit filters on dofs/blocks, and - for every kind - "
                "mean filters with non-proportional dyadic primal/dual vectors (<prim,dual> a power of two) alone and in chains unit;mean, mean;unit, unit;mean;unit) "
                "that lies in the exact dyadic domain, each with the canonical life-cycle history init_symbolic, init_numeric, apply, "
                "update values, apply (stale), init_numeric, apply, done_numeric, update, init_numeric, apply, done_numeric, done_symbolic "
                "(or every history of bounded length), each apply on all unit vectors, a generic vector g and 2g - e1; plus every pattern of the "
                "seeded pseudo-random / crafted family of spec/IluSym.tla (n = 5..10) with its ILU(p) patterns, p = 0..4; "
                "non-trivial = n >= 2 with off-diagonal entries (ilusym: some fill)")
    for part in HARNESS:
        for c in cases_by_part.get(part, []):
            chk.sample({k: c[k] for k in ("bs", "n", "kind", "w", "p", "m", "pat", "A1", "src") if k in c})
    chk.assumptions = ["matrices are restricted to the exact dyadic domain: power-of-two diagonals (ILU: power-of-two pivots), blocked: diagonal "
                       "(ILU: pivot) blocks with determinant +-2^k; inputs whose factorisation leaves it are not generated",
                       "SparseMatrixCSR<double> with FilterChain<UnitFilter, MeanFilter, UnitFilter> and SparseMatrixBCSR<double,Index,BS,BS> (BS = 2, 3) with "
                       "FilterChain<UnitFilterBlocked, MeanFilterBlocked, UnitFilterBlocked> (an empty member is the identity; the chain applies its members in "
                       "order), generic backend (Uzawa / Vanka / AmaVanka / Schwarz: see the extension below); SlipFilter is not covered",
                       "polynomial preconditioner with a mean filter: order <= 2 (32 bit integers of TLC bound the dyadic exponents)",
                       "JacobiPrecond/PolynomialPrecond on blocked matrices are the POINTWISE operators (scalar main diagonal), as implemented "
                       "and documented (extract_diag); block-Jacobi is not a FEAT preconditioner",
                       "between a value update and the next init_numeric the result is unspecified: old-operator, new-operator and (Polynomial) "
                       "cached-diagonal/live-matrix results are all accepted",
                       "named deviations of the blocked specification (ssor_unscaled, ilu_left_mult) only refine the clause of a reported mismatch"]
    # extension (lib/c08x.py): UzawaPrecond, Vanka, AmaVanka, SchwarzPrecond (MPI) and Math::invert_matrix; adds to traces / rule / assumptions
    c08x.run_ext(chk)


def replay(obj):
    ext = [v for v in obj["violations"] if v.get("replay") and str(v["replay"].get("harness", "")).startswith("c08x")]
    if ext:
        return c08x.replay({"violations": ext})
    bins = dict(zip(HARNESS, vlib.build(list(HARNESS.values()))))
    by_h = {v: k for k, v in HARNESS.items()}
    bad = 0
    for v in obj["violations"]:
        rp = v["replay"]
        if not rp or rp.get("kind") != "case":
            continue
        c = rp["case"]
        part = c.get("_part") or by_h.get(rp.get("harness"), "scalar")
        r, = vlib.run_cases(bins[part], [c], tmo=30, shards=1)
        print(json.dumps({"case": sig(c, r), "result": r})[:1000])
        if r.get("ok") is not True:
            bad += 1
    return 1 if bad else 0
