"""C06: filters impose their constraints exactly and idempotently
(spec/Filters.tla + FiltersLife.tla + FiltersMat.tla, harness/c06_filters.cpp;
 life-cycle calls INTO an existing non-empty filter object: spec/FiltersInto.tla, harness/c06_into.cpp;
 global filters on several MPI processes with shared dofs: lib/c06_global.py, spec/Gen_FilterGlobal.tla, harness/c06_gfilter.cpp)"""
import os, json, re
import vlib
import c06_global

LEVEL = "model_checking"

VEC_INV = "FilterOK LifeCycleLaw ExactDomain ConstraintHolds ComplementHolds IdempotentHolds Emit"
LC_ALL = ["none", "clone_deep", "clone_weak", "clone_shallow", "clone_into", "convert_same", "convert_other", "move_ctor", "move_assign"]
MAT_INV = "RepValid MatConstraint MatComplement MatIdempotent FilteredSolve Emit"
INTO_INV = "FilterOK IntoLaw ExactDomain ConstraintHolds ComplementHolds IdempotentHolds Emit"
IO_ALL = ["clone_into_deep", "clone_into_weak", "clone_into_shallow", "convert_same", "convert_other", "move_assign"]
IO_FEW = ["clone_into_deep", "clone_into_weak", "convert_same", "convert_other", "move_assign"]
OPS_ALL = ["rhs", "sol", "def", "cor"]
OPS_TWO = ["sol", "def"]          # unit: prescribed value / zero; mean: primal update with the prescribed mean / dual update


# ----------------------------------------------------------------------------------------------
# capabilities: calls of the filter classes that can be instantiated only where a compile-time defect of the
# pinned tree is fixed (build/fixes/c06_*.diff).  Each is TRY-COMPILED against the tree under verification; the
# result goes to the specification (capability tokens in LCs -> Filters!OfferedWith) and to the harness
# (c06_caps.hpp in the build include directory), so every call that exists is exercised and no other.
# ----------------------------------------------------------------------------------------------
PROBE_HEAD = """#include <kernel/lafem/none_filter.hpp>
#include <kernel/lafem/unit_filter.hpp>
#include <kernel/lafem/unit_filter_blocked.hpp>
#include <kernel/lafem/mean_filter_blocked.hpp>
#include <kernel/lafem/filter_chain.hpp>
#include <kernel/lafem/filter_sequence.hpp>
#include <kernel/lafem/power_filter.hpp>
using namespace FEAT; using namespace FEAT::LAFEM;
typedef UnitFilter<double, Index> UF;
"""
PROBES = {
    "meanb_convert": "void probe() { MeanFilterBlocked<double, Index, 2> a, b; a.convert(b); MeanFilterBlocked<float, unsigned int, 2> c; a.convert(c); }",
    "unitb_convert_other": "void probe() { UnitFilterBlocked<double, Index, 2> a; UnitFilterBlocked<float, unsigned int, 2> c; a.convert(c); }",
    "chain_clone_into": "void probe() { FilterChain<UF, UF> a, b; a.clone(b, CloneMode::Deep); FilterChain<UF> c, d; c.clone(d, CloneMode::Deep); }",
    "power_clone_into": "void probe() { PowerFilter<UF, 2> a, b; a.clone(b, CloneMode::Deep); }",
    "seq_clone_into": "void probe() { FilterSequence<UF> a, b; a.clone(b, CloneMode::Deep); }",
}
CAP_FILES = ["kernel/lafem/mean_filter_blocked.hpp", "kernel/lafem/unit_filter_blocked.hpp", "kernel/lafem/filter_chain.hpp",
             "kernel/lafem/power_filter.hpp", "kernel/lafem/filter_sequence.hpp", "kernel/lafem/unit_filter.hpp"]
FORCE_CAPS = os.environ.get("C06_CAPS")      # e.g. C06_CAPS="" (none) or "meanb_convert,seq_clone_into" overrides the detection


def detect_caps():
    """returns the sorted list of capabilities of vlib.REPO and writes c06_caps.hpp for the harness"""
    import hashlib, subprocess, tempfile, concurrent.futures as cf
    vlib.build([])          # feat_config.hpp and the kernel library of this tree
    vdir = "std" if vlib.REPO == "/repo" else "std-" + hashlib.md5(vlib.REPO.encode()).hexdigest()[:8]
    bdir = os.path.join(vlib.BUILD, vdir)
    inc = os.path.join(bdir, "include")
    h = hashlib.md5(("v1" + json.dumps(PROBES, sort_keys=True)).encode())
    for rel in CAP_FILES:
        with open(os.path.join(vlib.REPO, rel), "rb") as f:
            h.update(f.read())
    cache = os.path.join(bdir, "c06_caps.json")
    caps = None
    if FORCE_CAPS is not None:
        caps = sorted(x for x in FORCE_CAPS.split(",") if x)
    elif os.path.exists(cache):
        try:
            with open(cache) as f:
                d = json.load(f)
            if d.get("key") == h.hexdigest():
                caps = d["caps"]
        except Exception:
            caps = None
    if caps is None:
        def probe(item):
            name, body = item
            with tempfile.TemporaryDirectory(dir=vlib.BUILD) as td:
                src = os.path.join(td, "probe_%s.cpp" % name)
                with open(src, "w") as f:
                    f.write(PROBE_HEAD + body + "\n")
                p = subprocess.run(["g++", "-std=c++17", "-fsyntax-only", "-fopenmp", "-DFEAT3_VERIF_HOOKS", "-Wno-deprecated-declarations",
                                    "-I" + inc, "-I" + vlib.REPO, src], stdout=subprocess.PIPE, stderr=subprocess.STDOUT, text=True)
                return name, p.returncode, p.stdout
        with cf.ThreadPoolExecutor(max_workers=len(PROBES)) as ex:
            res = list(ex.map(probe, sorted(PROBES.items())))
        # the reference probe must compile, otherwise the probing itself is broken (machinery, not capability)
        ref = probe(("reference", "void probe() { UF a, b; a.clone(b, CloneMode::Deep); a.convert(b); }"))
        if ref[1] != 0:
            raise vlib.MachineryError("capability probe does not compile at all:\n" + ref[2][-1500:])
        caps = sorted(n for n, rc, _ in res if rc == 0)
        with open(cache, "w") as f:
            json.dump({"key": h.hexdigest(), "caps": caps}, f)
    text = "// generated by checks/C06.py (capabilities of %s found by try-compiling)\n" % vlib.REPO
    for n in sorted(PROBES):
        text += "#define C06_CAP_%s %d\n" % (n.upper(), 1 if n in caps else 0)
    path = os.path.join(inc, "c06_caps.hpp")
    old = None
    if os.path.exists(path):
        with open(path) as f:
            old = f.read()
    if old != text:
        with open(path + ".tmp%d" % os.getpid(), "w") as f:
            f.write(text)
        os.replace(path + ".tmp%d" % os.getpid(), path)
    vlib.log("[caps] %s: %s" % (vlib.REPO, ", ".join(caps) if caps else "(none)"))
    return caps


CAPS = []


def vec_cfg(fam, minn, maxn, bs, depth, pal, lcs=0):
    """lcs = 0: the filter is applied as built; 1: every life-cycle operation (clone modes, convert, move) first"""
    lc = "{" + ", ".join('"%s"' % x for x in ((LC_ALL + CAPS) if lcs else ["none"])) + "}"
    return ("SPECIFICATION Spec\nCONSTANTS Family = \"%s\" MinN = %d MaxN = %d BS = %d Depth = %d Pal = %d LCs = %s\n"
            "INVARIANTS %s\nCHECK_DEADLOCK FALSE\n" % (fam, minn, maxn, bs, depth, pal, lc, VEC_INV))


def into_cfg(fam, minn, maxn, bs, depth, pal, tsz, ops, ios):
    """life-cycle calls into an object that holds previous content (spec/FiltersInto.tla)"""
    q = lambda xs: "{" + ", ".join('"%s"' % x for x in xs) + "}"
    return ("SPECIFICATION Spec\nCONSTANTS Family = \"%s\" MinN = %d MaxN = %d BS = %d Depth = %d Pal = %d TSz = %d OpSel = %s IOs = %s\n"
            "INVARIANTS %s\nCHECK_DEADLOCK FALSE\n" % (fam, minn, maxn, bs, depth, pal, tsz, q(ops), q(list(ios) + CAPS), INTO_INV))


def into_configs(tier):
    """(family, source sizes min..max, block size, depth, palette of the source, sizes of the previous content (0 same, 1 also one more,
    2 all 0..max), operations applied afterwards, into-operations)"""
    A, F, O4, O2 = IO_ALL, IO_FEW, OPS_ALL, OPS_TWO
    # atoms: EVERY pair (previous index set / size / flag / weights, source) of the family
    c = [("unit", 0, 3, 1, 1, 1, 2, O4, A), ("unit", 0, 2, 2, 1, 2, 2, O4, A), ("unit", 0, 2, 2, 1, 1, 2, O4, A), ("unit", 0, 2, 3, 1, 1, 2, O4, A),
         ("slip", 0, 2, 2, 1, 1, 2, O4, A), ("slip", 0, 2, 3, 1, 2, 2, O4, A),
         ("mean", 0, 3, 1, 1, 2, 2, O4, A), ("mean", 0, 2, 2, 1, 1, 2, O4, A), ("none", 0, 1, 1, 1, 1, 2, O4, A), ("none", 0, 1, 2, 1, 1, 2, O4, A),
         # composed filters: every source x every previous content (per slot: an atom of any kind constraining everything, or nothing;
         # sequences: 0..Depth entries, same / reordered / other names)
         ("chain", 0, 2, 1, 2, 1, 0, O2, F), ("chain", 1, 1, 2, 2, 2, 0, O2, F),
         ("seq", 2, 2, 1, 2, 1, 0, O2, F), ("seq", 2, 2, 2, 1, 2, 1, O2, F),
         ("tuple", 0, 1, 2, 1, 1, 0, O2, F), ("power", 0, 2, 1, 1, 1, 0, O2, F)]
    if tier == "thorough":
        c += [("unit", 4, 4, 1, 1, 2, 2, O4, A), ("slip", 3, 3, 2, 1, 1, 2, O4, A), ("slip", 3, 3, 3, 1, 1, 0, O4, A), ("chain", 1, 1, 2, 2, 2, 1, O4, A), ("mean", 0, 3, 3, 1, 2, 2, O4, A),
              ("chain", 2, 2, 2, 2, 1, 1, O4, A), ("chain", 0, 2, 1, 3, 2, 0, O2, F), ("chain", 1, 1, 3, 2, 1, 0, O4, A),
              ("seq", 0, 1, 1, 2, 2, 1, O4, A), ("seq", 1, 1, 2, 2, 1, 0, O2, F), ("seq", 2, 2, 1, 3, 2, 0, ["sol"], ["clone_into_deep", "convert_same"]),
              ("seq", 1, 1, 3, 1, 1, 1, O4, A),
              ("tuple", 0, 1, 3, 1, 2, 1, O4, A), ("power", 0, 2, 1, 1, 2, 1, O4, A), ("nest", 0, 1, 2, 1, 1, 0, ["sol"], ["clone_into_weak", "convert_other", "move_assign"])]
    return c


def mat_cfg(fmt, maxm, maxn, square, bh, bw, comp, pal):
    return ("SPECIFICATION Spec\nCONSTANTS MFmt = \"%s\" MaxM = %d MaxN = %d SquareOnly = %s BH = %d BW = %d Comp = \"%s\" Pal = %d\n"
            "INVARIANTS %s\nCHECK_DEADLOCK FALSE\n" % (fmt, maxm, maxn, "TRUE" if square else "FALSE", bh, bw, comp, pal, MAT_INV))


def vec_configs(tier):
    c = []
    # atoms: every size 0..5, every index set, every block size, both palettes
    for bs in (1, 2, 3):
        for pal in (1, 2):
            c.append(("unit", 0, 5, bs, 1, pal))
            c.append(("mean", 0, 5, bs, 1, pal))
            if bs >= 2:
                c.append(("slip", 0, 5, bs, 1, pal))
        c.append(("none", 0, 5, bs, 1, 1))
    # life-cycle: clone (deep/weak/shallow, returning and in-place), convert (same / other types), move, then apply
    c += [("unit", 0, 3, 1, 1, 1, 1), ("unit", 0, 3, 2, 1, 2, 1), ("unit", 0, 2, 3, 1, 1, 1), ("slip", 0, 3, 2, 1, 1, 1), ("slip", 0, 2, 3, 1, 2, 1),
          ("mean", 0, 3, 1, 1, 2, 1), ("mean", 0, 2, 2, 1, 1, 1), ("none", 0, 1, 1, 1, 1, 1), ("none", 0, 1, 2, 1, 1, 1),
          ("chain", 0, 2, 1, 2, 1, 1), ("chain", 0, 2, 2, 2, 1, 1), ("seq", 0, 2, 2, 2, 2, 1), ("seq", 0, 2, 1, 3, 1, 1),
          ("tuple", 0, 1, 2, 1, 1, 1), ("power", 0, 2, 1, 1, 1, 1), ("nest", 0, 1, 2, 1, 1, 1)]
    if tier == "thorough":
        c += [("chain", 0, 3, 2, 2, 2, 1), ("chain", 0, 2, 1, 3, 2, 1), ("chain", 0, 2, 3, 2, 1, 1), ("tuple", 0, 2, 3, 1, 2, 1), ("slip", 4, 4, 2, 1, 2, 1),
              ("unit", 4, 4, 2, 1, 2, 1)]
    if tier == "thorough":
        c += [("chain", 0, 3, 1, 3, 1), ("chain", 4, 4, 1, 3, 1), ("chain", 0, 3, 1, 3, 2),
              ("chain", 0, 2, 2, 3, 1), ("chain", 0, 2, 2, 3, 2), ("chain", 3, 3, 2, 3, 1), ("chain", 4, 4, 2, 2, 2),
              ("chain", 0, 2, 3, 3, 1), ("chain", 3, 3, 3, 2, 2),
              ("seq", 0, 3, 1, 3, 2), ("seq", 0, 2, 2, 3, 1), ("seq", 3, 3, 2, 2, 2), ("seq", 0, 2, 3, 2, 1),
              ("tuple", 0, 3, 2, 1, 1), ("tuple", 0, 3, 3, 1, 2), ("tuple", 0, 2, 2, 1, 2), ("power", 0, 4, 1, 1, 1), ("power", 0, 3, 1, 1, 2),
              ("nest", 0, 2, 2, 1, 1), ("nest", 0, 2, 3, 1, 2)]
    else:
        c += [("chain", 0, 3, 1, 3, 1), ("chain", 0, 2, 2, 3, 1), ("chain", 3, 3, 2, 2, 2), ("chain", 0, 2, 3, 2, 2),
              ("seq", 0, 3, 1, 3, 2), ("seq", 0, 2, 2, 2, 1),
              ("tuple", 0, 2, 2, 1, 1), ("tuple", 0, 2, 3, 1, 2), ("power", 0, 3, 1, 1, 1), ("nest", 0, 1, 2, 1, 1)]
    return c


def mat_configs(tier):
    c = [("csr", 3, 3, False, 1, 1, "unit", 1), ("csr", 2, 3, False, 1, 1, "unit", 2),
         ("csr", 2, 2, False, 1, 1, "chain", 1), ("csr", 2, 2, False, 1, 1, "seq", 1),
         ("bcsr", 2, 2, False, 2, 2, "unit", 1), ("bcsr", 2, 2, False, 2, 2, "unit", 2), ("bcsr", 2, 2, False, 2, 3, "unit", 2),
         ("bcsr", 2, 2, False, 3, 2, "unit", 1), ("bcsr", 2, 3, False, 1, 2, "unit", 1),
         ("bcsr", 2, 2, False, 2, 2, "chain", 1), ("bcsr", 2, 2, False, 2, 3, "seq", 1)]
    if tier == "thorough":
        c += [("csr", 3, 4, False, 1, 1, "unit", 2), ("csr", 4, 3, False, 1, 1, "unit", 1), ("csr", 3, 3, True, 1, 1, "chain", 1),
              ("csr", 3, 3, True, 1, 1, "seq", 2), ("bcsr", 3, 3, False, 2, 2, "unit", 2), ("bcsr", 3, 3, False, 2, 3, "unit", 1),
              ("bcsr", 3, 3, False, 3, 2, "unit", 2), ("bcsr", 3, 3, False, 1, 2, "unit", 2), ("bcsr", 2, 2, False, 3, 2, "chain", 2)]
    return c


# C06_PARTS (development aid, e.g. C06_PARTS=into,global): run only the listed parts lafem | into | global; recorded in the evidence
PARTS = [x for x in os.environ.get("C06_PARTS", "lafem,into,global").split(",") if x]


def generate(chk, tier):
    import concurrent.futures as cf
    jobs = []
    for k, a in enumerate(vec_configs(tier) if "lafem" in PARTS else []):
        name = "gen_FiltersLife_%d_%d.cfg" % (os.getpid(), k)
        with open(os.path.join(vlib.SPEC, name), "w") as f:
            f.write(vec_cfg(*a))
        jobs.append(("FiltersLife", name, "vec %s n%d..%d bs%d depth%d pal%d" % a[:6] + (" lifecycle" if len(a) > 6 and a[6] else "")))
    for k, a in enumerate(mat_configs(tier) if "lafem" in PARTS else []):
        name = "gen_FiltersMat_%d_%d.cfg" % (os.getpid(), k)
        with open(os.path.join(vlib.SPEC, name), "w") as f:
            f.write(mat_cfg(*a))
        jobs.append(("FiltersMat", name, "mat %s %dx%d sq=%s b%dx%d %s pal%d" % a))
    for k, a in enumerate(into_configs(tier) if "into" in PARTS else []):
        name = "gen_FiltersInto_%d_%d.cfg" % (os.getpid(), k)
        with open(os.path.join(vlib.SPEC, name), "w") as f:
            f.write(into_cfg(*a))
        jobs.append(("FiltersInto", name, "into %s n%d..%d bs%d depth%d pal%d tsz%d" % a[:7] + " ops=%s ios=%d" % ("".join(x[0] for x in a[7]), len(a[8]))))
    cases = []
    try:
        with cf.ThreadPoolExecutor(max_workers=min(len(jobs), 8)) as ex:
            futs = [(ex.submit(vlib.tlc, mod, cfg, timeout=1700 if tier == "quick" else 5000, xmx="3g"), nm) for mod, cfg, nm in jobs]
            for f, nm in futs:
                r = f.result()
                chk.add_tlc(r, nm)
                if r.violation:
                    chk.model_violation(r, "Filters invariant (%s)" % nm)
                cases.extend(r.printed)
    finally:
        for _, cfg, _ in jobs:
            try:
                os.remove(os.path.join(vlib.SPEC, cfg))
            except OSError:
                pass
    return cases


def expand(cases):
    """entry-free matrices exist in two container states: without any array (dimension-only constructor,
    also what the graph constructor gives for an empty graph) and with allocated arrays; both are replayed"""
    out = []
    for c in cases:
        if "act" in c and len(c["rep"]["ci"]) == 0 and c["m"] > 0 and c["n"] > 0:
            for arrays in (0, 1):
                d = dict(c)
                d["arrays"] = arrays
                out.append(d)
        else:
            out.append(c)
    return out


def fkinds(f):
    if "fs" in f:
        return f["kind"] + "(" + ",".join(fkinds(x) for x in f["fs"]) + ")"
    return f["kind"]


def nidx(f):
    if "fs" in f:
        return sum(nidx(x) for x in f["fs"])
    return len(f.get("idx", []))


def has_unsorted(f):
    """a sub-filter with at least two indices: built by add() in descending order its inner sparse vector is unsorted until first use"""
    if "fs" in f:
        return any(has_unsorted(x) for x in f["fs"])
    return len(f.get("idx", [])) >= 2


def sig(c, r):
    s = {"filter": fkinds(c["f"]), "outcome": r.get("outcome", "mismatch"), "constrained": nidx(c["f"]) > 0}
    if "act" in c:
        s.update({"part": "matrix", "fmt": c["fmt"], "act": c["act"], "m": c["m"], "n": c["n"], "nnz": len(c["rep"]["ci"]),
                  "arrays": 0 if (len(c["rep"]["ci"]) == 0 and (c.get("arrays", 1) == 0 or c["m"] == 0 or c["n"] == 0)) else 1,
                  "bh": c["bh"], "bw": c["bw"]})
    elif c.get("part") == "into":
        m = re.search(r"/(m[01])/", r.get("why") or "")
        s.update({"part": "into", "fam": c["fam"], "op": c["op"], "n": c["n"], "io": c["io"], "previous": fkinds(c["t0"]),
                  "route": m.group(1) if m else "", "unsorted_source": has_unsorted(c["f"]),
                  "who": "source" if "the source after the call" in (r.get("why") or "") else "target"})
    else:
        s.update({"part": "vector", "fam": c["fam"], "op": c["op"], "n": c["n"], "lc": c.get("lc", "none")})
    return s


def key(c):
    if "act" in c:
        return json.dumps(["m", c["fmt"], c["bh"], c["bw"], c["m"], c["n"], c["rep"], c["f"], c["act"], c.get("arrays", 1)])
    if c.get("part") == "into":
        return json.dumps(["i", c["fam"], c["t0"], c["nt"], c["f"], c["op"], c["n"], c["io"]])
    return json.dumps(["v", c["fam"], c["f"], c["op"], c["n"], c.get("lc", "none")])


def nontrivial(c):
    if "act" in c:
        return nidx(c["f"]) > 0 and len(c["rep"]["ci"]) > 0
    if c.get("part") == "into":
        return c["differs"] and (c["v1"] != c["v0"] or nidx(c["t0"]) > 0)     # the previous content differs and something is at stake
    return c["v1"] != c["v0"]


def builds():
    """the two std replayers and the MPI replayer (separate build directories: side by side)"""
    import concurrent.futures as cf
    with cf.ThreadPoolExecutor(max_workers=2) as ex:
        std = [t for t, part in (("c06_filters", "lafem"), ("c06_into", "into")) if part in PARTS]
        f1 = ex.submit(vlib.build, std)
        f2 = ex.submit(vlib.build, ["c06_gfilter"] if "global" in PARTS else [], "mpi")
        bs, bg = dict(zip(std, f1.result())), f2.result()
    return bs.get("c06_filters"), bs.get("c06_into"), (bg[0] if bg else None)


def run(chk):
    import concurrent.futures as cf
    CAPS[:] = detect_caps()
    b_f, b_i, b_g = builds()
    chk.extra["capabilities_of_tree"] = list(CAPS)
    # the global part (TLC generation in its own small pool, MPI replays) runs beside the LAFEM part
    with cf.ThreadPoolExecutor(max_workers=1) as gpart, cf.ThreadPoolExecutor(max_workers=3) as gex:
        gfut = gpart.submit(c06_global.run, chk, b_g, gex) if "global" in PARTS else None
        allc = expand(generate(chk, chk.tier)) if ("lafem" in PARTS or "into" in PARTS) else []
        cases = [c for c in allc if c.get("part") != "into"]
        into = [c for c in allc if c.get("part") == "into"]
        if ("lafem" in PARTS and not cases) or ("into" in PARTS and not into):
            raise vlib.MachineryError("generator produced no cases for one of the parts")
        res = vlib.run_cases(b_f, cases, tmo=20)
        vlib.judge_results(chk, cases, res, sig, keyf=key, harness="c06_filters", nontrivial=nontrivial)
        res = vlib.run_cases(b_i, into, tmo=20)
        vlib.judge_results(chk, into, res, sig, keyf=key, harness="c06_into", nontrivial=nontrivial)
        nglobal = gfut.result() if gfut else 0
    if sorted(PARTS) != ["global", "into", "lafem"]:
        chk.extra["PARTIAL_RUN_parts"] = PARTS
    chk.extra["into_behaviours"] = len(into)
    chk.extra["into_behaviours_previous_content_differs"] = sum(1 for c in into if c["differs"])
    chk.extra["into_pairs"] = len(set(json.dumps([c["t0"], c["nt"], c["f"], c["n"]], sort_keys=True) for c in into))
    ninto = len(into)
    chk.traces = len(cases) + ninto + nglobal
    chk.exhaustive = True
    nv = sum(1 for c in cases if "act" not in c)
    chk.extra["vector_behaviours"] = nv
    chk.extra["matrix_behaviours"] = len(cases) - nv
    chk.extra["float_instantiation_skipped"] = sum(1 for c in cases if "act" not in c and not c["f32"])
    chk.extra["lifecycle_behaviours"] = sum(1 for c in cases if c.get("lc", "none") != "none")
    chk.extra["solve_cases"] = sum(1 for c in cases if c.get("solvable"))
    chk.extra["chains_not_guaranteed_idempotent"] = sum(1 for c in cases if "act" not in c and not c["idem"])
    chk.rule = ("every behaviour of spec/FiltersLife.tla (filter family x vector size 0..5 blocks x ALL index sets x block size 1..3 x "
                "operation rhs/sol/def/cor, the call made twice, on the filter as built and - smaller bounds - on its clone (deep/weak/shallow, in-place), "
                "its convert (same / other data+index types) and its move-constructed / move-assigned copy; chains/sequences of <=3 parts in all orders, tuple/power/nested) and of "
                "spec/FiltersMat.tla (all shapes <=3x3(4), all sparsity patterns, all constrained row sets, filter_mat / "
                "filter_offdiag_row_mat made twice, CSR and BCSR block shapes 1x2,2x2,2x3,3x2, filtered solve on square CSR); each "
                "behaviour replayed on the real classes for double/uint64 and (if certified exact) float/uint32, two construction "
                "routes each; non-trivial = the first call changes the vector resp. a stored row is constrained; distinct = distinct "
                "(filter value, operation, size / matrix arrays).  "
                "INTO: every behaviour of spec/FiltersInto.tla - an object holding PREVIOUS content (atoms: every filter of the family over every size, "
                "other values / flag / weights; composed: per slot an atom of any kind constraining every block, or nothing; sequences with 0..Depth "
                "entries under the same / reordered / other names) x every source x clone(other, Deep|Weak|Shallow) / convert (same, other types) / "
                "move assignment, then the operation twice; the target must impose exactly the constraints of the source (IntoLaw, and the property's "
                "clauses in terms of the source); non-trivial = previous content differs from the source.  "
                "GLOBAL: every behaviour of spec/Gen_FilterGlobal.tla - all decompositions rank -> dof set (1..4 ranks quick, ..6 thorough, local "
                "renumberings) x Global::MeanFilter / Global::Filter<UnitFilter> / chains of both x rhs/sol/def/cor twice, replayed on real MPI ranks "
                "through 13 life-cycle routes; non-trivial = a dof is shared between processes and the vector changes")
    for c in cases[len(cases) // 3: len(cases) // 3 + 1] + cases[-1:] + [x for x in into if x["fam"] == "seq" and x["differs"]][ninto // 9: ninto // 9 + 1]:
        chk.sample({k: c[k] for k in c if k in ("part", "fam", "io", "t0", "nt", "f", "op", "n", "den", "v0", "v1", "v2", "fmt", "act", "rep", "va1", "xs", "b1")})
    chk.assumptions = ["inputs lie in the exact (dyadic) domain: integer vectors, normals with |nu|^2 in {1,2,4}, mean volumes p.d a power of two; "
                       "rounding behaviour for general normals/weights is not explored (DESIGN.md sec. 7 residue)",
                       "mean filters are built with volume = p.d (the documented meaning of the volume argument)",
                       "global filters: sharer counts that are not powers of two (1/3, 1/5, 1/6 frequencies) are compared within 512 eps * magnitude "
                       "(magnitude from the specification), all others bit-exactly",
                       "constrained matrix rows without a stored diagonal entry are required to become null rows and are excluded from the solve guarantee (DESIGN.md decision rule)"]


def replay(obj):
    CAPS[:] = detect_caps()
    b_f, b_i, b_g = builds()
    bad = 0
    for v in obj["violations"]:
        rp = v["replay"]
        if not rp or rp.get("kind") != "case":
            continue
        c = rp["case"]
        if rp.get("harness") == "c06_gfilter":
            r = vlib.run_cases(b_g, [c], tmo=30, shards=1, wrapper=c06_global.MPIRUN + [str(c["nr"])])[0]
            print(json.dumps({"case": c06_global.sig(c, r), "result": r})[:1000])
        else:
            r = vlib.run_cases(b_i if rp.get("harness") == "c06_into" else b_f, [c], tmo=20, shards=1)[0]
            print(json.dumps({"case": sig(c, r), "result": r})[:1000])
        if r.get("ok") is not True:
            bad += 1
    return 1 if bad else 0
