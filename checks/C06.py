"""C06: filters impose their constraints exactly and idempotently
(spec/Filters.tla + FiltersLife.tla + FiltersMat.tla, harness/c06_filters.cpp)"""
import os, json
import vlib

LEVEL = "model_checking"

VEC_INV = "FilterOK LifeCycleLaw ExactDomain ConstraintHolds ComplementHolds IdempotentHolds Emit"
LC_ALL = ["none", "clone_deep", "clone_weak", "clone_shallow", "clone_into", "convert_same", "convert_other", "move_ctor", "move_assign"]
MAT_INV = "RepValid MatConstraint MatComplement MatIdempotent FilteredSolve Emit"


def vec_cfg(fam, minn, maxn, bs, depth, pal, lcs=0):
    """lcs = 0: the filter is applied as built; 1: every life-cycle operation (clone modes, convert, move) first"""
    lc = "{" + ", ".join('"%s"' % x for x in (LC_ALL if lcs else ["none"])) + "}"
    return ("SPECIFICATION Spec\nCONSTANTS Family = \"%s\" MinN = %d MaxN = %d BS = %d Depth = %d Pal = %d LCs = %s\n"
            "INVARIANTS %s\nCHECK_DEADLOCK FALSE\n" % (fam, minn, maxn, bs, depth, pal, lc, VEC_INV))


def mat_cfg(fmt, maxm, maxn, square, bh, bw, comp, pal):
    return ("SPECIFICATION Spec\nCONSTANTS MFmt = \"%s\" MaxM = %d MaxN = %d SquareOnly = %s BH = %d BW = %d Comp = \"%s\" Pal = %d\n"
            "INVARIANTS %s\nCHECK_DEADLOCK FALSE\n" % (fmt, maxm, maxn, "TRUE" if square else "FALSE", bh, bw, comp, pal, MAT_INV))


def vec_configs(tier):
    c = []
    # atoms: every size 0..5, every index set, every block size, both palettes
    for bs in (1, 2, 3):
        for pal in (1, 2):
            c.append(("unit", 0, 5, bs, 1, pal))
            c.append(("mean", 0, 5, bs, 1, pal))
            if bs >= 2:
                c.append(("slip", 0, 5, bs, 1, pal))
        c.append(("none", 0, 5, bs, 1, 1))
    # life-cycle: clone (deep/weak/shallow, returning and in-place), convert (same / other types), move, then apply
    c += [("unit", 0, 3, 1, 1, 1, 1), ("unit", 0, 3, 2, 1, 2, 1), ("unit", 0, 2, 3, 1, 1, 1), ("slip", 0, 3, 2, 1, 1, 1), ("slip", 0, 2, 3, 1, 2, 1),
          ("mean", 0, 3, 1, 1, 2, 1), ("mean", 0, 2, 2, 1, 1, 1), ("none", 0, 1, 1, 1, 1, 1), ("none", 0, 1, 2, 1, 1, 1),
          ("chain", 0, 2, 1, 2, 1, 1), ("chain", 0, 2, 2, 2, 1, 1), ("seq", 0, 2, 2, 2, 2, 1), ("seq", 0, 2, 1, 3, 1, 1),
          ("tuple", 0, 1, 2, 1, 1, 1), ("power", 0, 2, 1, 1, 1, 1), ("nest", 0, 1, 2, 1, 1, 1)]
    if tier == "thorough":
        c += [("chain", 0, 3, 2, 2, 2, 1), ("chain", 0, 2, 1, 3, 2, 1), ("chain", 0, 2, 3, 2, 1, 1), ("tuple", 0, 2, 3, 1, 2, 1), ("slip", 4, 4, 2, 1, 2, 1),
              ("unit", 4, 4, 2, 1, 2, 1)]
    if tier == "thorough":
        c += [("chain", 0, 3, 1, 3, 1), ("chain", 4, 4, 1, 3, 1), ("chain", 0, 3, 1, 3, 2),
              ("chain", 0, 2, 2, 3, 1), ("chain", 0, 2, 2, 3, 2), ("chain", 3, 3, 2, 3, 1), ("chain", 4, 4, 2, 2, 2),
              ("chain", 0, 2, 3, 3, 1), ("chain", 3, 3, 3, 2, 2),
              ("seq", 0, 3, 1, 3, 2), ("seq", 0, 2, 2, 3, 1), ("seq", 3, 3, 2, 2, 2), ("seq", 0, 2, 3, 2, 1),
              ("tuple", 0, 3, 2, 1, 1), ("tuple", 0, 3, 3, 1, 2), ("tuple", 0, 2, 2, 1, 2), ("power", 0, 4, 1, 1, 1), ("power", 0, 3, 1, 1, 2),
              ("nest", 0, 2, 2, 1, 1), ("nest", 0, 2, 3, 1, 2)]
    else:
        c += [("chain", 0, 3, 1, 3, 1), ("chain", 0, 2, 2, 3, 1), ("chain", 3, 3, 2, 2, 2), ("chain", 0, 2, 3, 2, 2),
              ("seq", 0, 3, 1, 3, 2), ("seq", 0, 2, 2, 2, 1),
              ("tuple", 0, 2, 2, 1, 1), ("tuple", 0, 2, 3, 1, 2), ("power", 0, 3, 1, 1, 1), ("nest", 0, 1, 2, 1, 1)]
    return c


def mat_configs(tier):
    c = [("csr", 3, 3, False, 1, 1, "unit", 1), ("csr", 2, 3, False, 1, 1, "unit", 2),
         ("csr", 2, 2, False, 1, 1, "chain", 1), ("csr", 2, 2, False, 1, 1, "seq", 1),
         ("bcsr", 2, 2, False, 2, 2, "unit", 1), ("bcsr", 2, 2, False, 2, 2, "unit", 2), ("bcsr", 2, 2, False, 2, 3, "unit", 2),
         ("bcsr", 2, 2, False, 3, 2, "unit", 1), ("bcsr", 2, 3, False, 1, 2, "unit", 1),
         ("bcsr", 2, 2, False, 2, 2, "chain", 1), ("bcsr", 2, 2, False, 2, 3, "seq", 1)]
    if tier == "thorough":
        c += [("csr", 3, 4, False, 1, 1, "unit", 2), ("csr", 4, 3, False, 1, 1, "unit", 1), ("csr", 3, 3, True, 1, 1, "chain", 1),
              ("csr", 3, 3, True, 1, 1, "seq", 2), ("bcsr", 3, 3, False, 2, 2, "unit", 2), ("bcsr", 3, 3, False, 2, 3, "unit", 1),
              ("bcsr", 3, 3, False, 3, 2, "unit", 2), ("bcsr", 3, 3, False, 1, 2, "unit", 2), ("bcsr", 2, 2, False, 3, 2, "chain", 2)]
    return c


def generate(chk, tier):
    import concurrent.futures as cf
    jobs = []
    for k, a in enumerate(vec_configs(tier)):
        name = "gen_FiltersLife_%d_%d.cfg" % (os.getpid(), k)
        with open(os.path.join(vlib.SPEC, name), "w") as f:
            f.write(vec_cfg(*a))
        jobs.append(("FiltersLife", name, "vec %s n%d..%d bs%d depth%d pal%d" % a[:6] + (" lifecycle" if len(a) > 6 and a[6] else "")))
    for k, a in enumerate(mat_configs(tier)):
        name = "gen_FiltersMat_%d_%d.cfg" % (os.getpid(), k)
        with open(os.path.join(vlib.SPEC, name), "w") as f:
            f.write(mat_cfg(*a))
        jobs.append(("FiltersMat", name, "mat %s %dx%d sq=%s b%dx%d %s pal%d" % a))
    cases = []
    try:
        with cf.ThreadPoolExecutor(max_workers=min(len(jobs), 8)) as ex:
            futs = [(ex.submit(vlib.tlc, mod, cfg, timeout=1700, xmx="3g"), nm) for mod, cfg, nm in jobs]
            for f, nm in futs:
                r = f.result()
                chk.add_tlc(r, nm)
                if r.violation:
                    chk.model_violation(r, "Filters invariant (%s)" % nm)
                cases.extend(r.printed)
    finally:
        for _, cfg, _ in jobs:
            try:
                os.remove(os.path.join(vlib.SPEC, cfg))
            except OSError:
                pass
    return cases


def expand(cases):
    """entry-free matrices exist in two container states: without any array (dimension-only constructor,
    also what the graph constructor gives for an empty graph) and with allocated arrays; both are replayed"""
    out = []
    for c in cases:
        if "act" in c and len(c["rep"]["ci"]) == 0 and c["m"] > 0 and c["n"] > 0:
            for arrays in (0, 1):
                d = dict(c)
                d["arrays"] = arrays
                out.append(d)
        else:
            out.append(c)
    return out


def fkinds(f):
    if "fs" in f:
        return f["kind"] + "(" + ",".join(fkinds(x) for x in f["fs"]) + ")"
    return f["kind"]


def nidx(f):
    if "fs" in f:
        return sum(nidx(x) for x in f["fs"])
    return len(f.get("idx", []))


def sig(c, r):
    s = {"filter": fkinds(c["f"]), "outcome": r.get("outcome", "mismatch"), "constrained": nidx(c["f"]) > 0}
    if "act" in c:
        s.update({"part": "matrix", "fmt": c["fmt"], "act": c["act"], "m": c["m"], "n": c["n"], "nnz": len(c["rep"]["ci"]),
                  "arrays": 0 if (len(c["rep"]["ci"]) == 0 and (c.get("arrays", 1) == 0 or c["m"] == 0 or c["n"] == 0)) else 1,
                  "bh": c["bh"], "bw": c["bw"]})
    else:
        s.update({"part": "vector", "fam": c["fam"], "op": c["op"], "n": c["n"], "lc": c.get("lc", "none")})
    return s


def key(c):
    if "act" in c:
        return json.dumps(["m", c["fmt"], c["bh"], c["bw"], c["m"], c["n"], c["rep"], c["f"], c["act"], c.get("arrays", 1)])
    return json.dumps(["v", c["fam"], c["f"], c["op"], c["n"], c.get("lc", "none")])


def nontrivial(c):
    if "act" in c:
        return nidx(c["f"]) > 0 and len(c["rep"]["ci"]) > 0
    return c["v1"] != c["v0"]


def run(chk):
    binary, = vlib.build(["c06_filters"])
    cases = expand(generate(chk, chk.tier))
    if not cases:
        raise vlib.MachineryError("generator produced no cases")
    res = vlib.run_cases(binary, cases, tmo=20)
    vlib.judge_results(chk, cases, res, sig, keyf=key, harness="c06_filters", nontrivial=nontrivial)
    chk.traces = len(cases)
    chk.exhaustive = True
    nv = sum(1 for c in cases if "act" not in c)
    chk.extra["vector_behaviours"] = nv
    chk.extra["matrix_behaviours"] = len(cases) - nv
    chk.extra["float_instantiation_skipped"] = sum(1 for c in cases if "act" not in c and not c["f32"])
    chk.extra["lifecycle_behaviours"] = sum(1 for c in cases if c.get("lc", "none") != "none")
    chk.extra["solve_cases"] = sum(1 for c in cases if c.get("solvable"))
    chk.extra["chains_not_guaranteed_idempotent"] = sum(1 for c in cases if "act" not in c and not c["idem"])
    chk.rule = ("every behaviour of spec/FiltersLife.tla (filter family x vector size 0..5 blocks x ALL index sets x block size 1..3 x "
                "operation rhs/sol/def/cor, the call made twice, on the filter as built and - smaller bounds - on its clone (deep/weak/shallow, in-place), "
                "its convert (same / other data+index types) and its move-constructed / move-assigned copy; chains/sequences of <=3 parts in all orders, tuple/power/nested) and of "
                "spec/FiltersMat.tla (all shapes <=3x3(4), all sparsity patterns, all constrained row sets, filter_mat / "
                "filter_offdiag_row_mat made twice, CSR and BCSR block shapes 1x2,2x2,2x3,3x2, filtered solve on square CSR); each "
                "behaviour replayed on the real classes for double/uint64 and (if certified exact) float/uint32, two construction "
                "routes each; non-trivial = the first call changes the vector resp. a stored row is constrained; distinct = distinct "
                "(filter value, operation, size / matrix arrays)")
    for c in cases[len(cases) // 3: len(cases) // 3 + 2] + cases[-2:]:
        chk.sample({k: c[k] for k in c if k in ("fam", "f", "op", "n", "den", "v0", "v1", "v2", "fmt", "act", "rep", "va1", "xs", "b1")})
    chk.assumptions = ["inputs lie in the exact (dyadic) domain: integer vectors, normals with |nu|^2 in {1,2,4}, mean volumes p.d a power of two; "
                       "rounding behaviour for general normals/weights is not explored (DESIGN.md sec. 7 residue)",
                       "mean filters are built with volume = p.d (the documented meaning of the volume argument)",
                       "Global::Filter / Global::MeanFilter wrappers (need gates/communication) are not exercised here",
                       "constrained matrix rows without a stored diagonal entry are required to become null rows and are excluded from the solve guarantee (DESIGN.md decision rule)"]


def replay(obj):
    binary, = vlib.build(["c06_filters"])
    cases = [v["replay"]["case"] for v in obj["violations"] if v["replay"] and v["replay"].get("kind") == "case"]
    res = vlib.run_cases(binary, cases, tmo=20, shards=1)
    bad = 0
    for c, r in zip(cases, res):
        print(json.dumps({"case": sig(c, r), "result": r})[:1000])
        if r.get("ok") is not True:
            bad += 1
    return 1 if bad else 0
