"""C17: threaded assembly is race-free, terminates and equals the serial result.

M  spec/ThreadAsm.tla (fence protocol, all interleavings, safety + termination under fairness) and
   spec/WorkDist.tla (_build_thread_layers transcription vs. its contract) are model checked;
G  spec/ThreadCfg.tla enumerates the run configurations (mesh x subset x strategy x workers x job kind);
V  every run of the real DomainAssembler threads (harness/c17_threads.cpp, hooks H2/H3, seeded schedule
   perturbation) is recorded and validated by TLC against spec/Trace_ThreadAsm.tla: every event must be
   the next step of its thread in the protocol, all invariants hold at every step with the real mesh
   adjacency, the work distribution equals the WorkDist transcription, and the results equal the serial ones.
D  spec/Sched_ThreadAsm.tla / Sched_ThreadAsmPCT.tla: behaviours of the protocol model, computed for the work distribution the
   real assembler compiled, are printed as schedules (uniformly random interleavings and priority/PCT schedules) and FORCED onto
   the real threads (harness/c17_driven.cpp): every hook and job call is a scheduling point, the implementation's next event must
   be the model's next event (kind, argument, fence flag), a stall or early stop is a divergence.
"""
import json, os, random, shutil
import concurrent.futures as cf
import vlib, c17_mc, c17_driven

LEVEL = "model_checking"


def model_check(chk):
    insts = c17_mc.INSTANCES_THOROUGH if chk.tier == "thorough" else c17_mc.INSTANCES_QUICK
    mods = [(c17_mc.write_instance(vlib.SPEC, **i), i) for i in insts]

    def one(mod):
        return vlib.tlc(mod, mod + ".cfg", workers=2, want_printed=False, timeout=1500, xmx="3g")
    with cf.ThreadPoolExecutor(max_workers=8) as ex:
        futs = [(ex.submit(one, m), m, i) for m, i in mods]
        wd = ex.submit(vlib.tlc, "MC_WorkDist", "MC_WorkDist.cfg" if chk.tier == "quick" else "MC_WorkDist_thorough.cfg",
                       workers=4, want_printed=False, timeout=1500)
        for f, m, i in futs:
            r = f.result()
            chk.add_tlc(r, "protocol " + i["name"])
            if r.violation:
                chk.model_violation(r, "fence protocol model %s" % i["name"])
        r = wd.result()
        chk.add_tlc(r, "WorkDist")
        if r.violation:
            chk.model_violation(r, "_build_thread_layers transcription vs ThreadLayersOK")
    for m, _ in mods:
        for ext in (".tla", ".cfg"):
            try:
                os.remove(os.path.join(vlib.SPEC, m + ext))
            except OSError:
                pass


def choose_cases(chk, space):
    """stratified seeded sample of the TLC-enumerated configuration space"""
    rnd = random.Random(vlib.seed())
    n_target = 2400 if chk.tier == "thorough" else 420
    strata = {}
    for c in space:
        ncell = c["nx"] * c["ny"] * c["comps"]
        full = len(c["subset"]) == ncell
        k = (c["nx"], c["ny"], c["comps"], c["strategy"], c["maxw"] >= 2, c["fail"] >= 0, full)
        strata.setdefault(k, []).append(c)
    keys = sorted(strata.keys())
    per = max(1, n_target // len(keys))
    out = []
    for k in keys:
        lst = strata[k]
        rnd.shuffle(lst)
        out.extend(lst[:per])
    rnd.shuffle(out)
    return out[:int(n_target * 1.3)]


def validate_trace(path):
    r = vlib.tlc("Trace_ThreadAsm", "Trace_ThreadAsm.cfg", workers=1, want_printed=False, env={"TRACE": path}, dfs=True,
                 timeout=600, xmx="1g", light=True)
    return r


def sig(c, what, extra=None):
    s = {"strategy": c["strategy"], "cells": len(c["subset"]), "maxw": c["maxw"], "scatter": c["scatter"], "combine": c["combine"],
         "fail": c["fail"] >= 0, "what": what}
    if extra:
        s.update(extra)
    return s


def real_jobs(chk, variant):
    """The assembly jobs FEAT ships, executed by worker threads, against their sequential meaning (c17_realjobs.cpp)."""
    rb, = vlib.build(["c17_realjobs"], variant=variant)
    quick = chk.tier == "quick"
    cases = []
    for level in ((3, 5) if quick else (2, 3, 5, 6)):
        for strat in ("layered", "layered_sorted", "colored", "automatic"):
            for maxw in ((2, 4, 7) if quick else (1, 2, 3, 4, 6, 9, 16)):
                cases.append({"level": level, "strategy": strat, "maxw": maxw, "reps": 3 if quick else 6})
    res = vlib.run_cases(rb, cases, tmo=300, shards=4, max_abnormal=4)
    njobs = 0
    for c, rr in zip(cases, res):
        chk.count("realjobs " + json.dumps(c, sort_keys=True), (rr.get("W") or 0) >= 2)
        njobs += rr.get("jobs") or 0
        if rr.get("outcome") or rr.get("ok") is not True:
            chk.violation({"what": "realjobs", "job": rr.get("job"), "strategy": c["strategy"], "outcome": rr.get("outcome", "mismatch")},
                          "FEAT assembly job under worker threads: %s" % (rr.get("why") or rr.get("stderr") or rr.get("outcome") or "")[:700],
                          {"kind": "case", "harness": "c17_realjobs", "case": c, "result": rr})
    chk.extra["real_job_runs"] = len(cases)
    chk.extra["real_job_executions_compared"] = njobs
    if variant == "std":
        try:
            tb, = vlib.build(["c17_realjobs"], variant="tsan")
        except vlib.MachineryError as e:
            chk.extra["real_job_tsan_runs"] = "unavailable: %s" % str(e)[:200]
            return
        tcases = [{"level": lv, "strategy": st, "maxw": mw, "reps": 1} for lv in ((3,) if quick else (2, 4))
                  for st in ("layered", "colored") for mw in ((3,) if quick else (2, 3, 5))]
        tres = vlib.run_cases(tb, tcases, tmo=300, shards=4, max_abnormal=4, env={"TSAN_OPTIONS": "halt_on_error=1 exitcode=66"})
        for c, rr in zip(tcases, tres):
            chk.count("realjobs/tsan " + json.dumps(c, sort_keys=True), (rr.get("W") or 0) >= 2)
            if rr.get("outcome") or rr.get("ok") is not True:
                chk.violation({"what": "realjobs/tsan", "job": rr.get("job"), "strategy": c["strategy"], "outcome": rr.get("outcome", "mismatch")},
                              "FEAT assembly job under ThreadSanitizer: %s %s" % (rr.get("outcome"), (rr.get("stderr") or rr.get("why") or "")[:900]),
                              {"kind": "case", "harness": "c17_realjobs(tsan)", "case": c, "result": rr})
        chk.extra["real_job_tsan_runs"] = len(tcases)


def run(chk, variant="std"):
    binary, = vlib.build(["c17_threads"], variant=variant)
    model_check(chk)
    # G: the thread-layer balancing sweeps, driven directly with every layer structure TLC enumerates
    g = vlib.tlc("MC_WorkDist", "MC_WorkDist_gen.cfg" if chk.tier == "quick" else "MC_WorkDist_gen_thorough.cfg", workers=1, timeout=1500)
    chk.add_tlc(g, "WorkDist generation")
    gres = vlib.run_cases(binary, g.printed, tmo=20, shards=8)
    vlib.judge_results(chk, g.printed, gres, lambda c, rr: {"what": "thread_layers", "nlayers": len(c["le"]) - 1, "maxw": c["maxw"],
                                                               "outcome": rr.get("outcome", "mismatch")},
                       harness="c17_threads", nontrivial=lambda c: len(c["tl"]) > 2)
    chk.extra["thread_layer_cases"] = len(g.printed)
    r = vlib.tlc("ThreadCfg", "ThreadCfg_%s.cfg" % chk.tier, workers=1, timeout=900)
    chk.add_tlc(r, "ThreadCfg")
    cases = choose_cases(chk, r.printed)
    tdir = os.path.join(vlib.BUILD, "c17", "traces_%d" % os.getpid())
    shutil.rmtree(tdir, ignore_errors=True)
    os.makedirs(tdir)
    for k, c in enumerate(cases):
        c["seed"] = vlib.seed() * 1000 + k
        c["perturb"] = 1
        c["trace"] = os.path.join(tdir, "t%05d.ndjson" % k)
    res = vlib.run_cases(binary, cases, tmo=30, shards=8, max_abnormal=6, env={"TSAN_OPTIONS": "halt_on_error=1 exitcode=66"})
    todo = []
    nmulti = 0
    for k, (c, rr) in enumerate(zip(cases, res)):
        key = json.dumps({x: c[x] for x in ("nx", "ny", "comps", "subset", "strategy", "maxw", "scatter", "combine", "jobs", "fail")},
                         sort_keys=True)
        multi = (rr.get("W") or 0) >= 2
        nmulti += 1 if multi else 0
        chk.count(key, multi)
        oc = rr.get("outcome")
        if oc:
            # abort / hang / exception / sanitizer: "completes without deadlock or abort" is violated
            chk.violation(sig(c, "outcome", {"outcome": oc}), "run ended with outcome %s: %s" % (oc, (rr.get("stderr") or rr.get("why") or "")[:600]),
                          {"kind": "case", "harness": "c17_threads", "case": c, "result": rr})
            continue
        if rr.get("ok") is not True:
            chk.violation(sig(c, "result"), rr.get("why", "result mismatch"),
                          {"kind": "case", "harness": "c17_threads", "case": c, "result": rr})
            # still validate the trace: it usually localises the divergence
        todo.append((k, c, rr))
    accepted = 0
    with cf.ThreadPoolExecutor(max_workers=min(14, vlib.NCPU)) as ex:
        futs = [(ex.submit(validate_trace, c["trace"]), k, c, rr) for k, c, rr in todo]
        for f, k, c, rr in futs:
            tr = f.result()
            chk.states += tr.distinct
            chk.transitions += tr.generated
            v = tr.violation or ""
            if "NotAccepted" in v and v.count("Invariant") == 1:
                accepted += 1
                continue
            keep = os.path.join(vlib.BUILD, "replay", "C17_trace_%d_%d.ndjson" % (os.getpid(), k))
            os.makedirs(os.path.dirname(keep), exist_ok=True)
            shutil.copy(c["trace"], keep)
            if v:
                what = v.replace("Error: Invariant ", "").replace(" is violated.", "")
                chk.violation(sig(c, "invariant", {"invariant": what}),
                              "recorded execution violates %s (W=%s)" % (what, rr.get("W")),
                              {"kind": "trace", "trace": keep, "case": c, "tlc": vlib.tlc_trace_states(tr.out)[-3:]})
            else:
                chk.violation(sig(c, "rejected"),
                              "recorded execution is not a behaviour of ThreadAsm (W=%s, %d states explored)" % (rr.get("W"), tr.distinct),
                              {"kind": "trace", "trace": keep, "case": c})
    chk.traces = accepted
    chk.extra["runs"] = len(cases)
    chk.extra["runs_with_2_or_more_workers"] = nmulti
    chk.extra["traces_accepted"] = accepted
    chk.rule = ("model checking: all interleavings of the fence protocol instances listed under tlc_runs (safety + termination under weak "
                "fairness) and every layer-size vector of MC_WorkDist; runs: seeded stratified sample of the TLC-enumerated configuration "
                "space (mesh x subset x strategy x requested workers 0..cells+2 x scatter/combine x repeated jobs x injected failure), each "
                "executed by the real threads under seeded schedule perturbation and validated event by event against Trace_ThreadAsm; "
                "non-trivial = a run that really used >= 2 worker threads; distinct = distinct configuration. Driven schedules: for 13 (thorough 19) "
                "configurations TLC -simulate prints behaviours of ThreadAsm instantiated with the compiled work distribution - uniformly random "
                "interleavings and priority (PCT) schedules with 0-3 change points, with injected task failures where MayFail allows - and the real "
                "threads are forced along each one; distinct = distinct (configuration, event sequence)")
    for c in [x for x, rr in zip(cases, res) if (rr.get("W") or 0) >= 2][:3]:
        chk.sample({x: c[x] for x in ("nx", "ny", "comps", "subset", "strategy", "maxw", "scatter", "combine", "jobs", "fail")})
    chk.assumptions = ["event stamps come from one atomic counter; fence events are stamped while the fence mutex is held",
                       "free-running schedules of the real threads are sampled (perturbed by seeded yields/sleeps) and the forced ones are drawn by TLC's simulator; all interleavings only in the model",
                       "forced schedules: the acquisition order of the assembler's mutex cannot be forced (no scheduling point before the lock); the schedule is re-ordered to the observed order, which is also a behaviour of the model",
                       "the job used for observation scatters integer contributions into per-vertex slots (vertex-adjacent cells collide)"]
    shutil.rmtree(tdir, ignore_errors=True)
    # G for schedules: TLC behaviours (uniform + priority/PCT schedules) forced onto the real threads (lib/c17_driven.py)
    chk.extra["driven"] = True
    chk.traces += c17_driven.run(chk, variant)
    real_jobs(chk, variant)
    if chk.tier == "thorough" and variant == "std":
        # the same runs under ThreadSanitizer (no OpenMP): physical data races are reported as outcome 'sanitizer'
        try:
            tb, = vlib.build(["c17_threads"], variant="tsan")
            sub = [dict(c, trace="") for c in cases if c["maxw"] >= 2][:300]
            tres = vlib.run_cases(tb, sub, tmo=120, shards=8, env={"TSAN_OPTIONS": "halt_on_error=1 exitcode=66"})
            nts = 0
            for c, rr in zip(sub, tres):
                nts += 1
                if rr.get("outcome"):
                    chk.violation(sig(c, "tsan", {"outcome": rr.get("outcome")}), "ThreadSanitizer run: %s %s" % (rr.get("outcome"), (rr.get("stderr") or "")[:800]),
                                  {"kind": "case", "harness": "c17_threads(tsan)", "case": c, "result": rr})
            chk.extra["tsan_runs"] = nts
        except vlib.MachineryError as e:
            chk.extra["tsan_runs"] = "unavailable: %s" % str(e)[:200]
