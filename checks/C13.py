"""C13: distributed vectors, operators and solves equal the single-process results.

M  spec/Synch.tla: the isend/irecv/wait_any protocol of SynchVectorTicket is model checked over ALL overlap
   hypergraphs and ALL interleavings / message arrival orders (Sync0Correct, no lost message, termination);
G  spec/Gen_Synch.tla: every decomposition with its expected results, replayed on real MPI ranks
   (harness/c13_synch.cpp, mpirun -np 1..4/6): Gate frequencies, sync_0, sync_1, dot, norm, global dof count,
   Global::Matrix::apply; hook H4 forces every permutation index of the neighbour processing order.
X  lib/c13x.py: distributed matrices (spec/SynchMat.tla model checked, spec/Gen_GlobalMat.tla -> harness/c13_gmat.cpp), blocked / tuple
   vectors, scalar reductions, *_async variants, Splitter, filters (spec/Gen_SynchB.tla) and Muxer hierarchies (spec/Gen_Muxer.tla)
   -> harness/c13_gvec.cpp; Global::Transfer across process layers with ghost processes (spec/Gen_XferLayers.tla -> harness/c13_xfer.cpp).
A  lib/c13_mirror.py: the MIRROR ASSEMBLY of the control layer (kernel/assembly/mirror_assembler.hpp, control/asm/gate_asm.hpp, muxer_asm.hpp,
   splitter_asm.hpp).  spec/MirrorAsm.tla defines the dof mirror of a halo / patch mesh part for a space (dofs on the part's entities: vertices
   first, then edges, faces, cells; per entity in local order; signatures of RefElement.tla, numbering of DofMap.tla) and the predicates
   GateOrder/GateAgree/GateComplete, MuxOrder/MuxPairing, SplOrder/SplPairing, the values of the real collective operations on an
   interpolated affine function, and the component-wise combination for tuple spaces; harness/c13_mirrorasm.cpp runs the real
   PartiDomainControl + asm_gate/asm_muxer/asm_splitter/build_*_tuple on MPI ranks (owner maps enumerated by TLC), TLC judges the dumps.
R  spec/Renum.tla: every generator also enumerates a LOCAL renumbering per rank (identity, reversal, rotation, ...; all permutations of
   three dofs in the thorough tier), so vector mirrors, row/column mirrors of the matrix buffers, splitter and muxer mirrors are not
   monotone in general; all expected values are emitted in the permuted local numbering by the specification.
"""
import json, os, shutil
import concurrent.futures as cf
import vlib
import c13x
import c13_mirror

LEVEL = "model_checking"
MPIRUN = ["mpirun", "--allow-run-as-root", "--oversubscribe", "--bind-to", "none", "-np"]
MPIRUN_G = c13x.MPIRUN      # gate-level replays: ranks yield when idle (several shards side by side)


def gen_cfg(nr, nd, renk):
    name = "gen_Synch_%d_%d_%d.cfg" % (nr, nd, os.getpid())
    with open(os.path.join(vlib.SPEC, name), "w") as f:
        f.write("SPECIFICATION GenSpec\nCONSTANTS NR = %d ND = %d RENK = %d\nINVARIANTS Emit LawRenum\n" % (nr, nd, renk))
    return name


def sig(c, r):
    return {"nr": c["nr"], "perm": c.get("perm", -1), "nonmono": bool(c.get("nonmono", False)), "outcome": r.get("outcome", "mismatch"),
            "what": (r.get("why") or "").split(":")[1].strip().split(" ")[0] if ":" in (r.get("why") or "") else ""}


SQ = "{data}/unit-square-quad.xml"
# (reference group, label, arguments, process counts); the reference of a group is its run with label == group on 1 process
APP_ARGS_QUICK = [
    ("sq-5-2", "sq-5-2", ["--mesh", SQ, "--level", "5", "2", "--problem", "sin"], [1, 2, 3, 4, 6, 8]),
    ("sq-5-2", "sq-5-2 layers 5:n 3:2 2", ["--mesh", SQ, "--level", "5", "3:2", "2", "--problem", "sin"], [4, 6]),
    ("sq-4-1", "sq-4-1", ["--mesh", SQ, "--level", "4", "1", "--problem", "sin"], [1]),
    ("sq-4-1", "sq-4-1 layers 4:8 2:2 1", ["--mesh", SQ, "--level", "4", "2:2", "1", "--problem", "sin"], [8]),
    ("lshape-3-1", "lshape-3-1", ["--mesh", "{data}/l-shape-quad.xml", "--level", "3", "1", "--problem", "exp"], [1, 2, 3, 5]),
]
APP_ARGS_THOROUGH = APP_ARGS_QUICK + [
    ("sq-6-2", "sq-6-2", ["--mesh", SQ, "--level", "6", "2", "--problem", "sin"], [1, 5, 7, 12, 16]),
    ("sq-6-2", "sq-6-2 layers 6:n 4:4 2", ["--mesh", SQ, "--level", "6", "4:4", "2", "--problem", "sin"], [16, 8, 12]),
    ("sq-5-2", "sq-5-2 layers 5:16 3:4 2", ["--mesh", SQ, "--level", "5", "3:4", "2", "--problem", "sin"], [16]),
    ("sq-4-0", "sq-4-0", ["--mesh", SQ, "--level", "4", "0", "--problem", "sin"], [1]),
    ("sq-4-0", "sq-4-0 layers 4:16 2:4 1:1 0", ["--mesh", SQ, "--level", "4", "2:4", "1:1", "0", "--problem", "sin"], [16]),
    ("flow-2-0", "flow-2-0", ["--mesh", "{data}/flowbench_c2d_03_quad_64.xml", "--level", "2", "0", "--problem", "cos"], [1, 2, 4, 7]),
]


def parse_app(out):
    import re
    defs = [float(m.group(1)) for m in re.finditer(r"^PCG:\s+\d+ : ([0-9.eE+-]+)", out, re.M)]
    errs = [float(m.group(1)) for m in re.finditer(r"^(?:H0|H1|L1|Lmax)-Norm\.*: ([0-9.eE+-]+)", out, re.M)]
    failed = "FAILED" in out or "ERROR" in out
    return defs, errs, failed


def app_runs(chk, app):
    """discretise-and-solve on 1..n processes; projection to agreement booleans; TLC judges (spec/DistSolve.tla)"""
    import subprocess
    plan = APP_ARGS_THOROUGH if chk.tier == "thorough" else APP_ARGS_QUICK
    data = os.path.join(vlib.REPO, "data", "meshes")
    jobs = []
    for group, label, args, nps in plan:
        for n in nps:
            jobs.append((group, label, [a.format(data=data) for a in args], n))

    def one(job):
        g, label, args, n = job
        try:
            p = subprocess.run(["timeout", "300"] + MPIRUN + [str(n), app] + args, stdout=subprocess.PIPE, stderr=subprocess.STDOUT,
                               text=True, errors="replace", cwd=vlib.BUILD)
            if p.returncode == 124 or p.returncode >= 128 or p.returncode < 0:
                # time-out on a loaded machine: only a repeated time-out with five times the budget is reported; a run that ends by a
                # signal (seen once: SIGSEGV after the complete output of a one-process run at load average 120) is repeated once
                # as well - a deterministic crash shows up again
                vlib.log("[c13] application run %s on %d processes ended with rc=%d; repeating once: %s" % (label, n, p.returncode, (p.stdout or "")[-300:].replace("\n", " | ")))
                p = subprocess.run(["timeout", "1500"] + MPIRUN + [str(n), app] + args, stdout=subprocess.PIPE, stderr=subprocess.STDOUT,
                                   text=True, errors="replace", cwd=vlib.BUILD)
            return job, p.returncode, p.stdout
        except Exception as e:  # noqa
            return job, 99, str(e)
    with cf.ThreadPoolExecutor(max_workers=3) as ex:
        outs = list(ex.map(one, jobs))
    ref = {}
    for (g, label, args, n), rc, out in outs:
        if n == 1 and g == label:
            ref[g] = parse_app(out)
    recs = []
    for (g, label, args, n), rc, out in outs:
        defs, errs, failed = parse_app(out)
        rdefs, rerrs, _ = ref.get(g, ([], [], True))
        d0 = rdefs[0] if rdefs else 1.0
        agree_def = [abs(a - b) <= 2e-6 * abs(b) + 1e-9 * d0 for a, b in zip(defs, rdefs)] if len(defs) == len(rdefs) else [False] * len(defs)
        agree_err = [abs(a - b) <= 2e-6 * abs(b) for a, b in zip(errs, rerrs)] if len(errs) == len(rerrs) else [False] * len(errs)
        recs.append({"group": g, "label": label, "np": n, "status": "ok" if (rc == 0 and not failed and defs) else "failed(rc=%d)" % rc,
                     "iters": max(0, len(defs) - 1), "agree_def": agree_def, "agree_err": agree_err, "defs": ["%.6e" % x for x in defs]})
    path = os.path.join(vlib.BUILD, "c13_runs_%d.ndjson" % os.getpid())
    with open(path, "w") as f:
        for r in recs:
            f.write(json.dumps(r) + "\n")
    t = vlib.tlc("DistSolve", "DistSolve.cfg", workers=1, want_printed=False, env={"RUNS": path}, light=True)
    chk.add_tlc(t, "DistSolve")
    if t.violation:
        bad = [r for r in recs if r["status"] != "ok" or not all(r["agree_def"]) or not all(r["agree_err"]) or r["iters"] != (len(ref.get(r["group"], ([], [], 0))[0]) - 1)]
        for r in bad[:5] or recs[:1]:
            chk.violation({"what": "distsolve", "np": r["np"], "group": r["label"], "status": r["status"]},
                          "discretise-and-solve on %d processes (%s) differs from the one-process run: %s" % (r["np"], r["label"], json.dumps(r)[:600]),
                          {"kind": "apprun", "record": r})
    chk.extra["app_runs"] = len(recs)
    chk.extra["app_process_counts"] = sorted({r["np"] for r in recs})
    chk.sample({"app_run": {k: recs[-1][k] for k in ("label", "np", "iters", "defs")}})
    os.remove(path)


def run(chk):
    if shutil.which("mpirun") is None or shutil.which("mpicxx") is None:
        raise vlib.MachineryError("MPI toolchain (mpicxx/mpirun) not available")
    binary, app, gmat, gvec, gxfer, _mir = vlib.build(["c13_synch", "c13_poisson_app", "c13_gmat", "c13_gvec", "c13_xfer", "c13_mirrorasm"], variant="mpi")
    chk.known = vlib.load_known("C13")
    thorough = chk.tier == "thorough"
    only_ext = os.environ.get("C13_ONLY", "") == "ext"      # development aid: skip the parts that were there before the extension
    if os.environ.get("C13_ONLY", "") == "mirror":          # development aid: the mirror-assembly route alone
        chk.traces = c13_mirror.run_mirror(chk)
        chk.rule = "mirror assembly route only (development run)"
        return
    # ---- M ---------------------------------------------------------------------------------------
    mcs = [("Synch_mc3.cfg", 8)] + ([("Synch_mc4.cfg", 8)] if thorough else [("Synch_mc4s.cfg", 4)])
    if only_ext:
        mcs = []
    import time
    t_start = time.time()
    # the model checking runs (M), the extension (lib/c13x.py: own TLC pool and replay threads) and the generation + replay of the
    # gate-level cases (main thread, followed by the application runs) proceed side by side
    ex_m = cf.ThreadPoolExecutor(max_workers=2)
    ex_g = cf.ThreadPoolExecutor(max_workers=3)
    ex_x = cf.ThreadPoolExecutor(max_workers=1)
    # heap: the quick-tier models have < 1e6 states; a 12g heap made the JVM the preferred victim of the kernel's OOM killer on the shared machine
    futs = [(ex_m.submit(vlib.tlc, "Synch", c, workers=w, want_printed=False, timeout=3000, xmx="12g" if thorough else "6g"), c) for c, w in mcs]
    fut_ext = ex_x.submit(c13x.run_ext, chk, gmat, gvec, gxfer)
    # A: the mirror assembly of the control layer (lib/c13_mirror.py: configurations on real MPI ranks, judged by spec/MirrorAsm.tla)
    ex_a = cf.ThreadPoolExecutor(max_workers=1)
    fut_mir = ex_a.submit(c13_mirror.run_mirror, chk)
    # ---- G generation ------------------------------------------------------------------------------
    # (ranks, global dofs, largest local renumbering kind of module Renum)
    plan = [(1, 3, 2), (2, 3, 5), (3, 3, 5), (4, 2, 2), (4, 3, 0), (5, 2, 2), (6, 2, 2)] if thorough else [(1, 3, 2), (2, 3, 2), (3, 3, 2), (4, 2, 2)]
    if only_ext:
        plan = []
    gens = [(ex_g.submit(vlib.tlc, "Gen_Synch", gen_cfg(nr, nd, rk), workers=1, timeout=1500), nr, nd) for nr, nd, rk in plan]
    bynr = {}
    for f, nr, nd in gens:
        try:
            r = f.result()
        finally:
            try:
                os.remove(os.path.join(vlib.SPEC, "gen_Synch_%d_%d_%d.cfg" % (nr, nd, os.getpid())))
            except OSError:
                pass
        chk.add_tlc(r, "Gen_Synch nr=%d nd=%d" % (nr, nd))
        if r.violation:
            chk.model_violation(r, "Gen_Synch laws (nr=%d nd=%d)" % (nr, nd))
        bynr.setdefault(nr, []).extend(r.printed)
    # ---- G replay ----------------------------------------------------------------------------------
    total = 0
    nonmono = 0
    for nr in sorted(bynr):
        # the plan may generate a decomposition twice (quick and deeper renumbering kinds): keep one
        base, seen = [], set()
        for c in bynr[nr]:
            k = json.dumps([c["dofs"]], sort_keys=True)
            if k not in seen:
                seen.add(k)
                base.append(c)
        cases = []
        perms = [-1] if nr == 1 else ([-1, 0, 1, 2, 3, 4, 5] if nr >= 3 else [-1, 0, 1])
        # renumbered patches (a non-monotone mirror): natural arrival order and one forced order (all orders in the thorough tier for <= 3 ranks)
        perms_rn = perms if (thorough and nr <= 3) else ([-1] if (nr == 1 or nr >= 5) else ([-1, 4] if nr >= 3 else [-1, 1]))
        nonmono += sum(1 for c in base if c.get("nonmono"))
        for c in base:
            for p in (perms_rn if c.get("nonmono") else perms):
                d = dict(c)
                d["perm"] = p
                cases.append(d)
        try:
            res = vlib.run_cases(binary, cases, tmo=20, max_abnormal=6, shards=max(1, min(6, 12 // nr)), wrapper=MPIRUN_G + [str(nr)])
        except vlib.MachineryError as e:
            # an mpirun job that fails to start / dies outside a case on the loaded machine (ORTE start-up) is not a statement about the
            # property: one retry in a single job (as lib/c13x.py does); a reproducible failure is raised again
            vlib.log("[c13] gate-level replay on %d ranks failed outside a case (%s); retrying once" % (nr, str(e).splitlines()[0][:200]))
            res = vlib.run_cases(binary, cases, tmo=20, max_abnormal=6, shards=1, wrapper=MPIRUN_G + [str(nr)])
        vlib.judge_results(chk, cases, res, sig, harness="c13_synch",
                           keyf=lambda c: json.dumps([c["nr"], c["dofs"], c["perm"]], sort_keys=True),
                           nontrivial=lambda c: c["nr"] >= 2 and any(x >= 2 for v in c["count"].values() for x in v))
        total += len(cases)
        if nr == 3:
            for c in cases[100:102]:
                chk.sample({k: c[k] for k in ("nr", "dofs", "v0", "sync0", "count", "dot", "perm")})
            rn = [c for c in cases if c.get("nonmono")]
            if rn:
                c = rn[len(rn) // 2]
                chk.sample({k: c[k] for k in ("nr", "dofs", "ren", "mir", "v0", "sync0", "count", "dot", "perm")})
    chk.extra["gate_cases_nonmonotone_mirror"] = nonmono
    vlib.log("[c13] gate-level replay done at %.1fs" % (time.time() - t_start))
    # the application runs are NOT started side by side with the replays: on a loaded machine the oversubscribed mpirun jobs disturb each other
    if not only_ext:
        app_runs(chk, app)
    vlib.log("[c13] application runs done at %.1fs" % (time.time() - t_start))
    # ---- M results ------------------------------------------------------------------------------------------------------
    for f, c in futs:
        r = f.result()
        chk.add_tlc(r, c)
        if r.violation:
            chk.model_violation(r, "Synch.tla (%s)" % c)
    # ---- extension: matrices, blocked/tuple vectors, scalar tickets, muxer/splitter, filters, layered transfer (lib/c13x.py) ----
    total += fut_ext.result()
    vlib.log("[c13] extension done at %.1fs" % (time.time() - t_start))
    total += fut_mir.result()
    vlib.log("[c13] mirror assembly route done at %.1fs" % (time.time() - t_start))
    for e in (ex_m, ex_g, ex_x, ex_a):
        e.shutdown()
    chk.traces = total
    chk.exhaustive = True
    chk.rule = ("model checking: all dof-to-rank overlap hypergraphs for 3 ranks x 3 dofs (thorough also 4 ranks) x all interleavings and "
                "message arrival orders of the synchronisation protocol; replay: every decomposition of <= 3 global dofs on 1..4 (thorough 6) real "
                "MPI ranks x forced neighbour processing orders (hook H4), comparing frequencies, sync_0, sync_1, dot, norm, global dof count and "
                "the distributed matrix-vector product exactly (tolerance only where the number of sharers of a dof is not a power of two: 1/3, 1/5, 1/6 are not dyadic); non-trivial = "
                ">= 2 ranks with a shared dof.  Extension (lib/c13x.py): SynchMat.tla model checks the four-round SynchMatrix protocol (all arrival "
                "orders); Gen_GlobalMat (every row/column decomposition x pattern variant; CSR, BCSR 2x2, BCSR 2x3: convert_to_1, extract_diag, lump_rows, "
                "apply*, global sizes), Gen_SynchB (blocked/tuple vectors, scalar reductions, all *_async variants, Splitter with frame conditions, "
                "Global::Filter/MeanFilter) and Gen_Muxer (all compositions of 2..6 ranks into sibling groups x parent choice x child patches of unequal "
                "size) are replayed on real MPI ranks with exact integer comparison.  Local numberings (spec/Renum.tla): every generator enumerates, "
                "per rank, a renumbering of the local dofs (identity, reversal, rotation by one; thorough: all six permutations of a patch of three "
                "dofs for <= 3 ranks) and emits, besides the all-ascending numbering, every combination with at least one NON-MONOTONE mirror "
                "(vector mirrors, row and column mirrors of CSR/BCSR matrix buffers, splitter patch mirrors, tuple components); renumbered gate-level "
                "cases are replayed with the natural and one forced arrival order (thorough: all orders for <= 3 ranks).  Gen_XferLayers: "
                "Global::Transfer over a Muxer for every composition of 1..4 (thorough 6) ranks into sibling groups x parent choice (first/last) x "
                "parent patches x child patches (renumbered) x fine decompositions: restriction, truncation (distinct matrices) and prolongation "
                "of exact-integer vectors, parents through rest/trunc/prol, GHOST processes through rest_send/trunc_send/prol_recv, a transfer "
                "without muxer on one-rank groups and a clone(); expected = the single-process result (law: equals the documented layer-wise combination).  "
                "Mirror assembly (lib/c13_mirror.py, spec/MirrorAsm.tla): the real Control::Domain::PartiDomainControl on 2..4 (thorough ..8) MPI ranks over "
                "2x2 / 4x4 / 3x2 / 4x2 quadrilateral, triangulated and 2x2x1 / 2x2x2 hexahedral base meshes, single-layered with base levels (base splitter) "
                "and layered 4->2->1, 4->1, 6->3->1, 6->2->1, 8->4->2->1, 8->2->1; owner maps = every set partition of the four squares into 2..4 patches and every "
                "labelling of four one-square patches (which patches are siblings; incl. disconnected parent patches) as enumerated by TLC "
                "(spec/PartitionGen.tla; quick: a third of them), seeded random owner maps on 4x4, and the shipped partitioners; for Lagrange-1/2/3, "
                "discontinuous-0/1, Crouzeix-Raviart/Rannacher-Turek, Bernstein-2 on every virtual level: asm_gate, asm_muxer, asm_splitter mirrors "
                "== MirrorSpec(mesh part) (vertices, edges, faces, cells; entity order of the target set; local dof order), neighbour mirrors denote the "
                "same geometric functionals in the same order and all shared ones, child / patch mirror entry i is the parent dof of child dof i, "
                "identity mirrors on the child side, virtual level structure; gate.sync_0, muxer.join/split/join_send/split_recv, splitter.split/join "
                "of the interpolant of 1 + x + 64y + 4096z reproduce the barycentre values (exactly, x number of holders where the operation sums); "
                "system gate/muxer/splitter of 2- and 3-component tuple spaces = component-wise combination")
    chk.assumptions = ["gate-level cases are built directly from the decomposition: the BUFFER order of every mirror pair is the ascending global dof order "
                       "(the local numbering of each patch is enumerated: identity/reversal/rotation/...), the fine and the parent patches of the layered "
                       "transfer cases are numbered ascending (their child patches are renumbered); the partitioners, the multi-layered "
                       "hierarchies and the discretise-and-solve chain of the control layer are exercised through the poisson application runs, the mirror "
                       "assembly (asm_gate / asm_muxer / asm_splitter / build_*_tuple) through the mirror-assembly route on small partitioned meshes; values of "
                       "the collective operations are compared for the families whose node functionals of an affine function are barycentre values "
                       "(Lagrange-1/2, discontinuous-0, Crouzeix-Raviart/Rannacher-Turek), the other families structurally",
                       "OpenMPI in one node with oversubscription; arrival orders in the real runs are forced through hook H4, all orders only in the model"]
