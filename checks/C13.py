"""C13: distributed vectors, operators and solves equal the single-process results.

M  spec/Synch.tla: the isend/irecv/wait_any protocol of SynchVectorTicket is model checked over ALL overlap
   hypergraphs and ALL interleavings / message arrival orders (Sync0Correct, no lost message, termination);
G  spec/Gen_Synch.tla: every decomposition with its expected results, replayed on real MPI ranks
   (harness/c13_synch.cpp, mpirun -np 1..4/6): Gate frequencies, sync_0, sync_1, dot, norm, global dof count,
   Global::Matrix::apply; hook H4 forces every permutation index of the neighbour processing order.
"""
import json, os, shutil
import concurrent.futures as cf
import vlib

LEVEL = "model_checking"
MPIRUN = ["mpirun", "--allow-run-as-root", "--oversubscribe", "--bind-to", "none", "-np"]


def gen_cfg(nr, nd):
    name = "gen_Synch_%d_%d_%d.cfg" % (nr, nd, os.getpid())
    with open(os.path.join(vlib.SPEC, name), "w") as f:
        f.write("SPECIFICATION GenSpec\nCONSTANTS NR = %d ND = %d\nINVARIANT Emit\n" % (nr, nd))
    return name


def sig(c, r):
    return {"nr": c["nr"], "perm": c.get("perm", -1), "outcome": r.get("outcome", "mismatch"),
            "what": (r.get("why") or "").split(":")[1].strip().split(" ")[0] if ":" in (r.get("why") or "") else ""}


def run(chk):
    if shutil.which("mpirun") is None or shutil.which("mpicxx") is None:
        raise vlib.MachineryError("MPI toolchain (mpicxx/mpirun) not available")
    binary, = vlib.build(["c13_synch"], variant="mpi")
    thorough = chk.tier == "thorough"
    # ---- M ---------------------------------------------------------------------------------------
    mcs = [("Synch_mc3.cfg", 8)] + ([("Synch_mc4.cfg", 8)] if thorough else [("Synch_mc4s.cfg", 4)])
    with cf.ThreadPoolExecutor(max_workers=2) as ex:
        futs = [(ex.submit(vlib.tlc, "Synch", c, workers=w, want_printed=False, timeout=3000, xmx="12g"), c) for c, w in mcs]
        # ---- G generation in parallel --------------------------------------------------------------
        plan = [(1, 3), (2, 3), (3, 3), (4, 2)] + ([(4, 3), (5, 2), (6, 2)] if thorough else [])
        gens = [(ex.submit(vlib.tlc, "Gen_Synch", gen_cfg(nr, nd), workers=1, timeout=1500), nr, nd) for nr, nd in plan]
        for f, c in futs:
            r = f.result()
            chk.add_tlc(r, c)
            if r.violation:
                chk.model_violation(r, "Synch.tla (%s)" % c)
        bynr = {}
        for f, nr, nd in gens:
            r = f.result()
            chk.add_tlc(r, "Gen_Synch nr=%d nd=%d" % (nr, nd))
            bynr.setdefault(nr, []).extend(r.printed)
            try:
                os.remove(os.path.join(vlib.SPEC, "gen_Synch_%d_%d_%d.cfg" % (nr, nd, os.getpid())))
            except OSError:
                pass
    # ---- G replay ----------------------------------------------------------------------------------
    total = 0
    for nr in sorted(bynr):
        base = bynr[nr]
        cases = []
        perms = [-1] if nr == 1 else ([-1, 0, 1, 2, 3, 4, 5] if nr >= 3 else [-1, 0, 1])
        for c in base:
            for p in perms:
                d = dict(c)
                d["perm"] = p
                cases.append(d)
        res = vlib.run_cases(binary, cases, tmo=60, shards=max(1, min(6, 12 // nr)), wrapper=MPIRUN + [str(nr)])
        vlib.judge_results(chk, cases, res, sig, harness="c13_synch",
                           keyf=lambda c: json.dumps([c["nr"], c["dofs"], c["perm"]], sort_keys=True),
                           nontrivial=lambda c: c["nr"] >= 2 and any(x >= 2 for v in c["count"].values() for x in v))
        total += len(cases)
        if nr == 3:
            for c in cases[100:102]:
                chk.sample({k: c[k] for k in ("nr", "dofs", "v0", "sync0", "count", "dot", "perm")})
    chk.traces = total
    chk.exhaustive = True
    chk.rule = ("model checking: all dof-to-rank overlap hypergraphs for 3 ranks x 3 dofs (thorough also 4 ranks) x all interleavings and "
                "message arrival orders of the synchronisation protocol; replay: every decomposition of <= 3 global dofs on 1..4 (thorough 6) real "
                "MPI ranks x forced neighbour processing orders (hook H4), comparing frequencies, sync_0, sync_1, dot, norm, global dof count and "
                "the distributed matrix-vector product exactly (tolerance only where a dof has 3 sharers: 1/3 is not dyadic); non-trivial = "
                ">= 2 ranks with a shared dof")
    chk.assumptions = ["gates are built directly from the decomposition (mirrors in ascending global dof order); the control layer's gate assembly "
                       "and discretise-and-solve runs are not covered by this check",
                       "OpenMPI in one node with oversubscription; arrival orders in the real runs are forced through hook H4, all orders only in the model"]
