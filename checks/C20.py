"""C20: container lifetimes are memory-safe (spec/Lifetime.tla, harness/c20_lifetime.cpp in the ASan+UBSan build)"""
import os, json
import concurrent.futures as cf
import vlib
import c20x
import c20b

LEVEL = "model_checking"
INV = "INVARIANTS RefCount NoLeak NoDangling EmptyAtEnd NullNeverCounted TypeOK Emit\nCHECK_DEADLOCK FALSE\n"


def cfg(name, slots, fams, depth, emit=True, ops=("all",)):
    path = os.path.join(vlib.SPEC, "gen_Lifetime_%s_%d.cfg" % (name, os.getpid()))     # (own name per process: checks may run side by side)
    with open(path, "w") as f:
        f.write("SPECIFICATION Spec\nCONSTANTS Slots = {%s} Fams = {%s} Depth = %d EmitOn = %s Ops = {%s}\n%s" % (
            ",".join(str(s) for s in slots), ",".join('"%s"' % x for x in fams), depth, "TRUE" if emit else "FALSE",
            ",".join('"%s"' % x for x in ops), INV))
    return os.path.basename(path)


def sig(c, r):
    st = c["steps"]
    k = r.get("step") or len(st)
    ops = [s["op"] for s in st[:k]]
    why = r.get("why", "")
    what = "increase_memory_nullptr" if "address != nullptr" in (r.get("stderr") or "") else "mismatch"
    return {"what": what, "last_op": ops[-1] if ops else "", "outcome": r.get("outcome", "mismatch")}


def run(chk):
    # the parallel-shutdown part (mpirun jobs, mostly waiting) and - in the quick tier - the large-count part run next to
    # everything else (the latter records into a Check object of its own); both are accounted for at the end
    finex = cf.ThreadPoolExecutor(max_workers=2)
    finfut = finex.submit(c20b.fin_collect, chk.tier)
    bulk = None
    if chk.tier != "thorough":
        sub = vlib.Check(chk.pid, level=chk.level, tier=chk.tier)
        bulk = (sub, finex.submit(c20b.run_bulk, sub))
    try:
        _run(chk, finfut, bulk)
    finally:
        finex.shutdown(wait=True)


def _run(chk, finfut, bulk):
    binary, = vlib.build(["c20_lifetime"], variant="asan")
    thorough = chk.tier == "thorough"
    jobs = []
    if thorough:
        jobs += [("dv4", cfg("dv4", (1, 2), ("dv",), 4), {}), ("dv3", cfg("dv3", (1, 2, 3), ("dv",), 3), {}), ("csr3", cfg("csr3", (1, 2, 3), ("csr",), 3), {}),
                 ("mix3", cfg("mix3", (1, 2, 3), ("dv", "csr"), 3), {}),
                 # (depth 6 WITH clone does not finish: 6.8 million states at depth 7 with 6.6 million still queued when the JVM gave up)
                 ("layout6", cfg("layout6", (1, 2, 3), ("csr",), 6, ops=("create", "layout", "destroy")), {}),
                 ("layout4c", cfg("layout4c", (1, 2, 3), ("csr",), 4, ops=("create", "layout", "destroy", "clone")), {}),
                 ("rangemove5", cfg("rangemove5", (1, 2, 3), ("dv",), 5, ops=("create", "range", "move", "destroy", "clear", "convert")), {}),
                 ("sim", cfg("sim", (1, 2, 3, 4), ("dv", "csr"), 14), dict(simulate=4000, depth=16, tseed=vlib.seed()))]
    else:
        jobs += [("dv3", cfg("dv3", (1, 2, 3), ("dv",), 3), {}), ("csr3", cfg("csr3", (1, 2), ("csr",), 3), {}),
                 ("csr3b", cfg("csr3b", (1, 2, 3), ("csr",), 2), {}),
                 ("layout5", cfg("layout5", (1, 2, 3), ("csr",), 5, ops=("create", "layout", "destroy")), {}),
                 ("rangemove4", cfg("rangemove4", (1, 2, 3), ("dv",), 4, ops=("create", "range", "move", "destroy")), {}),
                 ("sim", cfg("sim", (1, 2, 3), ("dv", "csr"), 9), dict(simulate=1500, depth=10, tseed=vlib.seed()))]
    # the behaviours of a run are replayed and dropped as soon as the run is complete (and the raw TLC output is dropped at once):
    # memory stays bounded by the largest runs instead of the sum of all
    keyf = lambda c: json.dumps([[s["op"], s["args"]] for s in c["steps"]], sort_keys=True)
    ntriv = lambda c: any(s["op"] in ("clone", "convert", "move", "movector", "range", "fromlayout") for s in c["steps"])

    def tlc_run(c, kw):
        r = vlib.tlc("Lifetime", c, workers=(1 if kw else 3), timeout=3000, xmx="4g", **kw)
        if not r.violation:
            r.out = ""
        return r
    total, msamples = 0, []
    with cf.ThreadPoolExecutor(max_workers=3) as ex:
        futs = {ex.submit(tlc_run, c, kw): (nm, c) for nm, c, kw in jobs}
        for f in cf.as_completed(list(futs)):
            nm, c = futs.pop(f)
            r = f.result()
            chk.add_tlc(r, nm)
            if r.violation:
                chk.model_violation(r, "Lifetime.tla invariant (%s)" % nm)
            cases, r.printed = r.printed, None
            try:
                os.remove(os.path.join(vlib.SPEC, c))
            except OSError:
                pass
            del f, r
            if not cases:
                continue
            res = vlib.run_cases(binary, cases, tmo=30)
            vlib.judge_results(chk, cases, res, sig, keyf=keyf, harness="c20_lifetime", nontrivial=ntriv)
            total += len(cases)
            if len(msamples) < 2:
                msamples.append([[s["op"], s["args"]] for s in cases[len(cases) // 2]["steps"]])
            del cases, res
    if not total:
        raise vlib.MachineryError("no behaviours generated")
    chk.traces = total
    # extension to all container families (spec/LifetimeX.tla, harness/c20x_lifetime.cpp, lib/c20x.py); adds to chk.traces
    xsamples = c20x.run_ext(chk)
    # large counts (spec/LifetimeBulk.tla, harness/c20_bulk.cpp) and Runtime::finalize on every rank of an MPI job
    # (spec/LifetimeFin.tla, harness/c20_mpifin.cpp); lib/c20b.py
    if bulk is None:
        bsamples = c20b.run_bulk(chk)
    else:
        bsamples = bulk[1].result()
        c20b.merge(chk, bulk[0])
    fsamples = c20b.fin_account(chk, finfut.result())
    chk.exhaustive = True
    chk.rule = ("all histories of spec/Lifetime.tla up to the stated depth over 2-3 container slots (create in every shape incl. size-0 "
                "arrays and array-less matrices, clone in all 5 modes within and across data/index types, convert, move, move-ctor, ranged "
                "slice, layout sharing, clear, destroy in every order, overwrite) plus seeded random histories (-simulate) of depth 9-14; "
                "each replayed on real containers in the ASan/UBSan build with reference counters, aliasing classes, sizes, contents and "
                "live chunk count compared after every step; non-trivial = contains a sharing/moving operation; distinct = distinct history.  "
                "Extension: " + c20x.RULE + ".  " + c20b.RULE)
    for smp in msamples:
        chk.sample(smp)
    for smp in xsamples[:1] + bsamples[2:3] + fsamples[:1]:
        chk.sample(smp)
    chk.assumptions = list(c20x.ASSUMPTIONS) + list(c20b.ASSUMPTIONS) + ["heap safety inside an operation is observed by ASan/UBSan on the replayed histories, not proved",
                       "the owner of a ranged (foreign memory) slice outlives it - an API obligation the specification makes an enabling condition"]


def replay(obj):
    mine = [v["replay"] for v in obj["violations"] if v.get("replay") and (v["replay"].get("harness") or "").split(":")[0] in (c20b.BULK_HARNESS, c20b.FIN_HARNESS)]
    if mine:
        return 1 if c20b.replay_cases(mine) else 0
    ext = [v for v in obj["violations"] if v.get("replay") and v["replay"].get("harness") == c20x.HARNESS]
    if ext:
        import importlib.util
        sp = importlib.util.spec_from_file_location("check_C20x", os.path.join(vlib.VERIF, "checks", "C20x.py"))
        m = importlib.util.module_from_spec(sp); sp.loader.exec_module(m)
        return m.replay({"violations": ext})
    binary, = vlib.build(["c20_lifetime"], variant="asan")
    cases = [v["replay"]["case"] for v in obj["violations"] if v["replay"] and v["replay"].get("kind") == "case"]
    res = vlib.run_cases(binary, cases, tmo=30, shards=1)
    bad = 0
    for c, r in zip(cases, res):
        print(json.dumps({"ops": [[s["op"], s["args"]] for s in c["steps"]], "result": r})[:1500])
        bad += 0 if r.get("ok") is True else 1
    return 1 if bad else 0
