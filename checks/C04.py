"""C04: vector operations equal their element-wise definitions for every vector kind
(spec/VecOps.tla, harness/c04_vecops.cpp)"""
import os, json
import vlib

LEVEL = "model_checking"
INVS = "Frame ExactDomain AliasLaws HistoryLaw ViewLaw ComposeLaw BlockedIsPlain Emit"


def cfg_text(fam, maxlen, pal):
    return ("SPECIFICATION Spec\nCONSTANTS Family = \"%s\" MaxLen = %d Palette = %d\nINVARIANTS %s\nCHECK_DEADLOCK FALSE\n"
            % (fam, maxlen, pal, INVS))


def configs(tier):
    # (family, MaxLen, palette); family "view" = ranged views into parents of length 1..MaxLen
    # (family, MaxLen, palette): dense lengths 0..9 (0, 1, non-multiples of every stride <= 8), block sizes 1..4
    if tier == "thorough":
        return [("dense", 16, 1), ("dense", 16, 2), ("dense", 12, 3),
                ("blocked", 8, 1), ("blocked", 8, 2), ("blocked", 5, 3),
                ("tuple", 5, 1), ("tuple", 5, 2), ("tuple", 4, 3),
                ("power", 5, 1), ("power", 5, 2), ("power", 4, 3),
                ("sparse", 7, 1), ("sparse", 7, 3), ("sblocked", 5, 1), ("sblocked", 5, 2),
                ("view", 5, 1), ("view", 5, 2), ("view", 4, 3)]
    return [("dense", 9, 1), ("dense", 9, 2), ("dense", 9, 3),
            ("blocked", 4, 1), ("blocked", 4, 2), ("blocked", 3, 3),
            ("tuple", 2, 1), ("tuple", 2, 2), ("tuple", 2, 3),
            ("power", 2, 1), ("power", 2, 2), ("power", 2, 3),
            ("sparse", 4, 1), ("sparse", 4, 3), ("sblocked", 3, 1), ("sblocked", 3, 2),
            ("view", 3, 1), ("view", 3, 2)]


def generate(chk, tier):
    import concurrent.futures as cf
    jobs = []
    for k, (fam, ml, pal) in enumerate(configs(tier)):
        name = "gen_VecOps_%d_%d.cfg" % (os.getpid(), k)
        with open(os.path.join(vlib.SPEC, name), "w") as f:
            f.write(cfg_text(fam, ml, pal))
        jobs.append((name, "%s len<=%d pal%d" % (fam, ml, pal)))
    cases = []
    try:
        with cf.ThreadPoolExecutor(max_workers=min(len(jobs), 6)) as ex:
            futs = [(ex.submit(vlib.tlc, "VecOps", cfg, timeout=1500, xmx="2g"), nm) for cfg, nm in jobs]
            for f, nm in futs:
                r = f.result()
                chk.add_tlc(r, nm)
                if r.violation:
                    chk.model_violation(r, "VecOps.tla invariant (%s)" % nm)
                cases.extend(r.printed)
    finally:
        for cfg, _ in jobs:
            try:
                os.remove(os.path.join(vlib.SPEC, cfg))
            except OSError:
                pass
    return cases


def alias(c):
    x, y = c["x"], c["y"]
    if x == 1 and y == 1:
        return "all"
    if x == 1:
        return "r==x"
    if y == 1:
        return "r==y"
    if x == y and x != 0:
        return "x==y"
    return "none"


def stored(c):
    sh = c["shape"]
    return len(set(sh["ins"]))


def sig(c, r):
    sh = c["shape"]
    s = {"fam": c["fam"], "op": c["op"], "alias": alias(c), "empty": c["flen"] == 0, "outcome": r.get("outcome", "mismatch")}
    if c["fam"] in ("sparse", "sblocked"):
        s["partial"] = stored(c) < sh["n"]          # fewer stored entries than the vector is long
        s["overfull"] = len(sh["ins"]) > sh["n"]    # more insertions than the initial allocation min(size, 1000)
    if c["fam"] == "view":
        s["kind"] = sh["k"]; s["bs"] = sh["bs"]; s["twin"] = c["twin"]; s["sibling"] = sh["sib"] >= 0
    if c["op"] in ("component_copy", "component_copy_to"):
        s["blk_ge_size"] = c["blk"] >= sh["n"]      # component index >= number of blocks
    return s


def key(c):
    return json.dumps([c["fam"], c["pal"], c["shape"], c["op"], c["x"], c["y"], c["an"], c["ad"], c["blk"], c.get("twin")])


def run(chk):
    binary, = vlib.build(["c04_vecops"])
    cases = generate(chk, chk.tier)
    if not cases:
        raise vlib.MachineryError("generator produced no cases")
    res = vlib.run_cases(binary, cases, tmo=20)
    vlib.judge_results(chk, cases, res, sig, keyf=key, harness="c04_vecops", nontrivial=lambda c: c["flen"] > 0)
    chk.traces = len(cases)
    chk.exhaustive = True
    ops = {}
    for c in cases:
        ops[c["op"]] = ops.get(c["op"], 0) + 1
    chk.extra["cases_per_op"] = ops
    chk.extra["cases_with_aliasing"] = sum(1 for c in cases if alias(c) != "none")
    chk.extra["cases_on_empty_vectors"] = sum(1 for c in cases if c["flen"] == 0)
    chk.rule = ("every post-state of spec/VecOps.tla: all shapes of the family (dense lengths 0..L, DenseVectorBlocked<1..4>, "
                "ranged views DenseVector(src,n,off) / DenseVectorBlocked<1..3>(src,n,off) over every window of parents of length 1..L (every operation on the view, on a second view object of the same window, on a disjoint sibling view of the same parent and on the parent itself, clone(Deep) of a view; parents compared outside and inside the window), SparseVector/SparseVectorBlocked given by write histories over every index subset (ascending, descending, and three histories with overwritten entries whose superseded value is +2000 / -2000 / 0, i.e. more extreme than every live entry), the call under test issued as the first access after the writes and again after a full read-back, 10 Tuple/Power compositions "
                "up to depth 2 with component lengths 0..L), every operation, every aliasing pattern the signature admits, "
                "alpha in {0,1,-1,2,-1/2,-5/2}, three value palettes; each case replayed for double/uint64 and float/uint32 "
                "(dense and blocked also double/uint32, float/uint64); non-trivial = non-empty vector; distinct = distinct "
                "(shape, palette, call)")
    for c in cases[len(cases) // 3: len(cases) // 3 + 2] + cases[-2:]:
        chk.sample({k: c[k] for k in ("fam", "shape", "op", "x", "y", "an", "ad", "pre", "post", "wden", "res", "rkind")})
    chk.assumptions = ["inputs are restricted to the exact domain (small integers, powers of two, dyadic alpha; invariant ExactDomain "
                       "of the specification keeps every predicted quantity below 2^24): rounding behaviour on general reals is not explored",
                       "norm2 / norm2sqr are judged by |r^2 - N| <= (4 + 2 leaves) eps N with N the specification's exact sum of squares",
                       "max/min(_abs)_element of a sparse vector with implicit zeros is generated only where 'over the stored entries' and "
                       "'over all positions' agree (the API documentation does not say which is meant)",
                       "sparse write histories contain at most three writes of one index and overwrite one index per history",
                       "only the generic (CPU) kernels of kernel/lafem/arch are built (no MKL/CUDA)"]


def replay(obj):
    binary, = vlib.build(["c04_vecops"])
    cases = [v["replay"]["case"] for v in obj["violations"] if v["replay"] and v["replay"].get("kind") == "case"]
    res = vlib.run_cases(binary, cases, tmo=20, shards=1)
    bad = 0
    for c, r in zip(cases, res):
        print(json.dumps({"case": sig(c, r), "result": r})[:1000])
        if r.get("ok") is not True:
            bad += 1
    return 1 if bad else 0
