"""C08x: extension of C08 to the saddle-point and domain-decomposition preconditioners among its anchor files
(kernel/solver/uzawa_precond.hpp, vanka.hpp, amavanka.hpp + amavanka_base.hpp, schwarz_precond.hpp and the
Math::invert_matrix they use).  Stand-alone entry point `bin/check C08x`; the logic lives in lib/c08x.py (run_ext(chk)) so that
the registered check of C08 can call it.  See lib/c08x.py for the parts.
"""
import c08x

LEVEL = "model_checking"


def run(chk):
    c08x.run_ext(chk)


def replay(obj):
    return c08x.replay(obj)
