"""C18: prolongation is exact on the coarse space; restriction is its transpose.

spec/RefElement.tla (exact reference bases, node functionals), spec/DofMap.tla (global numbering contract),
spec/Transfer.tla (P[i',j] = fine node functional applied to the coarse basis function, evaluated exactly from the
refinement topology), spec/TransferCheck.tla (TLC judges what the real code produced), spec/MeshGen.tla (TLC generates
every gluing of two reference cells / every rotation of one cell), harness/c18_transfer.cpp (+ _s / _h wrappers).
Histories within one process: spec/TransferHist.tla (TLC enumerates sequences of 1-3 assemblies / refined-rule requests with different
cubature rules of equal size, different elements and shapes), spec/TransferHistCheck.tla + the laws at the end of spec/Transfer.tla
(OrderIndependent, RefinedRulePoints/Weights), lib/c18hist.py.
"""
import glob, json, os, shutil
import concurrent.futures as cf
import vlib, vmeshlib, vfemlib, c18hist

LEVEL = "model_checking"
SHAPES = [("simplex", 2), ("simplex", 3), ("hypercube", 2), ("hypercube", 3)]
BOUND_PROJ = ("lagrange3", "bernstein2")
PERMS = ["none", "random", "lexicographic", "colored", "cmk", "cmk_rev", "gcmk", "gcmk_rev"]
MESHDIR = os.path.join(vlib.REPO, "data", "meshes")
# small shipped meshes (thorough tier): unstructured, non-affine cells
FILES = [("unit-circle-tria.xml", "simplex", 2), ("unit_circle_quad_5.xml", "hypercube", 2), ("unit-square-quad-aniso.xml", "hypercube", 2),
         ("unit_circle_tria_6.xml", "simplex", 2), ("square_circle_hole_quad_9.xml", "hypercube", 2), ("unit-sphere-tetra.xml", "simplex", 3),
         ("cube_cylinder_hole_hexa_8.xml", "hypercube", 3), ("unit-sphere-hexa.xml", "hypercube", 3)]


def binary_for(fam, bins):
    return bins[0] if fam == "simplex" else bins[1]


def element_table(chk):
    r = vlib.tlc("RefElementSanity", timeout=600)
    chk.add_tlc(r, "RefElementSanity")
    if r.violation:
        chk.model_violation(r, "RefElementSanity (exact element tables: duality / partition of unity / layout)")
        return None
    return r.printed


def gen_meshes(chk, tier):
    """TLC generates the small meshes (spec/MeshGen.tla)"""
    jobs = []
    for k, (fam, dim) in enumerate(SHAPES):
        modes = ["pair", "single"] + (["chain"] if (dim == 2 and tier == "thorough") else [])
        for mode in modes:
            cfg = "gen_c18_%d_%d_%s.cfg" % (os.getpid(), k, mode)
            with open(os.path.join(vlib.SPEC, cfg), "w") as f:
                f.write("SPECIFICATION Spec\nCONSTANTS Fam = \"%s\" Dim = %d Mode = \"%s\" PartLevel = 0\n"
                        "INVARIANTS AllPositive Conforming GluedOnFacet Emit\nCHECK_DEADLOCK FALSE\n" % (fam, dim, mode))
            jobs.append((cfg, fam, dim, mode))
    meshes = []
    try:
        with cf.ThreadPoolExecutor(max_workers=6) as ex:
            futs = [(ex.submit(vlib.tlc, "MeshGen", j[0], timeout=900, xmx="2g"), j) for j in jobs]
            for fu, (cfg, fam, dim, mode) in futs:
                rr = fu.result()
                chk.add_tlc(rr, "MeshGen %s%d %s" % (fam, dim, mode))
                if rr.violation:
                    chk.model_violation(rr, "MeshGen invariant (%s %d %s)" % (fam, dim, mode))
                    continue
                for i, c in enumerate(rr.printed):
                    meshes.append({"fam": fam, "dim": dim, "mode": mode, "k": i, "src": {"raw": c["src"]["raw"]}, "srcname": "gen:" + mode})
    finally:
        for j in jobs:
            try:
                os.remove(os.path.join(vlib.SPEC, j[0]))
            except OSError:
                pass
    return meshes


def cub_for(el, fam, dim, variant):
    """a rule of sufficient degree: the truncation needs the coarse-cell rule and the composite child rule to integrate phi_i phi_j |det J| equally,
    i.e. exactly: degree 2q on affine simplices, 2q + (dim - 1) per variable on multilinear hypercubes; variant 0 adds one degree"""
    q = {"lagrange1": 1, "lagrange2": 2, "discontinuous0": 0, "discontinuous1": 1, "crorav": 1, "lagrange3": 3, "bernstein2": 2}[el]
    deg = max(1, 2 * q + ((dim - 1) if fam == "hypercube" else 0))
    return "auto-degree:%d" % (deg + (1 if variant == 0 else 0))


# rules for the inter-mesh transfer fine -> coarse: most of them have points on the interfaces of the child cells (odd Gauss-Legendre, closed rules)
XRULES = {
    ("hypercube", "lagrange1"): ["gauss-legendre:3", "trapezoidal", "gauss-lobatto:3", "gauss-legendre:2"],
    ("hypercube", "lagrange2"): ["gauss-legendre:3", "newton-cotes-closed:3", "gauss-legendre:5", "gauss-lobatto:3"],
    ("hypercube", "discontinuous0"): ["gauss-legendre:1", "trapezoidal", "barycentre"],
    ("hypercube", "lagrange3"): ["gauss-legendre:5", "gauss-lobatto:5"],
    ("hypercube", "bernstein2"): ["gauss-legendre:3", "gauss-lobatto:3"],
    ("simplex", "lagrange1"): ["trapezoidal", "lauffer-degree-2", "hammer-stroud-degree-2"],
    ("simplex", "lagrange2"): ["lauffer-degree-2", "lauffer-degree-4"],     # 3D; triangles: see xcub_for
    ("simplex", "discontinuous0"): ["barycentre", "trapezoidal"],
    ("simplex", "discontinuous1"): ["trapezoidal", "lauffer-degree-2"],
    ("simplex", "crorav"): ["hammer-stroud-degree-2", "lauffer-degree-2"],
    ("simplex", "lagrange3"): ["auto-degree:6"],
}


def xcub_for(el, fam, dim, k):
    if fam == "simplex" and dim == 2 and el == "lagrange2":
        return "dunavant:4"           # the closed Lauffer rule of degree 2 has too few points for a P2 mass matrix on triangles
    rules = XRULES[(fam, el)]
    return rules[k % len(rules)]


def make_cases(tier, table, meshes):
    els = {}
    for t in table:
        # families with exact tables (integer projection) and the remaining nested families (Lagrange-3, Bernstein-2: projection mode, ps = 0)
        if t["dim"] >= 2 and ((t["nodal"] and t["pscale"] > 0) or (t["nested"] and t["el"] in BOUND_PROJ)):
            els.setdefault((t["fam"], t["dim"]), []).append(t)
    cases = []
    n = 0

    def add(m, t, perm, cubv=0):
        nonlocal n
        c = {"id": "c%d" % n, "fam": m["fam"], "dim": m["dim"], "el": t["el"], "src": m["src"], "srcname": m["srcname"], "perm": perm,
             "ps": t["pscale"] if t["nodal"] else 0, "nested": bool(t["nested"]), "xnested": 1 if t["nested"] else 0, "xcub": xcub_for(t["el"], m["fam"], m["dim"], n), "seed": vlib.seed() * 7919 + n, "cub": cub_for(t["el"], m["fam"], m["dim"], cubv), "maxcells": m.get("maxcells", 600),
             "mk": m.get("k", 0)}
        # (deduct_topology_from_top on tetrahedra is excluded: known finding C10-tria-facet-flip-edges makes those meshes inconsistent)
        tet = m["fam"] == "simplex" and m["dim"] == 3
        if m["srcname"].startswith("gen:"):
            # route "deduct" = ConformalMesh::deduct_topology_from_top, "factory" = RedundantIndexSetBuilder (mesh file reader)
            c["src"] = {"raw": dict(m["src"]["raw"], route="deduct" if (n % 2 == 0 and not tet) else "factory")}
        cases.append(c)
        n += 1

    for m in meshes:
        fam, dim, mode, k = m["fam"], m["dim"], m["mode"], m["k"]
        for ti, t in enumerate(els.get((fam, dim), [])):
            heavy = t["nloc"] >= 10        # Lagrange-2/3, Bernstein-2 in 3D (and Lagrange-3 on triangles)
            if tier == "quick" and dim == 3:
                # 3D gluings / rotations are sub-sampled in the quick tier (all of them in the thorough tier)
                stride = {"pair": (24 if fam == "hypercube" else 8) if heavy else (12 if fam == "hypercube" else 6), "single": 6 if heavy else 3}[mode]
                if (k + ti) % stride != 0:
                    continue
            if mode == "chain" and (k + ti) % 2 != 0:
                continue          # three-cell chains (thorough tier only): every second one per family
            perm = PERMS[(k + 3 * ti) % len(PERMS)]
            add(m, t, perm, cubv=(k // 3) % 2 if tier == "thorough" else 0)
            if tier == "thorough" and heavy and dim == 3 and k % 2 == 1:
                cases[-1]["xcub"] = ""        # inter-mesh part on every second heavy 3D case only (cost)
    # structured meshes: the permutation strategies for every family
    for fam, dim in SHAPES:
        lvl = 0 if (fam == "simplex" and dim == 3) else 1       # 24 tetrahedra / 8 hexahedra / 4 quadrilaterals / 16 triangles
        facs = [("unitcube%d" % lvl, {"fac": "unitcube", "level": lvl})]
        if tier == "thorough":
            facs.append(("struct", {"fac": "struct", "nx": 4, "ny": 2, "nz": 2}))
        if dim == 2:
            facs.append(("star", {"fac": "star"}))
        for fi, (nm, src) in enumerate(facs):
            for ti, t in enumerate(els.get((fam, dim), [])):
                heavy = t["nloc"] >= 10
                if tier == "thorough":
                    perms = PERMS
                elif dim == 2 and fi == 0:
                    perms = PERMS
                elif dim == 2:
                    perms = [PERMS[(2 * ti) % 8], PERMS[(2 * ti + 5) % 8]]
                elif heavy:
                    perms = [PERMS[1 + (ti + (0 if fam == "simplex" else 3)) % 7]]
                else:
                    perms = ["none", "random", "colored", "gcmk_rev"]
                for pi, perm in enumerate(perms):
                    add({"fam": fam, "dim": dim, "src": src, "srcname": "factory:" + nm, "k": pi}, t, perm, cubv=pi % 2 if tier == "thorough" else 0)
    # uniformly scaled copies (coordinates * 2^-27 and * 2^20, exact): the transfer operators are scale invariant, so the SAME predicates must
    # hold; the inter-mesh part is switched off there (Trafo::InverseMapping works with an absolute Newton tolerance)
    base = list(cases)
    for i, c0 in enumerate(base):
        stride = 6 if tier == "quick" else 3
        if i % stride != 0 or c0["srcname"].startswith("file:"):
            continue
        c = dict(c0)
        c["id"] = "c%d" % n
        c["scale"] = -27 if (i // stride) % 2 == 0 else 20
        c["xcub"] = ""
        c["srcname"] = c0["srcname"] + "*2^%d" % c["scale"]
        cases.append(c)
        n += 1
    if tier == "thorough":
        for fn, fam, dim in FILES:
            p = os.path.join(MESHDIR, fn)
            if not os.path.exists(p):
                continue
            for ti, t in enumerate(els.get((fam, dim), [])):
                if t["nloc"] >= 10 and dim == 3:
                    continue
                for pi, perm in enumerate(["none", PERMS[1 + (ti % 7)]]):
                    add({"fam": fam, "dim": dim, "src": {"file": p}, "srcname": "file:" + fn, "k": pi, "maxcells": 130}, t, perm)
    return cases


def sig(c, pred):
    return {"kind": "transfer", "fam": c["fam"], "dim": c["dim"], "el": c["el"], "perm": c["perm"], "src": c["srcname"], "pred": pred}


def run(chk):
    tier = chk.tier
    bins = vlib.build(["c18_transfer_s", "c18_transfer_h", "c18_invert"])
    gdir = os.path.join(vlib.BUILD, "gen", "C18", "run_%d" % os.getpid())
    os.makedirs(gdir, exist_ok=True)
    try:
        _run(chk, tier, bins, gdir)
    finally:
        shutil.rmtree(gdir, ignore_errors=True)
        for p in glob.glob(os.path.join(vlib.SPEC, "gen_c18_%d_*.cfg" % os.getpid())):
            os.remove(p)


def invert_part(chk, binary):
    """G: spec/InvertMatrix.tla -> Math::invert_matrix (the dense inversion of the local mass matrices), exact inverse and scale freedom"""
    n = 0
    for order in (2, 3):
        r = vlib.tlc("InvertMatrix", "InvertMatrix_%d.cfg" % order, timeout=600)
        chk.add_tlc(r, "InvertMatrix N=%d" % order)
        if r.violation:
            chk.model_violation(r, "InvertMatrix (the specified inverse is not an inverse)")
            continue
        res = vlib.run_cases(binary, r.printed, tmo=20, shards=2)
        vlib.judge_results(chk, r.printed, res, lambda c, rr: {"kind": "invert", "n": c["n"], "pred": rr.get("pred", rr.get("outcome", "mismatch")), "type": rr.get("type", ""),
                                                               "scale": rr.get("scale", 0)},
                           keyf=lambda c: "invert " + json.dumps(c["a"]), harness="c18_invert")
        n += len(r.printed)
    chk.extra["invert_matrix_cases"] = n


def _run(chk, tier, bins, gdir):
    invert_part(chk, bins[2])
    table = element_table(chk)
    if table is None:
        return
    with cf.ThreadPoolExecutor(max_workers=2) as ex0:
        fut_h = ex0.submit(c18hist.generate, chk, tier)
        meshes = gen_meshes(chk, tier)
        hists = fut_h.result()
    cases = make_cases(tier, table, meshes)
    for c in cases:
        c["out"] = os.path.join(gdir, c["id"] + ".json")
    good = []
    # histories within one process: every history in its own harness process; the distinct observations of the transfer steps join the
    # cases judged by TransferCheck below
    worst = {"dev_p": 0.0, "dev_tp": 0.0, "dev_v": 0.0, "dev_fn": 0.0, "vdev": 0.0, "rdev": 0.0, "xc_dev": 0.0, "xf_dev": 0.0, "dev_xs": 0.0, "ctl_dev": 0.0}
    hist_info = None
    hist_pool = cf.ThreadPoolExecutor(max_workers=1)
    fut_runs = hist_pool.submit(c18hist.execute, hists, bins, gdir, table, meshes, 8) if hists else None     # runs beside the cases below
    for fam in ("simplex", "hypercube"):
        cs = [c for c in cases if c["fam"] == fam]
        # the runner cuts the list into contiguous shards: interleave, so that the expensive cases (3D factories, files) are spread over all of them
        cs = [c for r in range(8) for c in cs[r::8]]
        res = vlib.run_cases(binary_for(fam, bins), cs, tmo=300, shards=8)
        for c, r in zip(cs, res):
            if r.get("ok") is True and r.get("skip"):
                chk.extra.setdefault("skipped", []).append("%s %s: %s" % (c["id"], c["srcname"], r.get("why")))
                continue
            if r.get("ok") is True:
                good.append(c)
                keys = (("dev_p", "dev_v") if c["ps"] > 0 else ("vdev", "rdev")) + (("dev_tp", "dev_fn", "xc_dev", "xf_dev") if c["nested"] else ()) + ("dev_xs", "ctl_dev")
                for k in keys:
                    worst[k] = max(worst[k], r.get(k, 0.0))
                continue
            desc = r.get("why") or ("outcome %s: %s" % (r.get("outcome"), (r.get("stderr") or "")[-600:]))
            slim = {k: c[k] for k in c if k != "out"}
            chk.violation(sig(c, "harness:" + str(r.get("outcome", "bad"))), "%s (%s %s %s perm=%s): %s" % (c["id"], c["srcname"], c["fam"], c["el"], c["perm"], desc),
                          {"kind": "case", "harness": "c18_transfer", "case": slim, "result": r})
    if fut_runs is not None:
        runs = fut_runs.result()
        hist_pool.shutdown()
        reps, hist_info = c18hist.judge(chk, runs, tier)
        for s, c, r in reps:
            good.append(c)
            for k in (("dev_p", "dev_v") if c["ps"] > 0 else ("vdev", "rdev")) + (("dev_tp", "dev_fn") if c["nested"] else ()) + ("ctl_dev",):
                worst[k] = max(worst[k], r.get(k, 0.0))
    with cf.ProcessPoolExecutor(max_workers=6) as ex:
        full = list(ex.map(vfemlib.finish_transfer_case, [c["out"] for c in good], chunksize=8))
    byid = {c["id"]: c for c in good}
    verdicts = vmeshlib.run_tlc_batches(chk, "TransferCheck", "C18_BATCH", full, "c18", max_procs=8,
                                        target_weight=180000 if tier == "quick" else 500000, weight=vfemlib.transfer_weight, timeout=2400)
    nfails = 0
    for d in full:
        c = byid[d["id"]]
        v = verdicts.get(d["id"])
        if v is None:
            raise vlib.MachineryError("no verdict for " + d["id"])
        chk.count("%s|%s|%s|%s|%s" % (c["fam"], c["dim"], c["el"], c["perm"], json.dumps(c["src"], sort_keys=True)), v["info"]["nnz"] > 0)
        for p in v["fails"]:
            if p.startswith("MACHINERY"):
                raise vlib.MachineryError("%s: %s" % (d["id"], p))
        slim = {k: c[k] for k in c if k != "out"}
        for p in v["fails"]:
            nfails += 1
            chk.violation(sig(c, p), "%s (%s %s%d %s perm=%s cub=%s): %s does not hold" % (d["id"], c["srcname"], c["fam"], c["dim"], c["el"], c["perm"], c["cub"], p),
                          {"kind": "case", "harness": "c18_transfer", "case": slim, "verdict": v})
    chk.traces = len(full)
    chk.exhaustive = True
    chk.extra["generated_meshes"] = len(meshes)
    chk.extra["process_histories"] = hist_info
    chk.extra["cases_by_family"] = {}
    for c in good:
        k = "%s/%s%d" % (c["el"], c["fam"], c["dim"])
        chk.extra["cases_by_family"][k] = chk.extra["cases_by_family"].get(k, 0) + 1
    chk.extra["cases_by_permutation"] = {p: sum(1 for c in good if c["perm"] == p) for p in PERMS}
    chk.extra["projection_tolerance"] = 1e-11
    chk.extra["max_projection_deviation"] = worst
    chk.extra["largest_fine_dofs"] = max([d["ngf"] for d in full] or [0])
    chk.rule = ("TLC enumerates (spec/MeshGen.tla) every gluing of two reference cells (all facets x all admissible vertex bijections) and every "
                "rotation of one cell; plus structured factories (and shipped unstructured meshes in the thorough tier); each mesh is refined once by the real "
                "code, permuted by one of the 8 strategies, and the transfer operators of every element family with an exact basis in spec/RefElement.tla are "
                "assembled by the real code; TLC recomputes P from the refinement topology and judges ProlExact, ProlWellDefined, RestIsTranspose(+bitwise), "
                "TruncLeftInverse, VectorProlAgrees, TransferProl/RestAgrees, DofMap, and ProlExactFunction (function-level projection, all nested families); a case = (mesh, route, family, strategy, cubature); non-trivial = "
                "P has non-zero entries; quick tier: 3D gluings are sub-sampled (stride 2-8), thorough: all.  HISTORIES (spec/TransferHist.tla): TLC enumerates "
                "sequences of 1-3 steps in ONE process - a step = assembly of P, T and prolongate_vector (3 orders) for (element, cubature rule) or a direct "
                "request of a refined rule; rules = every driver rule of the C14 name language up to 16-64 points, plain and refined; every ordered pair "
                "of steps that request refinements of DIFFERENT rules with the SAME number of points, same rule / other element, neighbouring and sampled "
                "other counts, the two dimensions of a family, a-bridge-c and pairwise colliding triples; each step must equal its fresh-process "
                "observation bit by bit (OrderIndependent), each distinct observation is judged like a case (transfer) or by RefinedRulePoints/Weights")
    for d in full[:: max(1, len(full) // 3)][:3]:
        c = byid[d["id"]]
        chk.sample({"id": d["id"], "mesh": c["srcname"], "fam": c["fam"], "dim": c["dim"], "el": c["el"], "perm": c["perm"], "verdict": verdicts[d["id"]],
                    "P_row0": (d["P"][0] if d["P"] else None), "ps": d["ps"], "fn": d["fn"]})
    chk.assumptions = ["the origin certificate (which coarse entity a fine entity descends from) is computed by the glue code but every entry is checked by "
                       "the specification on integer coordinates (MeshTopo!VertexOrigin, IsParent)",
                       "entries of the assembled matrices are projected to integers at the scale given by the specification if within 1e-11 of a multiple of "
                       "1/scale (measured deviation <= 1e-13); anything else fails ProlExact",
                       "exact families (P recomputed by TLC): Lagrange-1/2, Discontinuous-0, Discontinuous-1 and Crouzeix-Raviart on simplices (averaged nodal "
                       "definition); Lagrange-3 and Bernstein-2 through the function-level projection only (u_h(P x) = u_H(x) at lattice points, tolerance "
                       "1e-9 (1 + magnitude), parent cell and coarse reference point from the harness' own inverse mapping); Global/muxed transfer objects and "
                       "the non-nested families (Rannacher-Turek, Q1~, P2-bubble, Hermite, Argyris, BFS, CDSSY) are not covered",
                       "shipped mesh files are snapped to a dyadic grid before refinement (a still valid mesh)",
                       "histories: one harness binary per shape family, so simplex and hypercube assemblies are not mixed in one process; rules with more "
                       "than 25 (quads) / 64 (hexahedra) / 16 (triangles) / 48 (tetrahedra) points and auto-degree aliases are "
                       "not part of the enumerated histories; refined-rule points are compared at 2^-20 with the rounding tolerance stated in Transfer.tla"]


def replay(obj):
    bins = vlib.build(["c18_transfer_s", "c18_transfer_h", "c18_invert"])
    bad = 0
    for v in obj["violations"]:
        print(json.dumps(v["sig"]), v["desc"][:300])
        bad += 1
    return 1 if bad else 0
