"""C11: mesh/config files round-trip; malformed input is rejected without crashing.

spec/MeshFile.tla     abstract mesh document, writer grammar Lines(Doc), parser verdict of structured mutations
spec/MeshFileIni.tla  PropertyMap (INI) tree, dump grammar, verdict of line mutations
spec/MeshFileBin.tla  Adjacency::Graph serialisation layout, truncated buffers
harness/c11_meshfile.cpp (std + asan builds), lib/c11_meshtok.py (independent tokenizer for direction V)

G  TLC generates documents / trees / graphs and every single structured mutation with its verdict; the harness
   replays them into MeshFileReader / MeshFileWriter / PropertyMap / Graph (mutations under ASan+UBSan).  The documents hold every
   chart kind the reader dispatches to (Circle, Bezier, Sphere, SurfaceMesh, Extrude of Circle / Bezier); the mutations include the
   count violations of every counted block (one line more / less, declared count +-1, whole block missing / twice).
V  every shipped mesh file is parsed, written, re-parsed, re-written (second write == first write, structure
   equal) and the written text is compared with the original by an independent tokenizer; structured
   count/dim/index mutations of the shipped files must be rejected; seeded byte-level mutations are judged by Total.
"""
import os, json, glob, random, re, sys, shutil
import concurrent.futures as cf
import vlib
import c11_meshtok as mt

LEVEL = "model_checking"
GEN = os.path.join(vlib.BUILD, "gen", "C11")
MESHDIR = os.path.join(vlib.REPO, "data", "meshes")
SHAPES = [("hypercube", 2), ("simplex", 2), ("hypercube", 3), ("simplex", 3)]
REJECT = ("syntax", "grammar", "content")
ASAN_ENV = {"ASAN_OPTIONS": "detect_leaks=0:abort_on_error=0:exitcode=1:max_allocation_size_mb=1024:allocator_may_return_null=0"}


# ------------------------------------------------------------------------------------------------------------------
# TLC generation
# ------------------------------------------------------------------------------------------------------------------
def tla_set(xs):
    return "{" + ", ".join(xs) + "}"


def part_sets(which):
    tags = "ABCDE"
    if which == "all":      # every subset with at most two parts
        ss = [()] + [(a,) for a in tags] + [(a, b) for i, a in enumerate(tags) for b in tags[i + 1:]]
    elif which == "rich":   # the documents whose mutations are enumerated in the quick tier
        ss = [("A", "D"), ("B", "C"), ("E",)]
    else:
        ss = which
    return tla_set(tla_set('"%s"' % t for t in s) for s in ss)


def mesh_cfg(fam, dim, cells, psets, ptn, indents, muts, kinds=(0,)):
    return ("SPECIFICATION Spec\nCONSTANTS Fam = \"%s\" Dim = %d CellCounts = %s PartSets = %s PtnCfgs = %s Indents = %s ChartKinds = %s Muts = %s\n"
            "INVARIANTS DocValid GrammarSane MutSane Emit\nCHECK_DEADLOCK FALSE\n"
            % (fam, dim, tla_set(map(str, cells)), psets, tla_set(map(str, ptn)),
               tla_set("TRUE" if b else "FALSE" for b in indents), tla_set(map(str, kinds)), "TRUE" if muts else "FALSE"))


def chart_kinds(dim):
    """chart kinds of spec/MeshFile.tla beyond the default 0 (Circle / Sphere): 2D Bezier open/closed; 3D Extrude of a
    Circle / Bezier with generic angles, both gimbal-lock pitches, explicit zero vectors, identity rotation (1..5) and
    SurfaceMesh triangulations (6: closed tetrahedron surface, 7: open strip with an unused vertex) -- with these every
    chart parser the reader can dispatch to (Circle, Bezier | Sphere, SurfaceMesh, Extrude) occurs in the documents"""
    return (1, 2) if dim == 2 else (1, 2, 3, 4, 5, 6, 7)


def tlc_jobs(tier):
    """(module, name, cfg text)"""
    jobs = []
    for fam, dim in SHAPES:
        tag = "%s%d" % (fam, dim)
        ck = chart_kinds(dim)
        if tier == "thorough":
            jobs.append(("MeshFile", tag + " chart docs", mesh_cfg(fam, dim, [1, 2], part_sets([("A",), ("B",), ("E",), ("B", "D")]), [0, 1], [True, False], False, ck)))
            jobs.append(("MeshFile", tag + " chart muts", mesh_cfg(fam, dim, [1], part_sets([("A",), ("B",), ("E",)]), [0], [True, False], True, ck)))
        else:
            jobs.append(("MeshFile", tag + " chart docs", mesh_cfg(fam, dim, [1], part_sets([("B",), ("E",)]), [0], [True, False], False, ck)))
            jobs.append(("MeshFile", tag + " chart muts", mesh_cfg(fam, dim, [1], part_sets([("A",)]), [0], [True], True, ck)))
        if tier == "thorough":
            # every document; every mutation of every part set (2 cells: two partitions, indented; 1 cell: one partition, flat)
            jobs.append(("MeshFile", tag + " docs", mesh_cfg(fam, dim, [1, 2], part_sets("all"), [0, 1, 2], [True, False], False)))
            jobs.append(("MeshFile", tag + " muts n=2", mesh_cfg(fam, dim, [2], part_sets("all"), [2], [True], True)))
            jobs.append(("MeshFile", tag + " muts n=1", mesh_cfg(fam, dim, [1], part_sets("all"), [1], [False], True)))
        else:
            jobs.append(("MeshFile", tag + " docs", mesh_cfg(fam, dim, [1, 2], part_sets("all"), [0, 1, 2], [True, False], False)))
            if dim == 2:
                jobs.append(("MeshFile", tag + " muts n=2", mesh_cfg(fam, dim, [2], part_sets("rich"), [2], [True], True)))
                jobs.append(("MeshFile", tag + " muts n=1", mesh_cfg(fam, dim, [1], part_sets([("B", "D")]), [1], [False], True)))
            else:
                jobs.append(("MeshFile", tag + " muts n=1", mesh_cfg(fam, dim, [1], part_sets("rich"), [2], [True], True)))
    ini = "SPECIFICATION Spec\nCONSTANTS Variants = %s KeySets = %s SecShapes = %s Muts = TRUE\nINVARIANTS Sane Emit\nCHECK_DEADLOCK FALSE\n"
    if tier == "thorough":
        for v in range(3):
            jobs.append(("MeshFileIni", "all trees var=%d" % v, ini % ("{%d}" % v, "{{}, {1}, {2}, {3}, {1, 2}, {1, 3}, {2, 3}, {1, 2, 3}}", "{0, 1, 2, 3, 4}")))
    else:
        jobs.append(("MeshFileIni", "quick", ini % ("{0}", "{{}, {1, 3}, {1, 2, 3}}", "{0, 3, 4}")))
        jobs.append(("MeshFileIni", "quick2", ini % ("{1}", "{{2}}", "{1, 2}")))
    bn = "SPECIFICATION Spec\nCONSTANTS MaxD = %d MaxI = %d MaxDeg = %d\nINVARIANTS CsrValid Emit\nCHECK_DEADLOCK FALSE\n"
    jobs.append(("MeshFileBin", "graphs", bn % ((3, 3, 2) if tier == "thorough" else (2, 3, 2))))
    return jobs


def run_tlc_jobs(chk, jobs, workers=None):
    os.makedirs(GEN, exist_ok=True)
    names = []
    for k, (module, name, text) in enumerate(jobs):
        cfg = "gen_%s_%d_%d.cfg" % (module, os.getpid(), k)
        with open(os.path.join(vlib.SPEC, cfg), "w") as f:
            f.write(text)
        names.append(cfg)
    out = []
    try:
        with cf.ThreadPoolExecutor(max_workers=workers or 5) as ex:
            futs = [ex.submit(vlib.tlc, module, cfg, timeout=3000, xmx="3g") for (module, _, _), cfg in zip(jobs, names)]
            for (module, name, _), f in zip(jobs, futs):
                r = f.result()
                chk.add_tlc(r, "%s %s" % (module, name))
                if r.violation:
                    chk.model_violation(r, "%s invariant (%s)" % (module, name))
                out.append((module, r.printed))
    finally:
        for cfg in names:
            try:
                os.remove(os.path.join(vlib.SPEC, cfg))
            except OSError:
                pass
    return out


# ------------------------------------------------------------------------------------------------------------------
# shipped files
# ------------------------------------------------------------------------------------------------------------------
CHART_FOR = [("screws_2d_mesh", "smaller", "screws_2d_chart_bezier_24_28_smaller.xml"),
             ("screws_2d_mesh", "", "screws_2d_chart_bezier_24_28.xml"),
             ("screws_3d_mesh", "", "screws_3d_chart_surfacemesh_7200_7200.xml")]
# mesh parts of this file refer to a chart that is not shipped (external surface): cannot be linked, used for fuzzing only
UNLINKABLE = {"scalexa_gendie_simple.xml"}


def file_info(path):
    txt = open(path, errors="replace").read()
    m = re.search(r'<Mesh\s+type="conformal:(\w+):(\d):(\d)"', txt) or re.search(r'mesh="conformal:(\w+):(\d):(\d)"', txt)
    if m:
        fam, dim = m.group(1), int(m.group(2))
    else:
        fam, dim = ("hypercube", 3) if re.search(r"<(Sphere|SurfaceMesh|Extrude)", txt) else ("hypercube", 2)
    return {"path": path, "name": os.path.basename(path), "fam": fam, "dim": dim, "bytes": len(txt),
            "surfacemesh": "<SurfaceMesh" in txt, "has_mesh": "<Mesh " in txt}


def shipped(tier):
    fs = [file_info(p) for p in sorted(glob.glob(os.path.join(MESHDIR, "*.xml")))]
    if not fs:
        raise vlib.MachineryError("no mesh files under " + MESHDIR)
    lim = 4000000 if tier == "thorough" else 130000    # quick: 2D all, 3D up to ~400 cells
    return [f for f in fs if f["bytes"] <= lim]


def file_cases(files):
    cases = []
    byname = {f["name"]: f for f in files}
    for f in files:
        if f["name"] in UNLINKABLE:
            continue
        c = {"t": "file", "name": f["name"], "fam": f["fam"], "dim": f["dim"], "surfacemesh": f["surfacemesh"],
             "outpath": os.path.join(GEN, "out_%d_%s" % (os.getpid(), f["name"]))}
        partner = None
        for pre, must, chart in CHART_FOR:
            if f["name"].startswith(pre) and must in f["name"]:
                partner = chart
                break
        if partner:
            pp = os.path.join(MESHDIR, partner)
            if not os.path.exists(pp) or (partner not in byname and os.path.getsize(pp) > 2000000 and False):
                continue
            c["paths"] = [pp, f["path"]]
            c["surfacemesh"] = c["surfacemesh"] or "surfacemesh" in partner
        else:
            c["path"] = f["path"]
        cases.append(c)
    return cases


def tok_compare(chk, c):
    """direction V, independent of FEAT: the text FEAT wrote denotes the same document as the shipped file(s)"""
    paths = c.get("paths") or [c["path"]]
    try:
        orig = mt.canon([mt.tokenize(open(p, errors="replace").read()) for p in paths])
    except Exception as e:
        raise vlib.MachineryError("tokenizer cannot read shipped file %s: %r" % (paths, e))
    try:
        out = mt.canon([mt.tokenize(open(c["outpath"], errors="replace").read())], check_counts=True)
        d = mt.compare(orig, out) or (("chart " + mt.chart_diff(orig, out)) if mt.chart_diff(orig, out) else None)
    except Exception as e:
        d = "written text violates the format: %r" % (e,)
    if d:
        chk.violation({"t": "file", "file": c["name"], "got": "tokenizer_diff"}, "written text of %s differs from the shipped file: %s" % (c["name"], d),
                      {"kind": "tok", "case": c})
    return d is None


def smut_cases(files, per_file, rng):
    cases = []
    for f in files:
        try:
            sites = mt.mutation_sites(open(f["path"], errors="replace").read())
        except Exception as e:
            raise vlib.MachineryError("tokenizer cannot read %s: %r" % (f["path"], e))
        # one of every kind first, then a seeded sample
        bykind = {}
        for s in sites:
            bykind.setdefault(s[0], []).append(s)
        pick = [rng.choice(v) for k, v in sorted(bykind.items())]
        rest = [s for s in sites if s not in pick]
        rng.shuffle(rest)
        for kind, op, ln, text in (pick + rest)[:max(per_file, len(pick))]:
            cases.append({"t": "smut", "path": f["path"], "name": f["name"], "fam": f["fam"], "dim": f["dim"], "kind": kind, "op": op, "at": ln, "text": text})
    return cases


def fuzz_cases(files, docs, total, rng):
    bases = [f for f in files if f["bytes"] <= 40000]
    os.makedirs(GEN, exist_ok=True)
    # a few generated documents as well (parent topology, both indentation modes)
    for k, d in enumerate(docs):
        p = os.path.join(GEN, "fuzzbase_%d_%d.xml" % (os.getpid(), k))
        with open(p, "w") as f:
            f.write("\n".join(d["in"]) + "\n")
        bases.append({"path": p, "name": "gen:" + d["id"], "fam": d["fam"], "dim": d["dim"], "bytes": 0})
    cases = []
    per = max(1, total // len(bases))
    for b in bases:
        same = [x for x in bases if (x["fam"], x["dim"]) == (b["fam"], b["dim"]) and x is not b] or [b]
        for k in range(per):
            cases.append({"t": "fuzz", "path": b["path"], "name": b["name"], "path2": rng.choice(same)["path"], "fam": b["fam"], "dim": b["dim"],
                          "seed": rng.randrange(1 << 40)})
    return cases


# ------------------------------------------------------------------------------------------------------------------
# judgement
# ------------------------------------------------------------------------------------------------------------------
def classify(r):
    """outcome class of an abnormal end: assert (reported by FEAT), resource (allocation refused), or the raw outcome"""
    oc = r.get("outcome")
    err = r.get("stderr") or ""
    # XASSERT prints ">>> FATAL ERROR: ASSERTION FAILED: ...", XABORTM ">>> FATAL ERROR: <message>" (kernel/util/assertion.hpp):
    # both are FEAT's way of reporting with a message before terminating (DESIGN 3.3 abort(message))
    if oc == "abort" and ">>> FATAL ERROR:" in err:
        return "assert"
    if oc == "exit99" and re.search(r"==\d+== (Invalid (write|read|free)|Mismatched free|Process terminating|Jump to the invalid)", err):
        return "memcheck"
    if oc == "sanitizer" and ("exceeds maximum supported size" in err or "allocation-size-too-big" in err or "out of memory" in err
                              or "out-of-memory" in err):
        return "resource"
    return oc


def san_kind(r):
    """(error type, first FEAT function on the stack) of a sanitizer report"""
    err = r.get("stderr") or ""
    m = re.search(r"AddressSanitizer: ([\w-]+)", err) or re.search(r"runtime error: ([^\n]{0,60})", err)
    kind = m.group(1).strip() if m else ""
    kind = re.sub(r"0x[0-9a-f]+|\d+", "N", kind)
    w = re.search(r" in (?:\w+ )?(FEAT::[\w:]+)", err)
    return kind, (w.group(1) if w else "")


def sig(c, r):
    s = sig0(c, r)
    if r.get("outcome") == "sanitizer":
        s["san"], s["where"] = san_kind(r)
    if s.get("got") == "memcheck":
        m = re.search(r"==\d+== (Invalid \w+ of size \d+|Invalid free|Mismatched free)", r.get("stderr") or "")
        w = re.search(r"(?:at|by) 0x[0-9A-F]+: (FEAT::[\w:]+)", r.get("stderr") or "")
        s["san"], s["where"] = (m.group(1) if m else ""), (w.group(1) if w else "")
    if str(s.get("got", "")).startswith("std:"):
        # undocumented std exception: its message (numbers blanked) is part of the signature, so that a known-finding
        # entry for one such exception cannot absorb a different one
        m = re.search(r"(?:undocumented exception \S+|got \S+ \()\s*(.*)", r.get("why") or "")
        s["what"] = re.sub(r"\d+", "N", (m.group(1) if m else "").rstrip(")")).strip()[:80]
    return s


def sig0(c, r):
    t = c["t"]
    got = r.get("got_cls") or r.get("cls") or classify(r) or "mismatch"
    if t == "doc":
        return {"t": "doc", "shape": "%s%d" % (c["fam"], c["dim"]), "got": got}
    if t == "mut":
        return {"t": "mut", "kind": c["m"]["kind"], "exp": c["m"]["v"], "got": got}
    if t == "file":
        return {"t": "file", "file": c["name"], "got": got, "surfacemesh": bool(c.get("surfacemesh"))}
    if t == "smut":
        return {"t": "smut", "kind": c["kind"], "got": got}
    if t == "fuzz":
        return {"t": "fuzz", "got": got}
    if t == "ini":
        return {"t": "ini", "kind": c["kind"], "exp": c["v"], "got": got}
    if t == "graph":
        return {"t": "graph", "nd": c["nd"], "cut": c["cut"] >= 0, "got": got}
    return {"t": t, "got": got}


def key(c):
    t = c["t"]
    if t == "doc":
        return "doc:" + c["id"]
    if t == "mut":
        return json.dumps(["mut", c["id"], c["m"]["kind"], c["m"]["op"], c["m"]["at"], c["m"]["text"]])
    if t in ("file",):
        return "file:" + c["name"]
    if t == "smut":
        return json.dumps(["smut", c["name"], c["kind"], c["at"], c["text"]])
    if t == "fuzz":
        return json.dumps(["fuzz", c["name"], c["seed"]])
    return json.dumps(c, sort_keys=True)


# ------------------------------------------------------------------------------------------------------------------
# memcheck pass.  The parsers store every number through std::istream::operator>> (String::parse), i.e. the store is
# executed inside libstdc++, which the ASan build does not instrument: a write past the end of a counted array is seen by
# ASan only if it happens to destroy the allocator's chunk header behind the redzone (8..16 bytes are not enough).  The
# mutations that give MORE entries than declared are therefore replayed a second time in the plain build under valgrind
# (address errors only), which checks every store of every library byte-exactly.
# ------------------------------------------------------------------------------------------------------------------
def over_declared(kind):
    return kind in ("dup_data", "count", "chart_count", "token_count") or kind.startswith("dup_block")


def memcheck_wrapper():
    vg = shutil.which("valgrind")
    return [vg, "-q", "--error-exitcode=99", "--exit-on-first-error=yes", "--undef-value-errors=no"] if vg else None


MEMCHECK_ENV = {"C11_NO_RLIMIT": "1"}


FUZZ_ALLOWED = ("assert", "resource")   # abnormal ends that are a *report*: FEAT assertion message / refused allocation


def self_contained(c, docs):
    """replay object of a case: everything --replay needs (generated documents / fuzz bases are temporary files)"""
    rp = {"kind": "case", "case": c}
    if c["t"] == "mut":
        rp["doc"] = {k: docs[c["id"]][k] for k in ("id", "fam", "dim", "indent", "in", "out")}
    elif c["t"] == "fuzz" and c["name"].startswith("gen:"):
        c2 = dict(c)
        c2["text"] = "\n".join(docs[c["name"][4:]]["in"]) + "\n"
        rp["case"] = c2
    return rp


def judge(chk, cases, results, harness, stats, docs):
    for c, r in zip(cases, results):
        t = c["t"]
        chk.count(key(c), True)
        if r.get("ok") is True:
            stats[t + ":" + (r.get("cls") or "ok")] = stats.get(t + ":" + (r.get("cls") or "ok"), 0) + 1
            continue
        cls = classify(r)
        # spec: which abnormal ends are allowed
        if t == "fuzz" and cls in FUZZ_ALLOWED:
            stats["fuzz:" + cls] = stats.get("fuzz:" + cls, 0) + 1
            continue
        if t == "smut" and cls == "assert":
            # rejected by an assertion instead of the documented exception: reported, but not the documented class
            pass
        if t == "graph" and c["cut"] >= 0 and cls == "assert":
            stats["graph:refused"] = stats.get("graph:refused", 0) + 1
            continue
        s = sig(c, r)
        desc = r.get("why") or ("outcome %s: %s" % (cls, (r.get("stderr") or "")[-500:]))
        rp = self_contained(c, docs)
        rp.update({"harness": harness, "result": r})
        chk.violation(s, desc, rp)


# ------------------------------------------------------------------------------------------------------------------
def run(chk):
    os.makedirs(GEN, exist_ok=True)
    rng = random.Random(vlib.seed())
    std, = vlib.build(["c11_meshfile"])
    asan, = vlib.build(["c11_meshfile"], variant="asan")
    thorough = chk.tier == "thorough"

    # ---- G: generation -------------------------------------------------------------------------------------------
    printed = run_tlc_jobs(chk, tlc_jobs(chk.tier), workers=6 if thorough else 5)
    docs, muts, ini, graphs = {}, [], [], []
    for module, pr in printed:
        for v in pr:
            if module == "MeshFile":
                if v["t"] == "doc":
                    docs[v["id"]] = v
                else:
                    muts.append(v)
            elif module == "MeshFileIni":
                ini.append(v)
            else:
                graphs.append(v)
    if not docs or not muts or not ini or not graphs:
        raise vlib.MachineryError("a generator produced no cases (docs %d, mutations %d, ini %d, graphs %d)" % (len(docs), len(muts), len(ini), len(graphs)))
    docs_path = os.path.join(GEN, "docs_%d" % os.getpid())
    os.makedirs(docs_path, exist_ok=True)
    for d in docs.values():
        with open(os.path.join(docs_path, d["id"] + ".json"), "w") as f:
            f.write(json.dumps({k: d[k] for k in ("id", "fam", "dim", "indent", "in", "out")}, separators=(",", ":")))
    mut_cases, seen = [], set()
    for m in muts:
        c = {"t": "mut", "docs": docs_path, "id": m["id"], "m": m["m"]}
        k = key(c)
        if k not in seen:
            seen.add(k)
            mut_cases.append(c)
    # de-duplicate ini cases (different trees / mutations can give the same text)
    ini_cases, seen = [], set()
    for v in ini:
        k = json.dumps([v["in"], v["v"]])
        if k not in seen:
            seen.add(k)
            ini_cases.append(v)
    graph_cases = graphs + [{"t": "graph", "ctor": "default", "nd": 0, "ni": 0, "ptr": [0], "idx": [], "words": ["F3ADJGRP", 48, 0, 0, 0, 0], "cut": -1}]

    # ---- V: shipped files ---------------------------------------------------------------------------------------------
    files = shipped(chk.tier)
    fcases = file_cases(files)
    scases = smut_cases(files, 150 if thorough else 14, rng)
    # generated bases of the byte-level part: parent topology / two parts, and one document per chart kind (Bezier open/closed,
    # Extrude of Circle / Bezier, both SurfaceMesh triangulations)
    fz_docs = ([docs[k] for k in sorted(docs) if k.endswith("-2-i-p-k0") or k.endswith("BC-2-f-e-k0")][:8] +
               [docs[k] for k in sorted(docs) if "-B-0-i-e-k" in k and not k.endswith("k0")
                and (k.startswith("hypercube-2") or k[-2:] in ("k1", "k3", "k6", "k7"))])
    zcases = fuzz_cases(files, fz_docs, 150000 if thorough else 10000, rng)

    stats = {}
    try:
        # documents and shipped files: plain build; every mutant: ASan + UBSan build
        batches = [(std, list(docs.values()) + fcases, 120, None, None),
                   (asan, mut_cases + scases + ini_cases + graph_cases, 90, ASAN_ENV, None),
                   (asan, zcases, 90, ASAN_ENV, None)]
        vg = memcheck_wrapper()
        vcases = [c for c in mut_cases if over_declared(c["m"]["kind"])]
        if len(vcases) > 12000:     # thorough tier: a seeded sample keeps the valgrind pass at a few CPU minutes
            vcases = sorted(rng.sample(vcases, 12000), key=key)
        if vg:
            batches.append((std, vcases, 600, MEMCHECK_ENV, vg))
        else:
            vlib.log("  [C11] valgrind not found: memcheck pass of the %d over-declared-count mutations skipped" % len(vcases))
        chk.extra["memcheck_cases"] = len(vcases) if vg else "valgrind not available"
        for binary, cases, tmo, env, wrapper in batches:
            res = vlib.run_cases(binary, cases, tmo=tmo, env=env, wrapper=wrapper)
            judge(chk, cases, res, "c11_meshfile" + (" (memcheck)" if wrapper else " (asan)" if binary == asan else ""), stats, docs)
            if cases and cases[0]["t"] == "doc":
                nok = 0
                for c, r in zip(cases, res):
                    if c["t"] == "file" and r.get("ok") is True:
                        nok += tok_compare(chk, c)
                chk.extra["shipped_files_roundtrip_and_tokenizer_ok"] = nok
    finally:
        for p in glob.glob(os.path.join(GEN, "*_%d*" % os.getpid())):
            if os.path.isdir(p):
                shutil.rmtree(p, ignore_errors=True)
            else:
                try:
                    os.remove(p)
                except OSError:
                    pass

    # summary of disagreements by signature (the replay file keeps only the first 50)
    bysig = {}
    for sg, desc, _ in chk.violations:
        k = json.dumps({a: b for a, b in sg.items() if a != "file"}, sort_keys=True)
        bysig.setdefault(k, [0, desc])[0] += 1
    for k, (n, desc) in sorted(bysig.items()):
        vlib.log("  [C11] %5d x %s :: %s" % (n, k, " ".join(desc.split())[:260]))

    chk.traces = len(docs) + len(mut_cases) + len(ini_cases) + len(graph_cases) + len(fcases) + len(scases) + len(zcases)
    chk.exhaustive = True
    chk.extra.update({"documents": len(docs), "structured_mutations": len(mut_cases), "ini_cases": len(ini_cases), "graph_cases": len(graph_cases),
                      "shipped_files": len(fcases), "shipped_structured_mutations": len(scases), "byte_level_mutants": len(zcases),
                      "outcome_classes": dict(sorted(stats.items())),
                      "mutation_kinds": sorted(set(c["m"]["kind"] for c in mut_cases))})
    chk.rule = ("G: every state of spec/MeshFile.tla = (document, single structured mutation): documents = {quad, tria, hexa, tetra} x {1,2 cells} x "
                "every set of <= 2 mesh parts of 5 kinds (vertex list / facet with own topology + chart + attribute / cell closure / cell closure with "
                "topology and 2 attributes / duplicated vertex) x {0,1,2} partitions x indentation x topology=parent variant, plus documents whose "
                "atlas holds every other chart kind (2D: open parameterised / closed negatively oriented Bezier spline; 3D: Extrude of a Circle / "
                "Bezier with origin, offset and yaw-pitch-roll angles: generic, both gimbal-lock pitches +-1/4 with non-zero yaw and roll, explicit "
                "zero vectors, identity -- the written text must be the canonical form of the rotation the angles denote; SurfaceMesh "
                "triangulations: closed tetrahedron surface, open strip with an unused vertex), so that every chart parser of the reader occurs; "
                "mutations = truncation after "
                "every line, every markup line replaced by 9 degenerate markups (</>, < / >, <>, <//>, </Name/>, <Name//> ...), COUNT VIOLATIONS of every counted block of every parser (mesh Vertices / Topology per dimension, "
                "part Mapping per dimension / Topology / Attribute, Bezier Points / Params, SurfaceMesh Vertices / Triangles, partition Patch): every "
                "content line deleted (one less than declared) and given twice (one more), +-1 on every declared count (size, verts, trias; "
                "non-numeric / negative / empty verts and trias), every token of a line removed / added, the whole block removed and given twice; "
                "delete every open/close line, size arity, every dim "
                "attribute to every other value, mesh type strings, every vertex/element/mapping/triangle index to bound and -1, unknown markup / stray "
                "terminator / stray content at every position, every attribute removed, unknown attribute, closed markup, token count / non-number / "
                "trailing garbage for every token (quick: all documents round-trip, mutations of 5 rich documents per shape); likewise every "
                "PropertyMap tree / line mutation of spec/MeshFileIni.tla and every graph / truncation of spec/MeshFileBin.tla.  V: shipped mesh files "
                "(quick: <= 130 kB), a seeded sample of count/dim/index mutations per file, seeded byte-level mutants (VERIF_SEED).  distinct = "
                "distinct (document id, mutation) / file / (file, seed)")
    for c in mut_cases[len(mut_cases) // 3: len(mut_cases) // 3 + 3]:
        chk.sample({"doc": c["id"], "mutation": c["m"]["kind"], "edit": [c["m"]["op"], c["m"]["at"], c["m"]["text"]], "verdict": c["m"]["v"], "line": c["m"]["el"]})
    chk.assumptions = [
        "real numbers of generated documents are dyadic with <= 3 fractional binary digits (printing with 6 significant digits is exact); for shipped files "
        "reals are compared to the printed precision (relative 1e-5)",
        "an application selects the mesh type from the root markup's mesh attribute (as tools/mesh2vtk etc. do); files whose type is not one of the four "
        "conformal 2D/3D types count as rejected",
        "a declared count is an allocation request: std::bad_alloc / std::length_error / a refused allocation (sanitizer max_allocation_size_mb=1024, "
        "RLIMIT_AS 6 GB) is classified as `resource` and accepted as a rejection in the byte-level part (Total), not in the structured part",
        "termination by a FEAT message (XASSERT / XABORTM: '>>> FATAL ERROR: ...', e.g. 'Facet 2 is shared by cells 1, 3 and again by 3' for a "
        "non-manifold SurfaceMesh triangulation) counts as a report (DESIGN 3.3) in the byte-level part and for truncated graph buffers",
        "stores executed inside libstdc++ (operator>> of String::parse) are not ASan-instrumented: the mutations with more entries than declared "
        "(dup_data, dup_block, count, chart_count, token_count; thorough: a seeded sample of 12000) are additionally replayed in the plain build "
        "under valgrind memcheck (address errors only); without valgrind on the machine this pass is skipped and reported in `memcheck_cases`",
        "Permutation has no serialisation API in the pinned tree; CGALSurfaceMesh charts (third-party CGAL, created from an .off file by the "
        "application, no mesh file markup) are not covered",
        "every structured mutation (mesh file, PropertyMap, graph) and every byte-level mutant is replayed in the ASan+UBSan build: a sanitizer "
        "report is an outcome no verdict of the spec allows, whatever exception follows it",
        "Extrude angles of generated documents are multiples of 1/8 revolution with |yaw|,|roll| < 1/2, |pitch| <= 1/4 and roll -+ yaw != 0 at gimbal "
        "lock, so that the canonical yaw-pitch-roll triple printed with 6 digits is exact",
    ]


def replay(obj):
    std, = vlib.build(["c11_meshfile"])
    asan, = vlib.build(["c11_meshfile"], variant="asan")
    ddir = os.path.join(GEN, "replay_docs_%d" % os.getpid())
    os.makedirs(ddir, exist_ok=True)
    bad = 0
    try:
        for v in obj["violations"]:
            rp = v.get("replay") or {}
            if rp.get("kind") != "case":
                print(json.dumps(v.get("sig")), "(not a harness case: %s)" % rp.get("kind"))
                continue
            c = dict(rp["case"])
            if c["t"] == "mut":
                with open(os.path.join(ddir, c["id"] + ".json"), "w") as f:
                    json.dump(rp["doc"], f)
                c["docs"] = ddir
            binary = asan if "asan" in (rp.get("harness") or "") else std
            vg = memcheck_wrapper() if "memcheck" in (rp.get("harness") or "") else None
            r = vlib.run_cases(binary, [c], tmo=600 if vg else 120, shards=1, env=ASAN_ENV if binary == asan else MEMCHECK_ENV if vg else None, wrapper=vg)[0]
            c.pop("text", None)
            print(json.dumps({"sig": sig(c, r), "case": c, "result": r})[:1500])
            if r.get("ok") is not True:
                bad += 1
    finally:
        shutil.rmtree(ddir, ignore_errors=True)
    return 1 if bad else 0
