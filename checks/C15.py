"""C15: finite-element bases are unisolvent, derivative-consistent and conforming.

spec/RefElement.tla (signature table of all 13 families, exact reference bases with formal derivatives, node functionals),
spec/RefElementSanity.tla (M: duality / partition of unity / layout of the tables), spec/RefElementGen.tla (G: exact values,
gradients, Hessians at dyadic lattice points -> replayed into the real evaluators, compared with ==), spec/DofMap.tla +
spec/ElementCheck.tla (V: TLC judges the dof mapping / dof assignment / cell volumes / projection counters the real code produced
on generated and shipped meshes), spec/MeshGen.tla (every gluing of two reference cells = every relative orientation of a shared
facet), harness/c15_element.cpp (+ _g1.._g4 wrappers).
Dimension 1: spec/LineElement.tla (M: Dual / FunctionalWellDefined / OneIndex / Continuous / GradContinuous on every enumerated chain of
intervals in every orientation, exact integers; G: predicted dof maps, Jacobians, basis tables, node functional values, inverse-mapping
hits) + spec/RefElement.tla section (e) (1-D bases, node functionals, signatures), harness/c15_line.cpp (+ _g1/_g2 wrappers).
"""
import glob, json, os, shutil
import concurrent.futures as cf
import vlib, vmeshlib, vfemlib

LEVEL = "model_checking"
SHAPES = [("simplex", 2), ("simplex", 3), ("hypercube", 2), ("hypercube", 3)]
GROUP = {"lagrange1": 1, "lagrange2": 1, "discontinuous0": 1, "discontinuous1": 1, "lagrange3": 2, "crorav": 2, "bernstein2": 3, "p2bubble": 3,
         "q1tbnp": 3, "cdssy": 3, "hermite3": 4, "argyris": 4, "bfs": 4}
BINS = ["c15_element_g1", "c15_element_g2", "c15_element_g3", "c15_element_g4", "c15_isoparam", "c15_line_g1", "c15_line_g2"]
# dimension 1 (spec/LineElement.tla, harness/c15_line.cpp): family groups = harness binaries
LINE_G1 = ["lagrange1", "lagrange2", "discontinuous0", "discontinuous1", "bernstein2"]
LINE_G2 = ["lagrange3", "hermite3", "bfs"]
LINE_INVARIANTS = "MeshOK ExactDomain DualPhys SpaceIsPk FunctionalWellDefined OneIndex Continuous LatticeEnds VolumeSum UnmapRoundTrip Emit"
MESHDIR = os.path.join(vlib.REPO, "data", "meshes")
FILES_QUICK = [("unit-circle-tria.xml", "simplex", 2), ("unit_circle_quad_5.xml", "hypercube", 2), ("unit-sphere-tetra.xml", "simplex", 3),
               ("cube_cylinder_hole_hexa_8.xml", "hypercube", 3), ("unit-square-quad-aniso.xml", "hypercube", 2)]
FILES_THOROUGH = FILES_QUICK + [("unit_circle_tria_6.xml", "simplex", 2), ("square_circle_hole_quad_9.xml", "hypercube", 2),
                                ("l-shape-tria.xml", "simplex", 2), ("l-shape-quad.xml", "hypercube", 2), ("unit-sphere-hexa.xml", "hypercube", 3),
                                ("cube_sphere_hole_hexa_26.xml", "hypercube", 3), ("heat-v77-tria.xml", "simplex", 2)]


def gen_meshes(chk, tier):
    jobs = []
    for k, (fam, dim) in enumerate(SHAPES):
        for mode in ["pair", "single"] + (["chain"] if (dim == 2 and tier == "thorough") else []):
            cfg = "gen_c15_%d_%d_%s.cfg" % (os.getpid(), k, mode)
            with open(os.path.join(vlib.SPEC, cfg), "w") as f:
                f.write("SPECIFICATION Spec\nCONSTANTS Fam = \"%s\" Dim = %d Mode = \"%s\" PartLevel = 0\n"
                        "INVARIANTS AllPositive Conforming GluedOnFacet Emit\nCHECK_DEADLOCK FALSE\n" % (fam, dim, mode))
            jobs.append((cfg, fam, dim, mode))
    meshes = []
    try:
        with cf.ThreadPoolExecutor(max_workers=6) as ex:
            futs = [(ex.submit(vlib.tlc, "MeshGen", j[0], timeout=900, xmx="2g"), j) for j in jobs]
            for fu, (cfg, fam, dim, mode) in futs:
                rr = fu.result()
                chk.add_tlc(rr, "MeshGen %s%d %s" % (fam, dim, mode))
                if rr.violation:
                    chk.model_violation(rr, "MeshGen invariant (%s %d %s)" % (fam, dim, mode))
                    continue
                for i, c in enumerate(rr.printed):
                    meshes.append({"fam": fam, "dim": dim, "mode": mode, "k": i, "src": {"raw": c["src"]["raw"]}, "srcname": "gen:" + mode})
    finally:
        for j in jobs:
            try:
                os.remove(os.path.join(vlib.SPEC, j[0]))
            except OSError:
                pass
    return meshes


def make_cases(tier, table, meshes):
    els = {}
    for t in table:
        if t["dim"] >= 2:
            els.setdefault((t["fam"], t["dim"]), []).append(t)
    cases = []
    n = 0

    def add(m, t, **kw):
        nonlocal n
        c = {"kind": "mesh", "id": "m%d" % n, "fam": m["fam"], "dim": m["dim"], "el": t["el"], "src": m["src"], "srcname": m["srcname"],
             "monos": t["monos"], "exact": 1 if t["exactinterp"] else 0, "conf": t["conf"], "seed": vlib.seed() * 104729 + n, "maxcells": 400}
        # (deduct_topology_from_top on tetrahedra is excluded: known finding C10-tria-facet-flip-edges makes those meshes inconsistent)
        tet = m["fam"] == "simplex" and m["dim"] == 3
        if m["srcname"].startswith("gen:"):
            c["src"] = {"raw": dict(m["src"]["raw"], route="deduct" if (n % 2 == 0 and not tet) else "factory")}
        c.update(kw)
        if "srcname" in kw and c["src"].get("raw"):
            c["src"]["raw"]["route"] = "factory"
        cases.append(c)
        n += 1

    for m in meshes:
        fam, dim, mode, k = m["fam"], m["dim"], m["mode"], m["k"]
        for ti, t in enumerate(els.get((fam, dim), [])):
            if tier == "quick" and dim == 3:
                stride = {"pair": 8 if fam == "hypercube" else 4, "single": 3}[mode]
                if t["el"] == "lagrange3" and mode != "pair":
                    stride *= 2       # (the gluings keep the common stride: they realise the four rotations of a shared quadrilateral face)
                if (k + ti) % stride != 0:
                    continue
            add(m, t, nref=1 if (mode == "single" and k % 2 == 0) else 0)
            # the same mesh with seeded dyadic vertex offsets of +-1/8: general affine simplices, non-affine (multilinear) hypercubes
            if mode == "pair" and (k + ti) % (2 if dim == 2 else 3) == 0:
                add(m, t, distort=3, srcname="gen:pair+distort")
    for fam, dim in SHAPES:
        facs = [("unitcube", {"fac": "unitcube", "level": 1 if dim == 2 else 0})]
        if dim == 2:
            facs.append(("star", {"fac": "star"}))
        if tier == "thorough":
            facs.append(("struct", {"fac": "struct", "nx": 3, "ny": 2, "nz": 2}))
        for nm, src in facs:
            for t in els.get((fam, dim), []):
                add({"fam": fam, "dim": dim, "src": src, "srcname": "factory:" + nm}, t, nref=1 if (dim == 2 or nm == "unitcube" and fam == "hypercube") else 0)
    for fn, fam, dim in (FILES_THOROUGH if tier == "thorough" else FILES_QUICK):
        p = os.path.join(MESHDIR, fn)
        if not os.path.exists(p):
            continue
        for t in els.get((fam, dim), []):
            if tier == "quick" and dim == 3 and t["el"] in ("lagrange3",):
                continue
            add({"fam": fam, "dim": dim, "src": {"file": p}, "srcname": "file:" + fn}, t, maxcells=300)
    return cases


def line_jobs(tier):
    """TLC runs of spec/LineElement.tla: (cfg name, family, element families, harness group)"""
    if tier == "thorough":
        parts = [("hypercube", [e], 1) for e in LINE_G1] + [("hypercube", [e], 2) for e in LINE_G2]
    else:
        parts = [("hypercube", LINE_G1[:3], 1), ("hypercube", LINE_G1[3:], 1), ("hypercube", LINE_G2, 2)]
    parts.append(("simplex", ["discontinuous0", "discontinuous1"], 1))
    jobs = []
    for k, (fam, els, grp) in enumerate(parts):
        cfg = "gen_c15_%d_line_%d.cfg" % (os.getpid(), k)
        with open(os.path.join(vlib.SPEC, cfg), "w") as f:
            f.write("SPECIFICATION Spec\nCONSTANTS Fam = \"%s\" Els = {%s} Mode = \"%s\"\nINVARIANTS %s\nCHECK_DEADLOCK FALSE\n"
                    % (fam, ", ".join('"%s"' % e for e in els), tier, LINE_INVARIANTS))
        jobs.append(("LineElement", cfg, fam, els, grp))
    # 1-D cells embedded in R^2 / R^3 (transformation only)
    jobs.append(("LineEmbed", "LineEmbed.cfg", "both", ["trafo-embedded"], 1))
    return jobs


def run_line(chk, bins, futs):
    """dimension 1: collect the LineElement runs (model checking of Dual / Continuous / ... on the specification + generation of the
    predicted observations), replay the cases into the real trafo / spaces / interpolator / inverse mapping"""
    ncase = ncmp = ndesc = 0
    fams = {}
    for fu, (mod, cfg, fam, els, grp) in futs:
        rr = fu.result()
        chk.add_tlc(rr, "%s %s %s" % (mod, fam, "+".join(els)))
        if rr.violation:
            chk.model_violation(rr, "%s (%s, %s): an invariant of the 1-D specification (Dual / Continuous / OneIndex / ...) fails" % (mod, fam, "+".join(els)))
            continue
        cases = rr.printed
        if not cases:
            raise vlib.MachineryError("%s generated no cases (%s %s)" % (mod, fam, els))
        res = vlib.run_cases(bins[4 + grp], cases, tmo=120, shards=6)
        vlib.judge_results(chk, cases, res,
                           lambda c, r: {"kind": "line", "fam": c["fam"], "dim": 1, "el": c["el"], "descending": bool(c["desc"]),
                                         "pred": r.get("pred", r.get("outcome", "mismatch"))},
                           keyf=lambda c: "line %s %s %s %s" % (c["fam"], c["el"], json.dumps(c["X"]), json.dumps(c["cells"])),
                           harness="c15_line_g%d" % grp, nontrivial=lambda c: c.get("nc", 2) > 1 or bool(c["desc"]))
        ncase += len(cases)
        ncmp += sum(r.get("ncmp", 0) for r in res)
        ndesc += sum(1 for c in cases if c["desc"])
        for c in cases:
            k = "%s/%s1" % (c["el"], c["fam"])
            fams[k] = fams.get(k, 0) + 1
    chk.extra["line_cases"] = ncase
    chk.extra["line_cases_with_descending_cell"] = ndesc
    chk.extra["line_comparisons"] = ncmp
    chk.extra["line_cases_by_family"] = fams
    return ncase


def sig_mesh(c, pred):
    return {"kind": "mesh", "fam": c["fam"], "dim": c["dim"], "el": c["el"], "src": c["srcname"], "pred": pred}


def run(chk):
    tier = chk.tier
    bins = vlib.build(BINS)
    gdir = os.path.join(vlib.BUILD, "gen", "C15", "run_%d" % os.getpid())
    os.makedirs(gdir, exist_ok=True)
    try:
        _run(chk, tier, bins, gdir)
    finally:
        shutil.rmtree(gdir, ignore_errors=True)
        for p in glob.glob(os.path.join(vlib.SPEC, "gen_c15_%d_*.cfg" % os.getpid())):
            os.remove(p)


def _run(chk, tier, bins, gdir):
    # ---- dimension 1: the TLC runs are started now and collected after the reference-cell part ----
    ljobs = line_jobs(tier)
    lex = cf.ThreadPoolExecutor(max_workers=3)
    lfuts = [(lex.submit(vlib.tlc, j[0], j[1], timeout=2400, xmx="1500m"), j) for j in ljobs]
    try:
        _run2(chk, tier, bins, gdir, lfuts)
    finally:
        lex.shutdown(wait=True)


def _run2(chk, tier, bins, gdir, lfuts):
    # ---- M: the element tables (duality, partition of unity, layout, symmetric Hessians) ----
    r = vlib.tlc("RefElementSanity", timeout=600)
    chk.add_tlc(r, "RefElementSanity")
    if r.violation:
        chk.model_violation(r, "RefElementSanity (exact element tables)")
        return
    table = r.printed

    # ---- G: exact reference values / gradients / Hessians replayed into the real evaluators ----
    rg = vlib.tlc("RefElementGen", timeout=900)
    chk.add_tlc(rg, "RefElementGen")
    if rg.violation:
        chk.model_violation(rg, "RefElementGen")
        return
    refcases = [c for c in rg.printed if c["dim"] >= 2]
    ncmp = 0
    for g in range(1, 5):
        cs = [c for c in refcases if GROUP[c["el"]] == g]
        if not cs:
            continue
        res = vlib.run_cases(bins[g - 1], cs, tmo=120, shards=4)
        vlib.judge_results(chk, cs, res, lambda c, rr: {"kind": "ref", "fam": c["fam"], "dim": c["dim"], "el": c["el"], "what": rr.get("what", rr.get("outcome", "mismatch"))},
                           keyf=lambda c: "ref %s %s %d" % (c["el"], c["fam"], c["dim"]), harness="c15_element_g%d" % g)
        ncmp += sum(rr.get("ncmp", 0) for rr in res)
    chk.extra["exact_reference_comparisons"] = ncmp
    chk.extra["exact_reference_families"] = sorted(set("%s/%s%d" % (c["el"], c["fam"], c["dim"]) for c in refcases))

    # ---- G: the isoparametric transformation (degree 2, quadrilaterals with chart-curved edges) ----
    ri = vlib.tlc("IsoTrafo", timeout=900)
    chk.add_tlc(ri, "IsoTrafo")
    if ri.violation:
        chk.model_violation(ri, "IsoTrafo (exact domain / validity of the catalogue cells)")
        return
    isocases = ri.printed
    if not isocases:
        raise vlib.MachineryError("IsoTrafo generated no cases")
    res = vlib.run_cases(bins[4], isocases, tmo=120, shards=4)
    vlib.judge_results(chk, isocases, res, lambda c, rr: {"kind": "iso", "cell": c["cell"], "ncurved": len(c["curved"]), "pred": rr.get("pred", rr.get("outcome", "mismatch"))},
                       keyf=lambda c: "iso %d %s" % (c["cell"], json.dumps(c["P"])), harness="c15_isoparam", nontrivial=lambda c: len(c["curved"]) > 0)
    chk.extra["isoparametric_cases"] = len(isocases)
    chk.extra["isoparametric_exact_comparisons"] = sum(rr.get("ncmp", 0) for rr in res)
    chk.extra["isoparametric_worst"] = {k: max([rr.get(k, 0.0) for rr in res] or [0.0]) for k in ("worst_inv", "worst_unmap", "worst_space")}

    # ---- M + G: dimension 1 (intervals in both orientations, all families with a 1-D evaluator) ----
    nline = run_line(chk, bins, lfuts)

    # ---- V: meshes ----
    meshes = gen_meshes(chk, tier)
    cases = make_cases(tier, table, meshes)
    for c in cases:
        c["out"] = os.path.join(gdir, c["id"] + ".json")
    good = []
    worst = {}
    for g in range(1, 5):
        cs = [c for c in cases if GROUP[c["el"]] == g]
        cs = [c for r in range(8) for c in cs[r::8]]      # interleave: the runner cuts the list into contiguous shards
        res = vlib.run_cases(bins[g - 1], cs, tmo=300, shards=8)
        for c, rr in zip(cs, res):
            if rr.get("ok") is True and rr.get("skip"):
                chk.extra.setdefault("skipped", []).append("%s %s %s: %s" % (c["id"], c["srcname"], c["el"], rr.get("why")))
                continue
            if rr.get("ok") is True:
                good.append(c)
                for k in ("rep", "dgrad", "dhess", "jump", "mjump"):
                    key = k if (k not in ("jump",) or c["conf"] in ("H1", "C1")) else None
                    if key and (k != "mjump" or c["conf"] == "NC") and rr.get(k, 0.0) < 1e-6:
                        worst[k] = max(worst.get(k, 0.0), rr.get(k, 0.0))
                continue
            desc = rr.get("why") or ("outcome %s: %s" % (rr.get("outcome"), (rr.get("stderr") or "")[-600:]))
            slim = {k: c[k] for k in c if k not in ("out", "monos")}
            chk.violation(sig_mesh(c, "harness:" + str(rr.get("outcome", "bad"))), "%s (%s %s%d %s): %s" % (c["id"], c["srcname"], c["fam"], c["dim"], c["el"], desc),
                          {"kind": "case", "harness": "c15_element_g%d" % g, "case": slim, "result": rr})
    with cf.ProcessPoolExecutor(max_workers=6) as ex:
        full = list(ex.map(vfemlib.finish_element_case, [c["out"] for c in good], chunksize=8))
    byid = {c["id"]: c for c in good}
    verdicts = vmeshlib.run_tlc_batches(chk, "ElementCheck", "C15_BATCH", full, "c15", max_procs=6,
                                        target_weight=60000 if tier == "quick" else 150000, timeout=2400,
                                        weight=lambda d: 200 + sum(d["levels"][0]["n"]) * 4 + len(d["G"]) * len(d["G"][0]))
    for d in full:
        c = byid[d["id"]]
        v = verdicts.get(d["id"])
        if v is None:
            raise vlib.MachineryError("no verdict for " + d["id"])
        chk.count("%s|%s|%s|%s" % (c["fam"], c["dim"], c["el"], json.dumps(c["src"], sort_keys=True)), d["nintfacets"] > 0 or d["levels"][0]["n"][-1] == 1)
        for p in v["fails"]:
            if p.startswith("MACHINERY"):
                raise vlib.MachineryError("%s: %s" % (d["id"], p))
        slim = {k: c[k] for k in c if k not in ("out", "monos")}
        for p in v["fails"]:
            obs = {k: d[k] for k in ("rep", "dgrad", "dhess", "jump", "gjump", "mjump", "inv", "nmono", "axpar", "dyadic", "volnoise") if k in d}
            chk.violation(sig_mesh(c, p), "%s (%s %s%d %s): %s does not hold; observed %s" % (d["id"], c["srcname"], c["fam"], c["dim"], c["el"], p, json.dumps(obs)),
                          {"kind": "case", "harness": "c15_element_g%d" % GROUP[c["el"]], "case": slim, "verdict": v, "observed": obs})
    chk.traces = len(full) + len(refcases) + len(isocases) + nline
    chk.exhaustive = True
    chk.extra["generated_meshes"] = len(meshes)
    fams = {}
    for c in good:
        k = "%s/%s%d" % (c["el"], c["fam"], c["dim"])
        fams[k] = fams.get(k, 0) + 1
    chk.extra["mesh_cases_by_family"] = fams
    chk.extra["projection_tolerance"] = "1e-9 * (1 + sum_j |c_j phi_j|) for values/gradients/Hessians, 1e-8 for facet means and inverse mapping, 1e-11 relative for cell volumes"
    chk.extra["max_projection_error_within_tolerance"] = worst
    chk.extra["cases_with_exact_volumes"] = sum(1 for d in full if d["geo"])
    chk.rule = ("G: spec/RefElementGen.tla emits all basis values, gradients and Hessians (formal derivatives) of the exact families at the dyadic lattice "
                "points of the reference cell; replayed into Evaluator::eval_ref_* with ==.  V: TLC enumerates (spec/MeshGen.tla) every gluing of two reference "
                "cells (= every relative orientation of a shared facet) and every rotation of one cell, plus factories and shipped unstructured meshes; for every "
                "family x mesh the real dof mapping, dof assignment, interpolation, evaluation and transformation are observed and judged by spec/ElementCheck.tla "
                "(NumDofs, MapMatches, AssignMatches, OneIndexPerFunctional, Reproduce, ReproduceVectorField (blocked-vector overload, repeated into the same vector), DerivConsistent, Continuous, GradContinuous, FacetMeanContinuous, "
                "TrafoVolume, InverseMapping).  Isoparametric part (G): spec/IsoTrafo.tla defines the degree-2 map of catalogue quadrilaterals with circle-curved edges "
                "in all 4 local rotations exactly (integer polynomials) and emits img_point / jac_mat / hess_ten at the lattice points and the exact volume; replayed into "
                "Trafo::Isoparam (==), plus jac_inv / hess_inv / InverseMapping / Lagrange-1/2 physical gradients and Hessians against the chain rule of the specified tensors.  "
                "Dimension 1 (M + G): spec/LineElement.tla enumerates chains of 1-3 (thorough: 4) intervals of lengths 1/4, 1/2, 1 in every orientation "
                "pattern (every cell stored in ascending or DESCENDING coordinate order: negative Jacobian), with permuted vertex / cell numberings, for "
                "Lagrange-1/2/3, Discontinuous-0/1, Bernstein-2, Hermite-3, Bogner-Fox-Schmit on Hypercube<1> and Discontinuous-0/1 on Simplex<1>; TLC checks "
                "Dual (physical functionals on physical basis functions), FunctionalWellDefined, OneIndexPerFunctional, Continuous, GradContinuous (C1 families) "
                "on the specification in exact integers and emits the predicted dof mapping / assignment, signed jac_mat, jac_det = |J|, jac_inv, cell length, "
                "value / gradient / Hessian of every basis function at lattice points, N_i(x^k) for every functional, x^k and its derivatives, and the "
                "(cell, xi) hits of Trafo::InverseMapping; harness/c15_line.cpp compares with == (1e-13 for the thirds of Lagrange-3 / the cubature of Bernstein-2), "
                "and checks Trafo::Isoparam::Mapping<Mesh, 1|2|3> without charts against the same affine predictions; spec/LineEmbed.tla: two-cell chains embedded in "
                "R^2 / R^3 with Pythagorean directions, each cell stored forwards or backwards: img_point, jac_mat, jac_det = |J|, volume() == the euclidean length.  "
                "A case = (mesh, route, family); non-trivial = has an interior facet or is a single cell (1-D: more than one cell or a descending cell); quick tier sub-samples "
                "the 3D gluings (stride 3-16)")
    for d in full[:: max(1, len(full) // 3)][:3]:
        c = byid[d["id"]]
        chk.sample({"id": d["id"], "mesh": c["srcname"], "fam": c["fam"], "dim": c["dim"], "el": c["el"], "ng": d["ng"], "G0": d["G"][0], "rep": d["rep"], "jump": d["jump"],
                    "verdict": verdicts[d["id"]]})
    chk.assumptions = ["Dual (N_i(phi_j) = delta_ij) is decided through Reproduce on the monomials spanning the local space (equivalent when their number equals "
                       "the local dof count: Lagrange-1/2/3, Discontinuous, Crouzeix-Raviart, Bernstein-2 (axis-parallel cells), Hermite-3 and Argyris on triangles); "
                       "P2-bubble, Rannacher-Turek, Q1~-bnp, CDSSY only on the contained polynomial space; Bogner-Fox-Schmit has no node functionals (no Reproduce)",
                       "DerivConsistent is decided on the reproduced polynomials (exact derivatives of the monomials), not on arbitrary members of the local space",
                       "non-dyadic families / meshes are judged through stated floating-point tolerances (projection principle); the isoparametric transformation only for quadrilaterals: degree 2 with a circle chart exactly, degrees 1-3 without "
                       "charts against the bilinear map (not: degree 3 with charts, simplices, hexahedra); dimensions 2 and 3",
                       "dimension 1: interval lengths are powers of two (the exact domain: every Jacobian, inverse and chain-rule factor is dyadic); spaces only on meshes "
                       "embedded in R^1 (ConformalMesh<Shape, 1>), embedded cells (R^2, R^3): transformation only; Bernstein-2's cell functional is specified on the local space P2 only (b_mid = 2u(m) - (u(a)+u(b))/2), "
                       "Bogner-Fox-Schmit has no NodeFunctional (Dual through the exact basis tables); the iso-parametric Hypercube<1> evaluator only without charts"]


def replay(obj):
    vlib.build(BINS)
    bad = 0
    for v in obj["violations"]:
        print(json.dumps(v["sig"]), v["desc"][:300])
        bad += 1
    return 1 if bad else 0
