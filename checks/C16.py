"""C16: assembled matrices/vectors equal their integrals on every assembly route.

spec/Assembly.tla       catalogue of spaces (dof signature, polynomial content), operators (integrand as a polynomial,
                        which identity applies), routes (which entry points are defined for a job, which pairs must agree
                        bitwise), exact moments; TLC enumerates every plan (shape, dim, mesh class, test, trial) with its
                        job list (direction G)
spec/AssemblyCheck.tla  TLC judges the dumps of the real assemblers: sparsity contract, route agreement, AssembleTwice,
                        symmetry, kernel, MassSum = Volume, Bilinear(u,v) / functional values as exact scaled integers (V)
harness/c16_assembly_*.cpp (common/vasm16*.hpp)  execute the jobs on the real classes and measure
harness/c16_assembly_2l.cpp  two-level (inter-mesh) patterns on permuted meshes + couplings of the grid transfer (TwoLevelVerdict)

Matrix-free routes (spec/Assembly.tla: MatrixFreeRoutes; executed by the special-route binaries c16_assembly_s*): BilinearOperatorAssembler::
apply1 / apply2 with blocked value types (Identity/Laplace/DuDvOperatorBlocked and the user operator ugrad_b whose blocks have no
symmetry), BurgersAssembler::assemble_vector, Burgers{Blocked,Scalar}VectorAssemblyJob (also with solution == convection vector),
VoxelBurgersAssembler::assemble_vector, GradOperatorAssembler::assemble(vector): ApplyEqualsMatVec (= the matrix of the reference route
times the vector), RepeatSemantics (overwrite / accumulate) and ApplyBilinear (EXACT scaled integers of (v e_row)^T r(P) for the
probe fields P of the catalogue, which the specification proves (ProbeLaw) to separate every operator from its block-transpose).
"""
import json, os, shutil, glob, time
import concurrent.futures as cf
import random
import vlib
import c16x, vmeshlib

LEVEL = "model_checking"
MESHDIR = os.path.join(vlib.REPO, "data", "meshes")

# harness binaries: which (shape, dim) and which routes each one executes
SCALAR_ROUTES = ["classic", "domain", "apply", "domainforce"]
BINARIES = {
    ("hypercube", 2): "c16_assembly_q2",
    ("simplex", 2): "c16_assembly_t2",
    ("hypercube", 3): "c16_assembly_h3",
    ("simplex", 3): "c16_assembly_s3",
}
TWOLEVEL_BIN = "c16_assembly_2l"
SPECIAL_ROUTES = ["burgers", "burgersjob", "voxel", "voxeldefo"]
SPECIAL_BINS = {
    ("hypercube", 2): "c16_assembly_sq2",
    ("simplex", 2): "c16_assembly_st2",
    ("hypercube", 3): "c16_assembly_sh3",
}


def mesh_catalogue(tier):
    """(name, shape, dim, class, mesh-source, ncells) -- the class is CLAIMED here and verified by the specification"""
    th = tier == "thorough"
    M = []
    for L in range(0, 4 if th else 3):
        M.append(("usq_L%d" % L, "hypercube", 2, "box", {"fac": "unitcube", "level": L}, 4 ** L))
    M.append(("usq_L3" if not th else "usq_L4", "hypercube", 2, "box", {"fac": "unitcube", "level": 4 if th else 3}, 4 ** (4 if th else 3)))
    M.append(("struct_4x2", "hypercube", 2, "box", {"fac": "struct", "nx": 4, "ny": 2, "nz": 1}, 8))
    # two cells, one of them a trapezoid (non-affine), glued along an edge whose local orientation differs in the two cells
    M.append(("twoquad", "hypercube", 2, "general",
              {"raw": {"X": [[0, 0], [4, 0], [0, 4], [4, 2], [8, 0], [8, 4]], "cs": 2, "cells": [[0, 1, 2, 3], [4, 5, 1, 3]], "route": "deduct"}}, 2))
    M.append(("parallelograms", "hypercube", 2, "affine",
              {"raw": {"X": [[0, 0], [4, 0], [8, 0], [2, 4], [6, 4], [10, 4], [4, 8], [8, 8], [12, 8]], "cs": 2,
                       "cells": [[0, 1, 3, 4], [1, 2, 4, 5], [3, 4, 6, 7], [4, 5, 7, 8]], "route": "deduct"}}, 4))
    M.append(("circle5_L0", "hypercube", 2, "general", {"file": os.path.join(MESHDIR, "unit_circle_quad_5.xml"), "nref": 0}, 5))
    M.append(("circle5_L1", "hypercube", 2, "general", {"file": os.path.join(MESHDIR, "unit_circle_quad_5.xml"), "nref": 1}, 20))
    if th:
        M.append(("circle5_L2", "hypercube", 2, "general", {"file": os.path.join(MESHDIR, "unit_circle_quad_5.xml"), "nref": 2}, 80))
    # ---- triangles ----
    for L in range(0, 4 if th else 3):
        M.append(("utri_L%d" % L, "simplex", 2, "box", {"fac": "unitcube", "level": L}, 2 * 4 ** L))
    M.append(("twotria", "simplex", 2, "affine", {"raw": {"X": [[0, 0], [8, 0], [2, 6], [10, 4]], "cs": 2, "cells": [[0, 1, 2], [3, 2, 1]], "route": "deduct"}}, 2))
    M.append(("circtri4_L0", "simplex", 2, "affine", {"file": os.path.join(MESHDIR, "unit_circle_tria_4.xml"), "nref": 0}, 4))
    M.append(("circtri4_L1", "simplex", 2, "affine", {"file": os.path.join(MESHDIR, "unit_circle_tria_4.xml"), "nref": 1}, 16))
    # ---- hexahedra ----
    for L in range(0, 3 if th else 2):
        M.append(("ucube_L%d" % L, "hypercube", 3, "box", {"fac": "unitcube", "level": L}, 8 ** L))
    M.append(("struct_2x1x4", "hypercube", 3, "box", {"fac": "struct", "nx": 2, "ny": 1, "nz": 4}, 8))
    # ---- tetrahedra ----
    M.append(("utet_L0", "simplex", 3, "box", {"fac": "unitcube", "level": 0}, 6))
    if th:
        M.append(("utet_L1", "simplex", 3, "box", {"fac": "unitcube", "level": 1}, 72))
    # ---- shipped meshes (coordinates that are not dyadic are snapped to multiples of 2^-snap; the specification verifies
    #      that the snapped mesh is still valid and of the claimed class) ----
    def shipped(name, shape, dim, cls, ncells, nref=0, snap=None, quick=False):
        if not (th or quick):
            return
        src = {"file": os.path.join(MESHDIR, name + ".xml"), "nref": nref}
        if snap:
            src["snap"] = snap
        mult = (4 if dim == 2 else 8) ** nref
        M.append(("%s_L%d" % (name.replace("-", "_"), nref), shape, dim, cls, src, ncells * mult))
    shipped("l-shape-quad", "hypercube", 2, "affine", 3, quick=True)
    shipped("l-shape-quad", "hypercube", 2, "affine", 3, nref=1)
    shipped("unit-square-quad-aniso", "hypercube", 2, "box", 4)
    shipped("square_circle_hole_quad_9", "hypercube", 2, "general", 8, snap=5, quick=True)
    shipped("square_circle_hole_quad_9", "hypercube", 2, "general", 8, nref=1, snap=5)
    shipped("unit_circle_quad_12", "hypercube", 2, "general", 12, snap=5)
    shipped("flowbench_c2d_01_quad_32", "hypercube", 2, "general", 32, snap=5)
    shipped("l-shape-tria", "simplex", 2, "affine", 12, quick=True)
    shipped("unit_circle_tria_6", "simplex", 2, "affine", 6, snap=5)
    shipped("heat-v77-tria", "simplex", 2, "affine", 32, snap=5)
    shipped("cube_cylinder_hole_hexa_8", "hypercube", 3, "general", 8, snap=4, quick=True)
    shipped("flowbench_s3d_01_hexa_11", "hypercube", 3, "general", 11, snap=5)
    shipped("cube_sphere_hole_hexa_26", "hypercube", 3, "general", 26, snap=4)
    return M


TWOLEVEL = {}   # (shape, dim, space) -> the two-level plan generated by the specification (degree, permutation pairs)


def twolevel_meshes(tier):
    """(coarse mesh name, which set of permutation pairs): the coarse meshes are taken from the catalogue"""
    th = tier == "thorough"
    full = {"usq_L1", "utri_L1"} | ({"ucube_L1", "circle5_L0", "utet_L0"} if th else set())
    cross = {"usq_L0", "usq_L1", "twoquad", "circle5_L0", "utri_L0", "utri_L1", "twotria", "ucube_L0", "utet_L0"}
    if th:
        cross |= {"usq_L2", "ucube_L1", "struct_4x2", "parallelograms", "circle5_L1", "l_shape_quad_L0", "utri_L2", "circtri4_L0", "l_shape_tria_L0", "struct_2x1x4",
                  "square_circle_hole_quad_9_L0", "usq_L3"}
    return full, cross


def gen_plans(chk, tier):
    """TLC enumerates the plans with their job lists"""
    jobs = []
    for shape, dim in sorted(BINARIES):
        if not os.path.exists(os.path.join(vlib.VERIF, "harness", BINARIES[(shape, dim)] + ".cpp")):
            continue
        cfg = "gen_c16_%d_%s%d.cfg" % (os.getpid(), shape, dim)
        with open(os.path.join(vlib.SPEC, cfg), "w") as f:
            f.write("SPECIFICATION Spec\nCONSTANTS DegSlack = %d\n PlanShapes = {\"%s\"}\n PlanDims = {%d}\n PairKind = \"%s\"\n"
                    "INVARIANTS MomLaw FormLaw ProbeLaw Emit\nCHECK_DEADLOCK FALSE\n" % (2 if tier == "thorough" else 0, shape, dim, "same" if (shape, dim) == ("simplex", 3) else "all"))
        jobs.append((cfg, shape, dim))
    plans = {}
    try:
        with cf.ThreadPoolExecutor(max_workers=4) as ex:
            futs = [(ex.submit(vlib.tlc, "Assembly", j[0], timeout=900, xmx="2g", light=True), j) for j in jobs]
            for fu, (cfg, shape, dim) in futs:
                r = fu.result()
                chk.add_tlc(r, "Assembly gen %s%d" % (shape, dim))
                if r.violation:
                    chk.model_violation(r, "Assembly.tla law (%s %d)" % (shape, dim))
                for p in r.printed:
                    pl = p["plan"]
                    plans[(pl["shape"], pl["dim"], pl["class"], pl["test"], pl["trial"])] = p["jobs"]
                    for tl in p.get("twolevel", []):
                        TWOLEVEL[(pl["shape"], pl["dim"], tl["space"])] = tl
    finally:
        for cfg, _, _ in jobs:
            try:
                os.remove(os.path.join(vlib.SPEC, cfg))
            except OSError:
                pass
    return plans


def judge_batches(chk, cases, max_procs=6, target_weight=30000, timeout=1500):
    """write the dumps into ndjson batches, one TLC process (AssemblyCheck) per batch; returns {case id: verdict}"""
    gdir = os.path.join(vlib.BUILD, "gen", chk.pid)
    os.makedirs(gdir, exist_ok=True)
    cases = sorted(cases, key=case_weight, reverse=True)
    batches, cur, w = [], [], 0
    for c in cases:
        cw = case_weight(c)
        if cur and w + cw > target_weight:
            batches.append(cur); cur, w = [], 0
        cur.append(c); w += cw
    if cur:
        batches.append(cur)
    paths = []
    for k, b in enumerate(batches):
        p = os.path.join(gdir, "c16_batch_%d_%d.ndjson" % (os.getpid(), k))
        with open(p, "w") as f:
            for c in b:
                f.write(json.dumps(c, separators=(",", ":")) + "\n")
        paths.append(p)
    verdicts = {}

    def one(p):
        # light: serial GC, C1 only -- these runs are short and interpretive, measured 3-4 x less CPU (and less wall) than the default
        return vlib.tlc("AssemblyCheck", "AssemblyCheck.cfg", env={"C16_BATCH": p}, timeout=timeout, xmx="3g", tag="c16_" + os.path.basename(p), light=True)
    try:
        with cf.ThreadPoolExecutor(max_workers=max_procs) as ex:
            for r, p, b in zip(ex.map(one, paths), paths, batches):
                chk.add_tlc(r, "AssemblyCheck %d cases: %s%s" % (len(b), b[0]["id"], " ..." if len(b) > 1 else ""))
                if r.violation:
                    raise vlib.MachineryError("TLC reported an error while evaluating %s: %s\n%s" % (p, r.violation, r.out[-1500:]))
                for v in r.printed:
                    verdicts[v["id"]] = v
                if len(set(v["id"] for v in r.printed)) != len(b):
                    raise vlib.MachineryError("TLC evaluated %d of %d cases of %s" % (len(r.printed), len(b), p))
    finally:
        for p in paths:
            try:
                os.remove(p)
            except OSError:
                pass
    return verdicts


def restrict(job, routes, vroutes=False):
    """the job with the routes a harness binary executes; the matrix-free routes (vroutes) run in the special-route binaries only"""
    j = dict(job)
    j["routes"] = [r for r in job["routes"] if r in routes]
    if "vroutes" in j and not vroutes:
        j["vroutes"] = []
    return j


def case_weight(c):
    if "fine" in c:
        return sum(c["fine"]["n"]) * 6 + len(c["coup"].get("pairs", [])) // 4
    return sum(c["n"]) * 4 + sum(len(j["obs"].get("ids", [])) for j in c["jobs"]) + sum(len(j["obs"].get("coup", {}).get("pairs", [])) for j in c["jobs"]) // 4


def sig_of(c, fl):
    job = c["jobs"][fl["j"] - 1]["spec"] if fl["j"] >= 1 else None
    if "fine" in c:
        d = fl["d"]
        return {"kind": "twolevel", "pred": fl["p"], "shape": c["shape"], "dim": c["dim"], "class": "", "test": c["space"], "trial": c["space"],
                "mesh": c["meshname"], "op": "2lvl", "detail": d if isinstance(d, str) and len(d) < 24 else "", "fperm": c["fperm"], "cperm": c["cperm"]}
    s = {"kind": "assembly", "pred": fl["p"], "shape": c["shape"], "dim": c["dim"], "class": c["class"], "test": c["test"], "trial": c["trial"],
         "mesh": c["meshname"], "op": "", "detail": ""}
    if job:
        s["op"] = job.get("op", job.get("fn", job.get("bop", {"name": ("bpar:" + "+".join(job["on"])) if job["k"] == "bpar" else "graddiv"})))["name"]
    d = fl["d"]
    s["detail"] = d if isinstance(d, str) and len(d) < 24 else ""
    if fl["p"] == "ApplyBilinear" and isinstance(d, str):
        import re
        mm = re.search(r'r \|-> "(\w+)"', d)       # the matrix-free route of the identity
        s["detail"] = mm.group(1) if mm else ""
    return s


def report_harness_failure(chk, b, c, r):
    oc = r.get("outcome", "bad")
    desc = r.get("why") or ("outcome %s: %s" % (oc, (r.get("stderr") or "")[:600]))
    job = c["jobs"][0] if len(c["jobs"]) == 1 else None
    sig = {"kind": "harness", "pred": "harness:" + str(oc), "shape": c["shape"], "dim": c["dim"], "class": c["class"],
           "test": c["test"], "trial": c["trial"], "mesh": c["meshname"], "detail": "",
           "op": job.get("op", job.get("fn", job.get("bop", {"name": ("bpar:" + "+".join(job["on"])) if job["k"] == "bpar" else "graddiv"})))["name"] if job else ""}
    slim = {k: c[k] for k in c if k != "out"}
    chk.violation(sig, "%s: %s" % (c["id"], " ".join(desc.split())[:500]), {"kind": "case", "harness": b, "case": slim, "result": r})


def run(chk):
    tier = chk.tier
    gdir = os.path.join(vlib.BUILD, "gen", "C16", "run_%d" % os.getpid())
    os.makedirs(gdir, exist_ok=True)
    try:
        _run(chk, tier, gdir)
    finally:
        shutil.rmtree(gdir, ignore_errors=True)


def _run(chk, tier, gdir):
    have = {k: b for k, b in BINARIES.items() if os.path.exists(os.path.join(vlib.VERIF, "harness", b + ".cpp"))}
    specials = {k: b for k, b in SPECIAL_BINS.items() if os.path.exists(os.path.join(vlib.VERIF, "harness", b + ".cpp"))}
    twolevel = os.path.exists(os.path.join(vlib.VERIF, "harness", TWOLEVEL_BIN + ".cpp"))
    targets = sorted(set(have.values())) + sorted(set(specials.values())) + ([TWOLEVEL_BIN] if twolevel else [])
    # one make for every translation unit of the check, the extension's (lib/c16x.py builds them again: a no-op) included
    ext = [] if os.environ.get("C16_ONLY") else c16x.harness_names()
    # (-Og would save 25-35 % of the compile time but makes the 3D special-route harness 1.7 x slower, which dominates the thorough tier)
    paths = dict(zip(targets + ext, vlib.build(targets + ext)))
    plans = gen_plans(chk, tier)
    if not plans:
        raise vlib.MachineryError("the specification generated no plans")
    chk.extra["plans"] = len(plans)
    chk.extra["jobs_in_catalogue"] = sum(len(v) for v in plans.values())

    # ---- cases: every mesh of a class x every plan of that (shape, dim, class) ----
    bycase = {}
    route_cover = {}

    def cases_for(meshes):
        perbin = {}
        for name, shape, dim, cls, src, ncells in meshes:
            if (shape, dim) not in have:
                continue
            for (psh, pd, pcl, test, trial), jobs in plans.items():
                if (psh, pd, pcl) != (shape, dim, cls):
                    continue
                base = {"shape": shape, "dim": dim, "class": cls, "mesh": src, "meshname": name, "test": test, "trial": trial,
                        "dense": ncells <= 8, "pat": ncells <= (300 if dim == 2 else 70)}

                def jkey(j):
                    return json.dumps([shape, dim, cls, test, trial, j["k"], j.get("op", j.get("fn", j.get("bop", {"name": "graddiv"}))), j["deg"], j.get("blocked"), j.get("on"), j.get("defo"), j.get("field")], sort_keys=True)
                js = [restrict(j, SCALAR_ROUTES) for j in jobs if j["k"] not in ("blk", "gd", "bpar")]
                js = [j for j in js if j["ref"] in j["routes"]]
                cid = "%s_%s_%s" % (name, test, trial)
                c = dict(base, id=cid, jobs=js, out=os.path.join(gdir, cid + ".json"))
                perbin.setdefault(have[(shape, dim)], []).append(c)
                bycase[cid] = c
                for j in jobs:
                    route_cover.setdefault(jkey(j), [set(j["routes"]) | set(j.get("vroutes", [])), set()])
                for j in js:
                    route_cover[jkey(j)][1] |= set(j["routes"]) | set(j.get("vroutes", []))
                if (shape, dim) in specials:
                    sj = [restrict(j, SPECIAL_ROUTES + ["classic"], True) for j in jobs if j["k"] == "mat" and set(j["routes"]) & set(SPECIAL_ROUTES)]
                    # the identity values of a job whose reference is the classic route are judged in the scalar-route case of the
                    # same mesh and pair (same matrix, same call); here only the routes are compared with it
                    sj = [dict(j, ids=[]) if j["ref"] == "classic" else j for j in sj]
                    sj += [j for j in jobs if j["k"] in ("blk", "gd", "bpar")]
                    if sj:
                        cid2 = cid + "_sp"
                        c2 = dict(base, id=cid2, jobs=sj, out=os.path.join(gdir, cid2 + ".json"), dense=False, pat=False)
                        perbin.setdefault(specials[(shape, dim)], []).append(c2)
                        bycase[cid2] = c2
                        for j in sj:
                            route_cover[jkey(j)][1] |= set(j["routes"]) | set(j.get("vroutes", []))
        return perbin

    catalogue = mesh_catalogue(tier)
    only = os.environ.get("C16_ONLY")        # development aid: restrict the run to the meshes whose name matches (never for evidence)
    if only:
        import re
        catalogue = [m for m in catalogue if re.search(only, m[0])]
        chk.extra["restricted_to"] = only
    perbin = cases_for(catalogue)
    uncovered = {k: sorted(v[0] - v[1]) for k, v in route_cover.items() if v[0] - v[1]}
    if [k for k in uncovered if tuple(json.loads(k)[:2]) in specials]:
        raise vlib.MachineryError("routes of the catalogue that no harness executes: %s" % list(uncovered.items())[:3])
    nx = {}
    for k, v in uncovered.items():
        kk = json.loads(k)
        nx.setdefault("%s%d" % (kk[0], kk[1]), set()).update(v)
    chk.extra["routes_not_executed"] = {k: sorted(v) for k, v in nx.items()}   # shapes without a special-route harness (tetrahedra)

    # ---- harness: execute and dump ----
    dumps = []
    margin = [0.0]

    def harness_pass(perbin):
        for b, cs in perbin.items():
            t0 = time.time()
            res = vlib.run_cases(paths[b], cs, tmo=300, shards=8)
            vlib.log("[c16] %s: %d cases, %d jobs, %.1fs" % (b, len(cs), sum(len(c["jobs"]) for c in cs), time.time() - t0))
            retry = []
            for c, r in zip(cs, res):
                if r.get("ok") is True:
                    margin[0] = max(margin[0], r.get("margin", 0.0))
                    dumps.append(c)
                elif len(c["jobs"]) > 1:
                    # the case did not complete (FEAT aborts the process): run its jobs one by one to attribute the failure to a job
                    for k, j in enumerate(c["jobs"]):
                        cid = "%s_job%d" % (c["id"], k)
                        c1 = dict(c, id=cid, jobs=[j], out=os.path.join(gdir, cid + ".json"), pat=False, dense=False)
                        retry.append(c1)
                        bycase[cid] = c1
                    c0 = dict(c, id=c["id"] + "_nojob", jobs=[], out=os.path.join(gdir, c["id"] + "_nojob.json"))
                    retry.append(c0)
                    bycase[c0["id"]] = c0
                else:
                    report_harness_failure(chk, b, c, r)
            if retry:
                res = vlib.run_cases(paths[b], retry, tmo=300, shards=8)
                for c, r in zip(retry, res):
                    if r.get("ok") is True:
                        margin[0] = max(margin[0], r.get("margin", 0.0))
                        dumps.append(c)
                    else:
                        report_harness_failure(chk, b, c, r)

    harness_pass(perbin)

    # ---- seeded re-numbered / re-oriented variants (vertex and cell permutation, a rotation of the reference cell per cell;
    #      the admissible rotations come from spec/RefCell.tla through RefCellSanity) ----
    rng = random.Random(vlib.seed())
    r = vlib.tlc("RefCellSanity", timeout=600, light=True)
    chk.add_tlc(r, "RefCellSanity (rotation tables)")
    rots = {(c["fam"], c["dim"]): c["rot"] for c in r.printed}
    nvar = 3 if tier == "thorough" else 1
    maxcells = 100 if tier == "thorough" else 20
    first = {}
    for c in dumps:
        first.setdefault(c["meshname"], c)
    variants = []
    for name, shape, dim, cls, src, ncells in catalogue:
        if ncells > maxcells or name not in first:
            continue
        with open(first[name]["out"]) as f:
            d = json.loads(f.readline())
        raw = {"X": d["X"], "cs": d["G"].bit_length() - 1, "cells": d["vc"]}
        for k in range(nvar):
            nraw, _ = vmeshlib.renumber(raw, rots[(shape, dim)], rng)
            nraw["route"] = "deduct" if (k + len(variants)) % 2 == 0 else "factory"
            variants.append(("%s_perm%d" % (name, k), shape, dim, cls, {"raw": nraw}, ncells))
    chk.extra["renumbered_variants"] = len(variants)
    harness_pass(cases_for(variants))
    margin = margin[0]
    chk.extra["max_projection_margin"] = margin

    # ---- two-level (inter-mesh) sparsity contract: coarse mesh + its refinement, every permutation pair of the plan ----
    dumps2 = []
    if twolevel and TWOLEVEL:
        fullset, crossset = twolevel_meshes(tier)
        cs2 = []
        for name, shape, dim, cls, src, ncells in catalogue:
            if name not in fullset and name not in crossset:
                continue
            if dim == 3 and shape == "hypercube" and cls != "box":
                continue
            # quick tier: the full 8 x 8 table for one space per mesh, the cross (one level permuted, or both alike) for all spaces
            for (psh, pd, space), tl in sorted(TWOLEVEL.items()):
                if (psh, pd) != (shape, dim):
                    continue
                pairs = tl["full"] if (name in fullset and (tier == "thorough" or space == "lagrange2")) else tl["cross"]
                if name not in crossset and name in fullset and tier != "thorough" and space != "lagrange2":
                    continue
                mult = (4 if dim == 2 else (8 if shape == "hypercube" else 12))
                for fp, cp in pairs:
                    cid = "%s_2lvl_%s_%s_%s" % (name, space, fp, cp)
                    c = {"kind": "2lvl", "id": cid, "shape": shape, "dim": dim, "mesh": src, "meshname": name, "space": space, "deg": tl["deg"],
                         "fperm": fp, "cperm": cp, "dense": ncells * mult <= 300, "out": os.path.join(gdir, cid + ".json"), "jobs": []}
                    cs2.append(c)
                    bycase[cid] = c
        t0 = time.time()
        res = vlib.run_cases(paths[TWOLEVEL_BIN], cs2, tmo=300, shards=8)
        vlib.log("[c16] %s: %d two-level cases, %.1fs" % (TWOLEVEL_BIN, len(cs2), time.time() - t0))
        for c, r in zip(cs2, res):
            if r.get("ok") is True:
                dumps2.append(c)
            else:
                oc = r.get("outcome", "bad")
                desc = r.get("why") or ("outcome %s: %s" % (oc, (r.get("stderr") or "")[:600]))
                sg = {"kind": "twolevel", "pred": "harness:" + str(oc), "shape": c["shape"], "dim": c["dim"], "class": "", "test": c["space"], "trial": c["space"],
                      "mesh": c["meshname"], "op": "2lvl", "detail": "", "fperm": c["fperm"], "cperm": c["cperm"]}
                chk.violation(sg, "%s: %s" % (c["id"], " ".join(desc.split())[:500]),
                              {"kind": "case", "harness": TWOLEVEL_BIN, "case": {k: c[k] for k in c if k != "out"}, "result": r})
        chk.extra["twolevel_cases"] = len(cs2)

    # ---- TLC judges every dump ----
    full = []
    for c in dumps + dumps2:
        with open(c["out"]) as f:
            d = json.loads(f.readline())
        d["meshname"] = c["meshname"]
        d.setdefault("jobs", [])
        full.append(d)
    verdicts = judge_batches(chk, full, max_procs=6,
                                        target_weight=1 if os.environ.get("C16_PROFILE") else (30000 if tier == "quick" else 60000))
    if os.environ.get("C16_PROFILE"):
        for t in sorted(chk.tlc_runs, key=lambda t: -t["wall_s"])[:25]:
            vlib.log("[c16-profile] %s %.1fs" % (t["run"], t["wall_s"]))
    nids = nundec = 0
    for d in full:
        v = verdicts.get(d["id"])
        if v is None:
            raise vlib.MachineryError("no verdict for " + d["id"])
        nids += v["nids"]
        nundec += v["nundec"]
        njobs = len(d["jobs"])
        chk.count(d["id"], njobs > 0 or "fine" in d, n=max(1, njobs))
        for fl in v["fails"]:
            if fl["p"].startswith("MACHINERY"):
                raise vlib.MachineryError("%s: %s" % (d["id"], fl))
            c = bycase[d["id"]]
            slim = {k: c[k] for k in c if k != "out"}
            job = d["jobs"][fl["j"] - 1] if fl["j"] >= 1 else None
            chk.violation(sig_of(d, fl), "%s: %s does not hold (job %s, %s)" % (d["id"], fl["p"], json.dumps(job["spec"].get("op", job["spec"].get("fn", job["spec"].get("bop", {x: job["spec"].get(x) for x in ("k", "blocked", "on", "defo", "field")})))) if job else "-", fl["d"]),
                          {"kind": "case", "harness": "c16", "case": slim, "fail": fl, "obs": job["obs"] if job else None})
    if nids and nundec * 20 > nids:
        raise vlib.MachineryError("%d of %d identity values were not decidable within the rounding bound" % (nundec, nids))
    summ = {}
    for sg, _, _ in chk.violations:
        k = "%s|%s|%s" % (sg.get("pred"), sg.get("op"), sg.get("detail"))
        summ[k] = summ.get(k, 0) + 1
    chk.extra["violation_summary"] = summ
    chk.traces = len(full)
    chk.extra["identity_values_judged"] = nids
    chk.extra["identity_values_undecidable"] = nundec
    chk.extra["meshes"] = sorted(set(d["meshname"] for d in full))
    chk.exhaustive = True
    chk.rule = ("TLC enumerates (spec/Assembly.tla) every plan = (shape, dim, mesh class, test space, trial space) with every operator / functional "
                "of the catalogue, the routes defined for it, the cubature degrees Req..Req+slack, the alphas of AssembleTwice and every monomial pair "
                "(u,v) of the spaces; each plan is executed on every mesh of its class; one evaluation = one job on one mesh (all its routes and "
                "identities), judged by TLC against spec/AssemblyCheck.tla; non-trivial = the case has at least one job; distinct = mesh x pair; "
                "blocked, gradient and Burgers-kind scalar jobs additionally carry their matrix-free routes (apply1/apply2 with blocked vectors, "
                "Burgers vector assemblers / jobs, voxel defect, GradOperatorAssembler vector variant): route(x) = A_ref x for a generic x, the "
                "repeat semantics of the route, and the exact value of (v e_row)^T route(P) for every probe field P x test monomial v of degree <= 1 x row")
    for d in full[:3]:
        chk.sample({"id": d["id"], "n": d["n"], "jobs": [j["spec"].get("op", j["spec"].get("fn", j["spec"].get("bop", j["spec"]["k"]))) for j in d["jobs"]][:6], "verdict": verdicts[d["id"]]})
    chk.assumptions = [
        "values of integrals are decided through scaled integers: |v*S - round(v*S)| <= tol*S with tol = 4096*eps*mag*W (mag from the mass/Laplace "
        "diagonals by Cauchy-Schwarz, W = sum over the pattern of |u_i||v_j|) and tol*S < 1/4; otherwise the value counts as undecidable (reported)",
        "the interpolant of a monomial is formed by the harness from point values at entity barycentres in the specification's dof numbering "
        "(disc1: FEAT's own node functionals)",
        "the claimed mesh class (box / affine / general) is verified by the specification from the dumped integer coordinates",
        "threading is out of scope (C17): DomainAssembler runs with 0 worker threads",
        "matrix-free routes: apply2 is called with the one space of a blocked job in both roles (rectangular apply2 is covered by the scalar "
        "jobs on mixed pairs); BurgersAssemblerCarreau::assemble_vector (non-linear viscosity) and StokesFBMAssembler are not reached"]
    # extension (lib/c16x.py): TraceAssembler selection machine + facet integrals, error computers / function-integral jobs, filter
    # assemblers, remaining common operators; adds to chk.traces
    if not os.environ.get("C16_ONLY"):
        c16x.run_ext(chk)



def replay(obj):
    """re-execute the cases of a replay file through the harness and the specification; rc 1 if a verdict still fails"""
    ext = [v for v in obj["violations"] if v.get("replay") and str(v["replay"].get("harness", "")).startswith("c16x")]
    if ext:
        import importlib.util
        sp = importlib.util.spec_from_file_location("check_C16x", os.path.join(vlib.VERIF, "checks", "C16x.py"))
        m = importlib.util.module_from_spec(sp); sp.loader.exec_module(m)
        return m.replay({"violations": ext})
    tmp = os.path.join(vlib.BUILD, "gen", "C16", "replay_%d" % os.getpid())
    os.makedirs(tmp, exist_ok=True)
    chk = vlib.Check("C16")
    bad = 0
    try:
        seen = set()
        for v in obj["violations"]:
            rp = v.get("replay") or {}
            c = rp.get("case")
            if not c or c["id"] in seen:
                continue
            seen.add(c["id"])
            if c.get("kind") == "2lvl":
                binary, = vlib.build([TWOLEVEL_BIN])
                c = dict(c, out=os.path.join(tmp, c["id"] + ".json"))
                r = vlib.run_cases(binary, [c], tmo=300, shards=1)[0]
                if r.get("ok") is not True:
                    print(json.dumps({"case": c["id"], "harness": r})[:600]); bad += 1; continue
                with open(c["out"]) as f:
                    d = json.loads(f.readline())
                d["meshname"] = c["meshname"]; d["jobs"] = []
                vd = judge_batches(chk, [d], max_procs=1)[d["id"]]
                print(json.dumps({"case": c["id"], "fails": vd["fails"][:8]})[:1200])
                bad += 1 if vd["fails"] else 0
                continue
            key = (c["shape"], c["dim"])
            special = any(j["k"] in ("blk", "gd", "bpar") or set(j["routes"]) & set(SPECIAL_ROUTES) for j in c["jobs"])
            b = (SPECIAL_BINS if special else BINARIES)[key]
            binary, = vlib.build([b])
            c = dict(c, out=os.path.join(tmp, c["id"] + ".json"))
            r = vlib.run_cases(binary, [c], tmo=300, shards=1)[0]
            if r.get("ok") is not True:
                print(json.dumps({"case": c["id"], "harness": r})[:600])
                bad += 1
                continue
            with open(c["out"]) as f:
                d = json.loads(f.readline())
            d["meshname"] = c["meshname"]
            vd = judge_batches(chk, [d], max_procs=1)[d["id"]]
            print(json.dumps({"case": c["id"], "fails": vd["fails"][:8]})[:1200])
            kn = [fl for fl in vd["fails"] if not any(kf.get("status") == "known" and vlib._match(sig_of(d, fl), kf.get("match", {})) for kf in chk.known)]
            if kn:
                bad += 1
    finally:
        shutil.rmtree(tmp, ignore_errors=True)
    return 1 if bad else 0
