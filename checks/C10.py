"""C10: refined meshes are conforming and every mesh part follows its parent entities.

spec/RefCell.tla (reference cells from the documentation), spec/MeshGen.tla (TLC generates every gluing of two
reference cells, every rotation of a single cell, 2D three-cell chains, each with a catalogue of mesh parts),
spec/MeshGenX.tla (on the same meshes: mesh parts WITH their own topology in every orientation code relative to their
parent entities - RefCell!Aut - and the (mode, chart) configurations of RootMeshNode::refine_unique(AdaptMode)),
spec/MeshTopo.tla + MeshTopoCheck.tla (TLC judges the levels the real code produced; adaption modes: SameTopology,
ChartFrame, GraphChartRule, DualRule, DualVolume), harness/c10_mesh.cpp, harness/c10_adapt.cpp.
"""
import glob, json, os, random, re, shutil, time
import concurrent.futures as cf
import vlib, vmeshlib, c10x

LEVEL = "model_checking"
MESHDIR = os.path.join(vlib.REPO, "data", "meshes")
SHAPES = [("simplex", 2), ("simplex", 3), ("hypercube", 2), ("hypercube", 3)]


def gen_configs(tier):
    """(fam, dim, mode, partlevel, nref)"""
    out = []
    for fam, dim in SHAPES:
        # quick: 3D pairs are refined once (every 8th twice, see below); thorough: all twice
        out.append((fam, dim, "pair", 2, 2))
        out.append((fam, dim, "single", 2, 3 if (dim == 2 or tier == "thorough") else 2))
        if dim == 2:
            out.append((fam, dim, "chain", 2 if tier == "thorough" else 1, 2))
    return out


def mesh_files():
    out = []
    for p in sorted(glob.glob(os.path.join(MESHDIR, "*.xml"))):
        with open(p) as f:
            head = f.read(20000)
        m = re.search(r'<Mesh\s+type="conformal:(\w+):(\d):(\d)"\s+size="([^"]*)"', head)
        if not m or m.group(2) != m.group(3):
            continue
        sizes = [int(x) for x in m.group(4).split()]
        out.append((p, m.group(1), int(m.group(2)), sizes[-1]))
    return out


# shipped files that are not valid conforming meshes (data, not code): excluded with the reason, listed in the evidence
EXCLUDED_FILES = {"druda_bench_01_tria.xml": "edges 10 (4,0) and 15 (9,5) of the file belong to no triangle (FacetCount fails on the file itself)"}


def pick_files(tier):
    files = [f for f in mesh_files() if os.path.basename(f[0]) not in EXCLUDED_FILES]
    if tier == "thorough":
        return [f for f in files if (f[2] == 2 and f[3] <= 1500) or (f[2] == 3 and f[3] <= 800)]
    quick = {"unit-square-quad.xml", "unit-square-tria.xml", "unit-cube-hexa.xml", "unit-cube-tetra.xml", "unit-sphere-tetra.xml",
             "unit-sphere-hexa.xml", "l-shape-quad.xml", "l-shape-tria.xml", "unit_circle_quad_5.xml", "unit_circle_tria_6.xml",
             "unit_ring_quad_32.xml", "flowbench_c2d_01_quad_32.xml", "flowbench_c2d_00_quad_130.xml", "venturi-pipe-tria.xml", "z-pipe-1-tria.xml",
             "cube_cylinder_hole_hexa_8.xml", "cube_sphere_hole_hexa_26.xml", "flowbench_s3d_01_hexa_11.xml", "flowbench_c3d_00_hexa_48.xml",
             "split_recombine_hexa_42.xml", "t_mixer_01_hexa_38.xml", "unit_shell_hexa_24.xml", "square_circle_hole_quad_9.xml",
             "heat-v77-tria.xml", "nozzle-2-quad.xml", "unit-square-quad-aniso.xml", "druda_bench_01_tria.xml", "stickslip_01_quad_35.xml"}
    return [f for f in files if os.path.basename(f[0]) in quick]


def nref_for(ncells, dim, fam, maxcells, maxref):
    mult = 12 if (fam == "simplex" and dim == 3) else (1 << dim)
    L = 0
    while L < maxref and ncells * mult ** (L + 1) <= maxcells:
        L += 1
    return L


MODES = ("none", "chart", "dual", "chartdual")
# shipped mesh files with charts (Circle, Sphere, Extrude, Bezier with and without explicit parametrisation) for the adapt modes
CHART_FILES_QUICK = ("unit_circle_quad_5.xml", "unit_circle_tria_6.xml", "square_circle_hole_quad_9.xml", "unit-sphere-hexa.xml",
                     "cube_cylinder_hole_hexa_8.xml", "flowbench_s3d_01_hexa_11.xml", "unit-sphere-tetra.xml", "l-shape-quad.xml",
                     "nozzle-1-quad.xml", "heat-v77-quad.xml", "unit_ring_fbm_quad_4.xml", "unit-square-quad.xml")


def adapt_cases(tier, adapt_src, maxcells):
    """cases of RootMeshNode::refine_unique(AdaptMode) (harness/c10_adapt.cpp).  (mesh, chart) configurations and the mode
    list come from spec/MeshGenX.tla; quick runs a rotating selection of them, thorough all."""
    out = []

    def pick(c, name, newname, extra):
        for p in c["parts"]:
            if p.get("name") == name:
                q = dict(p); q["name"] = newname; q.update(extra)
                return [q]
        return []
    for i, (c, modes, charts) in enumerate(adapt_src):
        fam, dim, gmode = c["fam"], c["dim"], c["mode"]
        oparts = [p for p in c["parts"] if "tidx" in p]
        parts = [{"name": "bnd", "boundary": True}] + pick(c, "fc1", "halo0", {"as": "halo", "rank": 3}) \
            + pick(c, "cc1", "patch0", {"as": "patch", "rank": 0}) + pick(c, "fb1", "fbare", {}) + pick(c, "vb1", "vone", {}) \
            + pick(c, "ec1", "halo_edge", {"as": "halo", "rank": 5}) + pick(c, "vb2", "halo_vertex", {"as": "halo", "rank": 6})   # halos without any facet (3D: an edge, a vertex)
        if oparts:
            parts.append(oparts[i % len(oparts)])
            parts.append(oparts[(7 * i + 3) % len(oparts)] if len(oparts) > 1 else None)
            if parts[-1] is None or parts[-1]["name"] == parts[-2]["name"]:
                parts.pop()
        confs = []       # (mode, chart or None)
        if tier == "thorough" or (dim == 2 and gmode != "chain") :
            for m in modes:
                confs.append((m, None))
                if charts:
                    confs.append((m, charts[(i + len(confs)) % len(charts)]))
            if tier == "thorough" and charts:
                for k, g in enumerate(charts):
                    confs.append(("chartdual", g))
        elif gmode == "single":
            for k, m in enumerate(modes):
                confs.append((m, charts[(i + k) % len(charts)] if (charts and (i + k) % 2 == 0) else None))
            confs.append(("chartdual", charts[i % len(charts)] if charts else None))
        else:
            # 3D pairs, 2D chains: one straight and one charted configuration per mesh, modes rotating
            confs.append((modes[i % len(modes)], None))
            if charts:
                confs.append((("chart", "chartdual", "chartdual")[i % 3], charts[i % len(charts)]))
        seen = set()
        for m, g in confs:
            key = (m, json.dumps(g, sort_keys=True))
            if key in seen:
                continue
            seen.add(key)
            # the chain stays dyadic unless a chart is in effect together with the dual adaption of hexahedra (division by 6)
            fixedmode = (g is not None and m == "chartdual" and fam == "hypercube" and dim == 3)
            nref = 1 if (fixedmode or (dim == 3 and tier == "quick" and gmode != "single")) else 2
            a = {"kind": "adapt", "id": "adapt_%s_%s_%d" % (c["id"][4:], m, len(seen)), "fam": fam, "dim": dim, "src": c["src"],
                 "srcname": "adapt:" + c["srcname"], "mode": m, "nref": nref, "maxcells": maxcells, "via": "adapt", "parts": parts}
            if g is not None:
                a["gchart"] = g
            out.append(a)
    # structured factories, all modes (straight meshes: every mode must reproduce the plain refinement)
    for fam, dim in SHAPES:
        tet = (fam, dim) == ("simplex", 3)     # the factories split every cube into 24 tetrahedra, each refined into 12
        for nm, src, nref in (("unitcube", {"fac": "unitcube", "level": 0 if tet else 1}, 2 if (dim == 2 or (tier == "thorough" and not tet)) else 1),
                              ("struct", {"fac": "struct", "nx": 2 if tet else 3, "ny": 1 if tet else 2, "nz": 1 if tet else 2},
                               2 if (dim == 2 and tier == "thorough") else 1)):
            for m in MODES:
                out.append({"kind": "adapt", "id": "adapt_fac_%s_%s%d_%s" % (nm, fam, dim, m), "fam": fam, "dim": dim, "src": src,
                            "srcname": "adapt:factory:" + nm, "mode": m, "nref": nref, "maxcells": maxcells, "via": "adapt",
                            "parts": [{"name": "bnd", "boundary": True}, {"name": "patch0", "as": "patch", "rank": 1, "cellidx": [0, 1], "deduce": "top"}]})
    # shipped mesh files with their charts (atlas): chart / chart|dual / dual (mode none is the plain file case)
    for path, fam, dim, ncells in mesh_files():
        base = os.path.basename(path)
        if base in EXCLUDED_FILES:
            continue
        with open(path) as f:
            if "<Chart" not in f.read():
                continue
        if tier == "quick" and base not in CHART_FILES_QUICK:
            continue
        if ncells > (400 if dim == 3 else 800) or ncells * (12 if (fam, dim) == ("simplex", 3) else (1 << dim)) > maxcells:
            continue
        for m in ("chart", "chartdual", "dual"):
            if m != "chart" and fam == "simplex" and tier == "quick":
                continue
            out.append({"kind": "adapt", "id": "adapt_file_%s_%s" % (base[:-4], m), "fam": fam, "dim": dim, "src": {"file": path},
                        "srcname": "adapt:file:" + base, "mode": m, "nref": 1, "maxcells": maxcells, "via": "adapt"})
    return out


def run(chk):
    tier = chk.tier
    rng = random.Random(vlib.seed())
    binary, abinary = vlib.build(["c10_mesh", "c10_adapt"])
    gdir = os.path.join(vlib.BUILD, "gen", "C10", "run_%d" % os.getpid())
    os.makedirs(gdir, exist_ok=True)
    try:
        _run(chk, tier, rng, binary, abinary, gdir)
    finally:
        shutil.rmtree(gdir, ignore_errors=True)
        for p in glob.glob(os.path.join(vlib.SPEC, "gen_c10_%d_*.cfg" % os.getpid())):
            os.remove(p)


def hname(c):
    return "c10_adapt" if c.get("kind") == "adapt" else "c10_mesh"


def route_of(c):
    src = c["src"]
    if "raw" in src:
        return src["raw"].get("route", "factory")
    return "file" if "file" in src else "factory-class"


def sig_mesh(c, pred, lev, part):
    pk = re.sub(r"\d+$", "", part) if part else ""
    if re.match(r"o\d[spak]", part or ""):
        pk = "oriented%s" % part[1]
    return {"kind": "mesh", "src": c["srcname"], "fam": c["fam"], "dim": c["dim"], "pred": pred, "level": lev, "partkind": pk,
            "via": c.get("via", "node"), "route": route_of(c), "perm": c.get("perm", ""), "mode": c.get("mode", "") if c.get("kind") == "adapt" else ""}


def _run(chk, tier, rng, binary, abinary, gdir):
    # ---- 1. the reference cells: sanity theorems (M) and cross-check of the documented tables against the code ----
    r = vlib.tlc("RefCellSanity", timeout=600)
    chk.add_tlc(r, "RefCellSanity")
    if r.violation:
        chk.model_violation(r, "RefCellSanity")
        return
    refcases = r.printed
    rots = {(c["fam"], c["dim"]): c["rot"] for c in refcases}
    auts = {c["fam"]: (c["aut"], c["etab"]) for c in refcases}
    res = vlib.run_cases(binary, refcases, tmo=20, shards=1)
    vlib.judge_results(chk, refcases, res, lambda c, rr: {"kind": "refcell", "fam": c["fam"], "dim": c["dim"], "outcome": rr.get("outcome", "mismatch")},
                       keyf=lambda c: "refcell %s %d" % (c["fam"], c["dim"]), harness="c10_mesh")

    vlib.log("[C10] phase refcell done %.1fs" % (time.time() - chk.t0))
    # ---- 2. TLC generates the small meshes ----
    cases = []
    jobs = []
    noparts = 0
    adapt_src = []
    for k, (fam, dim, mode, pl, nref) in enumerate(gen_configs(tier)):
        cfg = "gen_c10_%d_%d.cfg" % (os.getpid(), k)
        with open(os.path.join(vlib.SPEC, cfg), "w") as f:
            f.write("SPECIFICATION SpecX\nCONSTANTS Fam = \"%s\" Dim = %d Mode = \"%s\" PartLevel = %d OriLevel = %d\n"
                    "INVARIANTS AllPositive Conforming GluedOnFacet OrientedPartsOK EmitX\nCHECK_DEADLOCK FALSE\n"
                    % (fam, dim, mode, pl, 2 if tier == "thorough" else 1))
        jobs.append((cfg, fam, dim, mode, nref))
    with cf.ThreadPoolExecutor(max_workers=6) as ex:
        futs = [(ex.submit(vlib.tlc, "MeshGenX", j[0], timeout=900, xmx="2g"), j) for j in jobs]
        for fu, (cfg, fam, dim, mode, nref) in futs:
            rr = fu.result()
            chk.add_tlc(rr, "MeshGen %s%d %s" % (fam, dim, mode))
            if rr.violation:
                chk.model_violation(rr, "MeshGen invariant (%s %d %s)" % (fam, dim, mode))
                continue
            for i, c in enumerate(rr.printed):
                c["srcname"] = "gen:" + mode
                c["id"] = "gen_%s%d_%s_%d" % (fam, dim, mode, i)
                c["nref"] = nref
                if tier == "quick" and dim == 3 and mode == "pair" and i % 8 != 0:
                    c["nref"] = 1
                # refinement route: RootMeshNode::refine_unique | StandardRefinery objects | one mesh object overwritten in place
                # by its refinement (mesh = std::move(fine), repeatedly)
                c["via"] = ("node", "node", "refinery", "inplace", "node", "refinery")[i % 6]
                # route "deduct" = ConformalMesh::deduct_topology_from_top (with boundary facet re-orientation),
                # route "factory" = RedundantIndexSetBuilder only (what the mesh file reader does)
                c["src"]["raw"]["route"] = "deduct" if i % 2 == 0 else "factory"
                # mesh parts with their own topology in every orientation relative to their parent entities (MeshGenX!OrientedPart)
                oparts = c.pop("oparts", [])
                noparts += len(oparts)
                c["parts"] = c["parts"] + oparts
                adapt_src.append((c, c.pop("modes", []), c.pop("charts", [])))
                cases.append(c)
    ngen = len(cases)
    chk.extra["generated_meshes"] = ngen
    chk.extra["oriented_topology_parts"] = noparts

    vlib.log("[C10] phase generation done %.1fs" % (time.time() - chk.t0))
    # ---- 3. shipped mesh files and structured factories ----
    maxcells = 20000 if tier == "thorough" else 3000
    maxref = 3 if tier == "thorough" else 2
    nvar = 3 if tier == "thorough" else 1
    filecases = []
    for path, fam, dim, ncells in pick_files(tier):
        L = nref_for(ncells, dim, fam, maxcells, maxref)
        if L < 1:
            continue
        filecases.append({"kind": "mesh", "id": "file_" + os.path.basename(path)[:-4], "fam": fam, "dim": dim, "src": {"file": path},
                          "srcname": "file:" + os.path.basename(path), "nref": L, "maxcells": maxcells, "via": "node"})
    faccases = []
    for fam, dim in SHAPES:
        # cells of the factory meshes: unit cube = 1 (hypercube), 4 triangles, 24 tetrahedra; structured 3x2(x2) likewise per cube
        per = 1 if fam == "hypercube" else (4 if dim == 2 else 24)
        mult = 12 if (fam, dim) == ("simplex", 3) else (1 << dim)
        facs = [("unitcube", {"fac": "unitcube", "level": 1}, per * mult)]
        if tier == "thorough":
            facs.append(("unitcube2", {"fac": "unitcube", "level": 2}, per * mult * mult))
        facs.append(("struct", {"fac": "struct", "nx": 3, "ny": 2, "nz": 2}, per * (6 if dim == 2 else 12)))
        if dim == 2:
            facs.append(("star", {"fac": "star"}, 8))
        for nm, src, nc in facs:
            L = nref_for(nc, dim, fam, maxcells, maxref)
            for via in ("node", "refinery", "inplace"):
                faccases.append({"kind": "mesh", "id": "fac_%s_%s%d_%s" % (nm, fam, dim, via), "fam": fam, "dim": dim, "src": src,
                                 "srcname": "factory:" + nm, "nref": max(1, L), "maxcells": maxcells, "via": via,
                                 "parts": [{"name": "bnd", "boundary": True}]})
    # renumbering of the whole node: RootMeshNode::create_permutation with every PermutationStrategy, on meshes that carry
    # mesh parts of all dimensions (boundary, file parts, cell subsets with and without closure), then refinement
    STRATEGIES = ["random", "lexicographic", "colored", "cuthill_mckee", "cuthill_mckee_reversed", "geometric_cuthill_mckee",
                  "geometric_cuthill_mckee_reversed"]
    permcases = []

    def cellparts(nc):
        sub = sorted(rng.sample(range(nc), max(1, nc // 3)))
        bare = rng.sample(range(nc), max(1, min(3, nc // 4)))
        return [{"name": "vbnd", "boundary": True}, {"name": "vsub", "cellidx": sub, "deduce": "top"}, {"name": "vbare", "cellidx": bare},
                {"name": "vone", "cellidx": [nc - 1], "deduce": "top"}]
    pbases = []
    for fam, dim in SHAPES:
        per = 1 if fam == "hypercube" else (4 if dim == 2 else 24)
        mult = 12 if (fam, dim) == ("simplex", 3) else (1 << dim)
        lev = 2 if (fam, dim) == ("hypercube", 2) else (0 if (fam, dim) == ("simplex", 3) else 1)
        pbases.append(("factory:unitcube", fam, dim, {"fac": "unitcube", "level": lev}, per * mult ** lev))
        pbases.append(("factory:struct", fam, dim, {"fac": "struct", "nx": 3, "ny": 2, "nz": 2}, per * (6 if dim == 2 else 12)))
    pf = {"unit-square-quad.xml", "l-shape-tria.xml", "unit_circle_quad_5.xml", "cube_cylinder_hole_hexa_8.xml", "unit-cube-tetra.xml", "unit_ring_quad_32.xml"}
    for path, fam, dim, ncells in pick_files(tier):
        if tier == "thorough" or os.path.basename(path) in pf:
            if ncells * (12 if (fam, dim) == ("simplex", 3) else (1 << dim)) <= maxcells:
                pbases.append(("file:" + os.path.basename(path), fam, dim, {"file": path}, ncells))
    for name, fam, dim, src, nc in pbases:
        for st in STRATEGIES:
            if tier == "thorough" and name.startswith("file:") and nc > 300 and st not in ("lexicographic", "random", "cuthill_mckee"):
                continue
            permcases.append({"kind": "mesh", "id": "perm_%s_%s%d_%s" % (re.sub(r"[^A-Za-z0-9]+", "_", name), fam, dim, st), "fam": fam, "dim": dim,
                              "src": src, "srcname": "renumber:" + name, "nref": 1, "maxcells": maxcells, "via": "node", "perm": st,
                              "parts": cellparts(nc)})
    chk.extra["renumbering_cases"] = len(permcases)
    acases = adapt_cases(tier, adapt_src, maxcells)
    chk.extra["adapt_mode_cases"] = len(acases)
    chk.extra["adapt_mode_cases_by_mode"] = {m: sum(1 for a in acases if a["mode"] == m) for m in MODES}
    chk.extra["adapt_mode_cases_with_chart"] = sum(1 for a in acases if "gchart" in a or "file" in a["src"])
    cases += filecases + faccases + permcases + acases
    # development aid (never set by bin/check users; recorded in the evidence if it is): restrict the case sources
    dev = os.environ.get("C10_DEV_ONLY")
    if dev:
        keep = set(dev.split(","))
        chk.extra["dev_restricted"] = dev
        vlib.log("[C10] WARNING: development run restricted to " + dev)
        cases = [c for c in cases if c["id"].split("_")[0] in keep and (os.environ.get("C10_DEV_MATCH", "") in c["id"])]

    failed = []   # (case, result) of cases the harness could not complete

    def harness_pass(cs, record_failures=True):
        for c in cs:
            c["out"] = os.path.join(gdir, c["id"] + ".json")
        res = [None] * len(cs)
        for bin_, sel in ((binary, [k for k, c in enumerate(cs) if c["kind"] != "adapt"]), (abinary, [k for k, c in enumerate(cs) if c["kind"] == "adapt"])):
            for k, rr in zip(sel, vlib.run_cases(bin_, [cs[k] for k in sel], tmo=120, shards=8)):
                res[k] = rr
        good = []
        for c, rr in zip(cs, res):
            if rr.get("ok") is True and rr.get("skip"):
                chk.extra.setdefault("skipped", []).append("%s: %s" % (c["id"], rr.get("why")))
                continue
            if rr.get("ok") is True:
                good.append(c)
                if rr.get("fixed"):
                    chk.extra["adapt_fixed_point_cases"] = chk.extra.get("adapt_fixed_point_cases", 0) + 1
                chk.extra["max_proj_margin"] = max(chk.extra.get("max_proj_margin", 0.0), rr.get("margin", 0.0))
                continue
            if record_failures:
                failed.append((c, rr))
        return good

    good = harness_pass(cases)

    vlib.log("[C10] phase harness pass 1 done %.1fs" % (time.time() - chk.t0))
    # ---- 4. seeded re-numbered / re-oriented variants of the file and factory meshes ----
    variants = []
    for c in good:
        if not (c["srcname"].startswith("file:") or c["srcname"].startswith("factory:")):
            continue
        with open(c["out"]) as f:
            d = json.loads(f.readline())
        M0 = d["levels"][0]
        dim, fam = c["dim"], c["fam"]
        raw = {"X": M0["X"], "cs": d["K"], "cells": vmeshlib.idx_of(M0, dim, 0)}
        parts = []
        for p in M0["parts"]:
            ents = [[vmeshlib.verts_of(M0, e, i) for i in p["t"][e]] for e in range(dim + 1)]
            dup = any(len(set(p["t"][e])) != len(p["t"][e]) for e in range(dim + 1))
            parts.append({"name": p["name"], "ents": ents, "deduce": "none", "topo": bool(p["topo"]) and not dup})
        for k in range(nvar):
            vparts = parts
            if (k + len(variants)) % 2 == 1:
                # every second variant: the parts with own topology get it in a seeded random orientation per entity
                # (every code of RefCell!Aut) instead of the one deduced from the parent
                vparts = []
                for pp in parts:
                    q = c10x.orient_topo_part(pp, auts[fam][0], auts[fam][1], rng) if pp["topo"] else None
                    if q is not None:
                        chk.extra["reoriented_file_part_topologies"] = chk.extra.get("reoriented_file_part_topologies", 0) + 1
                    vparts.append(q if q is not None else pp)
            nraw, nparts = vmeshlib.renumber(raw, rots[(fam, dim)], rng, vparts)
            variants.append({"kind": "mesh", "id": c["id"] + "_perm%d" % k, "fam": fam, "dim": dim, "src": {"raw": nraw},
                             "srcname": "perm:" + c["srcname"], "nref": c["nref"], "maxcells": c["maxcells"], "parts": nparts,
                             "via": ("node", "refinery", "inplace")[(k + len(variants)) % 3]})
            variants[-1]["src"]["raw"]["route"] = "deduct" if (k + len(variants)) % 2 == 0 else "factory"
    good += harness_pass(variants)

    # a case the harness could not complete (abort / exception inside FEAT): was the INPUT level already invalid?  Re-run
    # it without refinement; the specification then judges level 0 alone (root cause), otherwise the failure is reported.
    retry = []
    for c, rr in failed:
        c0 = dict(c); c0["id"] = c["id"] + "_L0"; c0["nref"] = 0; c0["parent_failure"] = rr
        retry.append(c0)
    good0 = harness_pass(retry, record_failures=False)
    ok0 = set(c["id"] for c in good0)
    for c0 in retry:
        if c0["id"] not in ok0:
            rr = c0["parent_failure"]
            desc = rr.get("why") or ("outcome %s: %s" % (rr.get("outcome"), (rr.get("stderr") or "")[:600]))
            chk.violation(sig_mesh(c0, "harness:" + str(rr.get("outcome", "bad")), -1, ""), "%s: %s" % (c0["id"], desc),
                          {"kind": "case", "harness": hname(c0), "case": {k: c0[k] for k in c0 if k != "parent_failure"}, "result": rr})
    good += good0
    chk.extra["file_meshes"] = len(filecases)
    chk.extra["excluded_files"] = EXCLUDED_FILES
    chk.extra["factory_meshes"] = len(faccases)
    chk.extra["renumbered_variants"] = len(variants)

    vlib.log("[C10] phase harness pass 2 done %.1fs" % (time.time() - chk.t0))
    # ---- 5. certificates, TLC judges every dump (streamed: the dumps are never all in memory) ----
    byid = {c["id"]: c for c in good}
    items = [{"id": c["id"], "path": c["out"], "weight": os.path.getsize(c["out"])} for c in good]
    verdicts, infos = vmeshlib.run_tlc_stream(chk, "MeshTopoCheck", "C10_BATCH", items, "c10", prepare="finish_case", max_procs=6,
                                              cap_weight=12000000)
    vlib.log("[C10] phase TLC done %.1fs" % (time.time() - chk.t0))
    full = [infos[c["id"]] for c in good]
    ngeo = sum(1 for fc in full if fc["geo"])
    nlev = 0
    for fc in full:
        c = byid[fc["id"]]
        v = verdicts.get(fc["id"])
        if v is None:
            raise vlib.MachineryError("no verdict for " + fc["id"])
        nlev += fc["nlevels"]
        chk.count(fc["id"], fc["nlevels"] > 1)
        fails = v["fails"]
        for fl in fails:
            if fl["p"].startswith("MACHINERY"):
                raise vlib.MachineryError("%s: %s" % (fc["id"], fl))
        # the refinement relation is only required of a valid input level: if level 0 itself violates a state predicate
        # (mesh construction is under test as well), that root cause is what is reported
        lvl0 = [fl for fl in fails if fl["l"] == 0]
        slim = {k: c[k] for k in c if k not in ("out", "parent_failure")}
        if "parent_failure" in c and not lvl0:
            rr = c["parent_failure"]
            desc = rr.get("why") or ("outcome %s: %s" % (rr.get("outcome"), (rr.get("stderr") or "")[:600]))
            chk.violation(sig_mesh(c, "harness:" + str(rr.get("outcome", "bad")), -1, ""), "%s: valid input, but %s" % (fc["id"], desc),
                          {"kind": "case", "harness": hname(c), "case": slim, "result": rr})
        for fl in (lvl0 or fails):
            chk.violation(sig_mesh(c, fl["p"], fl["l"], fl["part"]),
                          "%s: %s does not hold at level %d%s" % (fc["id"], fl["p"], fl["l"], (" for part " + fl["part"]) if fl["part"] else ""),
                          {"kind": "case", "harness": hname(c), "case": slim, "verdict": v})
    chk.traces = len(full)
    chk.extra["levels_validated"] = nlev
    chk.extra["cases_with_exact_geometry"] = ngeo
    chk.extra["largest_fine_mesh_cells"] = max([fc.get("fine_cells", 0) for fc in full] or [0])
    chk.exhaustive = True
    chk.rule = ("[routes: RootMeshNode::refine_unique with every AdaptMode (none, chart, dual, chart|dual), StandardRefinery objects, one mesh refined in place by move-assignment; "
                "RootMeshNode::create_permutation with all 7 strategies judged by Relabelled/PartRelabelled/PermutationsStored] TLC enumerates (spec/MeshGen.tla) every gluing of two reference cells (all facets x all admissible vertex bijections), every "
                "rotation of the single cell and every 2D three-cell chain, each with its catalogue of mesh parts; (spec/MeshGenX.tla) on these meshes mesh parts WITH own topology whose entities carry "
                "every orientation code relative to their parent entity (single cell: every (edge | face | 2D cell) x every code of RefCell!Aut - 2 / 6 / 8 -; 2D pairs: every pair of codes; "
                "3D pairs and chains: all faces / cells with codes running through the group), judged by PartTopologyOK + PartFollows on every refined level; and the adaption configurations "
                "(mode x {no chart, graph chart x_b = c + sgn x_a^2/2^s on a boundary facet}) judged by SameTopology/SameParts/ChartFrame/GraphChartRule/DualRule/DualVolume plus the complete "
                "refinement relation against the unadapted refinement of the same node; plus shipped mesh files (with their Circle/Sphere/Extrude/Bezier charts in the chart modes), "
                "structured factories and seeded re-numbered/re-oriented variants. Each case = all levels produced by the real refinement, "
                "judged by TLC against spec/MeshTopo.tla; non-trivial = at least one refinement; distinct = distinct case id (mesh x route x mode x chart)")
    for fc in full[:3]:
        chk.sample({"id": fc["id"], "n": fc.get("n"), "parts": fc.get("parts"), "verdict": verdicts[fc["id"]]})
    chk.assumptions = ["the origin certificate is computed by the glue code but every entry is checked by the specification (IsParent, VertexOrigin)",
                       "non-dyadic coordinates are snapped to a dyadic grid for the exact checks (a still valid mesh); on the original coordinates "
                       "volume and orientation are decided through the stated floating point projection (64 n eps)",
                       "adapt modes: coordinates are exact integers at scale 2^K (a coordinate may deviate from the dyadic grid by at most 64 eps - the dual "
                       "adaption of hexahedra divides by 6 - which the specification bounds: ProjOnDyadicGrid); where a chart makes them non-dyadic (Circle, Sphere, "
                       "Bezier charts of the shipped files; graph chart + dual adaption in 3D) they are fixed-point numbers at scale 2^K and DualRule is decided with the "
                       "rounding slack nfacets + 1 units (one refinement step only)",
                       "with a chart in effect volume and orientation of the adapted mesh are not claimed (the domain changes); claimed are: unchanged topology and mesh parts, "
                       "only vertices of chart-carrying parts move (ChartFrame), the dual rule, and volume(dual adapted) = volume(chart adapted)",
                       "the graph chart is a harness-side implementation of the public Atlas::ChartBase interface whose map is defined in spec/MeshTopo.tla (GraphChartRule)"]


def replay(obj):
    binary, = vlib.build(["c10_mesh"])
    bad = 0
    for v in obj["violations"]:
        print(json.dumps(v["sig"]), v["desc"][:300])
        bad += 1
    return 1 if bad else 0
