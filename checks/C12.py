"""C12: partitions cover each cell once; neighbouring patches agree on their interface.

spec/Partition.tla (+ PartitionCheck.tla: TLC judges the dumps, PartitionGen.tla: TLC enumerates all cell->rank
assignments), spec/MeshGen.tla (two-cell gluings as base meshes), harness/c12_parti.cpp.
Two-layer (recursive) partitioning - PatchHaloSplitter / PatchMeshPartSplitter, the route of PartiDomainControl with more
than one layer: spec/Partition2L.tla (+ Partition2LCheck.tla, PartitionGen2L.tla: TLC enumerates all two-level set
partitions), harness/c12_twolayer.cpp.
Decompositions into MANY small patches (64..288 patches, each far below 1/32 of the cells, irregular shapes):
spec/PartitionGenMany.tla (TLC enumerates sheared / staircase block partitions, all balanced splittings of 8-cell tiles,
runs, pseudo-random and Voronoi assignments), compact dumps of harness/c12_parti.cpp judged by spec/PartitionManyCheck.tla
(level 0 by Partition.tla verbatim, refined levels through an entity table), lib/c12_many.py.
Meshes whose WORLD dimension exceeds the shape dimension (quadrilateral / triangle surface meshes in 3D, edge meshes in 2D and 3D):
spec/PartitionGenEmbed.tla enumerates the base meshes, harness/c12_embed.cpp (ConformalMesh<Shape_, wdim_>), lib/c12_embed.py; judged by
PartitionCheck.tla like every other dump - PatchIsSubmesh compares ALL world coordinates of every patch vertex, on every level.
MPI route: the real control layer Control::Domain::PartiDomainControl on 2..16 processes (single- and multi-layered hierarchies with
several progeny groups), harness/c12_pdc.cpp, lib/c12_pdc.py, cross-rank invariants of spec/PartitionDist.tla (PartitionDistCheck.tla)
incl. the neighbour ranks each layer stores (layer numbering, equal to the halo ranks, symmetric, complete).
"""
import glob, json, os, random, re, shutil, time
import concurrent.futures as cf
import threading
import vlib, vmeshlib, c12_many, c12_embed, c12_pdc

LEVEL = "model_checking"
MESHDIR = os.path.join(vlib.REPO, "data", "meshes")


def mesh_files():
    out = []
    for p in sorted(glob.glob(os.path.join(MESHDIR, "*.xml"))):
        with open(p) as f:
            txt = f.read()
        m = re.search(r'<Mesh\s+type="conformal:(\w+):(\d):(\d)"\s+size="([^"]*)"', txt)
        if not m or m.group(2) != m.group(3):
            continue
        sizes = [int(x) for x in m.group(4).split()]
        partis = sorted(set(int(x.split()[0]) for x in re.findall(r'<Partition[^>]*size="([^"]*)"', txt)))
        out.append({"path": p, "name": os.path.basename(p), "fam": m.group(1), "dim": int(m.group(2)), "cells": sizes[-1], "partis": partis})
    return out


# shipped files that are not valid conforming meshes (see checks/C10.py)
EXCLUDED_FILES = {"druda_bench_01_tria.xml"}

# small base meshes (<= 6 cells) for the exhaustive enumeration of assignments: (name, fam, dim, src, cells)
def small_meshes(files):
    out = []
    for nx, ny, nz, n in [(1, 1, 1, 1), (2, 1, 1, 2), (3, 1, 1, 3), (2, 2, 1, 4), (5, 1, 1, 5), (3, 2, 1, 6)]:
        out.append(("struct%dx%d" % (nx, ny), "hypercube", 2, {"fac": "struct", "nx": nx, "ny": ny}, n))
    for nx, ny, nz, n in [(1, 1, 1, 1), (2, 1, 1, 2), (2, 2, 1, 4), (3, 2, 1, 6)]:
        out.append(("struct%dx%dx%d" % (nx, ny, nz), "hypercube", 3, {"fac": "struct", "nx": nx, "ny": ny, "nz": nz}, n))
    out.append(("star", "hypercube", 2, {"fac": "star"}, 5))
    out.append(("tri-struct1x1", "simplex", 2, {"fac": "struct", "nx": 1, "ny": 1}, 4))
    want = {"l-shape-quad.xml", "square_circle_hole_quad_4.xml", "unit_circle_quad_5.xml", "ypipe_2d_fbm_quad_6.xml", "unit-square-tria.xml",
            "unit_circle_tria_6.xml", "pill-tria.xml", "unit-cube-tetra.xml", "nozzle-1-tria.xml", "unit_ring_fbm_quad_4.xml"}
    for f in files:
        if f["name"] in want and f["cells"] <= 6:
            out.append(("file:" + f["name"], f["fam"], f["dim"], {"file": f["path"]}, f["cells"]))
    return out


def sig(c, pred, lev):
    if c.get("embed"):
        return {"kind": "embed", "src": c["srcname"], "fam": c["fam"], "dim": c["dim"], "wdim": c["wdim"], "pred": pred, "level": lev,
                "nranks": len(c["parti"]["ranks"])}
    return {"kind": c["parti"]["kind"], "src": c["srcname"], "fam": c["fam"], "dim": c["dim"], "pred": pred, "level": lev,
            "nranks": c["parti"].get("n", sum(len(p) for p in c["parti"]["parents"]) if "parents" in c["parti"] else len(c["parti"].get("ranks", [])))}


class _Recorder:
    """stands in for the Check object inside a worker thread: records the calls, the main thread replays them (the bookkeeping of
    vlib.Check is not written for concurrent use)"""
    def __init__(self, chk):
        self.pid, self.tier, self.t0 = chk.pid, chk.tier, chk.t0
        self.calls, self.extra, self.traces = [], {}, 0

    def add_tlc(self, *a, **k): self.calls.append(("add_tlc", a, k))
    def count(self, *a, **k): self.calls.append(("count", a, k))
    def sample(self, *a, **k): self.calls.append(("sample", a, k))
    def violation(self, *a, **k): self.calls.append(("violation", a, k))
    def model_violation(self, *a, **k): self.calls.append(("model_violation", a, k))

    def replay_into(self, chk):
        for name, a, k in self.calls:
            getattr(chk, name)(*a, **k)
        chk.extra.update(self.extra)
        chk.traces += self.traces


def run(chk):
    tier = chk.tier
    rng = random.Random(vlib.seed())
    # the MPI harness is compiled (own build directory) while the serial harnesses are compiled and TLC generates
    mpi = {}

    def build_mpi():
        try:
            if shutil.which("mpirun") is None or shutil.which("mpicxx") is None:
                raise vlib.MachineryError("MPI toolchain (mpicxx/mpirun) not available")
            mpi["bin"], = vlib.build(["c12_pdc"], variant="mpi")
        except BaseException as e:
            mpi["err"] = e
    bt = threading.Thread(target=build_mpi)
    bt.start()
    try:
        binary, binary2, binary3 = vlib.build(["c12_parti", "c12_twolayer", "c12_embed"])
    except BaseException:
        bt.join()
        raise
    gdir = os.path.join(vlib.BUILD, "gen", "C12", "run_%d" % os.getpid())
    os.makedirs(gdir, exist_ok=True)
    try:
        _run(chk, tier, rng, binary, binary2, gdir, binary3, bt, mpi)
    finally:
        bt.join()
        shutil.rmtree(gdir, ignore_errors=True)
        for p in glob.glob(os.path.join(vlib.SPEC, "gen_c12_%d_*.cfg" % os.getpid())):
            os.remove(p)


def _run(chk, tier, rng, binary, binary2, gdir, binary3, bt, mpi):
    files = [f for f in mesh_files() if f["name"] not in EXCLUDED_FILES]
    thorough = tier == "thorough"

    # ---- 1. TLC enumerates all assignments for 1..6 cells, and the two-cell / three-cell base meshes ----
    jobs = []
    for n in range(1, 7):
        canon = (n >= 5) and not thorough
        cfg = "gen_c12_%d_a%d.cfg" % (os.getpid(), n)
        with open(os.path.join(vlib.SPEC, cfg), "w") as f:
            f.write("SPECIFICATION Spec\nCONSTANTS NCells = %d Canon = %s\nINVARIANTS IsPartition Emit\nCHECK_DEADLOCK FALSE\n" % (n, "TRUE" if canon else "FALSE"))
        jobs.append(("PartitionGen", cfg, ("assign", n)))
    for n in range(2, 7 if thorough else 6):
        cfg = "gen_c12_%d_t%d.cfg" % (os.getpid(), n)
        with open(os.path.join(vlib.SPEC, cfg), "w") as f:
            f.write("SPECIFICATION Spec\nCONSTANTS NCells = %d\nINVARIANTS IsTwoLevelPartition Emit\nCHECK_DEADLOCK FALSE\n" % n)
        jobs.append(("PartitionGen2L", cfg, ("twolevel", n)))
    gens = [("hypercube", 2, "pair"), ("simplex", 2, "pair"), ("hypercube", 3, "pair"), ("simplex", 3, "pair"), ("hypercube", 2, "chain"), ("simplex", 2, "chain")]
    for k, (fam, dim, mode) in enumerate(gens):
        cfg = "gen_c12_%d_m%d.cfg" % (os.getpid(), k)
        with open(os.path.join(vlib.SPEC, cfg), "w") as f:
            f.write("SPECIFICATION Spec\nCONSTANTS Fam = \"%s\" Dim = %d Mode = \"%s\" PartLevel = 0\n"
                    "INVARIANTS AllPositive Conforming GluedOnFacet Emit\nCHECK_DEADLOCK FALSE\n" % (fam, dim, mode))
        jobs.append(("MeshGen", cfg, ("mesh", fam, dim, mode)))
    # decompositions into many small patches: one TLC run of PartitionGenMany per mesh
    manymeshes = [m for m in c12_many.meshes(MESHDIR, {f["name"]: f["cells"] for f in files}) if thorough or m["quick"]]
    for k, m in enumerate(manymeshes):
        cfg = "gen_c12_%d_g%d.cfg" % (os.getpid(), k)
        with open(os.path.join(vlib.SPEC, cfg), "w") as f:
            f.write(c12_many.gen_cfg(m, vlib.seed()))
        jobs.append(("PartitionGenMany", cfg, ("many", k)))
    # base meshes with world dimension > shape dimension
    cfg = "gen_c12_%d_e.cfg" % os.getpid()
    with open(os.path.join(vlib.SPEC, cfg), "w") as f:
        f.write(c12_embed.GEN_CFG)
    jobs.append(("PartitionGenEmbed", cfg, ("embed",)))
    assigns, genmeshes, twolevel, manygen, embmeshes = {}, [], {}, {}, []
    # the MPI route (PartiDomainControl on 2..16 processes) runs in its own thread next to everything else; it starts as soon as the
    # assignments it prescribes as owner maps (4 and 6 cells) are enumerated
    rec = _Recorder(chk)
    pres = {}

    def pdc_phase():
        try:
            bt.join()
            if "err" in mpi:
                raise mpi["err"]
            pdir = os.path.join(gdir, "pdc")
            os.makedirs(pdir, exist_ok=True)
            pres["n"] = c12_pdc.run_phase(rec, {n: list(a) for n, a in assigns.items() if n in (4, 6)}, random.Random(vlib.seed() + 7919), pdir, mpi["bin"])
        except BaseException as e:          # re-raised in the main thread
            pres["err"] = e
    pthread = threading.Thread(target=pdc_phase)
    try:
        _run_stages(chk, tier, rng, binary, binary2, gdir, binary3, files, thorough, jobs, manymeshes, assigns, genmeshes, twolevel, manygen, embmeshes, pthread)
    finally:
        if not pthread.is_alive() and "n" not in pres and "err" not in pres:
            pres["err"] = vlib.MachineryError("the MPI route was not started")      # only after an earlier failure, which is what gets reported
        elif pthread.ident is not None:
            pthread.join()
    if "err" in pres:
        raise pres["err"]
    rec.replay_into(chk)
    chk.rule += ("  MPI route: Control::Domain::PartiDomainControl::create() on 2, 4, 8 (thorough: up to 16) MPI processes, structured quad / hexa "
                 "base meshes, single-, two-, three- and four-layered hierarchies (--level lists such as '4:4 2:2 0:1', '3:8 2:4 1:2 0', i.e. 2 and 4 "
                 "progeny groups per layer), partitioning by the shipped partitioners (naive, 2level, genetic, extern) or prescribed by an owner "
                 "map (every assignment of 4 cells to 4 ranks TLC enumerates, seeded random maps for 8..16 ranks); every rank dumps its layers, "
                 "TLC judges the cross-rank invariants of spec/PartitionDist.tla per layer and level; distinct = configuration.")
    chk.assumptions = [a for a in chk.assumptions if not a.startswith("extract_patch is called serially")] + [
        "serial routes: extract_patch is called for every rank on one base node (no communicator), the multi-layer halo splitting is reproduced "
        "serially (same calls in the same order as _split_basemesh_halos); the MPI route runs the unchanged control layer under OpenMPI "
        "(oversubscribed ranks on one machine)"]


def _run_stages(chk, tier, rng, binary, binary2, gdir, binary3, files, thorough, jobs, manymeshes, assigns, genmeshes, twolevel, manygen, embmeshes, pthread):
    with cf.ThreadPoolExecutor(max_workers=8) as ex:
        futs = [(ex.submit(vlib.tlc, j[0], j[1], timeout=900, xmx="2g"), j) for j in jobs]
        for fu, (mod, cfg, what) in futs:
            r = fu.result()
            chk.add_tlc(r, "%s %s" % (mod, what))
            if r.violation:
                chk.model_violation(r, "%s invariant %s" % (mod, what))
                continue
            if what[0] == "assign":
                assigns[what[1]] = [p["ranks"] for p in r.printed]
                if what[1] == 6 and pthread.ident is None:
                    pthread.start()
            elif what[0] == "twolevel":
                twolevel[what[1]] = [p["parents"] for p in r.printed]
            elif what[0] == "many":
                manygen[what[1]] = r.printed
            elif what[0] == "embed":
                embmeshes.extend(r.printed)
            else:
                for i, c in enumerate(r.printed):
                    genmeshes.append(("gen:%s" % what[3], what[1], what[2], c["src"], 2 if what[3] == "pair" else 3, i))
    chk.extra["assignments_enumerated"] = {str(n): len(a) for n, a in assigns.items()}
    chk.extra["two_level_partitions_enumerated"] = {str(n): len(a) for n, a in twolevel.items()}
    if pthread.ident is None:
        pthread.start()
    vlib.log("[C12] generation done %.1fs" % (time.time() - chk.t0))
    _run_serial(chk, tier, rng, binary, binary2, gdir, binary3, files, thorough, assigns, genmeshes, twolevel, manygen, manymeshes, embmeshes)


def _run_serial(chk, tier, rng, binary, binary2, gdir, binary3, files, thorough, assigns, genmeshes, twolevel, manygen, manymeshes, embmeshes):
    cases = []

    def add(name, fam, dim, src, parti, nref, maxcells=4000, fileparts=1, bnd=1):
        cid = "c%d" % len(cases)
        cases.append({"id": cid, "srcname": name, "fam": fam, "dim": dim, "src": src, "parti": parti, "nref": nref, "maxcells": maxcells,
                      "fileparts": fileparts, "bndpart": bnd, "out": os.path.join(gdir, cid + ".json")})

    # exhaustive: every small mesh x every assignment
    for name, fam, dim, src, n in small_meshes(files):
        for a in assigns.get(n, []):
            add(name, fam, dim, src, {"kind": "explicit", "ranks": a}, 2 if (thorough and dim == 2) else 1)
    # the gluings: every relative orientation of two cells, split 1+1 and kept together; chains: all assignments of 3 cells
    for name, fam, dim, src, n, i in genmeshes:
        if not thorough and name == "gen:pair" and dim == 3 and i % 4 != 0:
            continue
        if not thorough and name == "gen:chain" and i % 4 != 0:
            continue
        s = json.loads(json.dumps(src)); s["raw"]["route"] = "factory"
        for a in assigns.get(n, []):
            if n == 2 and len(a) == 1 and i % 8 != 0:
                continue
            add(name, fam, dim, s, {"kind": "explicit", "ranks": a}, 1)
    nexh = len(cases)
    chk.extra["exhaustive_cases"] = nexh

    # ---- 2. sampled: shipped meshes with the partitioners, manual partitions of the files, random assignments ----
    maxcells = 20000 if thorough else 3000
    if thorough:
        vfiles = [f for f in files if (f["dim"] == 2 and f["cells"] <= 800) or (f["dim"] == 3 and f["cells"] <= 260)]
    else:
        qs = {"unit-square-quad.xml", "unit-square-tria.xml", "unit-cube-hexa.xml", "unit-cube-tetra.xml", "l-shape-quad.xml", "unit_circle_tria_6.xml",
              "flowbench_c2d_01_quad_32.xml", "unit_ring_quad_32.xml", "cube_cylinder_hole_hexa_8.xml", "square_circle_hole_quad_9.xml",
              "flowbench_s3d_01_hexa_11.xml", "nozzle-2-quad.xml", "heat-v77-tria.xml", "unit-sphere-hexa.xml"}
        vfiles = [f for f in files if f["name"] in qs]
    for f in vfiles:
        src = {"file": f["path"]}
        fref = 2 if (thorough and f["dim"] == 2) else 1      # joint refinements after the extraction
        for n in range(1, 17):
            if not thorough and n > 8 and n not in (12, 16):
                continue
            add("file:" + f["name"], f["fam"], f["dim"], src, {"kind": "2lvl", "n": n}, fref, maxcells)
        for n in ([2, 3, 5, 7, 11, 16] if thorough else [2, 3, 7]):
            add("file:" + f["name"], f["fam"], f["dim"], src, {"kind": "iter", "n": n, "tinit_ms": 0, "tmut_ms": 2 if n % 2 else 0}, 1, maxcells)
        for n in f["partis"]:
            add("file:" + f["name"], f["fam"], f["dim"], src, {"kind": "file", "n": n}, fref, maxcells)
        for k in range(4 if thorough else 2):
            nc = f["cells"]
            if nc < 2:
                continue
            n = rng.randint(2, min(16, nc))
            asg = list(range(n)) + [rng.randrange(n) for _ in range(nc - n)]
            rng.shuffle(asg)
            ranks = [[c for c in range(nc) if asg[c] == r] for r in range(n)]
            if k % 2:
                for rk in ranks:
                    rng.shuffle(rk)          # cells of a rank in arbitrary order
            add("file:" + f["name"], f["fam"], f["dim"], src, {"kind": "explicit", "ranks": ranks}, fref, maxcells)
    # structured meshes incl. long strips (PartiIterative explores only a neighbourhood of each centre)
    for fam, dim, nx, ny, nz in [("hypercube", 2, 16, 1, 1), ("hypercube", 2, 4, 4, 1), ("hypercube", 3, 8, 1, 1), ("hypercube", 3, 2, 2, 2), ("simplex", 2, 3, 2, 1)]:
        src = {"fac": "struct", "nx": nx, "ny": ny, "nz": nz}
        for n in ([2, 3, 4, 5, 8] if thorough else [2, 4]):
            for rep in range(3 if thorough else 2):
                add("struct%dx%dx%d" % (nx, ny, nz), fam, dim, src, {"kind": "iter", "n": n, "tinit_ms": 0, "tmut_ms": 0, "rep": rep}, 1, maxcells)
        for n in (1, 2, 4, 6, 8, 16):
            add("struct%dx%dx%d" % (nx, ny, nz), fam, dim, src, {"kind": "2lvl", "n": n}, 1, maxcells)
        # the same partitioning step with an explicit seed (reproducible)
        for n in ([2, 3, 4, 5, 8] if thorough else [2, 3]):
            for k in range(12 if thorough else 4):
                add("struct%dx%dx%d" % (nx, ny, nz), fam, dim, src,
                    {"kind": "iterseed", "n": n, "seed": 1000 * vlib.seed() + 17 * k + n, "mutations": k % 3}, 1, maxcells)
        # seeded random assignments (more than 6 cells: sampled)
        nc = nx * ny * (nz if dim == 3 else 1) * (1 if fam == "hypercube" else 4)
        for k in range(8 if thorough else 3):
            n = rng.randint(2, min(8, nc))
            asg = list(range(n)) + [rng.randrange(n) for _ in range(nc - n)]
            rng.shuffle(asg)
            add("struct%dx%dx%d" % (nx, ny, nz), fam, dim, src,
                {"kind": "explicit", "ranks": [[c for c in range(nc) if asg[c] == r] for r in range(n)]}, 2 if dim == 2 else 1, maxcells)
    chk.extra["sampled_cases"] = len(cases) - nexh

    # ---- 2c. world dimension > shape dimension: every mesh of PartitionGenEmbed x the assignments of PartitionGen ----
    casese = c12_embed.cases(embmeshes, assigns, tier, rng, gdir)
    chk.extra["embedded_meshes_enumerated"] = len(embmeshes)
    chk.extra["embedded_cases"] = len(casese)

    # ---- 2a. many small patches: configurations enumerated by TLC (spec/PartitionGenMany.tla), sampled per tier ----
    casesm = []
    many_enum = {}
    for k, m in enumerate(manymeshes):
        pr = manygen.get(k, [])
        many_enum[m["name"]] = len(pr)
        for p in c12_many.select(m, pr, tier, rng):
            cid = "m%d" % len(casesm)
            casesm.append({"id": cid, "srcname": m["name"], "fam": m["fam"], "dim": m["dim"], "src": m["src"], "parti": {"kind": "explicit", "ranks": c12_many.ranks_of(p)},
                           "nref": m["nref"][1 if thorough else 0], "maxcells": 400000, "fileparts": m["fileparts"], "bndpart": 1, "out": os.path.join(gdir, cid + ".json"),
                           "compact": 1, "prerefine": m["pre"], "gen": p["gen"], "gen_maxpatch": p["maxpatch"], "gen_ncells": p["ncells"]})
    chk.extra["many_patch_configurations_enumerated"] = many_enum
    chk.extra["many_patch_cases"] = len(casesm)

    # ---- 2b. two-layer partitioning: every small mesh x every two-level set partition (both rank orders) ----
    cases2 = []

    def add2(name, fam, dim, src, parents, nref=1):
        cid = "t%d" % len(cases2)
        cases2.append({"id": cid, "srcname": name, "fam": fam, "dim": dim, "src": src, "parti": {"kind": "twolayer", "parents": parents},
                       "nref": nref, "fileparts": 1, "bndpart": 1, "out": os.path.join(gdir, cid + ".json")})
    for name, fam, dim, src, n in small_meshes(files):
        for pp in twolevel.get(n, []):
            add2(name, fam, dim, src, pp)
    nexh2 = len(cases2)
    # sampled: seeded random two-level partitions of larger structured meshes (incl. the 4x4 mesh with an L-shaped parent)
    big = [("struct4x4", "hypercube", 2, {"fac": "struct", "nx": 4, "ny": 4}, 16), ("struct3x3", "hypercube", 2, {"fac": "struct", "nx": 3, "ny": 3}, 9),
           ("struct2x2x2", "hypercube", 3, {"fac": "struct", "nx": 2, "ny": 2, "nz": 2}, 8), ("tri-struct2x2", "simplex", 2, {"fac": "struct", "nx": 2, "ny": 2}, 16),
           ("struct3x2x2", "hypercube", 3, {"fac": "struct", "nx": 3, "ny": 2, "nz": 2}, 12)]
    for name, fam, dim, src, nc in big:
        for k in range(60 if thorough else 12):
            npar = rng.randint(2, 4)
            pa_ = list(range(npar)) + [rng.randrange(npar) for _ in range(nc - npar)]
            rng.shuffle(pa_)
            parents = []
            for p in range(npar):
                cells = [c for c in range(nc) if pa_[c] == p]
                nch = rng.randint(1, min(3, len(cells)))
                ca = list(range(nch)) + [rng.randrange(nch) for _ in range(len(cells) - nch)]
                rng.shuffle(ca)
                parents.append([[cells[i] for i in range(len(cells)) if ca[i] == q] for q in range(nch)])
            add2(name, fam, dim, src, parents)
    chk.extra["two_layer_exhaustive_cases"] = nexh2
    chk.extra["two_layer_sampled_cases"] = len(cases2) - nexh2

    # ---- 3. the real code ----
    # (the many-patch cases run concurrently, a few per harness process)
    nch = max(1, min(6, len(casesm) // 2))
    chunks = [casesm[i::nch] for i in range(nch)]
    with cf.ThreadPoolExecutor(max_workers=nch + 1) as ex:
        fm = [ex.submit(vlib.run_cases, binary, ch, 600, 1) for ch in chunks if ch]
        res = vlib.run_cases(binary, cases, tmo=120, shards=8)
        rese = vlib.run_cases(binary3, casese, tmo=120, shards=4)
        resm = {}
        for ch, fu in zip([ch for ch in chunks if ch], fm):
            for c, rr in zip(ch, fu.result()):
                resm[c["id"]] = rr
    good = []
    pverts = 0
    for c, rr in list(zip(cases, res)) + list(zip(casese, rese)) + [(c, resm[c["id"]]) for c in casesm]:
        chk.count(c["id"], True)
        if c.get("embed") and rr.get("ok") is True:
            pverts += rr.get("patch_vertices", 0)
        if rr.get("ok") is True and rr.get("skip"):
            chk.extra["skipped"] = chk.extra.get("skipped", 0) + 1
            continue
        if rr.get("ok") is True:
            good.append(c)
            continue
        desc = rr.get("why") or ("outcome %s: %s" % (rr.get("outcome"), (rr.get("stderr") or "")[:700]))
        slim = {k: c[k] for k in c if k != "out"}
        sg = sig(c, "harness:" + str(rr.get("outcome", "bad")), -1)
        sg["exc"] = "out_of_range" if "out_of_range" in desc else ("other" if rr.get("outcome") == "exception" else "")
        chk.violation(sg, "%s (%s, %s): %s" % (c["id"], c["srcname"], json.dumps(c["parti"])[:200], desc),
                      {"kind": "case", "harness": "c12_embed" if c.get("embed") else "c12_parti", "case": slim, "result": rr})
    chk.extra["embedded_patch_vertices_compared_in_all_world_coordinates"] = pverts
    vlib.log("[C12] harness done %.1fs (%d + %d + %d cases)" % (time.time() - chk.t0, len(cases), len(casese), len(casesm)))

    # ---- 3b. the many-patch dumps are judged by PartitionManyCheck.tla, concurrently with the stages 4 and 5 ----
    goodm = [c for c in good if c.get("compact")]
    good = [c for c in good if not c.get("compact")]
    mres = {}

    def judge_many():
        try:
            mres["out"] = c12_many.judge([{"id": c["id"], "path": c["out"], "wantlevels": c["nref"] + 1} for c in goodm], "c12m_%d" % os.getpid(),
                                         max_procs=4 if thorough else 3)
        except BaseException as e:          # re-raised in the main thread
            mres["err"] = e
    mthread = threading.Thread(target=judge_many)
    if goodm:
        mthread.start()
    try:
        _judge_rest(chk, thorough, cases + casese, good, cases2, binary2)
    finally:
        if goodm:
            mthread.join()
    if "err" in mres:
        raise mres["err"]
    nsmall = pairs = ordered = single_m = mono = maps = 0
    if goodm:
        mverdicts, mruns = mres["out"]
        for r, name in mruns:
            chk.add_tlc(r, name)
        for c in goodm:
            v = mverdicts.get(c["id"])
            if v is None:
                raise vlib.MachineryError("no verdict for " + c["id"])
            inf = v["info"]
            nsmall += 1 if 32 * inf["maxpatch"] < inf["cells"] else 0
            pairs += inf["pairs"]; ordered += inf["ordered"]; single_m += inf["single"]; mono += inf["mono"]; maps += inf["maps"]
            slim = {k: c[k] for k in c if k != "out"}
            for fl in v["fails"]:
                sg = sig(c, fl["p"], fl["l"])
                sg["gen"] = c["gen"]["g"]
                chk.violation(sg, "%s (%s, %d patches by %s): %s does not hold at level %d" % (c["id"], c["srcname"], len(c["parti"]["ranks"]),
                              json.dumps(c["gen"]), fl["p"], fl["l"]), {"kind": "case", "harness": "c12_parti", "case": slim, "verdict": v})
        for c in goodm[:2]:
            chk.sample({"id": c["id"], "src": c["srcname"], "generator": c["gen"], "patches": len(c["parti"]["ranks"]), "verdict": mverdicts[c["id"]]})
        chk.extra["many_patch_max_ranks"] = max(len(c["parti"]["ranks"]) for c in goodm)
    chk.traces += len(goodm)
    chk.extra["many_patch_cases_with_every_patch_below_1/32_of_the_cells"] = nsmall
    chk.extra["many_patch_neighbour_pairs"] = pairs
    chk.extra["many_patch_halo_lists_with_2_or_more_entities_(order_clause_non-trivial)"] = ordered
    chk.extra["many_patch_pairs_touching_in_one_vertex"] = single_m
    chk.extra["many_patch_maps_ascending_in_base_numbering_(reported_only)"] = "%d of %d" % (mono, maps)
    chk.rule += ("  Many small patches: TLC enumerates (spec/PartitionGenMany.tla) sheared and staircase block partitions (block sizes, shears "
                 "and steps from small integer sets), every balanced splitting of an 8-cell tile into two 4-cell patches (35 patterns per tile shape: "
                 "S/L/T/I shapes, disconnected pieces), runs of consecutive cells, pseudo-random and Voronoi assignments (seeded by VERIF_SEED) for "
                 "16x16 / 24x24 quad, 6x6x6 hexa, 8x8x4 triangle, 2x2x2x24 tetrahedron meshes and refined shipped meshes (2-level numbering); "
                 "quick runs 2-3 seeded configurations per mesh, thorough up to 24 per mesh (more meshes); each = extract_patch for all 48..288 "
                 "ranks + 1..2 joint refinements; level 0 judged by Partition.tla verbatim, the refined levels by the same clauses through an "
                 "entity table (spec/PartitionManyCheck.tla), incl. position-wise equality of the two halos of every neighbour pair.")


def _judge_rest(chk, thorough, cases, good, cases2, binary2):
    # ---- 4. TLC judges (streamed) ----
    byid = {c["id"]: c for c in good}
    items = [{"id": c["id"], "path": c["out"], "weight": 3000 + os.path.getsize(c["out"]), "extra": {"wantlevels": c["nref"] + 1}} for c in good]
    verdicts, infos = vmeshlib.run_tlc_stream(chk, "PartitionCheck", "C12_BATCH", items, "c12", prepare="load_c12", max_procs=6, cap_weight=12000000)
    nfail2lvl = 0
    single = 0
    full = [infos[c["id"]] for c in good]
    for d in full:
        c = byid[d["id"]]
        v = verdicts.get(d["id"])
        if v is None:
            raise vlib.MachineryError("no verdict for " + d["id"])
        if not d["success"]:
            nfail2lvl += 1
        single += v["info"]["single"]
        slim = {k: c[k] for k in c if k != "out"}
        for fl in v["fails"]:
            chk.violation(sig(c, fl["p"], fl["l"]), "%s (%s, %s): %s does not hold at level %d" % (d["id"], c["srcname"], json.dumps(c["parti"])[:200], fl["p"], fl["l"]),
                          {"kind": "case", "harness": "c12_embed" if c.get("embed") else "c12_parti", "case": slim, "verdict": v, "assign": d["assign"]})
    vlib.log("[C12] single layer judged %.1fs" % (time.time() - chk.t0))

    # ---- 5. two-layer route: real code, then TLC composes child -> parent -> base and judges both layers ----
    res2 = vlib.run_cases(binary2, cases2, tmo=120, shards=8)
    good2 = []
    for c, rr in zip(cases2, res2):
        chk.count("2L:" + c["id"], True)
        if rr.get("ok") is True and rr.get("skip"):
            chk.extra["skipped"] = chk.extra.get("skipped", 0) + 1
            continue
        if rr.get("ok") is True:
            good2.append(c)
            continue
        desc = rr.get("why") or ("outcome %s: %s" % (rr.get("outcome"), (rr.get("stderr") or "")[:700]))
        sg = sig(c, "harness:" + str(rr.get("outcome", "bad")), -1)
        sg["layer"] = ""
        chk.violation(sg, "%s (%s, two-layer %s): %s" % (c["id"], c["srcname"], json.dumps(c["parti"]["parents"])[:200], desc),
                      {"kind": "case", "harness": "c12_twolayer", "case": {k: c[k] for k in c if k != "out"}, "result": rr})
    byid2 = {c["id"]: c for c in good2}
    items2 = [{"id": c["id"], "path": c["out"], "weight": 3000 + os.path.getsize(c["out"]), "extra": {"wantlevels": c["nref"] + 1}} for c in good2]
    verdicts2, infos2 = vmeshlib.run_tlc_stream(chk, "Partition2LCheck", "C12_BATCH2", items2, "c12b", prepare="load_c12", max_procs=6, cap_weight=12000000)
    cross = single2 = 0
    for c in good2:
        v = verdicts2.get(c["id"])
        if v is None:
            raise vlib.MachineryError("no verdict for " + c["id"])
        cross += v["info"]["cross"]
        single2 += v["info"]["single"]
        for fl in v["fails"]:
            sg = sig(c, fl["p"], fl["l"])
            sg["layer"] = fl["part"]
            chk.violation(sg, "%s (%s, two-layer %s): %s does not hold for the %s layer at level %d" % (
                c["id"], c["srcname"], json.dumps(c["parti"]["parents"])[:200], fl["p"], fl["part"] or "?", fl["l"]),
                {"kind": "case", "harness": "c12_twolayer", "case": {k: c[k] for k in c if k != "out"}, "verdict": v})
    chk.extra["two_layer_cross_parent_neighbour_pairs"] = cross
    chk.extra["two_layer_cross_pairs_touching_in_one_vertex"] = single2
    for c in good2[:1]:
        chk.sample({"id": c["id"], "src": c["srcname"], "two_layer": c["parti"]["parents"], "verdict": verdicts2[c["id"]]})
    chk.traces = len(full) + len(good2)
    chk.extra["partitioner_reported_failure"] = nfail2lvl
    chk.extra["neighbour_pairs_touching_in_one_vertex"] = single
    chk.extra["max_ranks"] = max([d["nranks"] for d in full] or [0])
    chk.extra["largest_fine_base_cells"] = max([d["fine_cells"] for d in full] or [0])
    chk.exhaustive = True
    chk.rule = ("TLC enumerates (spec/PartitionGen.tla) every assignment of the cells to 1..#cells non-empty ranks for all base meshes with <= 6 cells "
                "(quick: one labelling per set partition for 5 and 6 cells) and for the two-/three-cell gluings of spec/MeshGen.tla; plus Parti2Lvl for "
                "n = 1..16, PartiIterative, the manual partitions stored in the mesh files and seeded random assignments on shipped meshes; every case = "
                "extract_patch for every rank + joint refinement, all levels judged by TLC against spec/Partition.tla; distinct = mesh x assignment. "
                "World dimension > shape dimension (ConformalMesh<Quadrilateral,3>, <Triangle,3>, <Edge,2>, <Edge,3>): TLC enumerates "
                "(spec/PartitionGenEmbed.tla) the closed surfaces of the reference cube / tetrahedron, the octahedron, quadrilateral and triangle "
                "grids lifted into 3D by three maps (skew plane, roof, parabolic sheet), closed polygons and polylines of 2..12 edges in 2D / 3D; "
                "each x every assignment for <= 6 cells (quick: all of them for the closed surfaces, loops, the roof lift and short lines, every "
                "6th otherwise), seeded assignments beyond and on the once refined mesh; 1..2 joint refinements; PatchIsSubmesh compares all world "
                "coordinates of every patch vertex with its base vertex. "
                "Two-layer route: TLC enumerates (spec/PartitionGen2L.tla) every two-level set partition (parents, children inside each parent; both "
                "rank orders) for all base meshes with <= 5 (thorough 6) cells, plus seeded random two-level partitions of 3x3/4x4/2x2x2/3x2x2 meshes; "
                "each case = parent extract_patch, child extract_patch on the parent nodes, PatchHaloSplitter for the cross-parent halos, joint "
                "refinement; TLC composes the maps and judges parent and child layer (spec/Partition2L.tla)")
    for d in full[:2]:
        chk.sample({"id": d["id"], "src": byid[d["id"]]["srcname"], "assign": d["assign"], "verdict": verdicts[d["id"]]})
    chk.assumptions = ["extract_patch is called serially for every rank on one base node (no communicator); the multi-layer route of PartiDomainControl is reproduced "
                       "serially (same calls in the same order as _split_basemesh_halos, buffers concatenated instead of sent); MPI itself is not exercised",
                       "PartiIterative seeds itself from time(): its runs are not reproducible from VERIF_SEED (the invariants must hold for every outcome)",
                       "adaption to charts is switched off (AdaptMode::none)"]


def replay(obj):
    bad = 0
    for v in obj["violations"]:
        print(json.dumps(v["sig"]), v["desc"][:300])
        bad += 1
    return 1 if bad else 0
