"""C19: graph, permutation, colouring and ordering tools meet their definitions.

G  spec/AdjacencyGraph.tla, spec/AdjacencyPerm.tla -> every call with the result predicted by the specification
   (spec/Rel.tla, spec/Adjacency.tla), replayed by harness/c19_adjacency.cpp and compared; spec/AdjacencyColor.tla does the
   same for Coloring objects built from explicit colour arrays (unused colours in the middle / at the end, no nodes):
   inspect, clone, create_partition_graph.
   spec/AdjacencyOps.tla: expressions over OTHER adjactor classes than Graph (index-interval adjactors with
   Adjactor::IndexImageIterator, CoarseFineCellMapping unstructured/structured, IndexSet, StructIndexSet, DynamicGraph) combined by
   CompositeAdjactor - a, a*b, (a*b)*c, a*(b*c) - and pushed through every public route (iteration, Graph / DynamicGraph single- and
   two-adjactor render constructors, DynamicGraph::compose); replayed by harness/c19_adj2.cpp, c19_adj3.cpp.
V  spec/AdjacencyUG.tla enumerates every undirected graph x every colouring order / Cuthill-McKee option (results are
   not unique, so they are recorded, not predicted); a seeded random driver adds graphs up to 200 nodes; TLC judges
   every recorded result by the contracts of spec/Adjacency.tla (spec/AdjacencyV.tla).
"""
import os, json, random, threading
import concurrent.futures as cf
import vlib

LEVEL = "model_checking"
HARNESS = "c19_adjacency"
GINV = "InputsValid LawSingle LawSort LawCompose LawInvolution LawPermute LawRename LawMatPerm LawDyn LawDyn2 LawDynEdit Emit"
PINV = "ObjValid SwapLaw CtorLaw InverseLaw ConcatLaw Emit"
MAXPAR = 5          # TLC processes at a time
ADJ2, ADJ3 = "c19_adj2", "c19_adj3"
AINV = "OpsValid LawExpr LawAssoc LawIdentity Emit"
GEN = '{"graph", "interval", "indexset2", "dyn"}'      # operand kinds with free adjacency lists
RIG = '{"block", "struct1", "cf2"}'                    # operand kinds determined by their size parameters
NEST3 = ['{"graph"}', '{"interval"}', '{"struct1"}']   # kinds the harness supports in chains of three (c19_adj3)


def adj_cfg(n, k1, k2, k3, nd, nm, ni, ml, slack, workers=2):
    ks = " x ".join(k.strip("{}").replace('"', "").replace(", ", "|") for k in (k1, k2, k3)[:n])
    return ("AdjacencyOps", 'N = %d K1 = %s K2 = %s K3 = %s Nests = {"both"} ND = %d NM = %d NI = %d MaxLen = %d MaxSlack = %d'
            % (n, k1, k2 if n >= 2 else "{}", k3 if n >= 3 else "{}", nd, nm, ni, ml, slack), AINV,
            "adjactor expressions %s nd<=%d nm<=%d ni<=%d len<=%d slack<=%d" % (ks, nd, nm, ni, ml, slack), workers, "a")


def adj_configs(tier):
    """operands of every adjactor class: alone, in pairs (every class x every class), nested in threes"""
    all3 = "{" + ", ".join(k.strip("{}") for k in NEST3) + "}"
    if tier == "thorough":
        # (many moderate jobs: the cases of a job are held in memory while it is replayed)
        gen1 = ['{"graph"}', '{"interval"}', '{"indexset2"}', '{"dyn"}']
        out = [adj_cfg(1, GEN, "", "", 3, 0, 3, 2, 0), adj_cfg(1, RIG, "", "", 4, 0, 16, 0, 0)]
        out += [adj_cfg(2, k1, k2, "", 2, 2, 3, 2, 0) for k1 in gen1 for k2 in gen1]
        out += [adj_cfg(2, k1, GEN, "", 2, 2, 2, 1, 1) for k1 in gen1] + [adj_cfg(2, GEN, GEN, "", 1, 3, 2, 1, 0)]
        out += [adj_cfg(2, GEN, RIG, "", 2, 4, 16, 2, 1), adj_cfg(2, RIG, GEN, "", 2, 4, 2, 2, 0), adj_cfg(2, RIG, RIG, "", 4, 8, 32, 0, 1, 1)]
        out += [adj_cfg(3, k1, all3, all3, 2, 2, 1, 1, 0) for k1 in NEST3]
        out += [adj_cfg(3, k1, k2, all3, 1, 2, 2, 2, 0) for k1 in NEST3 for k2 in NEST3[:2]] + [adj_cfg(3, all3, NEST3[2], all3, 1, 2, 2, 2, 0)]
        out += [adj_cfg(3, all3, all3, all3, 1, 1, 2, 2, 1)]
    else:
        out = [adj_cfg(1, GEN, "", "", 2, 0, 3, 2, 0, 1), adj_cfg(1, RIG, "", "", 4, 0, 16, 0, 0, 1)]
        out += [adj_cfg(2, GEN, GEN, "", 1, 2, 3, 2, 0, 3), adj_cfg(2, GEN, GEN, "", 2, 2, 2, 1, 0), adj_cfg(2, GEN, GEN, "", 1, 1, 2, 2, 1, 1)]
        out += [adj_cfg(2, GEN, RIG, "", 2, 2, 8, 2, 1, 1), adj_cfg(2, RIG, GEN, "", 2, 4, 2, 1, 0), adj_cfg(2, RIG, RIG, "", 4, 4, 16, 0, 1, 1)]
        out += [adj_cfg(3, k1, all3, all3, 1, 2, 2, 1, 0) for k1 in NEST3]
        out += [adj_cfg(3, all3, all3, all3, 1, 1, 1, 1, 1, 1)]
    return out[::-1]          # the large enumerations first


def graph_cfg(mode, nd, ni, nm, ml, ml2):
    return ("AdjacencyGraph", 'Mode = "%s" ND = %d NI = %d NM = %d MaxLen = %d MaxLen2 = %d' % (mode, nd, ni, nm, ml, ml2), GINV,
            "%s nd<=%d ni<=%d nm<=%d len<=%d/%d" % (mode, nd, ni, nm, ml, ml2))


def gen_configs(tier):
    """(module, constants, invariants, name, workers, class tag)"""
    out = []
    if tier == "thorough":
        g = [graph_cfg("single", 3, 3, 0, 3, 0) + (4,), graph_cfg("compose", 2, 2, 3, 2, 2) + (4,), graph_cfg("compose", 1, 3, 2, 3, 3) + (2,),
             graph_cfg("gperm", 3, 3, 0, 2, 0) + (2,), graph_cfg("gperm", 2, 2, 0, 3, 0) + (1,), graph_cfg("mperm", 3, 3, 0, 0, 0) + (2,)]
        p = [("AdjacencyPerm", "MaxN = 5 ConcatAll = FALSE", PINV, "perm n<=5", 4), ("AdjacencyPerm", "MaxN = 4 ConcatAll = TRUE", PINV, "perm n<=4 concat after every ctor", 1)]
    else:
        g = [graph_cfg("single", 3, 3, 0, 2, 0) + (2,), graph_cfg("single", 2, 3, 0, 3, 0) + (1,), graph_cfg("compose", 2, 2, 2, 2, 2) + (2,),
             graph_cfg("gperm", 2, 3, 0, 2, 0) + (1,), graph_cfg("gperm", 3, 2, 0, 2, 0) + (1,), graph_cfg("mperm", 2, 3, 0, 0, 0) + (1,),
             graph_cfg("mperm", 3, 2, 0, 0, 0) + (1,)]
        p = [("AdjacencyPerm", "MaxN = 5 ConcatAll = FALSE", PINV, "perm n<=5", 4)]
    out += [x + ("g",) for x in g] + [x + ("p",) for x in p]
    if tier == "thorough":
        ug = [('MaxNodes = 5 Variants = {"plain", "loops"} OrderMode = "all"', "undirected n<=5 plain/loops all orders", 2),
              ('MaxNodes = 5 Variants = {"desc", "dup"} OrderMode = "few"', "undirected n<=5 desc/dup few orders", 1)]
    else:
        ug = [('MaxNodes = 4 Variants = {"plain", "loops", "desc", "dup"} OrderMode = "all"', "undirected n<=4 all variants all orders", 1),
              ('MaxNodes = 5 Variants = {"plain", "loops"} OrderMode = "few"', "undirected n<=5 plain/loops few orders", 1)]
    out += [("AdjacencyUG", c, "InputValid Emit", nm, w, "v") for c, nm, w in ug]
    out.append(("AdjacencyColor", "MaxN = 5 MaxC = 5" if tier == "thorough" else "MaxN = 4 MaxC = 4", "ObjValid PartitionLaw Emit",
                "Coloring objects from explicit colour arrays", 1, "c"))
    return out


def run_tlc_jobs(chk, jobs, consume=None):
    """jobs: list of (module, constants, invariants, name, workers, tag) -> list of (tag, printed); the cases of the jobs with
    tag "a" are handed to consume(job, printed) in the job's thread as soon as they exist and are not kept"""
    res = []

    def one(k, job):
        mod, consts, invs, name, workers, tag = job
        cfg = "gen_C19_%d_%d.cfg" % (os.getpid(), k)
        with open(os.path.join(vlib.SPEC, cfg), "w") as f:
            f.write("SPECIFICATION Spec\nCONSTANTS %s\nINVARIANTS %s\nCHECK_DEADLOCK FALSE\n" % (consts, invs))
        try:
            r = vlib.tlc(mod, cfg, workers=workers, timeout=2400, xmx="2g" if tag == "a" else "4g", tag="C19_%d" % k)
            if tag == "a" and consume is not None and r.printed and not r.violation:
                r.out = ""
                consume(job, r.printed)
                r.printed = [None]
            return r
        finally:
            try:
                os.remove(os.path.join(vlib.SPEC, cfg))
            except OSError:
                pass

    with cf.ThreadPoolExecutor(max_workers=MAXPAR) as ex:
        futs = [(ex.submit(one, k, job), job) for k, job in enumerate(jobs)]
        for f, job in futs:
            r = f.result()
            chk.add_tlc(r, job[0] + ": " + job[3])
            if r.violation:
                chk.model_violation(r, "%s invariant (%s)" % (job[0], job[3]))
            if not r.printed:
                raise vlib.MachineryError("generator %s (%s) produced no cases" % (job[0], job[3]))
            if job[5] != "a":
                res.append((job[5], r.printed))
    return res


# ---------------------------------------------------------------------------------------------------------
# seeded random driver (direction V, larger inputs)
# ---------------------------------------------------------------------------------------------------------
def graph_of_rows(nd, ni, rows):
    ptr, idx = [0], []
    for r in rows:
        idx += r
        ptr.append(len(idx))
    return {"nd": nd, "ni": ni, "ptr": ptr, "idx": idx}


def random_undirected(rng, n, style):
    nb = [set() for _ in range(n)]
    if style == "sparse":          # several components, isolated nodes
        m = rng.randint(0, n)
    elif style == "connected":
        for i in range(1, n):
            j = rng.randrange(i)
            nb[i].add(j); nb[j].add(i)
        m = rng.randint(0, n)
    else:                            # clusters
        m = rng.randint(n // 2, 2 * n)
    for _ in range(m):
        if n < 2:
            break
        a, b = rng.randrange(n), rng.randrange(n)
        if style == "clusters" and a // 8 != b // 8:
            continue
        if a != b:
            nb[a].add(b); nb[b].add(a)
    loops = rng.random() < 0.4
    rows = []
    for i in range(n):
        r = sorted(nb[i] | ({i} if loops else set()))
        if rng.random() < 0.3:
            rng.shuffle(r)
        rows.append(r)
    ncomp, seen = 0, set()
    for s in range(n):
        if s in seen:
            continue
        ncomp += 1
        st = [s]; seen.add(s)
        while st:
            u = st.pop()
            for w in nb[u]:
                if w not in seen:
                    seen.add(w); st.append(w)
    meta = {"variant": "random-" + style + ("-loops" if loops else ""), "nedges": sum(len(x) for x in nb) // 2, "ncomp": ncomp,
            "niso": sum(1 for i in range(n) if not rows[i])}
    return graph_of_rows(n, n, rows), meta


def random_cases(tier, seed):
    rng = random.Random(seed * 7919 + 19)
    cases = []
    ng = 60 if tier == "thorough" else 14
    nmax = 200 if tier == "thorough" else 80
    for k in range(ng):
        n = rng.choice([1, 2, 3, 7, 20, 50, nmax, rng.randint(1, nmax)])
        g, meta = random_undirected(rng, n, rng.choice(["sparse", "connected", "clusters"]))
        cases.append({"h": "v", "op": "coloring", "g": g, "meta": meta, "call": {"op": "coloring", "ordered": False, "order": list(range(n))}})
        for _ in range(2):
            o = list(range(n)); rng.shuffle(o)
            cases.append({"h": "v", "op": "coloring", "g": g, "meta": meta, "call": {"op": "coloring", "ordered": True, "order": o}})
        for rev in (False, True):
            for rt in ("standard", "minimum_degree", "maximum_degree"):
                for st in ("standard", "asc", "desc"):
                    cases.append({"h": "v", "op": "cmk", "g": g, "meta": meta, "call": {"op": "cmk", "reverse": rev, "rt": rt, "st": st}})
    for k in range(40 if tier == "thorough" else 12):
        n = rng.choice([1, 2, 3, 5, 17, 64, nmax, rng.randint(1, nmax)])
        cases.append({"h": "v", "op": "randperm", "n": n, "seed": rng.randrange(1, 1 << 40)})
    # directed multigraphs: rendering, composition, permutation on larger inputs
    types = ["as_is", "as_is_sorted", "injectify", "injectify_sorted", "transpose", "transpose_sorted", "injectify_transpose", "injectify_transpose_sorted"]
    def rnd_graph(nd, ni, maxlen):
        return graph_of_rows(nd, ni, [[rng.randrange(ni) for _ in range(rng.randint(0, maxlen))] if ni else [] for _ in range(nd)])
    for k in range(12 if tier == "thorough" else 4):
        nd, ni = rng.randint(1, 40), rng.randint(1, 40)
        g = rnd_graph(nd, ni, 6)
        for t in types:
            cases.append({"h": "g", "rec": True, "op": "render", "t": t, "g1": g})
        dp = list(range(nd)); rng.shuffle(dp); ip = list(range(ni)); rng.shuffle(ip)
        cases.append({"h": "g", "rec": True, "op": "permute", "t": "", "g1": g, "dp": dp, "ip": ip})
        nm = rng.randint(1, 12); g1 = rnd_graph(rng.randint(1, 12), nm, 4); g2 = rnd_graph(nm, rng.randint(1, 12), 4)
        for t in types:
            cases.append({"h": "g", "rec": True, "op": "render2", "t": t, "g1": g1, "g2": g2})
    return cases


# ---------------------------------------------------------------------------------------------------------
def sig(c, r):
    oc = r.get("outcome", "mismatch")
    s = {"h": c["h"], "op": c["op"], "outcome": oc}
    if c["h"] == "g":
        s["t"] = c.get("t", "")
        if "exp" in c and isinstance(c["exp"], dict) and "idx" in c["exp"]:
            s["exp_nidx0"] = len(c["exp"]["idx"]) == 0
        elif c.get("rec") and c["op"] == "render":
            s["exp_nidx0"] = len(c["g1"]["idx"]) == 0
        elif c.get("rec") and c["op"] == "render2":      # no path i -> k -> l at all
            p2 = c["g2"]["ptr"]
            s["exp_nidx0"] = all(p2[k] == p2[k + 1] for k in c["g1"]["idx"])
        if c["op"] == "compadj":
            s["first_empty"] = c.get("first_empty", False)
        if r.get("sub"):
            s["sub"] = r["sub"]
        if c["op"] == "matperm":
            s["nnz0"] = len(c["g1"]["rep"]["ci"]) == 0
    elif c["h"] == "a":
        s.update({"kinds": "*".join(c["kinds"]), "nest": c["nest"], "sub": r.get("sub", "")})
    elif c["h"] == "p":
        s.update({"kind": c["kind"], "n": c["n"], "invert": c["invert"]})
    elif c["h"] == "c":
        s.update({"ctor": c["ctor"], "gap": c["gap"], "unused_at_end": c["unused_at_end"], "no_nodes": c["n"] == 0})
    else:
        call = c.get("call", {})
        if c["op"] == "cmk":
            s.update({"rt": call["rt"], "st": call["st"], "reverse": call["reverse"], "multi": c["meta"]["ncomp"] > 1,
                      "has_iso": c["meta"]["niso"] > 0,
                      "mindeg_gt_n": min(b - a for a, b in zip(c["g"]["ptr"], c["g"]["ptr"][1:])) > c["g"]["nd"], "no_root_found": "No root node found" in (r.get("stderr") or "")})
        elif c["op"] == "coloring":
            s.update({"ordered": call["ordered"]})
    return s


def key(c):
    if c["h"] == "a":
        return json.dumps([c["nest"], c["sl"], [[o["k"], o["nd"], o["ni"], o["a"], o["R"]] for o in c["ops"]]])
    d = {k: v for k, v in c.items() if k not in ("exp", "deg", "maxdeg", "ordered", "first_empty", "meta", "mode", "obj", "gap", "unused_at_end")}
    return json.dumps(d, sort_keys=True)


def nontrivial(c):
    if c["h"] == "a":
        return any(len(row) > 0 for row in c["L"])
    if c["h"] == "g":
        g = c["g1"]
        return len(g.get("idx", g.get("rep", {}).get("ci", []))) > 0
    if c["h"] in ("p", "c"):
        return c["n"] >= 2
    return c.get("n", c.get("g", {}).get("nd", 0)) >= 2


def validate_records(chk, records):
    """direction V: TLC (AdjacencyV.tla) judges the recorded results; returns {id: [failed clauses]}"""
    if not records:
        return {}
    vdir = os.path.join(vlib.BUILD, "gen", "C19_%d" % os.getpid())
    os.makedirs(vdir, exist_ok=True)
    # shards of similar weight
    nsh = max(1, min(MAXPAR + 1, len(records) // 4000 + 1))
    shards = [records[k::nsh] for k in range(nsh)]
    bad = {}

    def one(k, part):
        path = os.path.join(vdir, "trace_%d.ndjson" % k)
        with open(path, "w") as f:
            for rec in part:
                f.write(json.dumps(rec, separators=(",", ":")) + "\n")
        r = vlib.tlc("AdjacencyV", "AdjacencyV.cfg", env={"TRACE": path}, timeout=2400, xmx="4g", tag="C19_V%d" % k)
        os.remove(path)
        return r, len(part)

    with cf.ThreadPoolExecutor(max_workers=MAXPAR) as ex:
        futs = [ex.submit(one, k, part) for k, part in enumerate(shards)]
        for k, f in enumerate(futs):
            r, n = f.result()
            chk.add_tlc(r, "AdjacencyV: validation shard %d (%d records)" % (k, n))
            if r.violation or r.generated != n + 1:
                raise vlib.MachineryError("trace validation did not read every record (%d states for %d records): %s" % (r.generated, n, r.violation))
            for b in r.printed:
                bad[b["id"]] = b["failed"]
    try:
        os.rmdir(vdir)
    except OSError:
        pass
    return bad


def run(chk):
    # the three replayers are compiled while TLC generates
    bex = cf.ThreadPoolExecutor(max_workers=1)
    bfut = bex.submit(vlib.build, [HARNESS, ADJ2, ADJ3], jobs=6)
    lock = threading.Lock()
    astat = {"cases": 0, "by_kinds": {}, "samples": []}

    def consume(job, printed):
        # adjactor expressions: replayed and judged job by job (the cases are not kept)
        bins = bfut.result()
        for c in printed:
            c["h"] = "a"
        three = len(printed[0]["ops"]) == 3
        res = vlib.run_cases(bins[2] if three else bins[1], printed, tmo=20, max_abnormal=40)
        with lock:
            vlib.judge_results(chk, printed, res, sig, keyf=key, harness=ADJ3 if three else ADJ2, nontrivial=nontrivial)
            astat["cases"] += len(printed)
            for c in printed:
                k = "*".join(c["kinds"])
                astat["by_kinds"][k] = astat["by_kinds"].get(k, 0) + 1
            if len(astat["samples"]) < 2 and len(printed) > 10:
                c = printed[len(printed) // 2]
                astat["samples"].append({"op": c["op"], "nest": c["nest"], "ops": [{k: o[k] for k in ("k", "nd", "ni", "a", "R")} for o in c["ops"]],
                                         "L": c["L"], "exp": {"injectify_transpose": c["exp"]["injectify_transpose"]}})

    try:
        gen = run_tlc_jobs(chk, adj_configs(chk.tier) + gen_configs(chk.tier), consume)
        binary = bfut.result()[0]
    finally:
        bex.shutdown(wait=True)
    cases = []
    for tag, printed in gen:
        for c in printed:
            c["h"] = tag
            cases.append(c)
    ntlc = len(cases)
    cases += random_cases(chk.tier, vlib.seed())
    res = vlib.run_cases(binary, cases, tmo=20)

    # direction G (+ abnormal outcomes of every class): spec prediction vs real result
    vlib.judge_results(chk, cases, res, sig, keyf=key, harness=HARNESS, nontrivial=nontrivial)

    # direction V: recorded results judged by TLC
    records, owner = [], {}
    for k, (c, r) in enumerate(zip(cases, res)):
        if r.get("ok") is True and "out" in r:
            rec = {"id": k, "op": c["op"], "out": r["out"]}
            if c["h"] == "v":
                for f in ("g", "call", "n"):
                    if f in c:
                        rec[f] = c[f]
            else:
                rec.update({"g": c["g1"], "t": c.get("t", "")})
                for f in ("g2", "dp", "ip"):
                    if f in c:
                        rec[f] = c[f]
            records.append(rec)
            owner[k] = (c, r)
    bad = validate_records(chk, records)
    for k, failed in sorted(bad.items()):
        c, r = owner[k]
        s = sig(c, r)
        s["outcome"] = "contract"
        s["failed"] = failed[0] if failed else ""
        chk.violation(s, "recorded result rejected by spec/AdjacencyV.tla, clauses %s: out=%s" % (failed, json.dumps(r["out"])[:300]),
                      {"kind": "case", "harness": HARNESS, "case": c, "result": r, "failed": failed})
    chk.traces = len(cases) + astat["cases"]
    chk.exhaustive = True
    chk.extra["cases_generated_by_tlc"] = ntlc + astat["cases"]
    chk.extra["adjactor_expression_cases"] = astat["cases"]
    chk.extra["adjactor_expression_cases_by_operand_kinds"] = astat["by_kinds"]
    chk.extra["cases_random_driver"] = len(cases) - ntlc
    chk.extra["records_validated_by_tlc"] = len(records)
    chk.extra["records_rejected"] = len(bad)
    byop = {}
    for c in cases:
        byop[c["op"]] = byop.get(c["op"], 0) + 1
    byop["adjexpr"] = astat["cases"]
    chk.extra["cases_by_op"] = byop
    chk.rule = ("G: every post-state of spec/AdjacencyGraph.tla (all graphs with nd, ni <= 3 and <= 2-3 images per node with duplicates and "
                "order x 8 render types, sort, inspect; all composition pairs within the bounds; all domain/image permutation pairs; all "
                "CSR patterns x permutation pairs; DynamicGraph from every render type (single and composite), compose, insert/erase from every "
                "relation, clear, conversion back to Graph) and spec/AdjacencyPerm.tla (all permutations of length 0..5 x 5 constructor kinds x "
                "apply/inverse/clone/map/concat) and spec/AdjacencyColor.tla (all colour arrays on <= 4/5 nodes with <= 4/5 declared colours x "
                "4 constructors x inspect/clone/create_partition_graph) and spec/AdjacencyOps.tla (adjactor expressions a, a*b, (a*b)*c, a*(b*c) "
                "built by CompositeAdjactor over operands of the classes Graph, DynamicGraph, index-interval adjactor (IndexImageIterator: identity, "
                "shift, block, empty and overlapping intervals), CoarseFineCellMapping (unstructured and structured 2D), IndexSet<2>, "
                "StructIndexSet<1,1,0>: every operand of the class within the node bounds, every class x every class for pairs, "
                "Graph/interval/StructIndexSet for triples; each expression is iterated through image_begin/image_end and rendered by "
                "Graph(t, e), Graph(t, e1, e2), DynamicGraph(t, e), DynamicGraph(t, e1, e2) for all 8 render types and by "
                "DynamicGraph::compose), result predicted by the spec and compared exactly (as bags where order is not "
                "contractual). V: every undirected graph on <= 4/5 nodes x storage variants x colouring orders x 18 Cuthill-McKee "
                "options (spec/AdjacencyUG.tla) plus seeded random graphs up to 80/200 nodes, real results judged by TLC "
                "(spec/AdjacencyV.tla). non-trivial = at least one adjacency / length >= 2; distinct = distinct (call, input)")
    for c in astat["samples"]:
        chk.sample(c)
    for c in cases[ntlc // 3: ntlc // 3 + 2] + cases[ntlc - 2: ntlc]:
        chk.sample({k: v for k, v in c.items() if k in ("op", "t", "g1", "g2", "exp", "kind", "v", "P", "q", "g", "call", "dp", "ip")})
    hist = {}
    for sg, _, _ in chk.violations:
        k = json.dumps(sg, sort_keys=True)
        hist[k] = hist.get(k, 0) + 1
    if hist:
        chk.extra["violation_signatures"] = sorted(([n, json.loads(k)] for k, n in hist.items()), key=lambda x: -x[0])[:40]
    chk.assumptions = ["colouring and Cuthill-McKee are exercised on symmetric square graphs only (their documented use)",
                       "CompositeAdjactor iterators are stepped by hand with a step bound (and additionally rendered through the constructors)",
                       "CoarseFineCellMapping is instantiated with mock mesh types that provide what it reads (entity / slice counts)",
                       "chains of three operands use the operand classes Graph, index-interval adjactor and StructIndexSet only",
                       "Graph::permute_indices is only called where its assertion (number of indices = permutation size) holds"]


def replay(obj):
    bins = dict(zip((HARNESS, ADJ2, ADJ3), vlib.build([HARNESS, ADJ2, ADJ3], jobs=6)))
    bad = 0
    for v in obj["violations"]:
        rp = v["replay"]
        if not rp or rp.get("kind") != "case":
            continue
        c = rp["case"]
        r, = vlib.run_cases(bins.get(rp.get("harness") or HARNESS, bins[HARNESS]), [c], tmo=20, shards=1)
        print(json.dumps({"case": sig(c, r), "result": r})[:1000])
        if r.get("ok") is not True:
            bad += 1
    return 1 if bad else 0
