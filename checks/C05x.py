"""C05x: extension of C05 (persisted containers and checkpoints read back equal) to the layers the registered check does
not reach: FEAT::Pack (byte images), FEAT::DistFileIO (combined / ordered / sequence / common files, serial build and
1..4 MPI ranks) and Control::CheckpointControl through files.  All logic is in lib/c05x.py (run_ext), so that the
registered check can call it.

  spec/PersistPack.tla                              -> harness/c05x_pack.cpp
  spec/PersistDistFmt.tla, spec/PersistDist.tla     -> harness/c05x_dist.cpp   (std + mpi variant)
  spec/PersistCkptFile.tla (EXTENDS PersistCkpt)    -> harness/c05x_ckpt.cpp   (std + mpi variant)
"""
import json
import vlib
import c05x

LEVEL = "model_checking"


def run(chk):
    n = c05x.run_ext(chk)
    chk.traces = n
    chk.exhaustive = True
    chk.rule = c05x.RULE
    chk.assumptions = list(c05x.ASSUMPTIONS)


def replay(obj):
    """re-run the cases of a violation file (one process per case; MPI cases under mpirun with the recorded rank count)"""
    bad = 0
    for v in obj["violations"]:
        rp = v.get("replay") or {}
        if rp.get("kind") != "case":
            continue
        c = rp["case"]
        variant = "mpi" if c.get("variant") == "mpi" else "std"
        binary, = vlib.build([rp["harness"]], variant=variant, jobs=4)
        import tempfile, shutil
        scratch = tempfile.mkdtemp(prefix="c05x_replay_", dir=vlib.BUILD)
        try:
            res = c05x._replay(binary, [c], c.get("nr", 1), variant, {"C05X_DIR": scratch, "C05X_KEEP": scratch}, shards=1)
        finally:
            shutil.rmtree(scratch, ignore_errors=True)
        print(json.dumps({"case": c05x.sig(c, res[0]), "result": res[0]})[:1200])
        if res[0].get("ok") is not True and not (c05x._is_reject(c) and "FATAL ERROR" in (res[0].get("stderr") or "")):
            bad += 1
    return 1 if bad else 0
