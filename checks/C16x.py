"""C16x: stand-alone run of the C16 extension (boundary / facet assembly, error computers, function-integral jobs, filter
assemblers, remaining common operators); all logic is in lib/c16x.py so that checks/C16.py can call c16x.run_ext(chk) as well."""
import json, os
import vlib, c16x

LEVEL = "model_checking"


def run(chk):
    c16x.run_ext(chk)


def replay(obj):
    """re-execute the cases of a replay file; rc 1 if one still fails"""
    bad = 0
    seen = set()
    for v in obj["violations"]:
        rp = v.get("replay") or {}
        c = rp.get("case")
        if not c or c.get("id") in seen:
            continue
        seen.add(c.get("id"))
        b = "c16x_info" if c["kind"] == "info" else ("c16x_" if c["kind"] in ("sel", "trace") else "c16x_d") + c16x.SHAPES[(c["mesh"]["shape"], c["mesh"]["dim"])]
        binary, = vlib.build([b])
        r = vlib.run_cases(binary, [c], tmo=120, shards=1)[0]
        print(json.dumps({"case": c.get("id"), "result": r})[:800])
        if r.get("ok") is not True:
            bad += 1
    return 1 if bad else 0
