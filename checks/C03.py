"""C03: matrix algebra operations equal their dense definitions (spec/MatAlg.tla, harness/c03_matalg.cpp)"""
import os, json
import vlib

LEVEL = "model_checking"
INVS = "RepsValid PatternKept ExactDomain CompleteIsFull Assoc LumpIsMatVec DMulLaws Emit"


def cfg_text(fmt, grp, m, k, n, maxrow=9, bh=1, bw=1, pal=1, arrayless=False, nalpha=2, abfull=False):
    return ("SPECIFICATION Spec\nCONSTANTS Fmt = \"%s\" Group = \"%s\" M0 = %d M1 = %d K0 = %d K1 = %d N0 = %d N1 = %d MaxRow = %d "
            "BH = %d BW = %d Palette = %d ArrayLess = %s NAlpha = %d ABFull = %s\nINVARIANTS %s\nCHECK_DEADLOCK FALSE\n"
            % (fmt, grp, m[0], m[1], k[0], k[1], n[0], n[1], maxrow, bh, bw, pal, "TRUE" if arrayless else "FALSE", nalpha,
               "TRUE" if abfull else "FALSE", INVS))


def C(fmt, grp, m, k, n, **kw):
    return (fmt, grp, m, k, n, kw)


def configs(tier):
    z = (0, 0)
    if tier == "thorough":
        return [
            C("csr", "elem", (0, 3), z, (0, 3), pal=1), C("csr", "elem", (0, 3), z, (0, 3), pal=2),
            C("csr", "elem", (4, 4), z, (3, 3), pal=2, maxrow=2), C("csr", "elem", (0, 3), z, (0, 3), pal=2, arrayless=True),
            C("csr", "elem", (1, 3), z, (1, 3), pal=3), C("csr", "elem", (1, 3), z, (1, 3), pal=4),
            C("bcsr", "elem", (1, 2), z, (1, 2), bh=2, bw=3, pal=3), C("bcsr", "elem", (1, 2), z, (1, 2), bh=3, bw=2, pal=4),
            C("csr", "mm", (0, 1), (0, 1), (0, 1), pal=1), C("csr", "mm", (1, 2), (1, 2), (1, 2), pal=1, arrayless=True),
            C("csr", "mm", (1, 1), (3, 3), (3, 3), pal=1), C("csr", "mm", (1, 1), (2, 2), (3, 3), pal=2, nalpha=3),
            C("csr", "mm", (2, 2), (2, 2), (2, 2), pal=1, nalpha=3), C("csr", "mm", (2, 2), (2, 2), (3, 3), pal=2, maxrow=2),
            C("csr", "mm", (3, 3), (2, 2), (2, 2), pal=1, maxrow=1), C("csr", "mm", (1, 1), (2, 2), (4, 4), pal=1),
            C("csr", "dvm", (1, 2), (2, 2), (2, 2), pal=1, nalpha=3), C("csr", "dvm", (1, 1), (3, 3), (2, 2), pal=2),
            C("csr", "dvm", (1, 2), (1, 2), (1, 2), pal=1, arrayless=True),
            C("csr", "dmm", (1, 1), (2, 2), (2, 2), pal=1, nalpha=3), C("csr", "dmm", (2, 2), (2, 2), (2, 2), pal=2, maxrow=1),
            C("csr", "dmm", (1, 1), (1, 2), (3, 3), pal=2, maxrow=2), C("csr", "dmm", (1, 1), (1, 2), (1, 2), pal=1, arrayless=True),
            C("bcsr", "elem", (0, 3), z, (0, 3), bh=2, bw=2, pal=1), C("bcsr", "elem", (0, 2), z, (0, 3), bh=2, bw=3, pal=2),
            C("bcsr", "elem", (0, 3), z, (0, 2), bh=3, bw=2, pal=1), C("bcsr", "elem", (0, 2), z, (0, 2), bh=2, bw=2, pal=2, arrayless=True),
            C("bcsr", "dmm", (1, 1), (1, 2), (2, 2), bh=2, bw=2, pal=1), C("bcsr", "dmm", (2, 2), (1, 1), (2, 2), bh=2, bw=2, pal=2),
            # DenseMatrix: axpy/scale/norm and the multiply overloads (left factor: all CSR patterns; all 25 (alpha, beta))
            C("csr", "delem", (1, 4), z, (1, 5), pal=1), C("csr", "delem", (1, 4), z, (1, 5), pal=2),
            C("csr", "dmul", (1, 3), (1, 3), (1, 3), pal=1, abfull=True, arrayless=True),
            C("csr", "dmul", (1, 3), (1, 3), (1, 3), pal=2), C("csr", "dmul", (1, 2), (1, 3), (1, 2), pal=2, abfull=True),
            C("csr", "dmul", (4, 4), (3, 3), (2, 2), pal=1, arrayless=True), C("csr", "dmul", (3, 3), (4, 4), (2, 2), pal=1),
            C("csr", "dmul", (2, 2), (2, 2), (4, 5), pal=1, abfull=True), C("csr", "dmul", (5, 5), (2, 2), (1, 1), pal=2, maxrow=1),
        ]
    return [
        C("csr", "elem", (0, 3), z, (0, 3), pal=1), C("csr", "elem", (0, 2), z, (0, 3), pal=2),
        C("csr", "elem", (0, 2), z, (0, 2), pal=2, arrayless=True),
        C("csr", "elem", (1, 2), z, (1, 3), pal=3), C("csr", "elem", (1, 2), z, (1, 3), pal=4),
        C("bcsr", "elem", (1, 2), z, (1, 1), bh=2, bw=3, pal=3), C("bcsr", "elem", (1, 1), z, (1, 2), bh=2, bw=2, pal=4),
        C("csr", "mm", (0, 1), (0, 1), (0, 1), pal=1), C("csr", "mm", (1, 1), (1, 2), (1, 2), pal=1, arrayless=True),
        C("csr", "mm", (1, 1), (2, 2), (3, 3), pal=1), C("csr", "mm", (2, 2), (2, 2), (2, 2), pal=2),
        C("csr", "mm", (1, 1), (3, 3), (2, 2), pal=1),
        C("csr", "dvm", (1, 2), (2, 2), (2, 2), pal=1), C("csr", "dvm", (1, 1), (1, 2), (1, 2), pal=2, arrayless=True),
        C("csr", "dmm", (1, 1), (2, 2), (2, 2), pal=1), C("csr", "dmm", (1, 1), (1, 1), (1, 2), pal=2, arrayless=True),
        C("bcsr", "elem", (0, 2), z, (0, 2), bh=2, bw=2, pal=1), C("bcsr", "elem", (0, 2), z, (0, 2), bh=2, bw=3, pal=2),
        C("bcsr", "elem", (0, 2), z, (0, 2), bh=3, bw=2, pal=1), C("bcsr", "elem", (0, 1), z, (0, 2), bh=2, bw=2, pal=2, arrayless=True),
        C("bcsr", "dmm", (1, 1), (1, 1), (2, 2), bh=2, bw=2, pal=1), C("bcsr", "dmm", (1, 1), (2, 2), (1, 1), bh=2, bw=2, pal=2),
        # DenseMatrix: axpy/scale/norm and the multiply overloads; all shapes 1..3 x 1..3 x 1..3, every CSR pattern of the left factor
        C("csr", "delem", (1, 3), z, (1, 4), pal=1), C("csr", "delem", (1, 2), z, (1, 3), pal=2),
        C("csr", "dmul", (1, 3), (1, 3), (1, 3), pal=1, arrayless=True),
        C("csr", "dmul", (1, 2), (1, 2), (1, 2), pal=2, abfull=True),
    ]


def generate(chk, tier):
    import concurrent.futures as cf
    jobs = []
    cfgs = configs(tier)
    only = os.environ.get("VERIF_C03_ONLY")     # development aid: restrict to some groups, e.g. VERIF_C03_ONLY=dmul,delem
    if only:
        cfgs = [x for x in cfgs if x[1] in only.split(",")]
        chk.extra["restricted_to_groups"] = only
    for q, (fmt, grp, m, k, n, kw) in enumerate(cfgs):
        name = "gen_MatAlg_%d_%d.cfg" % (os.getpid(), q)
        with open(os.path.join(vlib.SPEC, name), "w") as f:
            f.write(cfg_text(fmt, grp, m, k, n, **kw))
        jobs.append((name, "%s %s m%s k%s n%s %s" % (fmt, grp, m, k, n, kw)))
    cases = []
    try:
        with cf.ThreadPoolExecutor(max_workers=min(len(jobs), 6)) as ex:
            futs = [(ex.submit(vlib.tlc, "MatAlg", cfg, timeout=2400, xmx="3g"), nm) for cfg, nm in jobs]
            for f, nm in futs:
                r = f.result()
                chk.add_tlc(r, nm)
                if r.violation:
                    chk.model_violation(r, "MatAlg.tla invariant (%s)" % nm)
                cases.extend(r.printed)
    finally:
        for cfg, _ in jobs:
            try:
                os.remove(os.path.join(vlib.SPEC, cfg))
            except OSError:
                pass
    return cases


def operands(c):
    if c["grp"] == "delem":
        return ["X"] if c["self"] or c["op"] == "norm_frobenius" else ["X", "Y"]
    if c["grp"] == "dmul":
        return ["X", "D", "B"] if c["self"] or c["op"] != "multiply_ddz" else ["X", "D", "B", "Y"]
    if c["grp"] == "elem":
        return ["X"] if c["self"] or c["op"] not in ("axpy", "scale", "scale_rows", "scale_cols") else ["X", "Y"]
    if c["grp"] == "dmm":
        return ["X", "D", "A", "B"]
    return ["X", "D", "B"]


def max_row_entries(j):
    rp = j["rep"]["rp"]
    return max([rp[i + 1] - rp[i] for i in range(len(rp) - 1)] or [0])


def sig(c, r):
    ops = operands(c)
    return {"fmt": c["fmt"], "grp": c["grp"], "op": c["op"], "outcome": r.get("outcome", "mismatch"), "expected": c["outcome"],
            # some operand is an entry-free matrix without arrays (dimension-only constructor) and has rows
            "arrayless_operand": any(c[o]["arrayless"] and c[o]["mb"] > 0 for o in ops),
            "allow": c["allow"], "dirty": c.get("dirty", False),
            "empty_row_in_left_factor": c["grp"] == "dmul" and 0 in [b - a for a, b in zip(c["D"]["rep"]["rp"], c["D"]["rep"]["rp"][1:])],
            "multi_entry_row": max_row_entries(c["X"]) >= 2}


def key(c):
    return json.dumps([c["fmt"], c["grp"], c["pal"], c["op"], c["an"], c["ad"], c.get("bn"), c.get("bd"), c.get("dirty"), c["self"], c["allow"], c["eps"],
                       [(c[o]["mb"], c[o]["nb"], c[o]["bh"], c[o]["bw"], c[o]["rep"], c[o]["arrayless"]) for o in operands(c)]])


def allowed(c):
    return ("abort", "exception") if c["outcome"] == "abort" else ()


def run(chk):
    binary, = vlib.build(["c03_matalg"])
    cases = generate(chk, chk.tier)
    if not cases:
        raise vlib.MachineryError("generator produced no cases")
    res = vlib.run_cases(binary, cases, tmo=20)
    vlib.judge_results(chk, cases, res, sig, allowed_outcomes=allowed, keyf=key, harness="c03_matalg",
                       nontrivial=lambda c: c["X"]["nnz"] > 0)
    chk.traces = len(cases)
    chk.exhaustive = True
    ops = {}
    for c in cases:
        ops[c["op"]] = ops.get(c["op"], 0) + 1
    chk.extra["cases_per_op"] = ops
    chk.extra["product_cases_refusal_required"] = sum(1 for c in cases if c["outcome"] == "abort")
    chk.extra["product_cases_incomplete_allowed"] = sum(1 for c in cases if c["grp"] != "elem" and c["allow"] and c["outcome"] == "value")
    chk.extra["dense_product_cases"] = sum(1 for c in cases if c["grp"] == "dmul")
    chk.extra["dense_product_cases_left_factor_with_empty_row"] = sum(
        1 for c in cases if c["grp"] == "dmul" and 0 in [b - a for a, b in zip(c["D"]["rep"]["rp"], c["D"]["rep"]["rp"][1:])])
    chk.extra["dense_product_cases_beta_not_one"] = sum(1 for c in cases if c["grp"] == "dmul" and (c["bn"], c["bd"]) != (1, 1))
    chk.extra["refusals_observed"] = sum(1 for c, r in zip(cases, res) if c["outcome"] == "abort" and r.get("outcome") in ("abort", "exception"))
    chk.rule = ("every post-state of spec/MatAlg.tla: elem group = all shapes in the bounds x all sparsity patterns x every call "
                "(axpy/scale with alpha in {0,1,-1,2,-1/2,-5/2} and x==this, scale_rows/cols, lump_rows, extract_diag, norms, extrema, "
                "shrink(1..3)); product groups = all pattern triples (quadruples) (X, D, [A,] B) in the bounds x allow_incomplete "
                "in {false,true} x alpha in {1,-2[,-1/2]}, with the outcome (value / must be refused) decided by the specification; "
                "DenseMatrix groups: delem = all shapes x axpy/scale (6 alpha, x==this)/norm_frobenius; dmul = all shapes (m,k,n) in the bounds x "
                "every sparsity pattern of the left factor (CSR overloads: all patterns incl. empty rows and the entry-free matrix "
                "in both states; dense overloads: the full pattern) x the four overloads of multiply onto a result matrix with prior "
                "contents x (alpha, beta) from {0,1,-1,2,-1/2}^2 (all 25 pairs, or 7 covering pairs for the larger shapes) x z==this / "
                "separate z, the plain products additionally with non-finite prior contents of the result; "
                "CSR and DenseMatrix replayed for float/double x uint32/uint64, BCSR 2x2, 2x3, 3x2 for double/uint64 and float/uint32; "
                "non-trivial = X has stored entries; distinct = distinct (format, call, operand arrays)")
    for c in cases[len(cases) // 2: len(cases) // 2 + 2] + cases[-1:]:
        chk.sample({k: (c[k] if k not in ("X", "D", "B", "XP") else {"rep": c[k]["rep"], "mb": c[k]["mb"], "nb": c[k]["nb"]})
                    for k in ("fmt", "grp", "op", "an", "ad", "allow", "X", "D", "B", "outcome", "XP", "den", "vres", "sres")})
    chk.assumptions = ["inputs are restricted to the exact domain (small integers, dyadic alpha; invariant ExactDomain): rounding on general reals is not explored",
                       "norm_frobenius / row_norm2 are judged by |r^2 - N| <= 4 eps N with N the specification's exact sum of squares",
                       "axpy/scale/scale_rows/scale_cols are called with operands of identical layout only (documented precondition)",
                       "max/min(_abs)_element range over the stored entries (a stored zero counts, the zeros outside the pattern do not)",
                       "DenseMatrix operands have non-zero dimensions (XASSERT of the constructor); multiply is called with x, y distinct from the result "
                       "matrix (the kernels write the result while reading x and y), z may be the result matrix",
                       "non-finite prior contents of the result are generated for the plain products this <- x*y only (for alpha*x*y + beta*z "
                       "the term beta*z is part of the documented formula, also for beta = 0)",
                       "the BCSR double product is covered for BCSR x BCSR x BCSR with square 2x2 blocks; the CSR x BCSR x CSR overload is not generated"]


def replay(obj):
    binary, = vlib.build(["c03_matalg"])
    cases = [v["replay"]["case"] for v in obj["violations"] if v["replay"] and v["replay"].get("kind") == "case"]
    res = vlib.run_cases(binary, cases, tmo=20, shards=1)
    bad = 0
    for c, r in zip(cases, res):
        print(json.dumps({"case": sig(c, r), "result": r})[:1000])
        if r.get("ok") is not True and r.get("outcome") not in allowed(c):
            bad += 1
    return 1 if bad else 0
